#!/usr/bin/env python3
import json, glob, sys, jsonschema
ms = json.load(open('/root/.vp/MANIFEST.schema.json')); es = json.load(open('/root/.vp/EVIDENCE.schema.json'))
jsonschema.validate(json.load(open('/verif/MANIFEST.json')), ms)
for p in glob.glob('/verif/evidence/*.json'):
    jsonschema.validate(json.load(open(p)), es)
print('valid')
