use vstd::prelude::*;
verus! {

// --- stub iterator adapter with closure specs (A-ITER) ---
pub struct SeqIter<T> { pub items: Vec<T> }
pub struct Mapped<T, F> { pub items: Vec<T>, pub f: F }

pub open spec fn seq_sum(s: Seq<u128>) -> int decreases s.len() {
    if s.len() == 0 { 0 } else { seq_sum(s.drop_last()) + s.last() as int }
}

impl<T> SeqIter<T> {
    #[verifier::external_body]
    pub fn map<F: Fn(&T) -> u128>(self, f: F) -> (r: Mapped<T, F>)
        ensures r.items@ == self.items@, r.f == f
    { unimplemented!() }
}
impl<T, F: Fn(&T) -> u128> Mapped<T, F> {
    #[verifier::external_body]
    pub fn sum(self) -> (r: u128)
        requires forall|i: int| 0 <= i < self.items@.len() ==> call_requires(self.f, (&self.items@[i],)),
        ensures exists|rs: Seq<u128>| rs.len() == self.items@.len()
            && (forall|i: int| 0 <= i < rs.len() ==> call_ensures(self.f, (&self.items@[i],), #[trigger] rs[i]))
            && r as int == seq_sum(rs)
    { unimplemented!() }
}

pub struct Stakes { pub w: u128 }
impl Stakes {
    pub fn votes(&self, k: u64) -> (r: u128) ensures r == (if k == 7 { self.w } else { 0 }) { if k == 7 { self.w } else { 0 } }
}

fn present(st: &Stakes, keys: SeqIter<u64>) -> (r: u128)
    requires keys.items@.len() == 1, keys.items@[0] == 7,
    ensures r == st.w
{
    let present_votes: u128 = keys
        .map(|k: &u64| -> (r: u128) ensures r == (if *k == 7 { st.w } else { 0 }) { st.votes(*k) })
        .sum();
    proof {
        let rs = choose|rs: Seq<u128>| rs.len() == 1 && present_votes as int == seq_sum(rs) && rs[0] == st.w;
        assert(seq_sum(rs) == seq_sum(rs.drop_last()) + rs.last() as int);
        assert(rs.drop_last().len() == 0);
    }
    present_votes
}

fn uses_assert(x: u64) requires x > 3 { assert!(x >= 2); }
fn uses_assert_bad(x: u64) { assert!(x >= 2); }
}
fn main() {}
