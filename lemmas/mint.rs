// C15/C16 spec functions (hand-written from the property statements)
/// C15 request selection (genuine requests only: right kind, unspent outputs, canonical pool name, non-zero amounts)
pub open spec fn pool_live(p: PoolState) -> bool { p.lefts > 0 && p.rights > 0 }
pub open spec fn is_swap_req<C: ContentAddrStore>(s: UnsealedState<C>, tx: Transaction) -> bool {
    &&& tx.kind == TxKind::Swap && tx.outputs@.len() > 0 && s.coins@.coins.contains_key(cid(tx, 0))
    &&& spec_req_key(tx.data@) is Some && s.pools@.contains_key(spec_req_key(tx.data@)->Some_0) && pool_live(s.pools@[spec_req_key(tx.data@)->Some_0])
    &&& (tx.outputs@[0].denom == spec_req_key(tx.data@)->Some_0.left || tx.outputs@[0].denom == spec_req_key(tx.data@)->Some_0.right)
    &&& tx.outputs@[0].value.0 > 0
}
pub open spec fn is_deposit_req<C: ContentAddrStore>(s: UnsealedState<C>, tx: Transaction) -> bool {
    &&& tx.kind == TxKind::LiqDeposit && tx.outputs@.len() >= 2 && s.coins@.coins.contains_key(cid(tx, 0)) && s.coins@.coins.contains_key(cid(tx, 1))
    &&& spec_req_key(tx.data@) is Some && tx.outputs@[0].value.0 > 0 && tx.outputs@[1].value.0 > 0
    &&& tx.outputs@[0].denom == spec_req_key(tx.data@)->Some_0.left && tx.outputs@[1].denom == spec_req_key(tx.data@)->Some_0.right
}
pub open spec fn is_withdraw_req<C: ContentAddrStore>(s: UnsealedState<C>, tx: Transaction) -> bool {
    &&& tx.kind == TxKind::LiqWithdraw && tx.outputs@.len() == 1 && s.coins@.coins.contains_key(cid(tx, 0))
    &&& spec_req_key(tx.data@) is Some && s.pools@.contains_key(spec_req_key(tx.data@)->Some_0) && tx.outputs@[0].value.0 > 0
    &&& tx.outputs@[0].denom == spec_liq_denom(spec_req_key(tx.data@)->Some_0)
}
/// the selected requests are exactly the block's transactions satisfying the predicate (in the set's iteration order)
pub open spec fn selected(txs: Map<TxHash, Transaction>, res: Seq<Transaction>, p: spec_fn(Transaction) -> bool) -> bool {
    exists|ks: Seq<TxHash>| #[trigger] is_enum(txs, ks) && res == Seq::new(ks.len(), |i: int| txs[ks[i]]).filter(p)
}
pub open spec fn spec_multiply_frac(x: int, n: int, d: int) -> int { sat128((x * n) / d) }
/// equal fractions have equal floors of any non-negative multiple: floor(x*n1/d1) == floor(x*n2/d2) when n1/d1 == n2/d2
pub proof fn lemma_floor_frac_eq(x: int, n1: int, d1: int, n2: int, d2: int)
    requires x >= 0, n1 >= 0, n2 >= 0, d1 > 0, d2 > 0, n1 * d2 == n2 * d1
    ensures (x * n1) / d1 == (x * n2) / d2
{
    let a = x * n1; let c = x * n2;
    assert(a * d2 == c * d1) by (nonlinear_arith) requires a == x * n1, c == x * n2, n1 * d2 == n2 * d1;
    assert(a >= 0) by (nonlinear_arith) requires a == x * n1, x >= 0, n1 >= 0;
    assert(c >= 0) by (nonlinear_arith) requires c == x * n2, x >= 0, n2 >= 0;
    let q = a / d1;
    vstd::arithmetic::div_mod::lemma_fundamental_div_mod(a, d1);
    vstd::arithmetic::div_mod::lemma_mod_bound(a, d1);
    let r1 = a % d1;
    assert(a == d1 * q + r1 && 0 <= r1 < d1);
    // c*d1 == a*d2 == (d1*q + r1)*d2  =>  d1*(c - q*d2) == r1*d2, with 0 <= r1*d2 < d1*d2  =>  0 <= c - q*d2 < d2
    let r2 = c - q * d2;
    assert(d1 * r2 == r1 * d2) by (nonlinear_arith) requires a * d2 == c * d1, a == d1 * q + r1, r2 == c - q * d2;
    assert(0 <= r2 < d2) by (nonlinear_arith) requires d1 * r2 == r1 * d2, 0 <= r1 < d1, d1 > 0, d2 > 0;
    vstd::arithmetic::div_mod::lemma_fundamental_div_mod_converse(c, d2, q, r2);
}
