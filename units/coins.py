from spec import *
from _contracts import *

S = "src/state/coins.rs"
UNIT = Unit(
    name="coins", uses="group_raw_axioms",
    prelude=["core.rs", "raw.rs"],
    lemmas=["coinsview.rs", "coins_raw.rs"],
    items=[
        Raw("""#[verifier::external_body] pub exec const COIN_COUNT_STR_AS_BYTES: &'static [u8] ensures COIN_COUNT_STR_AS_BYTES@ == spec_coin_count_str() { "coin_count".as_bytes() }
#[verifier::external_body] pub exec const EMPTY_STR_AS_BYTES: &'static [u8] ensures EMPTY_STR_AS_BYTES@ == Seq::<u8>::empty() { "".as_bytes() }"""),
        TypeItem(S, "struct", "CoinMapping", subst=[("inner:", "pub inner:")]),
        Fn(S, "coin_count", impl="CoinMapping", home="C20", implicit_props=("C09", "C20"), **cm_coin_count(),
           injects=[Inject(("after_let", "v"), "proof { assert(v@ == self.inner@[k_count(covhash)]); }")]),
        Fn(S, "insert_coin_count", impl="CoinMapping", home="C20", implicit_props=("C09", "C20"), **cm_insert_coin_count(),
           injects=[Inject(("after_let", "count_key"), "proof { assert(count_key.0@ == k_count(covhash)); }"),
                    Inject("end", "proof { assert(self@.coins =~= old(self)@.coins); assert(self@.counts =~= (if count == 0 { old(self)@.counts.remove(covhash) } else { old(self)@.counts.insert(covhash, count as nat) })); }")]),
        Fn(S, "get_coin", impl="CoinMapping", home="C02", implicit_props=("C09", "C02"), **cm_get_coin(),
           injects=[Inject(("after_let", "bts"), "proof { assert(bts@ == self.inner@[k_coin(id)]); }")]),
        Fn(S, "insert_coin", impl="CoinMapping", home="C20", implicit_props=("C09", "C20", "C02"), **cm_insert_coin(),
           injects=[Inject("entry", "let ghost id0 = id; proof { axiom_tree_fits(&self.inner); if tip_906 { lemma_coins_of_finite(self@.coins, data.coin_data.covhash); } }"),
                    Inject(("after_let", "previous_count"), "proof { assert(self@.counts =~= old(self)@.counts); assert(count_of(old(self)@.counts, data.coin_data.covhash) == cnt(old(self)@.coins, data.coin_data.covhash)); }"),
                    Inject("end", """proof {
                        let v0 = old(self)@; let id = id0; let v2 = view_insert(v0, id, data, tip_906);
                        assert(self@.coins =~= v2.coins);
                        assert(self@.counts =~= v2.counts);
                        if tip_906 && (v0.coins.contains_key(id) ==> v0.coins[id].coin_data.covhash == data.coin_data.covhash) { lemma_counts_ok_insert(v0, id, data); }
                    }""")]),
        Fn(S, "remove_coin", impl="CoinMapping", home="C20", implicit_props=("C09", "C20", "C02"), **cm_remove_coin(),
           injects=[Inject("entry", "let ghost id0 = id; proof { axiom_tree_fits(&self.inner); if tip_906 && self@.coins.contains_key(id) { lemma_cnt_remove(self@.coins, id, self@.coins[id].coin_data.covhash); } }"),
                    Inject("end", """proof {
                        let v0 = old(self)@; let id = id0; let v2 = view_remove(v0, id, tip_906);
                        assert(self@.coins =~= v2.coins);
                        assert(self@.counts =~= v2.counts);
                        if tip_906 { lemma_counts_ok_remove(v0, id); }
                    }""")]),
        Fn(S, "root_hash", impl="CoinMapping", home="C07", implicit_props=("C09",),
           ensures=[C("root", "res == HashVal(novasmt::root_of(self.inner@))", "C07")]),
        Fn(S, "inner", impl="CoinMapping", home="C20", implicit_props=("C09",), ensures=[C("is", "*res == self.inner", "C20")]),
        Fn(S, "new", impl="CoinMapping", home="C07", implicit_props=("C09",), ensures=[C("wraps", "res.inner == inner", "C07", "C08"),
                    C("empty", "novasmt::root_of(inner@)@ == Seq::new(32, |i: int| 0u8) ==> res@.coins == IMap::<CoinID, CoinDataHeight>::empty() && res@.counts == IMap::<Address, nat>::empty() && res.wf()", "C07", "C20")],
           injects=[Inject("entry", """proof { if novasmt::root_of(inner@)@ == Seq::new(32, |i: int| 0u8) { novasmt::axiom_zero_root(inner@);
               assert(raw_view(inner@).coins =~= IMap::<CoinID, CoinDataHeight>::empty()); assert(raw_view(inner@).counts =~= IMap::<Address, nat>::empty()); assert(raw_wf(inner@)); } }""")]),
        Fn("src/state.rs", "apply_tip_906_for_next_state", impl="SealedState", wrap="impl<C: ContentAddrStore> CoinMapping<C>", home="C20", implicit_props=("C09", "C20"),
           sig_subst=[("next_state: &mut UnsealedState<C>", "coins: &mut CoinMapping<C>")],
           rewrites=[("FIELDPARAM", "next_state", "coins"), ("R8",)],
           **st_tip906_transition(proj=True),
           injects=[Inject(("after_let", "old_tree"), "let ghost raw0 = coins.inner@; let ghost c0 = coins@.coins; proof { lemma_only_coins(raw0); }"),
                    Inject(("after_let", "count"), """let __es = old_tree.iter(); let ghost es = __es@;
                        proof { assert forall|i: int| 0 <= i < es.len() implies is_coin_key((#[trigger] es[i]).0@) by { assert(raw0[es[i].0@].len() > 0); }
                            lemma_seen_finite(es, 0); assert(seen_upto(es, 0) =~= IMap::<CoinID, CoinDataHeight>::empty());
                            assert forall|a: Address| cnt(seen_upto(es, 0), a) == 0 by { assert(coins_of(seen_upto(es, 0), a) =~= ISet::<CoinID>::empty()); } }"""),
                    Inject("end", """proof { lemma_seen_finite(es, es.len() as int);
                        assert(seen_upto(es, es.len() as int) =~= c0) by {
                            broadcast use axiom_coin_key_inj;
                            assert forall|id: CoinID| seen_upto(es, es.len() as int).contains_key(id) <==> c0.contains_key(id) by {
                                if c0.contains_key(id) { assert(raw0[k_coin(id)].len() > 0); let i = choose|i: int| 0 <= i < es.len() && (#[trigger] es[i]).0@ == k_coin(id); }
                                if seen_upto(es, es.len() as int).contains_key(id) { let i = choose|i: int| 0 <= i < es.len() && (#[trigger] es[i]).0@ == k_coin(id); assert(raw0[es[i].0@] == es[i].1@); } }
                            assert forall|id: CoinID| c0.contains_key(id) implies seen_upto(es, es.len() as int)[id] == c0[id] by {
                                let i = choose|i: int| 0 <= i < es.len() && (#[trigger] es[i]).0@ == k_coin(id); assert(raw0[es[i].0@] == es[i].1@); } } }""")],
           body_subst=[("for (_, v) in old_tree.iter() {", "for (_k, v) in __es {")],
           loops=[Loop(0, binder="it",
               body_entry="""let ghost i = it.index@ as int; let ghost vpre = coins@;
                   proof { assert(it.seq()[i] == (_k, v)); assert(es[i].1@ == v@); assert(raw0[es[i].0@] == v@); assert(is_coin_key(es[i].0@));
                       let id = id_of_key(es[i].0@); assert(k_coin(id) == es[i].0@); assert(de_cdh(v@) is Some);
                       lemma_seen_step(es, i); lemma_seen_finite(es, i);
                       lemma_coins_of_finite(seen_upto(es, i), de_cdh(v@).unwrap().coin_data.covhash); }""",
               body_exit="""proof { let d = de_cdh(v@).unwrap(); let a0 = d.coin_data.covhash; let id = id_of_key(es[i].0@);
                   assert forall|a: Address| #[trigger] count_of(coins@.counts, a) == cnt(seen_upto(es, i + 1), a) by { lemma_cnt_insert_fresh(seen_upto(es, i), id, d, a); assert(count_of(vpre.counts, a) == cnt(seen_upto(es, i), a)); } }""",
               invariants=[
                   C("ctx", "it.seq() == es && es.len() <= usize::MAX && es.len() == count + it.index@ && raw_wf(raw0) && raw_only_coins(raw0) && c0 == raw_view(raw0).coins && old_tree@ == raw0", "C20"),
                   C("entries", """(forall|q: int| 0 <= q < es.len() ==> (#[trigger] es[q]).1@.len() > 0 && raw0[es[q].0@] == es[q].1@ && is_coin_key(es[q].0@))
                         && (forall|q: int, j: int| 0 <= q < j < es.len() ==> (#[trigger] es[q]).0@ != (#[trigger] es[j]).0@)
                         && (forall|k: Seq<u8>| raw0[k].len() > 0 ==> exists|q: int| 0 <= q < es.len() && (#[trigger] es[q]).0@ == k)""", "C20"),
                   C("coins_same", "coins.wf() && coins@.coins == c0", "C20"),
                   C("hist", "(forall|a: Address| #[trigger] count_of(coins@.counts, a) == cnt(seen_upto(es, it.index@ as int), a)) && (forall|a: Address| #[trigger] coins@.counts.contains_key(a) ==> coins@.counts[a] >= 1)", "C20"),
               ])]),
    ],
)
