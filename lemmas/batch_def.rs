// Batch application (C02/C03/C06): what load_relevant_coins / extract_input_coins / apply_tx_batch_impl compute (hand-written)
pub open spec fn spec_get_coin(v: CoinsView, id: CoinID) -> Option<CoinDataHeight> { if v.coins.contains_key(id) { Some(v.coins[id]) } else { None::<CoinDataHeight> } }
/// the lookup cache holds, for every input of the batch, what the coin mapping says about it
pub open spec fn cache_ok(txx: Seq<Transaction>, v: CoinsView, cache: Map<CoinID, Option<CoinDataHeight>>) -> bool {
    forall|t: int, k: int| 0 <= t < txx.len() && 0 <= k < txx[t].inputs@.len() ==> cache.contains_key(#[trigger] txx[t].inputs@[k]) && cache[txx[t].inputs@[k]] == spec_get_coin(v, txx[t].inputs@[k])
}
/// inputs of txx[0..j) and the first n inputs of txx[j] that are not created inside the batch (`sofar`) have been loaded from the state
pub open spec fn loaded(txx: Seq<Transaction>, j: int, n: int, sofar: Map<CoinID, CoinDataHeight>, c0: IMap<CoinID, CoinDataHeight>, acc: Map<CoinID, CoinDataHeight>) -> bool {
    &&& forall|id: CoinID| #[trigger] acc.contains_key(id) <==> ((spent_by(txx, j, id) || (0 <= j < txx.len() && spent_upto(txx[j], n, id))) && !sofar.contains_key(id))
    &&& forall|id: CoinID| #[trigger] acc.contains_key(id) ==> c0.contains_key(id) && acc[id] == c0[id]
}
pub proof fn lemma_map_of_pairs_functional<K, V>(s: Seq<(K, V)>, a: int, f: spec_fn(K) -> V)
    requires 0 <= a < s.len(), forall|i: int| 0 <= i < s.len() ==> (#[trigger] s[i]).1 == f(s[i].0)
    ensures map_of_pairs(s).contains_key(s[a].0), map_of_pairs(s)[s[a].0] == f(s[a].0)
    decreases s.len()
{
    if a < s.len() - 1 {
        lemma_map_of_pairs_functional(s.drop_last(), a, f);
        assert(s.drop_last()[a] == s[a]);
    }
}
pub proof fn lemma_loaded_step(txx: Seq<Transaction>, j: int, n: int, sofar: Map<CoinID, CoinDataHeight>, c0: IMap<CoinID, CoinDataHeight>, acc: Map<CoinID, CoinDataHeight>, acc2: Map<CoinID, CoinDataHeight>)
    requires loaded(txx, j, n, sofar, c0, acc), 0 <= j < txx.len(), 0 <= n < txx[j].inputs@.len(),
             acc2 == (if sofar.contains_key(txx[j].inputs@[n]) { acc } else { acc.insert(txx[j].inputs@[n], c0[txx[j].inputs@[n]]) }),
             !sofar.contains_key(txx[j].inputs@[n]) ==> c0.contains_key(txx[j].inputs@[n])
    ensures loaded(txx, j, n + 1, sofar, c0, acc2)
{
    assert forall|x: CoinID| true implies (#[trigger] spent_upto(txx[j], n + 1, x) <==> (spent_upto(txx[j], n, x) || x == txx[j].inputs@[n])) by { lemma_spent_upto_step(txx[j], n, x); }
}
pub proof fn lemma_loaded_next_tx(txx: Seq<Transaction>, j: int, sofar: Map<CoinID, CoinDataHeight>, c0: IMap<CoinID, CoinDataHeight>, acc: Map<CoinID, CoinDataHeight>)
    requires loaded(txx, j, txx[j].inputs@.len() as int, sofar, c0, acc), 0 <= j < txx.len()
    ensures loaded(txx, j + 1, 0, sofar, c0, acc)
{
    assert forall|x: CoinID| true implies (#[trigger] spent_by(txx, j + 1, x) <==> (spent_by(txx, j, x) || spent_upto(txx[j], txx[j].inputs@.len() as int, x))) by { lemma_spent_by_next(txx, j, x); }
    assert forall|x: CoinID| 0 <= j + 1 < txx.len() implies !#[trigger] spent_upto(txx[j + 1], 0, x) by {}
}

/// value of an output (named so that loop invariants can mention it)
pub open spec fn out_val() -> spec_fn(CoinData) -> int { |o: CoinData| o.value.0 as int }
// ---- the relevant-coins map (load_relevant_coins)
/// `id` is an output of one of txx[0..j) that is not sent to the destruction address
pub open spec fn kept_in(txx: Seq<Transaction>, j: int, id: CoinID) -> bool {
    exists|t: int, i: int| 0 <= t < j && 0 <= i < txx[t].outputs@.len() && id == #[trigger] cid(txx[t], i) && txx[t].outputs@[i].covhash != spec_coin_destroy()
}
/// accumulator after the creation pass over txx[0..j): exactly the kept outputs, each with its declared data at this height
pub open spec fn created_so_far(txx: Seq<Transaction>, j: int, height: BlockHeight, acc: Map<CoinID, CoinDataHeight>) -> bool {
    &&& forall|id: CoinID| #[trigger] acc.contains_key(id) <==> kept_in(txx, j, id)
    &&& forall|t: int, i: int| 0 <= t < j && 0 <= i < txx[t].outputs@.len() && txx[t].outputs@[i].covhash != spec_coin_destroy() ==> is_created_cdh(txx[t], i, height, acc[#[trigger] cid(txx[t], i)])
}
/// C02: the coins a batch may touch: every kept output of the batch (with the declared value, covenant hash, additional data,
/// this block's height, and its denomination) and every input; an input that the batch does not create is unspent in the prior state
pub open spec fn rel_of<C: ContentAddrStore>(s: UnsealedState<C>, txx: Seq<Transaction>, rel: Map<CoinID, CoinDataHeight>) -> bool {
    &&& forall|id: CoinID| #[trigger] rel.contains_key(id) <==> (kept_in(txx, txx.len() as int, id) || spent_by(txx, txx.len() as int, id))
    &&& forall|t: int, i: int| 0 <= t < txx.len() && 0 <= i < txx[t].outputs@.len() && txx[t].outputs@[i].covhash != spec_coin_destroy() ==> is_created_cdh(txx[t], i, s.height, rel[#[trigger] cid(txx[t], i)])
    &&& forall|id: CoinID| #[trigger] rel.contains_key(id) && !kept_in(txx, txx.len() as int, id) ==> s.coins@.coins.contains_key(id) && rel[id] == s.coins@.coins[id]
}
/// C02: no coin is consumed twice: the inputs of txx[0..j) and the first n inputs of txx[j] are pairwise different coins
pub open spec fn pos_before(t: int, k: int, j: int, n: int) -> bool { t < j || (t == j && k < n) }
pub open spec fn distinct_before(txx: Seq<Transaction>, j: int, n: int) -> bool {
    forall|t: int, k: int, t2: int, k2: int| 0 <= t < txx.len() && 0 <= k < txx[t].inputs@.len() && 0 <= t2 < txx.len() && 0 <= k2 < txx[t2].inputs@.len()
        && pos_before(t, k, j, n) && pos_before(t2, k2, j, n) && (t != t2 || k != k2) ==> #[trigger] txx[t].inputs@[k] != #[trigger] txx[t2].inputs@[k2]
}
pub open spec fn inputs_distinct(txx: Seq<Transaction>) -> bool { distinct_before(txx, txx.len() as int, 0) }
pub open spec fn visited(txx: Seq<Transaction>, j: int, n: int, id: CoinID) -> bool { spent_by(txx, j, id) || (0 <= j < txx.len() && spent_upto(txx[j], n, id)) }

pub proof fn lemma_kept_next(txx: Seq<Transaction>, j: int, id: CoinID)
    requires 0 <= j < txx.len()
    ensures kept_in(txx, j + 1, id) <==> (kept_in(txx, j, id) || exists|i: int| 0 <= i < txx[j].outputs@.len() && id == #[trigger] cid(txx[j], i) && txx[j].outputs@[i].covhash != spec_coin_destroy())
{
    if kept_in(txx, j + 1, id) {
        let (t, i) = choose|t: int, i: int| 0 <= t < j + 1 && 0 <= i < txx[t].outputs@.len() && id == #[trigger] cid(txx[t], i) && txx[t].outputs@[i].covhash != spec_coin_destroy();
        if t < j { assert(kept_in(txx, j, id)); }
    }
    if kept_in(txx, j, id) {
        let (t, i) = choose|t: int, i: int| 0 <= t < j && 0 <= i < txx[t].outputs@.len() && id == #[trigger] cid(txx[t], i) && txx[t].outputs@[i].covhash != spec_coin_destroy();
        assert(0 <= t < j + 1 && id == cid(txx[t], i));
    }
    if exists|i: int| 0 <= i < txx[j].outputs@.len() && id == #[trigger] cid(txx[j], i) && txx[j].outputs@[i].covhash != spec_coin_destroy() {
        let i = choose|i: int| 0 <= i < txx[j].outputs@.len() && id == #[trigger] cid(txx[j], i) && txx[j].outputs@[i].covhash != spec_coin_destroy();
        assert(0 <= j < j + 1 && id == cid(txx[j], i));
    }
}
/// adding the outputs of txx[j] (right-biased) to the accumulator
pub proof fn lemma_created_next(txx: Seq<Transaction>, j: int, height: BlockHeight, acc: Map<CoinID, CoinDataHeight>, add: Map<CoinID, CoinDataHeight>)
    requires created_so_far(txx, j, height, acc), 0 <= j < txx.len(), created_map(txx[j], height, add),
             forall|q: int| 0 <= q <= j ==> (#[trigger] txx[q]).outputs@.len() <= 255
    ensures created_so_far(txx, j + 1, height, acc.union_prefer_right(add))
{
    broadcast use axiom_txhash_inj;
    let acc2 = acc.union_prefer_right(add);
    assert forall|id: CoinID| #[trigger] acc2.contains_key(id) <==> kept_in(txx, j + 1, id) by { lemma_kept_next(txx, j, id); }
    assert forall|t: int, i: int| 0 <= t < j + 1 && 0 <= i < txx[t].outputs@.len() && txx[t].outputs@[i].covhash != spec_coin_destroy()
        implies is_created_cdh(txx[t], i, height, acc2[#[trigger] cid(txx[t], i)]) by {
        let id = cid(txx[t], i);
        if add.contains_key(id) {
            let i2 = choose|i2: int| 0 <= i2 < txx[j].outputs@.len() && id == #[trigger] cid(txx[j], i2) && txx[j].outputs@[i2].covhash != spec_coin_destroy();
            assert(spec_txhash(txx[t]) == spec_txhash(txx[j]));
            assert(i as u8 == i2 as u8); assert(i == i2);
            assert(is_created_cdh(txx[j], i2, height, add[cid(txx[j], i2)]));
        } else {
            if t == j { assert(0 <= i < txx[j].outputs@.len() && id == cid(txx[j], i)); assert(false); }
        }
    }
}
/// the final accumulator (created coins, then the inputs loaded from the state) is the relevant-coins map
pub proof fn lemma_rel_of<C: ContentAddrStore>(s: UnsealedState<C>, txx: Seq<Transaction>, acc: Map<CoinID, CoinDataHeight>, inp: Map<CoinID, CoinDataHeight>)
    requires created_so_far(txx, txx.len() as int, s.height, acc),
             forall|id: CoinID| #[trigger] inp.contains_key(id) <==> (spent_by(txx, txx.len() as int, id) && !acc.contains_key(id)),
             forall|id: CoinID| #[trigger] inp.contains_key(id) ==> s.coins@.coins.contains_key(id) && inp[id] == s.coins@.coins[id]
    ensures rel_of(s, txx, acc.union_prefer_right(inp))
{
    let rel = acc.union_prefer_right(inp);
    assert forall|t: int, i: int| 0 <= t < txx.len() && 0 <= i < txx[t].outputs@.len() && txx[t].outputs@[i].covhash != spec_coin_destroy()
        implies is_created_cdh(txx[t], i, s.height, rel[#[trigger] cid(txx[t], i)]) by {
        assert(kept_in(txx, txx.len() as int, cid(txx[t], i)));
        assert(acc.contains_key(cid(txx[t], i)));
    }
}
/// one more distinct input
pub proof fn lemma_distinct_step(txx: Seq<Transaction>, j: int, n: int)
    requires distinct_before(txx, j, n), 0 <= j < txx.len(), 0 <= n < txx[j].inputs@.len(), !visited(txx, j, n, txx[j].inputs@[n])
    ensures distinct_before(txx, j, n + 1)
{
    let x = txx[j].inputs@[n];
    assert forall|t: int, k: int, t2: int, k2: int| 0 <= t < txx.len() && 0 <= k < txx[t].inputs@.len() && 0 <= t2 < txx.len() && 0 <= k2 < txx[t2].inputs@.len()
        && pos_before(t, k, j, n + 1) && pos_before(t2, k2, j, n + 1) && (t != t2 || k != k2) implies #[trigger] txx[t].inputs@[k] != #[trigger] txx[t2].inputs@[k2] by {
        if t == j && k == n {
            if t2 < j { if txx[t2].inputs@[k2] == x { assert(spent_by(txx, j, x)); } } else { if txx[t2].inputs@[k2] == x { assert(spent_upto(txx[j], n, x)); } }
        } else if t2 == j && k2 == n {
            if t < j { if txx[t].inputs@[k] == x { assert(spent_by(txx, j, x)); } } else { if txx[t].inputs@[k] == x { assert(spent_upto(txx[j], n, x)); } }
        }
    }
}
pub proof fn lemma_distinct_next_tx(txx: Seq<Transaction>, j: int)
    requires distinct_before(txx, j, txx[j].inputs@.len() as int), 0 <= j < txx.len()
    ensures distinct_before(txx, j + 1, 0)
{
}
pub proof fn lemma_visited_step(txx: Seq<Transaction>, j: int, n: int)
    requires 0 <= j < txx.len(), 0 <= n < txx[j].inputs@.len()
    ensures forall|x: CoinID| #[trigger] visited(txx, j, n + 1, x) <==> (visited(txx, j, n, x) || x == txx[j].inputs@[n])
{
    assert forall|x: CoinID| #[trigger] visited(txx, j, n + 1, x) <==> (visited(txx, j, n, x) || x == txx[j].inputs@[n]) by { lemma_spent_upto_step(txx[j], n, x); }
}
pub proof fn lemma_visited_next_tx(txx: Seq<Transaction>, j: int)
    requires 0 <= j < txx.len()
    ensures forall|x: CoinID| #[trigger] visited(txx, j + 1, 0, x) <==> visited(txx, j, txx[j].inputs@.len() as int, x)
{
    assert forall|x: CoinID| #[trigger] visited(txx, j + 1, 0, x) <==> visited(txx, j, txx[j].inputs@.len() as int, x) by {
        lemma_spent_by_next(txx, j, x);
        if 0 <= j + 1 < txx.len() { assert(!spent_upto(txx[j + 1], 0, x)); }
    }
}

// ---- apply_tx_batch_impl: envelope, acceptance conditions, result (C02, C03, C04, C05, C13, C18, C19)
/// per-transaction envelopes the callee contracts need (u128 range of the input values; the domain of the known finding F-C09-melpow).
/// The domains of F-C04-index / F-C04-cache are NOT assumed here any more: what depends on them is stated under c04_domain in tx_checked
pub open spec fn tx_env<C: ContentAddrStore>(s: UnsealedState<C>, rel: Map<CoinID, CoinDataHeight>, tx: Transaction) -> bool {
    &&& fsum(tx.inputs@, in_value(rel)) <= u128::MAX
    &&& dosc_pow_total(s, rel, tx)
}
pub open spec fn batch_env<C: ContentAddrStore>(s: UnsealedState<C>, txx: Seq<Transaction>) -> bool {
    &&& s.fee_pool.0 + s.tips.0 + fsum(txx, fee_of()) <= u128::MAX - 0x1_0000_0000_0000_0000_0000_0000_0000u128
    &&& dosc_reward_fits(s)
    &&& forall|rel: Map<CoinID, CoinDataHeight>, t: int| #[trigger] rel_of(s, txx, rel) && 0 <= t < txx.len() ==> #[trigger] tx_env(s, rel, txx[t])
}
/// what check_tx_validity establishes for one transaction (its postconditions): inputs available, unlocked, approved, balanced
pub open spec fn tx_checked<C: ContentAddrStore>(s: UnsealedState<C>, rel: Map<CoinID, CoinDataHeight>, ns: Map<TxHash, StakeDoc>, tx: Transaction) -> bool {
    &&& forall|i: int| 0 <= i < tx.inputs@.len() ==> rel.contains_key(#[trigger] tx.inputs@[i])
    &&& !lock_legacy(s.network, s.height) ==> forall|i: int| 0 <= i < tx.inputs@.len() ==> !ns.contains_key((#[trigger] tx.inputs@[i]).txhash) && !s.stakes@.contains_key(tx.inputs@[i].txhash)
    &&& forall|i: int| 0 <= i < tx.inputs@.len() && first_occ(tx, rel, i) ==> script_approves(spec_covenants_map(tx), rel[tx.inputs@[i]].coin_data.covhash, tx, #[trigger] env_of(tx, rel, i, spec_last_header(s)))
    &&& c04_domain(tx, rel) ==> forall|i: int| 0 <= i < tx.inputs@.len() ==> script_approves(spec_covenants_map(tx), rel[tx.inputs@[i]].coin_data.covhash, tx, #[trigger] env_of(tx, rel, i, spec_last_header(s)))
    &&& balanced(tx.kind, in_sums(tx.inputs@, rel, tx.inputs@.len() as int), spec_total_outputs(tx))
}
/// what every accepted transaction of the batch satisfies: well-formed, checked as above, and paying at least its minimum fee
pub open spec fn tx_accepted<C: ContentAddrStore>(s: UnsealedState<C>, rel: Map<CoinID, CoinDataHeight>, ns: Map<TxHash, StakeDoc>, tx: Transaction) -> bool {
    spec_well_formed(tx) && outputs_fit(tx) && tx_checked(s, rel, ns, tx) && tx.fee.0 >= spec_base_fee(tx, s.fee_multiplier)
}
/// preconditions of validate_and_get_doscmint_speed (state invariants + envelopes)
pub open spec fn dosc_pre<C: ContentAddrStore>(s: UnsealedState<C>, rel: Map<CoinID, CoinDataHeight>, tx: Transaction) -> bool {
    &&& tx.inputs@.len() > 0 && history_ok(s) && outputs_fit(tx) && dosc_pow_total(s, rel, tx) && dosc_reward_fits(s)
    &&& forall|id: CoinID| rel.contains_key(id) ==> (#[trigger] rel[id]).height.0 <= s.height.0
}
pub open spec fn umax(a: u128, b: u128) -> u128 { if a >= b { a } else { b } }
pub open spec fn batch_core_with<C: ContentAddrStore>(s: UnsealedState<C>, txx: Seq<Transaction>, r: UnsealedState<C>, rel: Map<CoinID, CoinDataHeight>, ns: Map<TxHash, StakeDoc>) -> bool {
    // C02 acceptance: inputs unspent in the prior state or created in the batch, nothing consumed twice, every transaction fine
    &&& rel_of(s, txx, rel) && inputs_distinct(txx)
    &&& forall|t: int| 0 <= t < txx.len() ==> tx_accepted(s, rel, ns, #[trigger] txx[t])
    // C02 result: exact coin set
    &&& batch_coins(s.coins@.coins, r.coins@.coins, txx, rel)
    &&& forall|h: TxHash| #[trigger] r.transactions@.contains_key(h) <==> (s.transactions@.contains_key(h) || in_batch(txx, txx.len() as int, h))
    // C05
    &&& r.fee_pool.0 as int == s.fee_pool.0 + fsum(txx, min_fee_of(s.fee_multiplier)) && r.tips.0 as int == s.tips.0 + fsum(txx, tip_of(s.fee_multiplier))
    // C19
    &&& forall|q: int| 0 <= q < txx.len() && (#[trigger] txx[q]).kind == TxKind::Faucet ==> !(s.network == NetID::Mainnet && !is_grandfathered(spec_txhash(txx[q])))
            && (!is_grandfathered(spec_txhash(txx[q])) ==> !s.coins@.coins.contains_key(spec_marker(spec_txhash(txx[q]))))
    // C13: stakes registered by the batch
    &&& (!stake_legacy(s.network, s.height) ==> stakes_of(txx, txx.len() as int, (s.height.0 / 200000) as u64, ns)) && (stake_legacy(s.network, s.height) ==> ns == Map::<TxHash, StakeDoc>::empty())
    &&& r.stakes@ == s.stakes@.union_prefer_right(ns)
    // C18: every ERG mint validated; the recorded speed is the maximum of the old one and the validated ones
    &&& r.dosc_speed >= s.dosc_speed
    &&& forall|t: int| 0 <= t < txx.len() && (#[trigger] txx[t]).kind == TxKind::DoscMint ==> dosc_le(s, rel, txx[t], r.dosc_speed)
    &&& r.dosc_speed == s.dosc_speed || exists|t: int| 0 <= t < txx.len() && (#[trigger] txx[t]).kind == TxKind::DoscMint && doscmint_ok(s, rel, txx[t], r.dosc_speed)
}
pub open spec fn batch_core<C: ContentAddrStore>(s: UnsealedState<C>, txx: Seq<Transaction>, r: UnsealedState<C>) -> bool {
    exists|rel: Map<CoinID, CoinDataHeight>, ns: Map<TxHash, StakeDoc>| #[trigger] batch_core_with(s, txx, r, rel, ns)
}

// ---- proof steps of apply_tx_batch_impl
/// the relevant-coins map records, for every output id of the batch, the covenant hash that output declares (CNS needs it)
pub proof fn lemma_rel_consistent<C: ContentAddrStore>(s: UnsealedState<C>, txx: Seq<Transaction>, rel: Map<CoinID, CoinDataHeight>)
    requires rel_of(s, txx, rel), origin_ok(s.coins@.coins), forall|q: int| 0 <= q < txx.len() ==> (#[trigger] txx[q]).outputs@.len() <= 255
    ensures rel_consistent(txx, rel)
{
    assert forall|t: int, i: int| 0 <= t < txx.len() && 0 <= i < txx[t].outputs@.len() && rel.contains_key(#[trigger] cid(txx[t], i))
        implies rel[cid(txx[t], i)].coin_data.covhash == txx[t].outputs@[i].covhash by {
        let id = cid(txx[t], i);
        if txx[t].outputs@[i].covhash != spec_coin_destroy() { assert(is_created_cdh(txx[t], i, s.height, rel[id])); }
        else if kept_in(txx, txx.len() as int, id) {
            broadcast use axiom_txhash_inj;
            let (t2, i2) = choose|t2: int, i2: int| 0 <= t2 < txx.len() && 0 <= i2 < txx[t2].outputs@.len() && id == #[trigger] cid(txx[t2], i2) && txx[t2].outputs@[i2].covhash != spec_coin_destroy();
            assert(spec_txhash(txx[t2]) == spec_txhash(txx[t])); assert(i2 as u8 == i as u8); assert(i2 == i);
            assert(false);
        } else { assert(s.coins@.coins.contains_key(id) && rel[id] == s.coins@.coins[id]); }
    }
}
pub proof fn lemma_rel_heights<C: ContentAddrStore>(s: UnsealedState<C>, txx: Seq<Transaction>, rel: Map<CoinID, CoinDataHeight>)
    requires rel_of(s, txx, rel), coin_heights_ok(s)
    ensures forall|id: CoinID| rel.contains_key(id) ==> (#[trigger] rel[id]).height.0 <= s.height.0
{
    assert forall|id: CoinID| rel.contains_key(id) implies (#[trigger] rel[id]).height.0 <= s.height.0 by {
        if kept_in(txx, txx.len() as int, id) {
            let (t, i) = choose|t: int, i: int| 0 <= t < txx.len() && 0 <= i < txx[t].outputs@.len() && id == #[trigger] cid(txx[t], i) && txx[t].outputs@[i].covhash != spec_coin_destroy();
            assert(is_created_cdh(txx[t], i, s.height, rel[cid(txx[t], i)]));
        } else { assert(s.coins@.coins.contains_key(id)); }
    }
}
/// a balanced non-faucet transaction has at least one input (its outputs always include a MEL entry for the fee)
pub proof fn lemma_balanced_has_input(tx: Transaction, rel: Map<CoinID, CoinDataHeight>)
    requires tx.kind != TxKind::Faucet, outputs_fit(tx), balanced(tx.kind, in_sums(tx.inputs@, rel, tx.inputs@.len() as int), spec_total_outputs(tx))
    ensures tx.inputs@.len() > 0
{
    broadcast use axiom_total_outputs;
    assert(spec_total_outputs(tx).contains_key(Denom::Mel));
    if tx.inputs@.len() == 0 { assert(!in_sums(tx.inputs@, rel, 0).contains_key(Denom::Mel)); }
}
/// the running maximum of the validated speeds
pub open spec fn dosc_step<C: ContentAddrStore>(s: UnsealedState<C>, rel: Map<CoinID, CoinDataHeight>, tx: Transaction, a: u128, b: u128) -> bool {
    exists|sp: u128| #[trigger] doscmint_ok(s, rel, tx, sp) && b == umax(a, sp)
}
pub open spec fn dosc_le<C: ContentAddrStore>(s: UnsealedState<C>, rel: Map<CoinID, CoinDataHeight>, tx: Transaction, bound: u128) -> bool {
    exists|sp: u128| #[trigger] doscmint_ok(s, rel, tx, sp) && sp <= bound
}
pub proof fn lemma_dosc_fold<C: ContentAddrStore>(s: UnsealedState<C>, rel: Map<CoinID, CoinDataHeight>, items: Seq<&Transaction>, accs: Seq<u128>, k: int)
    requires 0 <= k <= items.len(), accs.len() == items.len() + 1,
             forall|i: int| 0 <= i < items.len() ==> dosc_step(s, rel, *(#[trigger] items[i]), accs[i], accs[i + 1])
    ensures accs[k] >= accs[0],
            forall|i: int| 0 <= i < k ==> dosc_le(s, rel, *(#[trigger] items[i]), accs[k]),
            accs[k] == accs[0] || exists|i: int| 0 <= i < k && doscmint_ok(s, rel, *(#[trigger] items[i]), accs[k])
    decreases k
{
    if k > 0 {
        lemma_dosc_fold(s, rel, items, accs, k - 1);
        assert(dosc_step(s, rel, *items[k - 1], accs[k - 1], accs[k - 1 + 1]));
        let spk = choose|sp: u128| #[trigger] doscmint_ok(s, rel, *items[k - 1], sp) && accs[k] == umax(accs[k - 1], sp);
        assert forall|i: int| 0 <= i < k implies dosc_le(s, rel, *(#[trigger] items[i]), accs[k]) by {
            if i < k - 1 { assert(dosc_le(s, rel, *items[i], accs[k - 1])); let sp = choose|sp: u128| #[trigger] doscmint_ok(s, rel, *items[i], sp) && sp <= accs[k - 1]; assert(doscmint_ok(s, rel, *items[i], sp) && sp <= accs[k]); }
            else { assert(doscmint_ok(s, rel, *items[i], spk) && spk <= accs[k]); }
        }
        if accs[k] != accs[0] {
            if accs[k] == accs[k - 1] { let i = choose|i: int| 0 <= i < k - 1 && doscmint_ok(s, rel, *(#[trigger] items[i]), accs[k - 1]); assert(0 <= i < k && doscmint_ok(s, rel, *items[i], accs[k])); }
            else { assert(accs[k] == spk); assert(0 <= k - 1 < k && doscmint_ok(s, rel, *items[k - 1], accs[k])); }
        }
    }
}
// by-reference spellings for closure contracts (a closure whose contract mentions `*this` would move the state out of its environment)
pub open spec fn tx_env_r<C: ContentAddrStore>(s: &UnsealedState<C>, rel: Map<CoinID, CoinDataHeight>, tx: Transaction) -> bool { tx_env(*s, rel, tx) }
pub open spec fn tx_checked_r<C: ContentAddrStore>(s: &UnsealedState<C>, rel: Map<CoinID, CoinDataHeight>, ns: Map<TxHash, StakeDoc>, tx: Transaction) -> bool { tx_checked(*s, rel, ns, tx) }
pub open spec fn dosc_pre_r<C: ContentAddrStore>(s: &UnsealedState<C>, rel: Map<CoinID, CoinDataHeight>, tx: Transaction) -> bool { dosc_pre(*s, rel, tx) }
pub open spec fn dosc_step_r<C: ContentAddrStore>(s: &UnsealedState<C>, rel: Map<CoinID, CoinDataHeight>, tx: Transaction, a: u128, b: u128) -> bool { dosc_step(*s, rel, tx, a, b) }

// ---- C03: acceptance and result of a batch do not depend on the order in which its transactions are presented
pub proof fn lemma_kept_perm(t1: Seq<Transaction>, t2: Seq<Transaction>, id: CoinID)
    requires forall|x: Transaction| t1.contains(x) ==> t2.contains(x)
    ensures kept_in(t1, t1.len() as int, id) ==> kept_in(t2, t2.len() as int, id)
{
    if kept_in(t1, t1.len() as int, id) {
        let (t, i) = choose|t: int, i: int| 0 <= t < t1.len() && 0 <= i < t1[t].outputs@.len() && id == #[trigger] cid(t1[t], i) && t1[t].outputs@[i].covhash != spec_coin_destroy();
        assert(t1.contains(t1[t]));
        let u = choose|u: int| 0 <= u < t2.len() && t2[u] == t1[t];
        assert(0 <= u < t2.len() && 0 <= i < t2[u].outputs@.len() && id == cid(t2[u], i));
    }
}
pub proof fn lemma_stakes_perm(t1: Seq<Transaction>, t2: Seq<Transaction>, epoch: u64, m: Map<TxHash, StakeDoc>)
    requires forall|x: Transaction| t1.contains(x) <==> t2.contains(x), stakes_of(t1, t1.len() as int, epoch, m)
    ensures stakes_of(t2, t2.len() as int, epoch, m)
{
    assert forall|h: TxHash| #[trigger] m.contains_key(h) implies exists|q: int| 0 <= q < t2.len() && h == spec_txhash(#[trigger] t2[q]) && stake_reg(t2[q], epoch) == Some(m[h]) by {
        let q = choose|q: int| 0 <= q < t1.len() && h == spec_txhash(#[trigger] t1[q]) && stake_reg(t1[q], epoch) == Some(m[h]);
        assert(t1.contains(t1[q])); let u = choose|u: int| 0 <= u < t2.len() && t2[u] == t1[q];
        assert(0 <= u < t2.len() && h == spec_txhash(t2[u]) && stake_reg(t2[u], epoch) == Some(m[h]));
    }
    assert forall|q: int| 0 <= q < t2.len() && stake_reg(#[trigger] t2[q], epoch) is Some implies m.contains_key(spec_txhash(t2[q])) by {
        assert(t2.contains(t2[q])); let u = choose|u: int| 0 <= u < t1.len() && t1[u] == t2[q]; assert(stake_reg(t1[u], epoch) is Some);
    }
}
/// no coin consumed twice is a property of the set of transactions (for duplicate-free orderings)
pub proof fn lemma_distinct_perm(t1: Seq<Transaction>, t2: Seq<Transaction>)
    requires t1.no_duplicates(), t2.no_duplicates(), forall|x: Transaction| t1.contains(x) <==> t2.contains(x), inputs_distinct(t1)
    ensures inputs_distinct(t2)
{
    assert forall|t: int, k: int, u: int, k2: int| 0 <= t < t2.len() && 0 <= k < t2[t].inputs@.len() && 0 <= u < t2.len() && 0 <= k2 < t2[u].inputs@.len()
        && pos_before(t, k, t2.len() as int, 0) && pos_before(u, k2, t2.len() as int, 0) && (t != u || k != k2) implies #[trigger] t2[t].inputs@[k] != #[trigger] t2[u].inputs@[k2] by {
        assert(t2.contains(t2[t]) && t2.contains(t2[u]));
        let a = choose|a: int| 0 <= a < t1.len() && t1[a] == t2[t]; let b = choose|b: int| 0 <= b < t1.len() && t1[b] == t2[u];
        if t != u { assert(t2[t] != t2[u]); assert(a != b); }
        assert(pos_before(a, k, t1.len() as int, 0) && pos_before(b, k2, t1.len() as int, 0));
        assert(t1[a].inputs@[k] != t1[b].inputs@[k2]);
    }
}
// lemma_batch_core_perm is proved in three parts (acceptance / resulting state / faucets, stakes, DOSC speed): as one query it sat at 94 % of the
// resource limit and an unrelated addition to the prelude pushed it over (a proof must not be that brittle)
proof fn lemma_bcp_accept<C: ContentAddrStore>(s: UnsealedState<C>, t1: Seq<Transaction>, t2: Seq<Transaction>, r: UnsealedState<C>, rel: Map<CoinID, CoinDataHeight>, ns: Map<TxHash, StakeDoc>)
    requires t1.no_duplicates(), t2.no_duplicates(), forall|x: Transaction| t1.contains(x) <==> t2.contains(x), batch_core_with(s, t1, r, rel, ns)
    ensures rel_of(s, t2, rel), inputs_distinct(t2), forall|t: int| 0 <= t < t2.len() ==> tx_accepted(s, rel, ns, #[trigger] t2[t])
{
    let n1 = t1.len() as int; let n2 = t2.len() as int;
    assert forall|id: CoinID| (kept_in(t1, n1, id) <==> kept_in(t2, n2, id)) && (spent_by(t1, n1, id) <==> spent_by(t2, n2, id)) by {
        lemma_kept_perm(t1, t2, id); lemma_kept_perm(t2, t1, id); lemma_created_perm(t1, t2, rel, id); lemma_created_perm(t2, t1, rel, id);
    }
    assert(rel_of(s, t2, rel)) by {
        assert forall|t: int, i: int| 0 <= t < t2.len() && 0 <= i < t2[t].outputs@.len() && t2[t].outputs@[i].covhash != spec_coin_destroy() implies is_created_cdh(t2[t], i, s.height, rel[#[trigger] cid(t2[t], i)]) by {
            assert(t2.contains(t2[t])); let a = choose|a: int| 0 <= a < t1.len() && t1[a] == t2[t]; assert(is_created_cdh(t1[a], i, s.height, rel[cid(t1[a], i)]));
        }
    }
    lemma_distinct_perm(t1, t2);
    assert forall|t: int| 0 <= t < t2.len() implies tx_accepted(s, rel, ns, #[trigger] t2[t]) by { assert(t2.contains(t2[t])); let a = choose|a: int| 0 <= a < t1.len() && t1[a] == t2[t]; assert(tx_accepted(s, rel, ns, t1[a])); }
}
proof fn lemma_bcp_result<C: ContentAddrStore>(s: UnsealedState<C>, t1: Seq<Transaction>, t2: Seq<Transaction>, r: UnsealedState<C>, rel: Map<CoinID, CoinDataHeight>, ns: Map<TxHash, StakeDoc>)
    requires t1.no_duplicates(), t2.no_duplicates(), forall|x: Transaction| t1.contains(x) <==> t2.contains(x), batch_core_with(s, t1, r, rel, ns)
    ensures batch_coins(s.coins@.coins, r.coins@.coins, t2, rel),
            forall|h: TxHash| #[trigger] r.transactions@.contains_key(h) <==> (s.transactions@.contains_key(h) || in_batch(t2, t2.len() as int, h)),
            r.fee_pool.0 as int == s.fee_pool.0 + fsum(t2, min_fee_of(s.fee_multiplier)) && r.tips.0 as int == s.tips.0 + fsum(t2, tip_of(s.fee_multiplier))
{
    let n1 = t1.len() as int; let n2 = t2.len() as int;
    assert forall|id: CoinID| (kept_in(t1, n1, id) <==> kept_in(t2, n2, id)) && (spent_by(t1, n1, id) <==> spent_by(t2, n2, id)) by {
        lemma_kept_perm(t1, t2, id); lemma_kept_perm(t2, t1, id); lemma_created_perm(t1, t2, rel, id); lemma_created_perm(t2, t1, rel, id);
    }
    lemma_batch_perm(s.coins@.coins, r.coins@.coins, t1, t2, rel);
    assert forall|h: TxHash| in_batch(t1, n1, h) <==> in_batch(t2, n2, h) by {
        if in_batch(t1, n1, h) { let q = choose|q: int| 0 <= q < n1 && h == spec_txhash(#[trigger] t1[q]); assert(t1.contains(t1[q])); let u = choose|u: int| 0 <= u < t2.len() && t2[u] == t1[q]; assert(0 <= u < n2 && h == spec_txhash(t2[u])); }
        if in_batch(t2, n2, h) { let q = choose|q: int| 0 <= q < n2 && h == spec_txhash(#[trigger] t2[q]); assert(t2.contains(t2[q])); let u = choose|u: int| 0 <= u < t1.len() && t1[u] == t2[q]; assert(0 <= u < n1 && h == spec_txhash(t1[u])); }
    }
    lemma_fees_perm(t1, t2, s.fee_multiplier);
}
proof fn lemma_bcp_rest<C: ContentAddrStore>(s: UnsealedState<C>, t1: Seq<Transaction>, t2: Seq<Transaction>, r: UnsealedState<C>, rel: Map<CoinID, CoinDataHeight>, ns: Map<TxHash, StakeDoc>)
    requires t1.no_duplicates(), t2.no_duplicates(), forall|x: Transaction| t1.contains(x) <==> t2.contains(x), batch_core_with(s, t1, r, rel, ns)
    ensures forall|q: int| 0 <= q < t2.len() && (#[trigger] t2[q]).kind == TxKind::Faucet ==> !(s.network == NetID::Mainnet && !is_grandfathered(spec_txhash(t2[q])))
                && (!is_grandfathered(spec_txhash(t2[q])) ==> !s.coins@.coins.contains_key(spec_marker(spec_txhash(t2[q])))),
            (!stake_legacy(s.network, s.height) ==> stakes_of(t2, t2.len() as int, (s.height.0 / 200000) as u64, ns)) && (stake_legacy(s.network, s.height) ==> ns == Map::<TxHash, StakeDoc>::empty()),
            forall|t: int| 0 <= t < t2.len() && (#[trigger] t2[t]).kind == TxKind::DoscMint ==> dosc_le(s, rel, t2[t], r.dosc_speed),
            r.dosc_speed == s.dosc_speed || exists|t: int| 0 <= t < t2.len() && (#[trigger] t2[t]).kind == TxKind::DoscMint && doscmint_ok(s, rel, t2[t], r.dosc_speed)
{
    assert forall|q: int| 0 <= q < t2.len() && (#[trigger] t2[q]).kind == TxKind::Faucet implies !(s.network == NetID::Mainnet && !is_grandfathered(spec_txhash(t2[q])))
            && (!is_grandfathered(spec_txhash(t2[q])) ==> !s.coins@.coins.contains_key(spec_marker(spec_txhash(t2[q])))) by {
        assert(t2.contains(t2[q])); let a = choose|a: int| 0 <= a < t1.len() && t1[a] == t2[q]; assert(t1[a].kind == TxKind::Faucet);
    }
    if !stake_legacy(s.network, s.height) { lemma_stakes_perm(t1, t2, (s.height.0 / 200000) as u64, ns); }
    assert forall|t: int| 0 <= t < t2.len() && (#[trigger] t2[t]).kind == TxKind::DoscMint implies dosc_le(s, rel, t2[t], r.dosc_speed) by {
        assert(t2.contains(t2[t])); let a = choose|a: int| 0 <= a < t1.len() && t1[a] == t2[t]; assert(t1[a].kind == TxKind::DoscMint);
    }
    if r.dosc_speed != s.dosc_speed {
        let t = choose|t: int| 0 <= t < t1.len() && (#[trigger] t1[t]).kind == TxKind::DoscMint && doscmint_ok(s, rel, t1[t], r.dosc_speed);
        assert(t1.contains(t1[t])); let u = choose|u: int| 0 <= u < t2.len() && t2[u] == t1[t];
        assert(0 <= u < t2.len() && t2[u].kind == TxKind::DoscMint && doscmint_ok(s, rel, t2[u], r.dosc_speed));
    }
}
//@LEMMA C03 lemma_batch_core_perm what apply_tx_batch_impl guarantees for a batch (acceptance conditions and resulting state) holds for every duplicate-free ordering of the same transactions
pub proof fn lemma_batch_core_perm<C: ContentAddrStore>(s: UnsealedState<C>, t1: Seq<Transaction>, t2: Seq<Transaction>, r: UnsealedState<C>, rel: Map<CoinID, CoinDataHeight>, ns: Map<TxHash, StakeDoc>)
    requires t1.no_duplicates(), t2.no_duplicates(), forall|x: Transaction| t1.contains(x) <==> t2.contains(x), batch_core_with(s, t1, r, rel, ns)
    ensures batch_core_with(s, t2, r, rel, ns)
{
    lemma_bcp_accept(s, t1, t2, r, rel, ns); lemma_bcp_result(s, t1, t2, r, rel, ns); lemma_bcp_rest(s, t1, t2, r, rel, ns);
}

// ---- C19 over more than one batch: a faucet's dedup marker, once written, survives every later batch, and a batch cannot contain a
// faucet whose marker is present.  (Sealing and opening the next block write coins only under transaction-output ids and the
// proposer-reward id and remove only output ids -- the frame argument of DESIGN 4/C19; not mechanised here.)
/// A-HASH: no byte string hashes to the all-zero value (the same idealisation as axiom_txhash_nonzero, for covenant hashes)
pub broadcast axiom fn axiom_h1_nonzero(b: Seq<u8>) ensures #[trigger] h1(b) != spec_zero_hash();
pub proof fn lemma_marker_not_kept(txx: Seq<Transaction>, h: TxHash)
    ensures !kept_in(txx, txx.len() as int, spec_marker(h)), forall|rel: Map<CoinID, CoinDataHeight>| !created_by(txx, txx.len() as int, rel, spec_marker(h))
{
    broadcast use axiom_marker_not_output;
    assert forall|t: int, i: int| 0 <= t < txx.len() implies #[trigger] cid(txx[t], i) != spec_marker(h) by { assert(spec_txhash(txx[t]).0 != spec_fdp_hash(h)); }
}
//@LEMMA C19 lemma_marker_kept a dedup marker present before an accepted batch is present after it: no transaction can spend it (nothing hashes to its all-zero covenant hash)
pub proof fn lemma_marker_kept<C: ContentAddrStore>(s: UnsealedState<C>, txx: Seq<Transaction>, r: UnsealedState<C>, rel: Map<CoinID, CoinDataHeight>, ns: Map<TxHash, StakeDoc>, h: TxHash)
    requires batch_core_with(s, txx, r, rel, ns), markers_ok(s.coins@.coins), s.coins@.coins.contains_key(spec_marker(h))
    ensures r.coins@.coins.contains_key(spec_marker(h)), r.coins@.coins[spec_marker(h)] == s.coins@.coins[spec_marker(h)]
{
    broadcast use axiom_covenants_map, axiom_h1_nonzero;
    let m = spec_marker(h); let c0 = s.coins@.coins; let n = txx.len() as int;
    lemma_marker_not_kept(txx, h);
    if spent_by(txx, n, m) {
        let (t, k) = choose|t: int, k: int| 0 <= t < n && 0 <= k < txx[t].inputs@.len() && m == #[trigger] txx[t].inputs@[k];
        assert(tx_accepted(s, rel, ns, txx[t]));
        assert(rel.contains_key(m) && rel[m] == c0[m]);
        let a = rel[m].coin_data.covhash;
        lemma_first_occ_exists(txx[t], rel, k);
        let k0 = choose|k0: int| 0 <= k0 <= k && rel[txx[t].inputs@[k0]].coin_data.covhash == rel[txx[t].inputs@[k]].coin_data.covhash && #[trigger] first_occ(txx[t], rel, k0);
        assert(script_approves(spec_covenants_map(txx[t]), a, txx[t], env_of(txx[t], rel, k0, spec_last_header(s))));
        assert(spec_covenants_map(txx[t]).contains_key(a));
        assert(false);
    }
    assert(!created_by(txx, n, rel, m));
    assert(batch_coins(c0, r.coins@.coins, txx, rel));
    assert(r.coins@.coins.contains_key(m));
    assert(r.coins@.coins[m] == c0[m]);
}
//@LEMMA C19 lemma_faucet_once an accepted faucet leaves its marker, and no accepted batch contains a (non-grandfathered) faucet whose marker is already there: at most once per chain, given marker persistence
pub proof fn lemma_faucet_once<C: ContentAddrStore>(s: UnsealedState<C>, txx: Seq<Transaction>, r: UnsealedState<C>, rel: Map<CoinID, CoinDataHeight>, ns: Map<TxHash, StakeDoc>, q: int)
    requires batch_core_with(s, txx, r, rel, ns), 0 <= q < txx.len(), txx[q].kind == TxKind::Faucet, !is_grandfathered(spec_txhash(txx[q]))
    ensures !s.coins@.coins.contains_key(spec_marker(spec_txhash(txx[q]))), r.coins@.coins.contains_key(spec_marker(spec_txhash(txx[q]))), s.network != NetID::Mainnet
{
    let h = spec_txhash(txx[q]); let m = spec_marker(h); let n = txx.len() as int;
    lemma_marker_not_kept(txx, h);
    assert(marker_of(txx, n, m));
    if spent_by(txx, n, m) { assert(rel.contains_key(m)); assert(s.coins@.coins.contains_key(m)); }
}
//@LEMMA C19 lemma_markers_batch an accepted batch keeps every dedup marker and the marker invariant
pub proof fn lemma_markers_batch<C: ContentAddrStore>(s: UnsealedState<C>, txx: Seq<Transaction>, r: UnsealedState<C>, rel: Map<CoinID, CoinDataHeight>, ns: Map<TxHash, StakeDoc>)
    requires batch_core_with(s, txx, r, rel, ns), markers_ok(s.coins@.coins)
    ensures markers_kept(s.coins@.coins, r.coins@.coins), markers_ok(r.coins@.coins)
{
    let c0 = s.coins@.coins; let c1 = r.coins@.coins; let n = txx.len() as int;
    assert forall|h: TxHash| c0.contains_key(#[trigger] spec_marker(h)) implies c1.contains_key(spec_marker(h)) && c1[spec_marker(h)] == c0[spec_marker(h)] by { lemma_marker_kept(s, txx, r, rel, ns, h); }
    assert forall|h: TxHash| c1.contains_key(#[trigger] spec_marker(h)) implies c1[spec_marker(h)].coin_data.covhash == Address(spec_zero_hash()) by {
        lemma_marker_not_kept(txx, h);
        assert(batch_coins(c0, c1, txx, rel));
        assert(!created_by(txx, n, rel, spec_marker(h)));
    }
}
/// the chain invariants (no coin younger than the block, reward pseudo-coins only of earlier heights, history below the height with
/// non-zero speeds) survive an accepted batch: new coins carry this height, markers height 0, and neither is a reward pseudo-id
pub proof fn lemma_batch_hinv<C: ContentAddrStore>(s: UnsealedState<C>, txx: Seq<Transaction>, r: UnsealedState<C>, rel: Map<CoinID, CoinDataHeight>, ns: Map<TxHash, StakeDoc>)
    requires batch_core_with(s, txx, r, rel, ns), hinv(s), r.history == s.history, r.height == s.height
    ensures hinv(r)
{
    let c0 = s.coins@.coins; let c1 = r.coins@.coins; let n = txx.len() as int;
    lemma_rel_heights(s, txx, rel);
    assert forall|id: CoinID| c1.contains_key(id) implies (#[trigger] c1[id]).height.0 <= r.height.0 by {
        if created_by(txx, n, rel, id) { assert(c1[id] == rel[id]); } else if c0.contains_key(id) { assert(c1[id] == c0[id]); } else { assert(is_marker_cdh(c1[id])); }
    }
    assert forall|hh: BlockHeight| c1.contains_key(#[trigger] spec_proposer_reward(hh)) implies hh.0 < r.height.0 as int by {
        let id = spec_proposer_reward(hh);
        broadcast use axiom_reward_not_output, axiom_reward_not_marker;
        if created_by(txx, n, rel, id) { let (t, i) = choose|t: int, i: int| 0 <= t < n && 0 <= i < txx[t].outputs@.len() && id == #[trigger] cid(txx[t], i) && rel.contains_key(id); assert(spec_reward_hash(hh) != spec_txhash(txx[t]).0); assert(false); }
        if marker_of(txx, n, id) { let t = choose|t: int| 0 <= t < n && (#[trigger] txx[t]).kind == TxKind::Faucet && !is_grandfathered(spec_txhash(txx[t])) && id == spec_marker(spec_txhash(txx[t])); assert(spec_reward_hash(hh) != spec_fdp_hash(spec_txhash(txx[t]))); assert(false); }
        assert(c0.contains_key(id));
    }
}
