#!/bin/sh
# usage: seedtest.sh <dir-with patch.diff> <prop...>  -- apply a seeded change to /repo, run the checks, undo it straight afterwards
d=$1; shift
git -C /repo status --short | grep -q . && { echo "REPO DIRTY"; exit 3; }
git -C /repo apply $d/patch.diff || { echo "PATCH DOES NOT APPLY"; exit 3; }
for p in "$@"; do /verif/check $p 2>&1 | grep -E "^(VIOLATION|OK|UNDECIDED|KNOWN)" | cut -c1-260; done
git -C /repo checkout -- .
