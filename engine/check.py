#!/usr/bin/env python3
"""./check <Cnn> [--tier quick|thorough]   |   ./check --replay <file>   |   ./check --census
exit 0: every obligation tagged with the property discharged (known findings printed as KNOWN-FINDING)
exit 1: VIOLATION property=<id> replay=<path> [no-failing-input-found]
exit 2: undecided (extraction failed, lost anchor, rlimit, vacuity guard, toolchain) -- never an alarm
"""
import concurrent.futures as cf
import glob
import hashlib
import importlib
import json
import os
import re
import sys
import time
import traceback

HERE = os.path.dirname(os.path.abspath(__file__))
VERIF = os.path.dirname(HERE)
sys.path.insert(0, HERE)
sys.path.insert(0, os.path.join(VERIF, "units"))

import run as R  # noqa: E402
from rsx import Undecided  # noqa: E402
from spec import Fn, Unit, REPO  # noqa: E402

PRELUDE_ASSUMPTIONS = {
    "core.rs": "A-STRUCTS/A-HASH: melstructs 0.3.3 + tmelcrypt types mirrored by hand; hash functions uninterpreted (injective where stated); CoinValue/BlockHeight operators panic-on-overflow as preconditions",
    "codec_io.rs": "A-IO / A-VECEXT: std::io::Read for &[u8] (read_exact), Write for Vec<u8> (write_all), slice::reverse, u8/u16 <-> big/little-endian bytes, ethnum U256::{from_le_bytes, leading_zeros (only: /8 = leading zero bytes)}; a Vec<u8> literal is identified with its contents",
    "std_extra.rs": "std integer methods a refactor may reach for (u128/u64::abs_diff) with their documented meaning",
    "melvm_exec.rs": "A-U256 / A-CATVEC: ethnum::U256 arithmetic, shifts, conversions and catvec::CatVec as the interpreter uses them (plus the neighbouring checked_/overflowing_/wrapping_/saturating_ methods)",
    "melvm_types.rs": "A-U256: ethnum::U256 as an opaque integer below 2^256",
    "raw.rs": "A-SMT / A-HASH / A-SER: novasmt tree as a total map with an injective root, blake3 hashes uninterpreted and collision-free, stdcode injective and decodable",
    "num.rs": "A-NUM: num BigInt / BigRational / Ratio as exact integers and rationals (division by zero is a precondition)",
    "iter.rs": "A-ITER / A-RAYON: std and rayon iterator adapters as eager sequences (sequential semantics; hash-map order arbitrary)",
    "melpow.rs": "A-POW: melpow proof verification as an uninterpreted predicate (its totality is NOT assumed: F-C09-melpow)",
    "melswap.rs": "A-STRUCTS: melstructs PoolKey / PoolState / Denom byte encodings by name (the arithmetic members are proved from the registry source in unit depswap)",
    "state_abs.rs": "abstract faces of repo container types (CoinMapping, SmtMapping, TransactionSet, StakeSet): contracts proved in their own units, assumed elsewhere",
}
SCAN = [("external_body", r"external_body"), ("assume_specification", r"assume_specification"),
        ("uninterp", r"\buninterp\b"), ("axiom", r"\baxiom\b"), ("assume(", r"\bassume\s*\("), ("admit(", r"\badmit\s*\(")]


def load_units():
    units = {}
    for p in sorted(glob.glob(os.path.join(VERIF, "units", "*.py"))):
        modname = os.path.basename(p)[:-3]
        if modname.startswith("_"):
            continue
        mod = importlib.import_module(modname)
        for u in getattr(mod, "UNITS", [getattr(mod, "UNIT", None)]):
            if u is not None:
                units[u.name] = u
    # Derived tags (a property that rests on another property's invariant inherits the clauses stating it):
    #  C07 "the coin root is a function of the coins alone" -- the coin tree also stores the per-address counts, so this holds only while the
    #  counts are a function of the coins, i.e. C20's invariant counts_ok; every clause that states it carries C07 as well (seed C07g: a faucet
    #  marker inserted without counting made two chains with equal coins seal different coins_hash; ./check C07 had not even run unit `apply`).
    #  A loop invariant `<name>_i` is the running form of the postcondition `<name>` of the same function: it inherits that clause's tags (it is the
    #  invariant, not the postcondition, that fails first when the loop body is edited: seed C03i).
    for u in units.values():
        for f in u.fns():
            by_id = {c.cid: c for c in f.clauses() if c.kind == "ensures"}
            for c in f.clauses():
                stem = c.cid[:-2] if c.cid.endswith("_i") else {"sums": "balanced"}.get(c.cid)
                if c.kind == "invariant" and stem in by_id:
                    c.props = tuple(dict.fromkeys(tuple(c.props) + tuple(by_id[stem].props)))
    for u in units.values():
        for f in u.fns():
            for c in f.clauses():
                if "C20" in c.props and "C07" not in c.props and ("counts" in c.text or "state_inv" in c.text):
                    c.props = tuple(c.props) + ("C07",)
    return units


def known_findings():
    p = os.path.join(VERIF, "known_findings.json")
    if not os.path.exists(p):
        return {"findings": [], "fixed": []}
    return json.load(open(p))


def claimed_level(prop):
    """the level MANIFEST.json claims for the property (evidence reports that level only when every obligation is discharged)"""
    try:
        m = json.load(open(os.path.join(VERIF, "MANIFEST.json")))
        for c in m.get("checks", []):
            if c["property_id"] == prop:
                return c["level_claimed"]["category"]
    except (OSError, KeyError, ValueError):
        pass
    return "other"


def slug(s):
    return re.sub(r"[^A-Za-z0-9_.-]+", "_", s)[:120]


def eval_unit(unit, tier):
    """returns dict with obligations (all props) and diagnostics"""
    t0 = time.time()
    out = {"unit": unit.name, "status": "ok", "reasons": [], "obligations": [], "findings": [], "canaries": {},
           "functions": [], "assumed_functions": [], "scan": {}, "smt_ms": 0, "cmds": [], "files": []}
    try:
        base = R.evaluate_base(unit, "base")
    except Undecided as e:
        out["status"] = "undecided"
        out["reasons"].append(f"extraction: {e}")
        return out
    out["cmds"].append(base["res"]["cmd"])
    out["files"].append(base["path"])
    out["verified"] = base["verified"]
    if base["status"] != "ok":
        out["status"] = "undecided"
        out["reasons"] += base["reasons"]
    # thorough tier: the same file under further Z3 seeds (VERIF_SEED when set, else 1 and 2).  A proof that holds only for some
    # seeds is brittle -- an unrelated edit can flip it -- and makes the unit UNDECIDED (exit 2), never a violation.
    if tier == "thorough" and base["status"] == "ok" and not base["errors"]:
        sd = int(os.environ.get("VERIF_SEED", "0") or 0)
        for seed in ([sd] if sd else [1, 2]):
            r2 = R.run_verus(base["text"], f"{unit.name}__seed{seed}", rlimit=unit.rlimit, extra=["--smt-option", f"smt.random_seed={seed}"])
            vr2 = (r2["json"] or {}).get("verification-results", {})
            out["cmds"].append(r2["cmd"])
            if r2["json"] is None or vr2.get("errors"):
                out["status"] = "undecided"
                out["reasons"].append(f"brittle proof: {vr2.get('errors')} error(s) under smt.random_seed={seed} although the default seed verifies")
    # forbidden constructs in hand-written proof text
    lem_text = "".join(open(os.path.join(VERIF, "lemmas", p)).read() for p in unit.lemmas)
    inj_text = ""
    for f in unit.fns():
        for inj in f.injects:
            inj_text += inj.text
        for lp in f.loops:
            inj_text += (lp.body_entry or "") + (lp.body_exit or "")
    for nm, pat in SCAN:
        out["scan"][nm] = len(re.findall(pat, base["text"]))
    if re.search(r"\b(assume|admit)\s*\(", inj_text) or re.search(r"\badmit\s*\(", lem_text) or \
            re.search(r"\bassume\s*\(", lem_text):
        out["status"] = "undecided"
        out["reasons"].append("assume()/admit() in lemmas or injected proof text is forbidden")
    smt = base["smt"]
    out["smt_ms"] = sum(v["ms"] for v in smt.values())
    for m in base["metas"]:
        if m["mode"] in ("type", "pinned"):
            out.setdefault("types", []).append({"key": m["key"], "where": (f"{m['src']}:{m['line']}" if m['src'].startswith("/") else f"/repo/{m['src']}:{m['line']}"), "sha256": m["sha256"], "mode": m["mode"]})
            continue
        (out["functions"] if m["mode"] == "prove" else out["assumed_functions"]).append(
            {"key": m["key"], "where": (f"{m['src']}:{m['line']}" if m['src'].startswith("/") else f"/repo/{m['src']}:{m['line']}"), "sha256": m["sha256"], "rules": m.get("rules", []),
             "mode": m["mode"]})
    for f in unit.fns():
        if f.mode != "prove":
            continue
        pf = base["per_fn"].get(f.key, {"clauses": {}, "safety": [], "resource": [], "other": []})
        resource = bool(pf["resource"])
        for c in f.clauses():
            if c.kind in ("requires", "closure_requires"):
                continue
            cid = f"{f.key}#{c.cid}"
            errs = pf["clauses"].get(cid, [])
            verdict = "failed" if errs else ("undecided" if resource else "discharged")
            out["obligations"].append({"id": f"{unit.name}/{cid}", "unit": unit.name, "fn": f.key, "clause": c.cid,
                                       "kind": c.kind, "text": c.text, "props": list(c.props), "verdict": verdict,
                                       "backend": "verus/z3", "characterisation": c.char,
                                       "detail": [e["rendered"] for e in errs]})
        errs = pf["safety"]
        verdict = "failed" if errs else ("undecided" if resource else "discharged")
        out["obligations"].append({"id": f"{unit.name}/{f.key}#safety", "unit": unit.name, "fn": f.key, "clause": "safety",
                                   "kind": "implicit-safety",
                                   "text": "no arithmetic overflow/underflow, index in bounds, unwrap/expect on Some/Ok, divisor non-zero, callee preconditions, loop/recursion termination",
                                   "props": list(f.implicit_props), "verdict": verdict, "backend": "verus/z3",
                                   "characterisation": False, "detail": [e["rendered"] for e in errs]})
        if f.injects or any(lp.body_entry or lp.body_exit for lp in f.loops):
            errs = pf.get("proof", [])
            allp = sorted({p for c in f.clauses() for p in c.props} | set(f.implicit_props))
            verdict = "failed" if errs else ("undecided" if resource else "discharged")
            out["obligations"].append({"id": f"{unit.name}/{f.key}#proof", "unit": unit.name, "fn": f.key, "clause": "proof",
                                       "kind": "proof-steps",
                                       "text": "the intermediate assertions of the injected proof blocks (the steps the clauses of this function rest on)",
                                       "props": allp, "verdict": verdict, "backend": "verus/z3",
                                       "characterisation": False, "detail": [e["rendered"] for e in errs]})
        if resource:
            out["status"] = "undecided"
            out["reasons"].append(f"resource limit in {f.key}")
    for name, props, desc, lf in R.lemma_obligations(unit):
        errs = base["lemma_fail"].get(name, [])
        out["obligations"].append({"id": f"{unit.name}/lemma:{name}", "unit": unit.name, "fn": f"lemmas/{lf}::{name}", "clause": name,
                                   "kind": "lemma", "text": desc or f"proof fn {name} (hand-written lemma over the contracts)", "props": list(props),
                                   "verdict": "failed" if errs else "discharged", "backend": "verus/z3", "characterisation": False,
                                   "detail": [e["rendered"] for e in errs]})
    # ---- vacuity canaries and known-finding variants (run concurrently)
    jobs = []
    if out["status"] == "ok":
        jobs.append(("canary", "entry"))
        if any(f.loops for f in unit.fns() if f.mode == "prove" and f.canary):
            jobs.append(("canary", "loops"))
    for fd in unit.findings:
        jobs.append(("finding", fd))

    def run_job(job):
        try:
            if job[0] == "canary":
                return job, R.evaluate_base(unit, f"canary_{job[1]}", variant=("canary", job[1])), None
            return job, R.evaluate_base(unit, f"finding_{slug(job[1].fid)}", variant=("finding", job[1])), None
        except Undecided as e:
            return job, None, str(e)

    with cf.ThreadPoolExecutor(max_workers=4) as ex:
        done = list(ex.map(run_job, jobs))
    for job, var, err in done:
        if err is not None:
            out["status"] = "undecided"
            out["reasons"].append(f"{job[0]} variant extraction: {err}")
            continue
        out["cmds"].append(var["res"]["cmd"])
        if job[0] == "canary":
            kind = job[1]
            got = set()
            for e in var["errs"]:
                for t, i in e["regions"]:
                    if t == "CANARY" and e["sev"] == "definite":
                        got.add(i)
            for f in unit.fns():
                if f.mode != "prove" or not f.canary:
                    continue
                want = [f"{f.key}#entry"] if kind == "entry" else [f"{f.key}#loop{lp.index}" for lp in f.loops]
                for w in want:
                    ok = w in got
                    out["canaries"][w] = ok
                    if not ok:
                        out["status"] = "undecided"
                        out["reasons"].append(f"VACUOUS: canary {w} verified (contradictory precondition/invariant/assumption)")
        else:
            fd = job[1]
            pf = var["per_fn"].get(fd.fn_key, {"clauses": {}, "safety": []})
            if fd.expect_clause is None:
                errs = pf["safety"]
            else:
                want = fd.expect_clause if isinstance(fd.expect_clause, (list, tuple)) else [fd.expect_clause]
                errs = []
                for w in want:
                    errs += pf["safety"] if w == "safety" else (pf.get("proof", []) if w == "proof" else pf["clauses"].get(f"{fd.fn_key}#{w}", []))
            out["findings"].append({"id": fd.fid, "props": list(fd.props), "fn": fd.fn_key, "what": fd.what,
                                    "still_fails": bool(errs), "detail": [e["rendered"] for e in errs][:3], "domain": fd.domain_requires})
            # clauses that must hold WITHOUT the finding's envelope (they do not depend on it): an envelope must not shelter other properties
            if fd.must_hold:
                fobj = next((f for f in unit.fns() if f.key == fd.fn_key), None)
                cl = {c.cid: c for c in (fobj.clauses() if fobj else [])}
                res_ = bool(pf.get("resource"))
                for w in fd.must_hold:
                    c = cl.get(w)
                    if c is None:
                        out["status"] = "undecided"; out["reasons"].append(f"must_hold clause {w} of {fd.fid} not found"); continue
                    e2 = pf["clauses"].get(f"{fd.fn_key}#{w}", [])
                    verdict = "failed" if e2 else ("undecided" if (res_ or var["status"] != "ok") else "discharged")
                    out["obligations"].append({"id": f"{unit.name}/{fd.fn_key}#{w}@{fd.fid}", "unit": unit.name, "fn": fd.fn_key, "clause": f"{w}@{fd.fid}",
                                               "kind": c.kind, "text": c.text + f"   [re-proved without the envelope of {fd.fid}]", "props": list(c.props),
                                               "verdict": verdict, "backend": "verus/z3", "characterisation": c.char, "detail": [e["rendered"] for e in e2]})
    out["wall_s"] = time.time() - t0
    return out


def write_replay(prop, ob, unit_out):
    os.makedirs(os.path.join(VERIF, "replay"), exist_ok=True)
    path = os.path.join(VERIF, "replay", f"{prop}-{slug(ob['id'])}.json")
    fn = next((f for f in unit_out["functions"] if f["key"] == ob["fn"]), {})
    json.dump({"property": prop, "obligation": ob["id"], "kind": ob["kind"], "clause": ob["text"],
               "function": ob["fn"], "where": fn.get("where"), "function_sha256": fn.get("sha256"),
               "verifier": "verus 0.2026.09.13 / z3", "verifier_output": ob["detail"],
               "generated_file": unit_out["files"][0] if unit_out["files"] else None,
               "failing_input": None,
               "note": "Verus gives no model; no concrete failing input was found for this obligation (no-failing-input-found). "
                       "Re-run with: ./check --replay " + path},
              open(path, "w"), indent=1)
    return path


def main(argv):
    if len(argv) >= 2 and argv[0] == "--replay":
        rp = json.load(open(argv[1]))
        prop = rp["property"]
        if rp.get("kind") == "witness":
            import witness
            res = witness.run([rp["witness"]])[rp["witness"]]
            print(f"replaying witness {rp['witness']} of {prop} against {REPO}'s working tree")
            print(res["output"])
            if res["passed"] is None:
                print("UNDECIDED witness could not run"); return 2
            if res["passed"]:
                print(f"OK property={prop} witness passes"); return 0
            print(f"VIOLATION property={prop} replay={argv[1]}"); return 1
        print(f"replaying obligation {rp['obligation']} of {prop}")
        print("\n".join(rp.get("verifier_output") or []))
        if rp.get("failing_input"):
            print("failing input:", json.dumps(rp["failing_input"]))
        rc = check(prop, "quick", only_obligation=rp["obligation"])
        return rc
    if argv and argv[0] == "--census":
        units = load_units()
        cen = {}
        for u in units.values():
            ids = []
            for f in u.fns():
                if f.mode != "prove":
                    continue
                ids += [f"{u.name}/{f.key}#{c.cid}" for c in f.clauses() if c.kind not in ("requires", "closure_requires")]
                ids.append(f"{u.name}/{f.key}#safety")
                if f.injects or any(lp.body_entry or lp.body_exit for lp in f.loops):
                    ids.append(f"{u.name}/{f.key}#proof")
            ids += [f"{u.name}/lemma:{nm}" for nm, _, _, _ in R.lemma_obligations(u)]
            cen[u.name] = sorted(ids)
        json.dump(cen, open(os.path.join(VERIF, "units", "census.json"), "w"), indent=1, sort_keys=True)
        print("census written:", sum(len(v) for v in cen.values()), "obligations")
        # the shapes the annotations were written for (rule R23 ALPHA compares the current text of a function with this one)
        import spec as S
        from rsx import find_item
        shapes = {}
        for u in units.values():
            for f in u.fns():
                try:
                    pth = os.path.join(REPO, f.src)
                    shapes[S.shape_key(f)] = find_item(f.src, open(pth).read(), "fn", f.name, f.impl).text
                except Exception as e:
                    print("shape not recorded:", f.key, e)
        json.dump(shapes, open(os.path.join(VERIF, "units", "shapes.json"), "w"), indent=1, sort_keys=True)
        print("shapes written:", len(shapes), "functions")
        return 0
    prop = argv[0]
    tier = os.environ.get("VERIF_TIER", "quick")
    if "--tier" in argv:
        tier = argv[argv.index("--tier") + 1]
    return check(prop, tier)


def check(prop, tier, only_obligation=None):
    t0 = time.time()
    seed = int(os.environ.get("VERIF_SEED", "0") or 0)
    units = load_units()
    sel = [u for u in units.values() if prop in u.props() or any(prop in pr for _, pr, _, _ in R.lemma_obligations(u))]
    extra = []
    mod_extra = os.path.join(VERIF, "engine", "extra_checks.py")
    results = []
    with cf.ThreadPoolExecutor(max_workers=8) as ex:
        futs = {ex.submit(eval_unit, u, tier): u for u in sel}
        for fu in cf.as_completed(futs):
            try:
                results.append(fu.result())
            except Exception as e:  # toolchain trouble: undecided
                results.append({"unit": futs[fu].name, "status": "undecided", "reasons": [f"{type(e).__name__}: {e}",
                                traceback.format_exc()[-800:]], "obligations": [], "findings": [], "canaries": {},
                                "functions": [], "assumed_functions": [], "scan": {}, "smt_ms": 0, "cmds": [], "files": []})
    results.sort(key=lambda r: r["unit"])
    # extra (non-Verus) obligation providers: Kani harnesses, frame scans
    try:
        import extra_checks
        for r in extra_checks.run(prop, tier):
            results.append(r)
    except ImportError:
        pass
    census_path = os.path.join(VERIF, "units", "census.json")
    census = json.load(open(census_path)) if os.path.exists(census_path) else {}
    kf = known_findings()
    listed = {f["id"]: f for f in kf.get("findings", [])}
    undecided, violations, kf_lines = [], [], []
    obligations = []
    for r in results:
        if r["status"] != "ok":
            undecided.append((r["unit"], r["reasons"]))
        have = {o["id"] for o in r["obligations"]}
        for want in census.get(r["unit"], []):
            if want not in have and r["status"] == "ok":
                undecided.append((r["unit"], [f"census: obligation {want} was not generated"]))
        for o in r["obligations"]:
            if prop not in o["props"]:
                continue
            if only_obligation and o["id"] != only_obligation:
                continue
            obligations.append(o)
            if o["verdict"] == "failed":
                violations.append((o, r))
            elif o["verdict"] == "undecided":
                undecided.append((r["unit"], [f"obligation {o['id']} undecided"]))
        for fd in r["findings"]:
            if prop not in fd["props"]:
                continue
            if fd["id"] not in listed:
                undecided.append((r["unit"], [f"finding variant {fd['id']} is not listed in known_findings.json"]))
                continue
            if fd["still_fails"]:
                kf_lines.append(f"KNOWN-FINDING: property={prop} {fd['id']}: {listed[fd['id']].get('what', fd['what'])}")
            else:
                print(f"note: known finding {fd['id']} no longer reproduces (its full-domain obligation verifies)")
    # real-code replay of the stored failing inputs (repaired defects, scenarios of seeded changes): always in the thorough tier; in the
    # quick tier when the deductive check could not decide (a structural change lost the contract anchors) and when an obligation FAILED
    # (Verus gives no counterexample: a stored scenario that now fails on the real code is the failing input attached to the report)
    witness_runs = []
    if only_obligation is None and (tier == "thorough" or undecided or violations):
        import witness
        ws = witness.witnesses_for(prop)
        if ws:
            wres = witness.run([w["file"] for w in ws])
            for w in ws:
                r_ = wres[w["file"]]
                witness_runs.append({"file": w["file"], "fix": w["fix"], "passed": r_["passed"]})
                if r_["passed"] is False and w.get("tagged"):
                    # a generic (bounded) witness asserts several properties; each assertion message names the ones it speaks for.
                    # A failure is reported under this property only if its message carries this property's tag (no tag at all = the
                    # scenario could not be completed: counts for every property of the file).
                    tags = sorted(set(re.findall(r"\[(C\d\d)\]", r_["output"])))
                    witness_runs[-1]["failed_for"] = tags or w["properties"]
                    if tags and prop not in tags:
                        print(f"note: bounded witness {w['file']} fails for {','.join(tags)} (not {prop}): reported by the check of that property")
                        continue
                if r_["passed"] is False:
                    os.makedirs(os.path.join(VERIF, "replay"), exist_ok=True)
                    path = os.path.join(VERIF, "replay", f"{prop}-witness-{slug(w['file'])}.json")
                    json.dump({"property": prop, "kind": "witness", "obligation": "witness:" + w["file"], "witness": w["file"],
                               "failing_input": {"test": w["file"], "scenario": w["asserts"], "repaired_by": w["fix"]},
                               "verifier": "cargo test on a scratch copy of /repo's working tree", "verifier_output": r_["output"].splitlines(),
                               "note": "the stored failing input of a repaired defect fails again on the real code. Re-run with: ./check --replay " + path},
                              open(path, "w"), indent=1)
                    violations.append(({"id": "witness:" + w["file"], "detail": r_["output"].splitlines(), "replay": path, "witness": True,
                                        "kind": "witness", "text": w["asserts"], "fn": w["file"], "props": w["properties"]}, None))
                elif r_["passed"] is None and tier == "thorough":
                    undecided.append(("witness", [f"{w['file']} could not run: {r_['output'][-300:]}"]))
    # listed findings that no contract can express (work/time): established by their real-code witness only.  The witness asserts the
    # property and is EXPECTED to fail; it is replayed in the thorough tier, the quick tier prints the listed finding without re-running it.
    wo_findings = []
    for fd in kf.get("findings", []):
        if fd.get("witness_only") and fd.get("property") == prop and only_obligation is None:
            rec = {"id": fd["id"], "witness": fd["witness_file"], "replayed": False, "still_fails": None}
            if tier == "thorough":
                import witness
                r_ = witness.run([fd["witness_file"]])[fd["witness_file"]]
                rec.update(replayed=True, still_fails=(r_["passed"] is False) if r_["passed"] is not None else None, output=r_["output"][-1200:])
                if r_["passed"] is None:
                    undecided.append(("witness", [f"{fd['witness_file']} (finding {fd['id']}) could not run: {r_['output'][-300:]}"]))
            if rec["still_fails"] is False:
                print(f"note: known finding {fd['id']} no longer reproduces (its real-code witness passes)")
            else:
                kf_lines.append(f"KNOWN-FINDING: property={prop} {fd['id']}: {fd['what']}" + ("" if rec["replayed"] else " [listed; its real-code witness is replayed in the thorough tier]"))
            wo_findings.append(rec)
    n_ob = len(obligations)
    n_dis = sum(1 for o in obligations if o["verdict"] == "discharged")
    wall = time.time() - t0
    trusted = set()
    for u in sel:
        for p in u.prelude:
            trusted.add(f"{p}: {PRELUDE_ASSUMPTIONS.get(p, 'hand-written assumed contracts')}")
    trusted.add("A-RUSTC: Verus' encoding of Rust semantics (machine integers bounded, overflow is an obligation), Z3")
    trusted.add("A-EXTRACT: extraction rules R0-R8 of DESIGN.md 3.1 preserve meaning (log statements dropped; named return value; declared rewrites listed per function)")
    ev = {
        "property_id": prop, "tier": tier, "seed": seed,
        "level": claimed_level(prop) if n_ob and n_ob == n_dis and not undecided else "other",
        "coverage": {
            "obligations": n_ob, "discharged": n_dis,
            "checker_cmd": " ; ".join(sorted({c for r in results for c in r["cmds"][:1]})) or "none",
            "trusted_base": sorted(trusted),
            "explanation": "contract obligations on functions extracted from /repo's working tree, discharged by Verus/Z3 "
                           "(plus Kani/CBMC and frame scans where listed); an obligation = one ensures/invariant/assert clause "
                           "or the implicit-safety obligation of one function",
            "functions_under_contract": [f for r in results for f in r["functions"]],
            "functions_assumed_by_contract": [f for r in results for f in r["assumed_functions"]],
            "per_obligation": [{"id": o["id"], "kind": o["kind"], "verdict": o["verdict"], "backend": o["backend"],
                                "characterisation": o.get("characterisation", False), **({"wall_s": o["wall_s"]} if "wall_s" in o else {})} for o in obligations],
            "samples": [{"id": o["id"], "clause": o["text"]} for o in obligations[:6]],
            "canaries_failed_as_required": {k: v for r in results for k, v in r["canaries"].items()},
            "assumption_scan": {r["unit"]: r["scan"] for r in results},
            "solver_time_ms": sum(r["smt_ms"] for r in results),
            "units": [r["unit"] for r in results],
            "bounded": [b for r in results for b in r.get("bounded", [])],
            "known_findings": [fd for r in results for fd in r["findings"] if prop in fd["props"]] + wo_findings,
            "undecided": [f"{u}: {'; '.join(rs)[:500]}" for u, rs in undecided],
            "not_covered": [n for r in results for n in r.get("not_covered", [])],
            "witness_replays": witness_runs,
        },
        "assumptions": sorted(trusted),
        "wall_s": round(wall, 2),
        "violations": len(violations),
    }
    os.makedirs(os.path.join(VERIF, "evidence"), exist_ok=True)
    json.dump(ev, open(os.path.join(os.environ.get("VERIF_EVID") or os.path.join(VERIF, "evidence"), f"{prop}.json"), "w"), indent=1)   # VERIF_EVID: seed triage writes elsewhere
    for ln in kf_lines:
        print(ln)
    if violations:
        for o, r in violations:
            path = o.get("replay") or write_replay(prop, o, r)
            tail = "" if o.get("witness") else " no-failing-input-found"
            print(f"obligation failed: {o['id']}\n" + "\n".join(o["detail"])[:3000])
            print(f"VIOLATION property={prop} replay={path}{tail}")
        return 1
    if undecided:
        for u, rs in undecided:
            print(f"UNDECIDED unit={u} reason={'; '.join(rs)[:1500]}")
        return 2
    if n_ob == 0:
        print(f"UNDECIDED no obligations generated for {prop}")
        return 2
    print(f"OK property={prop} obligations={n_ob} discharged={n_dis} units={','.join(r['unit'] for r in results)} wall={wall:.1f}s")
    return 0


if __name__ == "__main__":
    sys.exit(main(sys.argv[1:]))
