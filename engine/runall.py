#!/usr/bin/env python3
"""dev helper: run the base file of every unit in parallel; print status"""
import sys, os, concurrent.futures as cf
HERE = os.path.dirname(os.path.abspath(__file__)); sys.path.insert(0, HERE); sys.path.insert(0, os.path.join(os.path.dirname(HERE), "units"))
import check as CK, run as R
from rsx import Undecided
units = CK.load_units()
def go(u):
    try:
        r = R.evaluate_base(u)
        return u.name, r["status"], r["verified"], r["errors"], [e["msg"][:100] for e in r["errs"]][:3], r["reasons"][:2]
    except Undecided as e:
        return u.name, "undecided", None, None, [], [str(e)]
with cf.ThreadPoolExecutor(max_workers=8) as ex:
    for res in ex.map(go, units.values()):
        print("FAIL" if (res[1] != "ok" or res[3]) else "pass", res)
