// lemmas about the iterator model of prelude/iter.rs (hand-written)
pub proof fn lemma_map_of_pairs<K, V>(s: Seq<(K, V)>, k: K)
    ensures map_of_pairs(s).contains_key(k) <==> exists|i: int| 0 <= i < s.len() && (#[trigger] s[i]).0 == k,
            (forall|i: int, j: int| 0 <= i < j < s.len() ==> s[i].0 != s[j].0) ==> forall|i: int| 0 <= i < s.len() && s[i].0 == k ==> map_of_pairs(s)[k] == (#[trigger] s[i]).1,
    decreases s.len()
{
    if s.len() > 0 {
        let t = s.drop_last();
        lemma_map_of_pairs(t, k);
        if map_of_pairs(s).contains_key(k) {
            if s.last().0 == k { assert(s[s.len() - 1].0 == k); }
            else { let i = choose|i: int| 0 <= i < t.len() && (#[trigger] t[i]).0 == k; assert(s[i].0 == k); }
        }
        if exists|i: int| 0 <= i < s.len() && (#[trigger] s[i]).0 == k {
            let i = choose|i: int| 0 <= i < s.len() && (#[trigger] s[i]).0 == k;
            if i < s.len() - 1 { assert(t[i].0 == k); }
        }
        if forall|i: int, j: int| 0 <= i < j < s.len() ==> s[i].0 != s[j].0 {
            assert forall|i: int| 0 <= i < s.len() && s[i].0 == k implies map_of_pairs(s)[k] == (#[trigger] s[i]).1 by {
                if i < s.len() - 1 {
                    assert(t[i].0 == k);
                    assert(s.last().0 != k) by { assert(s[i].0 != s[s.len() - 1].0); }
                    assert(forall|a: int, b: int| 0 <= a < b < t.len() ==> t[a].0 != t[b].0) by {
                        assert forall|a: int, b: int| 0 <= a < b < t.len() implies t[a].0 != t[b].0 by { assert(s[a].0 != s[b].0); }
                    }
                }
            }
        }
    }
}
pub proof fn lemma_map_of_pairs_fn<K, V>(s: Seq<(K, V)>, k: K)
    requires forall|i: int, j: int| 0 <= i < s.len() && 0 <= j < s.len() && s[i].0 == s[j].0 ==> s[i].1 == s[j].1
    ensures forall|i: int| 0 <= i < s.len() && s[i].0 == k ==> map_of_pairs(s)[k] == (#[trigger] s[i]).1
    decreases s.len()
{
    if s.len() > 0 {
        let t = s.drop_last();
        assert forall|i: int, j: int| 0 <= i < t.len() && 0 <= j < t.len() && t[i].0 == t[j].0 implies t[i].1 == t[j].1 by { assert(s[i].0 == s[j].0); }
        lemma_map_of_pairs_fn(t, k);
        assert forall|i: int| 0 <= i < s.len() && s[i].0 == k implies map_of_pairs(s)[k] == (#[trigger] s[i]).1 by {
            if s.last().0 == k { assert(s[i].0 == s[s.len() - 1].0); } else { assert(i < s.len() - 1); assert(t[i].0 == k); }
        }
    }
}
pub proof fn lemma_opt_flatten<U>(opts: Seq<Option<U>>)
    ensures forall|j: int| 0 <= j < opt_flatten(opts).len() ==> exists|i: int| 0 <= i < opts.len() && opts[i] == Some(#[trigger] opt_flatten(opts)[j]),
            forall|i: int| 0 <= i < opts.len() && (#[trigger] opts[i]) is Some ==> exists|j: int| 0 <= j < opt_flatten(opts).len() && opt_flatten(opts)[j] == opts[i]->Some_0,
    decreases opts.len()
{
    if opts.len() > 0 {
        let t = opts.drop_last();
        lemma_opt_flatten(t);
        let f = opt_flatten(opts); let ft = opt_flatten(t);
        assert forall|j: int| 0 <= j < f.len() implies exists|i: int| 0 <= i < opts.len() && opts[i] == Some(#[trigger] f[j]) by {
            if j < ft.len() { let i = choose|i: int| 0 <= i < t.len() && t[i] == Some(ft[j]); assert(opts[i] == Some(f[j])); }
            else { assert(opts[opts.len() - 1] == Some(f[j])); }
        }
        assert forall|i: int| 0 <= i < opts.len() && (#[trigger] opts[i]) is Some implies exists|j: int| 0 <= j < f.len() && f[j] == opts[i]->Some_0 by {
            if i < opts.len() - 1 { assert(t[i] is Some); let j = choose|j: int| 0 <= j < ft.len() && ft[j] == t[i]->Some_0; assert(f[j] == opts[i]->Some_0); }
            else { assert(f[f.len() - 1] == opts[i]->Some_0); }
        }
    }
}
pub proof fn lemma_flatten_filter<T>(items: Seq<T>, opts: Seq<Option<T>>, p: spec_fn(T) -> bool)
    requires opts.len() == items.len(), forall|i: int| 0 <= i < items.len() ==> #[trigger] opts[i] == (if p(items[i]) { Some(items[i]) } else { None::<T> })
    ensures opt_flatten(opts) == items.filter(p)
    decreases items.len()
{
    reveal_with_fuel(Seq::filter, 2);
    if items.len() > 0 {
        lemma_flatten_filter(items.drop_last(), opts.drop_last(), p);
        assert(opts.last() == opts[opts.len() - 1]);
        assert(items.last() == items[items.len() - 1]);
    }
}
/// membership in a filtered sequence
pub proof fn lemma_filter_mem<T>(s: Seq<T>, p: spec_fn(T) -> bool)
    ensures forall|x: T| #[trigger] s.filter(p).contains(x) <==> (s.contains(x) && p(x))
    decreases s.len()
{
    reveal_with_fuel(Seq::filter, 2);
    if s.len() > 0 {
        let sub = s.drop_last(); let l = s[s.len() - 1];
        lemma_filter_mem(sub, p);
        assert forall|x: T| #[trigger] s.filter(p).contains(x) <==> (s.contains(x) && p(x)) by {
            let f = s.filter(p); let fs = sub.filter(p);
            if f.contains(x) {
                let i = choose|i: int| 0 <= i < f.len() && f[i] == x;
                if p(l) { if i < fs.len() { assert(fs[i] == x); assert(fs.contains(x)); let j = choose|j: int| 0 <= j < sub.len() && sub[j] == x; assert(s[j] == x); } else { assert(x == l); } }
                else { assert(fs.contains(x)); let j = choose|j: int| 0 <= j < sub.len() && sub[j] == x; assert(s[j] == x); }
            }
            if s.contains(x) && p(x) {
                let j = choose|j: int| 0 <= j < s.len() && s[j] == x;
                if j < s.len() - 1 { assert(sub[j] == x); assert(sub.contains(x)); assert(fs.contains(x)); let i = choose|i: int| 0 <= i < fs.len() && fs[i] == x; assert(f[i] == x); }
                else { assert(p(l)); assert(f[f.len() - 1] == x); }
            }
        }
    }
}
