use vstd::prelude::*;
use std::collections::HashMap;
use std::hash::BuildHasherDefault;
verus! {
#[derive(Clone, Copy, PartialEq, Eq, Hash)] pub struct HashVal(pub [u8; 32]);
#[derive(Clone, Copy, PartialEq, Eq, Hash)] pub struct TxHash(pub HashVal);
#[derive(Clone, Copy, PartialEq, Eq)] pub enum TxKind { DoscMint, Faucet, LiqDeposit, LiqWithdraw, Normal, Stake, Swap }
#[derive(Clone, Copy, PartialEq, Eq, Hash)] pub enum Denom { Mel, Sym, Erg, NewCustom, Custom(TxHash) }
#[derive(Clone, Copy, PartialEq, Eq)] pub struct CoinValue(pub u128);
pub enum StateError { UnbalancedInOut }
pub struct FxHasher;

pub open spec fn balanced(kind: TxKind, inm: Map<Denom, u128>, outm: Map<Denom, CoinValue>) -> bool {
    kind == TxKind::Faucet || forall|d: Denom| #[trigger] outm.contains_key(d) ==>
        (d == Denom::NewCustom || (kind == TxKind::DoscMint && d == Denom::Erg)
         || (inm.contains_key(d) && outm[d].0 == inm[d]))
}

fn check_tx_coins_balanced(
    tx_kind: TxKind,
    in_coins: HashMap<Denom, u128>,
    out_coins: HashMap<Denom, CoinValue>,
) -> (r: Result<(), StateError>)
    ensures r is Ok <==> balanced(tx_kind, in_coins@, out_coins@)
{
    if tx_kind != TxKind::Faucet {
        for (currency, value) in out_coins.iter() {
            // we skip the created doscs for a DoscMint transaction, which are left for later.
            if *currency == Denom::NewCustom
                || (tx_kind == TxKind::DoscMint && *currency == Denom::Erg)
            {
            } else {

            let in_value = if let Some(in_value) = in_coins.get(currency) {
                *in_value
            } else {
                return Err(StateError::UnbalancedInOut);
            };

            if *value != CoinValue(in_value) {
                return Err(StateError::UnbalancedInOut);
            }
            }
        }
    }
    Ok(())
}
}
fn main() {}
