// C07: the transactions root: before TIP-908 the root of the sparse tree mapping each transaction's signature-free hash to the transaction;
// from TIP-908 on the root of the dense Merkle tree over the sorted leaves (hash ++ hash of the encoding), a function of the SET of leaves (A-DENSE, A-SORT)
/// a transaction's leaf: its signature-free hash followed by the hash of its whole encoding (so the root commits to the signatures too)
pub open spec fn leaf_of(tx: Transaction) -> Seq<u8> { spec_txhash(tx).0.0@ + h1(tx.ser()).0@ }
pub open spec fn leaf_iset(m: Map<TxHash, Transaction>) -> ISet<Seq<u8>> { ISet::new(|x: Seq<u8>| exists|h: TxHash| m.contains_key(h) && x == leaf_of(#[trigger] m[h])) }
pub open spec fn spec_dense_txs(m: Map<TxHash, Transaction>) -> HashVal { HashVal(dense_root_set(leaf_iset(m))) }
pub open spec fn spec_root_txs(m: Map<TxHash, Transaction>, tip908: bool) -> HashVal { if tip908 { spec_dense_txs(m) } else { spec_root_smt(m) } }
/// the leaves built from any enumeration of a hash-keyed transaction set are pairwise different and are exactly the set's leaves
pub proof fn lemma_leaves(m: Map<TxHash, Transaction>, ks: Seq<TxHash>, lv: Seq<Seq<u8>>)
    requires is_enum(m, ks), txs_keyed(m), lv == Seq::new(ks.len(), |j: int| leaf_of(m[ks[j]]))
    ensures lv.no_duplicates(), seq_iset(lv) == leaf_iset(m)
{
    assert forall|i: int, j: int| 0 <= i < lv.len() && 0 <= j < lv.len() && i != j implies lv[i] != lv[j] by {
        assert(ks.contains(ks[i]) && ks.contains(ks[j])); assert(m.contains_key(ks[i]) && m.contains_key(ks[j]));
        let a = spec_txhash(m[ks[i]]).0.0@; let b = spec_txhash(m[ks[j]]).0.0@;
        assert(a.len() == 32 && b.len() == 32);
        if lv[i] == lv[j] { assert(lv[i].subrange(0, 32) =~= a); assert(lv[j].subrange(0, 32) =~= b); assert(a == b); assert(spec_txhash(m[ks[i]]).0.0 == spec_txhash(m[ks[j]]).0.0); assert(ks[i] == ks[j]); }
    }
    assert forall|x: Seq<u8>| seq_iset(lv).contains(x) <==> leaf_iset(m).contains(x) by {
        if lv.contains(x) { let i = choose|i: int| 0 <= i < lv.len() && lv[i] == x; assert(ks.contains(ks[i])); assert(m.contains_key(ks[i]) && x == leaf_of(m[ks[i]])); }
        if leaf_iset(m).contains(x) { let h = choose|h: TxHash| m.contains_key(h) && x == leaf_of(#[trigger] m[h]); assert(ks.contains(h)); let i = choose|i: int| 0 <= i < ks.len() && ks[i] == h; assert(lv[i] == x); }
    }
    assert(seq_iset(lv) =~= leaf_iset(m));
}
