// C12: whole-program lifting of the per-instruction codec. The per-instruction wire format (spec_decode1 / spec_encode1) is DEFINED in
// lemmas/codec_def.rs, where K1 / K2 are proved from the definition; OpCode::{decode, encode} are proved against it in unit codec.
pub open spec fn enc_all(ops: Seq<OpCode>) -> Option<Seq<u8>> decreases ops.len() {
    if ops.len() == 0 { Some(Seq::empty()) } else {
        match (enc_all(ops.drop_last()), spec_encode1(ops.last())) { (Some(a), Some(e)) => Some(a + e), _ => None }
    }
}
pub open spec fn dec_all(b: Seq<u8>) -> Option<Seq<OpCode>> decreases b.len() {
    if b.len() == 0 { Some(Seq::empty()) } else {
        match spec_decode1(b) {
            Some((op, n)) => if 1 <= n <= b.len() { match dec_all(b.skip(n as int)) { Some(r) => Some(seq![op] + r), None => None } } else { None },
            None => None,
        }
    }
}
pub proof fn lemma_enc_all_push(ops: Seq<OpCode>, op: OpCode)
    ensures enc_all(ops.push(op)) == (match (enc_all(ops), spec_encode1(op)) { (Some(a), Some(e)) => Some(a + e), _ => None })
{ assert(ops.push(op).drop_last() =~= ops); }
/// decoding a concatenation of encodings yields the instructions (induction over the program, K2)
pub proof fn lemma_dec_of_enc(ops: Seq<OpCode>, tail_ops: Seq<OpCode>)
    requires enc_all(ops + tail_ops) is Some
    ensures true
    decreases ops.len()
{}
pub open spec fn enc_front(ops: Seq<OpCode>) -> Option<Seq<u8>> decreases ops.len() {
    if ops.len() == 0 { Some(Seq::empty()) } else {
        match (spec_encode1(ops[0]), enc_front(ops.skip(1))) { (Some(e), Some(a)) => Some(e + a), _ => None }
    }
}
pub proof fn lemma_enc_front_eq(ops: Seq<OpCode>)
    ensures enc_front(ops) == enc_all(ops)
    decreases ops.len()
{
    if ops.len() == 0 {
    } else if ops.len() == 1 {
        assert(ops.drop_last() =~= Seq::<OpCode>::empty()); assert(ops.skip(1) =~= Seq::<OpCode>::empty());
        assert(ops.last() == ops[0]);
        match spec_encode1(ops[0]) { Some(e) => { assert(Seq::<u8>::empty() + e =~= e + Seq::<u8>::empty()); } None => {} }
    } else {
        lemma_enc_front_eq(ops.skip(1));
        lemma_enc_front_eq(ops.drop_last());
        lemma_enc_front_eq(ops.skip(1).drop_last());
        assert(ops.skip(1).drop_last() =~= ops.drop_last().skip(1));
        assert(ops.drop_last()[0] == ops[0]);
        assert(ops.skip(1).last() == ops.last());
        match (spec_encode1(ops[0]), enc_all(ops.skip(1).drop_last()), spec_encode1(ops.last())) {
            (Some(e), Some(m), Some(l)) => { assert(e + (m + l) =~= (e + m) + l); }
            _ => {}
        }
    }
}
/// C12: encode-then-decode returns the same program
//@LEMMA C12 lemma_roundtrip encoding any representable program and decoding it returns the same program
pub proof fn lemma_roundtrip(ops: Seq<OpCode>)
    requires enc_all(ops) is Some
    ensures dec_all(enc_all(ops)->Some_0) == Some(ops)
    decreases ops.len()
{
    broadcast use lemma_k1, lemma_k2;
    lemma_enc_front_eq(ops);
    if ops.len() > 0 {
        lemma_enc_front_eq(ops.skip(1));
        let e = spec_encode1(ops[0])->Some_0; let a = enc_front(ops.skip(1))->Some_0;
        lemma_roundtrip(ops.skip(1));
        let b = e + a;
        assert(spec_decode1(b) == Some((ops[0], e.len())));
        assert(spec_decode1(b) is Some);
        assert(e.len() >= 1) by { assert(b.take(e.len() as int) =~= e); }
        assert(b.skip(e.len() as int) =~= a);
        assert(seq![ops[0]] + ops.skip(1) =~= ops);
    }
}
/// C12: decode-then-encode returns the same bytes
//@LEMMA C12 lemma_dec_then_enc whatever decodes re-encodes to exactly the same bytes
pub proof fn lemma_dec_then_enc(b: Seq<u8>)
    requires dec_all(b) is Some
    ensures enc_all(dec_all(b)->Some_0) == Some(b)
    decreases b.len()
{
    broadcast use lemma_k1;
    if b.len() > 0 {
        let (op, n) = spec_decode1(b)->Some_0;
        lemma_dec_then_enc(b.skip(n as int));
        let r = dec_all(b.skip(n as int))->Some_0;
        let ops = seq![op] + r;
        lemma_enc_front_eq(ops); lemma_enc_front_eq(r);
        assert(ops.skip(1) =~= r); assert(ops[0] == op);
        assert(b.take(n as int) + b.skip(n as int) =~= b);
    }
}
pub proof fn lemma_enc_take(ops: Seq<OpCode>, n: int)
    requires 0 <= n <= ops.len(), enc_all(ops) is Some
    ensures enc_all(ops.take(n)) is Some
    decreases ops.len() - n
{
    if n < ops.len() {
        lemma_enc_take(ops, n + 1);
        assert(ops.take(n + 1).drop_last() =~= ops.take(n));
    } else { assert(ops.take(n) =~= ops); }
}
/// A-DET: spec_cov_weight_b (prelude/core.rs) names what covenant_weight_from_bytes computes: the weight of the decoded program, 0 for
/// bytes that do not decode. Units outside codec use the name only.
pub axiom fn axiom_cov_weight_def(b: Seq<u8>) ensures spec_cov_weight_b(b) as int == (match dec_all(b) { Some(ops) => spec_weight(ops), None => 0 });
