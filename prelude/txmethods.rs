// A-STRUCTS (continued): Transaction::{covenants_as_map, total_outputs}; std::time::Instant (timing only, no effect on state)
pub struct Instant {}
impl Instant { #[verifier::external_body] pub fn now() -> (r: Instant) { unimplemented!() } }
impl Transaction {
    #[verifier::external_body]
    pub fn covenants_as_map(&self) -> (r: HashMap<Address, Bytes>) ensures r@ == spec_covenants_map(*self) { unimplemented!() }
    /// `CoinValue + CoinValue` inside is unchecked: overflow panics (debug) or wraps (release); hence the precondition
    #[verifier::external_body]
    pub fn total_outputs(&self) -> (r: HashMap<Denom, CoinValue>) requires outputs_fit(*self) ensures r@ == spec_total_outputs(*self) { unimplemented!() }
}
