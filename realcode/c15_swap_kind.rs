// C15 on the real code: a Normal payment whose data happens to spell a pool ("s" = MEL/SYM) must keep its output exactly as
// declared; on the unrepaired tree get_swap_transactions has no kind test and seal converts the payment into SYM.
use crate::*;
use melstructs::*;
use melvm::Covenant;
use novasmt::{Database, InMemoryCas};

#[test]
fn c15_only_swap_transactions_are_swapped() {
    let db = Database::new(InMemoryCas::default());
    let mut state = GenesisConfig::std_testnet().realize(&db);
    state.network = NetID::Custom02;
    state.fee_multiplier = 0;
    let x = CoinID { txhash: tmelcrypt::HashVal([1; 32]).into(), index: 0 };
    let cd = CoinData { covhash: Covenant::always_true().hash(), value: CoinValue(10_000_000_000), denom: Denom::Mel, additional_data: vec![].into() };
    state.coins.insert_coin(x, CoinDataHeight { coin_data: cd.clone(), height: 0.into() }, state.tip_906());
    let mut state = state.seal(None).next_unsealed();
    let t = Transaction { kind: TxKind::Normal, inputs: vec![x], outputs: vec![cd.clone()], fee: CoinValue(0),
        covenants: vec![Covenant::always_true().to_bytes()], data: b"s".to_vec().into(), sigs: vec![] };
    state.apply_tx(&t).unwrap();
    let sealed = state.seal(None);
    let out = sealed.coin(t.output_coinid(0)).unwrap();
    assert_eq!(out.coin_data.denom, Denom::Mel, "a Normal transaction's output was converted by Melswap");
    assert_eq!(out.coin_data.value, CoinValue(10_000_000_000));
}
