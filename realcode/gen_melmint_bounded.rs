//! Every assertion message starts with the ids of the properties it speaks for ([Cnn]); the check attributes a failure by these tags
//! (a panic without a tag -- the scenario could not be completed -- counts for every property listed for this file).
//! BOUNDED generic witness for Melswap settlement (never counted as proved; it gives failing inputs when a rewrite makes the
//! deductive check undecided).  A deterministic sweep (fixed xorshift seed) over blocks of generated swap / deposit / withdrawal
//! requests against a pool between MEL and a custom token (no pegging, no subsidy touches it), checked against the property
//! statements, not against a second implementation of the formulas:
//!   C15  only genuine requests are settled (ordinary payments, requests naming no pool and requests in a foreign denomination
//!        keep their coins), all requests of one direction get one price, withdrawals are pro rata
//!   C15/C01  per denomination, what the requests get out plus what the pool holds afterwards never exceeds what the requests
//!        put in plus what the pool held
//!   C16  liquidity tokens handed to depositors never exceed the liquidity the pool records for them; redeemed liquidity is
//!        retired exactly; nobody gets more than their share of the reserves

use melstructs::{CoinData, CoinDataHeight, CoinID, CoinValue, Denom, NetID, PoolKey, PoolState, Transaction, TxKind};
use melvm::Covenant;
use novasmt::{Database, InMemoryCas};
use num::BigUint;

use crate::{GenesisConfig, SealedState, UnsealedState};

struct Rng(u64);
impl Rng {
    fn next(&mut self) -> u64 {
        let mut x = self.0;
        x ^= x << 13;
        x ^= x >> 7;
        x ^= x << 17;
        self.0 = x;
        x
    }
    fn below(&mut self, n: u128) -> u128 {
        (((self.next() as u128) << 64) | self.next() as u128) % n
    }
    /// a value of random magnitude in 1..=max
    fn amount(&mut self, max: u128) -> u128 {
        let bits = 1 + self.below(127.min(128 - max.leading_zeros() as u128));
        1 + self.below(((1u128 << bits) - 1).min(max))
    }
}

fn cd(value: u128, denom: Denom, tag: u64) -> CoinData {
    CoinData { covhash: Covenant::always_true().hash(), value: CoinValue(value), denom, additional_data: tag.to_be_bytes().to_vec().into() }
}

const GAS: u128 = 5;

thread_local! {
    /// every coin a generated transaction spends (a bystander coin spent later in its block is no bystander)
    static SPENT: std::cell::RefCell<Vec<CoinID>> = std::cell::RefCell::new(vec![]);
}

/// every transaction needs a MEL input (the balance test looks the fee's denomination up among the inputs): a 5-unit MEL coin is
/// added and paid out as the fee
fn tx(gas: &mut Vec<CoinID>, kind: TxKind, mut inputs: Vec<CoinID>, outputs: Vec<CoinData>, data: Vec<u8>) -> Transaction {
    SPENT.with(|s| s.borrow_mut().extend(inputs.iter().cloned()));
    inputs.push(gas.pop().expect("out of gas coins"));
    Transaction { kind, inputs, outputs, fee: CoinValue(GAS), covenants: vec![Covenant::always_true().to_bytes()], data: data.into(), sigs: vec![] }
}

struct World {
    state: UnsealedState<InMemoryCas>,
    next_id: u8,
    tag: u64,
}

impl World {
    fn put(&mut self, value: u128, denom: Denom) -> CoinID {
        self.next_id += 1;
        let id = CoinID { txhash: tmelcrypt::HashVal([self.next_id; 32]).into(), index: 0 };
        let t = self.state.tip_906();
        self.tag += 1;
        self.state.coins.insert_coin(id, CoinDataHeight { coin_data: cd(value, denom, self.tag), height: 0.into() }, t);
        id
    }
}

fn reserves(s: &SealedState<InMemoryCas>, key: PoolKey) -> PoolState {
    s.pool(key).unwrap_or_else(PoolState::new_empty)
}

#[test]
fn bounded_generated_melswap_blocks_settle_only_requests_at_one_price_pro_rata() {
    let mut rng = Rng(0xd1342543de82ef95);
    let (mut swaps_settled, mut wds_settled, mut deps_settled) = (0, 0, 0);
    for trial in 0..40 {
        let db = Database::new(InMemoryCas::default());
        let mut state = GenesisConfig::std_testnet().realize(&db);
        state.network = NetID::Custom02;
        state.fee_multiplier = 0;
        let mut w = World { state, next_id: 0, tag: 0 };
        let x = Denom::Custom(tmelcrypt::HashVal([0xc7; 32]).into());
        let other = Denom::Custom(tmelcrypt::HashVal([0xc8; 32]).into());
        let key = PoolKey::new(Denom::Mel, x);
        let ghost_key = PoolKey::new(Denom::Mel, other);
        let scale = [1_000u128, 1_000_000_000, 1 << 70, 1 << 100][trial % 4];

        // funds: for the founding deposit and for up to 8 requests per block over 3 blocks
        let found = (w.put(scale, key.left()), w.put(scale, key.right()));
        let mut purse: Vec<(CoinID, u128, Denom)> = vec![];
        for _ in 0..30 {
            let d = if rng.below(2) == 0 { key.left() } else { key.right() };
            let v = rng.amount(scale / 4 + 1);
            purse.push((w.put(v, d), v, d));
        }
        let stray = w.put(77, other);
        let mut gas: Vec<CoinID> = (0..60).map(|_| w.put(GAS, Denom::Mel)).collect();
        let mut state = w.state.seal(None).next_unsealed(); // block 0 creates the built-in pools

        // block 1: the founding deposit
        let d0 = tx(&mut gas, TxKind::LiqDeposit, vec![found.0, found.1], vec![cd(scale, key.left(), 1), cd(scale, key.right(), 2)], key.to_bytes().to_vec());
        state.apply_tx(&d0).unwrap_or_else(|e| panic!("trial {trial}: founding deposit refused: {e:?}"));
        let mut sealed = state.seal(None);
        let p = sealed.pool(key).unwrap_or_else(|| panic!("[C15] trial {trial}: founding deposit created no pool"));
        assert!(p.lefts == scale && p.rights == scale, "[C15][C16] trial {trial}: founding deposit of {scale}/{scale} recorded as {p:?}");
        let liq0 = sealed.coin(d0.output_coinid(0)).expect("liquidity coin").coin_data;
        assert!(liq0.denom == key.liq_token_denom() && liq0.value.0 <= p.liqs, "[C16] trial {trial}: founder holds {liq0:?}, pool records {}", p.liqs);
        assert!(sealed.coin(d0.output_coinid(1)).is_none(), "[C16][C01] trial {trial}: the deposited right-hand coin is still spendable");
        // liquidity coins held by users: (id, amount)
        let mut liq_coins = vec![(d0.output_coinid(0), liq0.value.0)];

        for blk in 2..5 {
            let what = format!("trial {trial} block {blk}");
            let mut state = sealed.next_unsealed();
            let before = reserves(&sealed, key);
            let mut swaps: Vec<(Transaction, u128, Denom)> = vec![];
            let mut deps: Vec<(Transaction, u128, u128)> = vec![];
            let mut wds: Vec<(Transaction, u128)> = vec![];
            let mut bystanders: Vec<(CoinID, CoinData)> = vec![];
            let mut tag = 1000 * blk as u64;
            for _ in 0..(1 + rng.below(7)) {
                tag += 1;
                match rng.below(10) {
                    0..=4 if !purse.is_empty() => {
                        // a swap request of part of a coin, change kept
                        let (id, v, d) = purse.swap_remove(rng.below(purse.len() as u128) as usize);
                        let a = rng.amount(v);
                        let mut outs = vec![cd(a, d, tag)];
                        if v > a {
                            outs.push(cd(v - a, d, tag));
                        }
                        let t = tx(&mut gas, TxKind::Swap, vec![id], outs, key.to_bytes().to_vec());
                        if v > a {
                            bystanders.push((t.output_coinid(1), t.outputs[1].clone()));
                        }
                        swaps.push((t, a, d));
                    }
                    5 if purse.len() >= 2 => {
                        // a deposit of one coin of each side, if the purse has them
                        let li = purse.iter().position(|c| c.2 == key.left());
                        let ri = purse.iter().position(|c| c.2 == key.right());
                        if let (Some(li), Some(ri)) = (li, ri) {
                            let l = purse[li];
                            let r = purse[ri];
                            purse.retain(|c| c.0 != l.0 && c.0 != r.0);
                            let t = tx(&mut gas, TxKind::LiqDeposit, vec![l.0, r.0], vec![cd(l.1, key.left(), tag), cd(r.1, key.right(), tag)], key.to_bytes().to_vec());
                            deps.push((t, l.1, r.1));
                        }
                    }
                    6 if !liq_coins.is_empty() && blk > 2 => {
                        // redeem one liquidity coin whole
                        let (id, v) = liq_coins.swap_remove(rng.below(liq_coins.len() as u128) as usize);
                        if v > 0 {
                            wds.push((tx(&mut gas, TxKind::LiqWithdraw, vec![id], vec![cd(v, key.liq_token_denom(), tag)], key.to_bytes().to_vec()), v));
                        }
                    }
                    7 if !purse.is_empty() => {
                        // an ordinary payment that merely carries the pool's name
                        let (id, v, d) = purse.swap_remove(rng.below(purse.len() as u128) as usize);
                        let t = tx(&mut gas, TxKind::Normal, vec![id], vec![cd(v, d, tag)], key.to_bytes().to_vec());
                        bystanders.push((t.output_coinid(0), t.outputs[0].clone()));
                        purse.push((t.output_coinid(0), v, d));
                        state.apply_tx(&t).unwrap_or_else(|e| panic!("{what}: payment refused: {e:?}"));
                    }
                    8 if !purse.is_empty() => {
                        // a swap request naming a pool that does not exist
                        let (id, v, d) = purse.swap_remove(rng.below(purse.len() as u128) as usize);
                        if d == Denom::Mel {
                            let t = tx(&mut gas, TxKind::Swap, vec![id], vec![cd(v, d, tag)], ghost_key.to_bytes().to_vec());
                            bystanders.push((t.output_coinid(0), t.outputs[0].clone()));
                            state.apply_tx(&t).unwrap_or_else(|e| panic!("{what}: request for a missing pool refused: {e:?}"));
                        } else {
                            purse.push((id, v, d));
                        }
                    }
                    _ => {}
                }
            }
            // a liquidity coin split in two by an ordinary payment (so that later blocks redeem parts)
            if let Some((id, v)) = liq_coins.pop() {
                if v >= 2 {
                    let a = rng.amount(v - 1);
                    let t = tx(&mut gas, TxKind::Normal, vec![id], vec![cd(a, key.liq_token_denom(), tag + 500), cd(v - a, key.liq_token_denom(), tag + 501)], vec![]);
                    state.apply_tx(&t).unwrap_or_else(|e| panic!("{what}: splitting a liquidity coin refused: {e:?}"));
                    liq_coins.push((t.output_coinid(0), a));
                    liq_coins.push((t.output_coinid(1), v - a));
                } else {
                    liq_coins.push((id, v));
                }
            }
            for (t, ..) in &swaps {
                state.apply_tx(t).unwrap_or_else(|e| panic!("{what}: swap request refused: {e:?}"));
            }
            for (t, ..) in &deps {
                state.apply_tx(t).unwrap_or_else(|e| panic!("{what}: deposit request refused: {e:?}"));
            }
            for (t, ..) in &wds {
                state.apply_tx(t).unwrap_or_else(|e| panic!("{what}: withdrawal request refused: {e:?}"));
            }
            let next = state.seal(None);
            let after = reserves(&next, key);

            // C15: bystanders keep their coins
            let spent = SPENT.with(|s| s.borrow().clone());
            bystanders.retain(|(id, _)| !spent.contains(id));
            for (id, c) in &bystanders {
                assert_eq!(next.coin(*id).map(|c| c.coin_data), Some(c.clone()), "[C15] {what}: a coin that is not a request's first output was changed");
            }
            assert_eq!(next.coin(stray).map(|c| c.coin_data.value.0), Some(77), "[C15] {what}: an unrelated coin changed");
            assert!(next.pool(ghost_key).is_none(), "[C15] {what}: a swap request created a pool");

            // per denomination: in and out
            let (mut in_l, mut in_r, mut out_l, mut out_r) = (0u128, 0u128, 0u128, 0u128);
            // swaps: converted, one price per direction
            let mut got: Vec<(u128, u128, Denom)> = vec![];
            for (t, a, d) in &swaps {
                let c = next.coin(t.output_coinid(0)).unwrap_or_else(|| panic!("[C15] {what}: a swap request lost its coin")).coin_data;
                let to = if *d == key.left() { key.right() } else { key.left() };
                assert_eq!(c.denom, to, "[C15] {what}: swap of {a} {d:?} paid in {:?}", c.denom);
                if *d == key.left() {
                    in_l += a;
                    out_r += c.value.0;
                } else {
                    in_r += a;
                    out_l += c.value.0;
                }
                got.push((*a, c.value.0, *d));
                swaps_settled += 1;
            }
            for (i, (ai, oi, di)) in got.iter().enumerate() {
                for (aj, oj, dj) in got.iter().skip(i + 1) {
                    if di == dj {
                        let (x1, x2) = (BigUint::from(*oi) * BigUint::from(*aj), BigUint::from(*oj) * BigUint::from(*ai));
                        let diff = if x1 > x2 { x1 - x2 } else { x2 - x1 };
                        assert!(diff < BigUint::from(*ai.max(aj)), "[C15] {what}: two requests of one direction at different prices: {ai}->{oi}, {aj}->{oj}");
                    }
                }
            }
            // deposits: liquidity tokens within what the pool records
            let mut minted = 0u128;
            for (t, l, r) in &deps {
                let c = next.coin(t.output_coinid(0)).unwrap_or_else(|| panic!("[C16] {what}: a deposit lost its first coin")).coin_data;
                assert_eq!(c.denom, key.liq_token_denom(), "[C16] {what}: deposit paid in {:?}", c.denom);
                assert!(next.coin(t.output_coinid(1)).is_none(), "[C16][C01] {what}: the deposited right-hand coin is still spendable");
                minted += c.value.0;
                in_l += l;
                in_r += r;
                liq_coins.push((t.output_coinid(0), c.value.0));
                deps_settled += 1;
            }
            // withdrawals: pro rata, never more than the share
            let redeemed: u128 = wds.iter().map(|w| w.1).sum();
            for (t, v) in &wds {
                let l = next.coin(t.output_coinid(0)).unwrap_or_else(|| panic!("[C15] {what}: a withdrawal lost its coin")).coin_data;
                let r = next.coin(t.output_coinid(1)).unwrap_or_else(|| panic!("[C15] {what}: a withdrawal was paid one side only")).coin_data;
                assert!(l.denom == key.left() && r.denom == key.right(), "[C15] {what}: withdrawal paid in {:?} / {:?}", l.denom, r.denom);
                out_l += l.value.0;
                out_r += r.value.0;
                let _ = v;
                wds_settled += 1;
            }
            for (i, (ti, vi)) in wds.iter().enumerate() {
                for (tj, vj) in wds.iter().skip(i + 1) {
                    for idx in 0..2u8 {
                        let (gi, gj) = (next.coin(ti.output_coinid(idx)).unwrap().coin_data.value.0, next.coin(tj.output_coinid(idx)).unwrap().coin_data.value.0);
                        let (x1, x2) = (BigUint::from(gi) * BigUint::from(*vj), BigUint::from(gj) * BigUint::from(*vi));
                        let diff = if x1 > x2 { x1 - x2 } else { x2 - x1 };
                        assert!(diff < BigUint::from(*vi.max(vj)), "[C15] {what}: withdrawals not pro rata: {vi}->{gi}, {vj}->{gj}");
                    }
                }
            }
            // C16: liquidity accounting (deposits are settled before withdrawals)
            assert!(BigUint::from(after.liqs) + BigUint::from(redeemed) >= BigUint::from(before.liqs) + BigUint::from(minted),
                    "[C16] {what}: depositors hold {minted} new liquidity tokens, {redeemed} were redeemed, the pool went from {} to {}", before.liqs, after.liqs);
            if deps.is_empty() {
                assert_eq!(after.liqs + redeemed, before.liqs, "[C16] {what}: redeemed liquidity not retired exactly");
            }
            // C15 / C01: nothing comes out of a pool that did not go in
            assert!(BigUint::from(after.lefts) + BigUint::from(out_l) <= BigUint::from(before.lefts) + BigUint::from(in_l),
                    "[C15][C01] {what}: left side: pool {} -> {}, requests put in {in_l} and got out {out_l}", before.lefts, after.lefts);
            assert!(BigUint::from(after.rights) + BigUint::from(out_r) <= BigUint::from(before.rights) + BigUint::from(in_r),
                    "[C15][C01] {what}: right side: pool {} -> {}, requests put in {in_r} and got out {out_r}", before.rights, after.rights);
            sealed = next;
        }
    }
    assert!(swaps_settled >= 150 && deps_settled >= 10 && wds_settled >= 10, "vacuity guard: {swaps_settled} swaps, {deps_settled} deposits, {wds_settled} withdrawals");
}
