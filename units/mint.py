from spec import *
from _contracts import *

M = "src/state/melmint.rs"
S = "src/state.rs"
C_ = "src/state/coins.rs"
T = "src/state/txset.rs"
SM = "src/smtmapping.rs"

def sel_proof(pred, named=None):
    return """proof {
        let ks = choose|ks: Seq<TxHash>| is_enum(state.transactions@, ks) && __c0@.len() == ks.len() && (forall|i: int| 0 <= i < ks.len() ==> *(#[trigger] __c0@[i]) == state.transactions@[ks[i]]);
        let items = Seq::new(ks.len(), |i: int| state.transactions@[ks[i]]);
        assert(__c1@ =~= items);
        let opts = choose|opts: Seq<Option<Transaction>>| #[trigger] filter_map_decided(__cl2, __c1@, __c2@, opts);
        let p = %s;
        assert forall|i: int| 0 <= i < items.len() implies #[trigger] opts[i] == (if p(items[i]) { Some(items[i]) } else { None::<Transaction> }) by { assert(p(items[i]) == %s(*state, items[i]));
            assert(call_ensures(__cl2, (__c1@[i],), opts[i]));
        }
        lemma_flatten_filter(items, opts, p);
    }""" % ((named or "|tx: Transaction| %s(*state, tx)" % pred), pred)

UNIT = Unit(
    name="mint", uses="group_core_axioms",
    prelude=["core.rs", "raw.rs", "iter.rs", "crypto.rs", "state_abs.rs", "num.rs", "melswap.rs"],
    lemmas=["sums.rs", "iterlem.rs", "coinsview.rs", "tips.rs", "apply.rs", "stateinv.rs", "microergs.rs", "chaininv.rs", "chainlem.rs", "mint.rs"],
    items=[
        *pk_stubs(),
        Fn(DEP_MELSWAP, "new_empty", impl="PoolState", mode="assume", **ps_new_empty()),
        Fn(DEP_MELSWAP, "swap_many", impl="PoolState", mode="assume", **ps_swap_many()),
        Fn(DEP_MELSWAP, "deposit", impl="PoolState", mode="assume", **ps_deposit()),
        Fn(DEP_MELSWAP, "withdraw", impl="PoolState", mode="assume", **ps_withdraw()),
        Fn(DEP_MELSWAP, "implied_price", impl="PoolState", mode="assume", **ps_implied_price()),
        TypeItem(S, "struct", "UnsealedState"),
        Raw("use num::{BigInt, BigRational, rational::Ratio};"),
        Fn(C_, "get_coin", impl="CoinMapping", mode="assume", **cm_get_coin()),
        Fn(SM, "get", impl="SmtMapping", mode="assume", wrap=SMT_WRAP, **smt_get()),
        Fn(T, "iter", impl="TransactionSet", mode="assume", sig_subst=[("impl Iterator<Item = &Transaction>", "Vec<&Transaction>")], **ts_iter()),
        Fn(M, "multiply_frac", home="C15", implicit_props=("C09", "C15"),
           ensures=[C("floor", "res as int == spec_multiply_frac(x as int, frac@.n, frac@.d)", "C15", "C01", "C16")],
           uses="group_core_axioms, num::rational::axiom_ratio_den_pos, num::rational::axiom_reduced, num::rational::axiom_ratio_u128_nonneg",
           injects=[Inject("entry", "let ghost f0 = frac@; let ghost red = num::rational::reduced(frac);"),
                    Inject(("after_let", "result"), """proof { assert(result@.n == (x as int) * (red.0 as int)); assert(result@.d == 1 * (red.1 as int));
                        assert(red.0 as int * f0.d == f0.n * (red.1 as int));
                        lemma_floor_frac_eq(x as int, red.0 as int, red.1 as int, f0.n, f0.d); }""")]),
        Fn(M, "request_pool_key", home="C15", implicit_props=("C09", "C15"),
           ensures=[C("canonical", "res == spec_req_key(data@)", "C15", "C01", "C16"),
                    C("real", "res is Some ==> pk_canonical(res->Some_0) && res->Some_0.left != Denom::NewCustom && res->Some_0.right != Denom::NewCustom", "C15", "C01",
                      note="a pool is named only by the canonical spelling of a pair of REAL denominations: never the placeholder NewCustom, under which every transaction declares its own new token")]),
        Fn(M, "get_swap_transactions", home="C15", implicit_props=("C09", "C15"),
           requires=[C("wf", "state.coins.wf()")],
           ensures=[C("selected", "selected(state.transactions@, res@, swap_pred(*state))", "C15", "C01", "C16", "C20")],
           rewrites=[("ANF", "collect", 0, 4, {2: sel_proof("is_swap_req", "swap_pred(*state)")})],
           closures=[Closure(0, "tx: Transaction", "(r: Option<Transaction>)", ensures=[C("pred", "r == (if is_swap_req(*state, tx) { Some(tx) } else { None::<Transaction> })", "C15", "C16", "C01", "C20")])]),
        Fn(M, "get_deposit_transactions", home="C15", implicit_props=("C09", "C15"),
           requires=[C("wf", "state.coins.wf()")],
           ensures=[C("selected", "selected(state.transactions@, res@, deposit_pred(*state))", "C15", "C01", "C16", "C20")],
           rewrites=[("ANF", "collect", 0, 4, {2: sel_proof("is_deposit_req", "deposit_pred(*state)")})],
           closures=[Closure(0, "tx: Transaction", "(r: Option<Transaction>)", ensures=[C("pred", "r == (if is_deposit_req(*state, tx) { Some(tx) } else { None::<Transaction> })", "C15", "C16", "C01", "C20")])]),
        Fn(M, "get_withdrawal_transactions", home="C15", implicit_props=("C09", "C15"),
           requires=[C("wf", "state.coins.wf()")],
           ensures=[C("selected", "selected(state.transactions@, res@, withdraw_pred(*state))", "C15", "C01", "C16", "C20")],
           rewrites=[("ANF", "collect", 0, 4, {2: sel_proof("is_withdraw_req", "withdraw_pred(*state)")})],
           closures=[Closure(0, "tx: Transaction", "(r: Option<Transaction>)", ensures=[C("pred", "r == (if is_withdraw_req(*state, tx) { Some(tx) } else { None::<Transaction> })", "C15", "C16", "C01", "C20")])]),
        Fn(M, "extract_pool_keys_sorted", home="C15", implicit_props=("C09", "C15", "C16"), **mm_extract_pool_keys(),
           rewrites=[("PIPE",), ("SUBALL", r"\b(\w+)\.sort(?:_unstable)?\(\);", "pk_sort(&mut ${1});"), ("SUBALL", r"\b(\w+)\.dedup\(\);", "pk_dedup(&mut ${1});"), ("ANF", "collect", 0, 3, {}, "K"), ("ROOT", "iter", 0, "slice_iter", False)],
           closures=[Closure(0, "tx: &Transaction", "(r: Option<PoolKey>)", ensures=[C("key", "r == spec_req_key(tx.data@)", "C15")])],
           injects=[Inject(("after_let", "v"), """let ghost v0 = v@; let ghost txs = transactions@;
                        proof { let opts = choose|opts: Seq<Option<PoolKey>>| #[trigger] filter_map_decided(__clK1, __cK0@, __cK1@, opts);
                            lemma_opt_flatten(opts);
                            assert forall|k: PoolKey| #[trigger] v0.contains(k) <==> mentions(txs, k) by {
                                if v0.contains(k) { let j = choose|j: int| 0 <= j < v0.len() && v0[j] == k; let i = choose|i: int| 0 <= i < opts.len() && opts[i] == Some(v0[j]);
                                    assert(call_ensures(__clK1, (__cK0@[i],), opts[i])); assert(*__cK0@[i] == txs[i]); }
                                if mentions(txs, k) { let i = choose|i: int| 0 <= i < txs.len() && spec_req_key((#[trigger] txs[i]).data@) == Some(k);
                                    assert(call_ensures(__clK1, (__cK0@[i],), opts[i])); assert(*__cK0@[i] == txs[i]); assert(opts[i] is Some);
                                    let j = choose|j: int| 0 <= j < v0.len() && v0[j] == opts[i]->Some_0; }
                            } }"""),
                    Inject(("after_stmt", "pk_sort(&mut v);"), """let ghost sv = v@;
                        proof { v0.to_multiset_ensures(); sv.to_multiset_ensures();
                            assert forall|k: PoolKey| #[trigger] sv.contains(k) <==> v0.contains(k) by { assert(sv.to_multiset().count(k) == v0.to_multiset().count(k)); } }"""),
                    Inject(("before", "pk_dedup(&mut v);"), "let ghost pd = v@;"),
                    Inject(("after_stmt", "pk_dedup(&mut v);"), "proof { lemma_dedup_sorted(pd); }")]),
        Fn(M, "transactions_for_pool", home="C15", implicit_props=("C09", "C15"), **mm_transactions_for_pool(),
           rewrites=[("ANF", "collect", 0, 4, {2: """proof { let b = choose|b: spec_fn(&Transaction) -> bool| #[trigger] filter_decided(__clT1, __cT0@, __cT1@, b);
                   let p = for_pool(*pool_key);
                   assert forall|i: int| 0 <= i < __cT0@.len() implies b(#[trigger] __cT0@[i]) == p(transactions@[i]) by { assert(call_ensures(__clT1, (&__cT0@[i],), b(__cT0@[i]))); assert(*__cT0@[i] == transactions@[i]); }
                   lemma_filter_refs(__cT0@, transactions@, b, p);
                   assert(__cT2@ =~= transactions@.filter(p)); }"""}, "T"), ("ROOT", "iter", 0, "slice_iter", False)],
           closures=[Closure(0, "tx: &&Transaction", "(r: bool)", ensures=[C("same", "r == (spec_req_key(tx.data@) == Some(*pool_key))", "C15")])]),
        Fn(C_, "insert_coin", impl="CoinMapping", mode="assume", **cm_insert_coin()),
        Fn(SM, "insert", impl="SmtMapping", mode="assume", wrap=SMT_WRAP, **smt_insert()),
        Fn(S, "tip_906", impl="UnsealedState", mode="assume", **st_tip(830000)),
        Fn(M, "process_swaps_for_single_pool", home="C15", implicit_props=("C09", "C15", "C01"),
           requires=[C("reqs", "swaps_pre(old(swaps)@, *pool)"),
                     C("pool", "old(state).pools@.contains_key(*pool) && pool_live(old(state).pools@[*pool])"),
                     C("inv", "old(state).coins.wf() && (spec_tip906(*old(state)) ==> counts_ok(old(state).coins@)) && origin_ok(old(state).coins@.coins)")],
           ensures=[C("pool", """({ let tl = side_total(old(swaps)@, pool.left, old(swaps)@.len() as int); let tr = side_total(old(swaps)@, pool.right, old(swaps)@.len() as int);
                        let p0 = old(state).pools@[*pool]; let l = sat128(p0.lefts + tl); let r = sat128(p0.rights + tr);
                        final(state).pools@.dom() == old(state).pools@.dom().insert(*pool)
                        && (forall|k: PoolKey| k != *pool && old(state).pools@.contains_key(k) ==> #[trigger] final(state).pools@[k] == old(state).pools@[k])
                        && final(state).pools@[*pool].lefts as int == l - swap_out(tr, r, l) && final(state).pools@[*pool].rights as int == r - swap_out(tl, l, r)
                        && final(state).pools@[*pool].liqs == p0.liqs && pool_live(final(state).pools@[*pool]) })""", "C15", "C01", "C16"),
                    C("coins", """({ let tl = side_total(old(swaps)@, pool.left, old(swaps)@.len() as int); let tr = side_total(old(swaps)@, pool.right, old(swaps)@.len() as int);
                        let p0 = old(state).pools@[*pool]; let l = sat128(p0.lefts + tl); let r = sat128(p0.rights + tr);
                        swaps_settled(old(state).coins@.coins, final(state).coins@.coins, old(swaps)@, old(swaps)@.len() as int, *pool, swap_out(tr, r, l), swap_out(tl, l, r), tl, tr, old(state).height) })""", "C15", "C01"),
                    C("frame", "pool_phase_frame(*old(state), *final(state)) && final(state).fee_pool == old(state).fee_pool", "C15", "C17"),
                    C("inv", "final(state).coins.wf() && (spec_tip906(*old(state)) ==> counts_ok(final(state).coins@)) && origin_ok(final(state).coins@.coins) && (!spec_tip906(*old(state)) ==> final(state).coins@.counts == old(state).coins@.counts)", "C20")],
           rewrites=[("R3", 0), ("ROOT", "iter", 0, "vec_iter"), ("ANF", "fold", 0, 2, {}, "L"), ("ROOT", "iter", 0, "vec_iter"), ("ANF", "fold", 1, 2, {}, "R")],
           injects=[Inject("entry", "let ghost swaps0 = swaps@; let ghost st0 = *state; let ghost c0 = state.coins@.coins; let ghost n0 = swaps@.len() as int;"),
                    Inject(("after_let", "total_lefts"), """proof { let accs = choose|accs: Seq<u128>| #[trigger] fold_decided(__clL1, __cL0@, 0u128, accs) && total_lefts == accs[__cL0@.len() as int];
                        lemma_fold_side(swaps0, pool.left, __cL0@, accs, n0); }"""),
                    Inject(("after_let", "total_rights"), """proof { let accs = choose|accs: Seq<u128>| #[trigger] fold_decided(__clR1, __cR0@, 0u128, accs) && total_rights == accs[__cR0@.len() as int];
                        lemma_fold_side(swaps0, pool.right, __cR0@, accs, n0); }"""),
                    Inject(("before", "let __n ="), """let ghost tl = side_total(swaps0, pool.left, n0); let ghost tr = side_total(swaps0, pool.right, n0);
                        let ghost lw = left_withdrawn as int; let ghost rw = right_withdrawn as int;
                        proof { assert(swaps_settled(c0, c0, swaps0, 0, *pool, lw, rw, tl, tr, st0.height)); }""")],
           loops=[Loop(0,
               body_entry="""let ghost cb = state.coins@.coins; let ghost i = __i as int;
                   proof { lemma_side_total_ge(swaps0, pool.left, n0, i); lemma_side_total_ge(swaps0, pool.right, n0, i); assert(swaps@[i] == swaps0[i]); }""",
               body_exit="""proof { let d = state.coins@.coins[cid(swaps0[i], 0)];
                   lemma_origin_insert(cb, swaps0[i], 0, d);
                   lemma_swaps_settled_step(c0, cb, swaps0, i, *pool, lw, rw, tl, tr, st0.height, d); }""",
               invariants=[
                   C("len", "swaps@.len() == n0 && __n == n0 && n0 == swaps0.len() && swaps_pre(swaps0, *pool) && (forall|j: int| __i <= j < n0 ==> #[trigger] swaps@[j] == swaps0[j])", "C15"),
                   C("totals", "total_lefts as int == tl && total_rights as int == tr && tl == side_total(swaps0, pool.left, n0) && tr == side_total(swaps0, pool.right, n0) && lw == left_withdrawn as int && rw == right_withdrawn as int", "C15", "C01"),
                   C("settled", "swaps_settled(c0, state.coins@.coins, swaps0, __i as int, *pool, lw, rw, tl, tr, st0.height)", "C15", "C01"),
                   C("inv", "state.coins.wf() && (spec_tip906(st0) ==> counts_ok(state.coins@)) && origin_ok(state.coins@.coins) && (!spec_tip906(st0) ==> state.coins@.counts == st0.coins@.counts)", "C20"),
                   C("frame", "pool_phase_frame(st0, *state) && state.fee_pool == st0.fee_pool && state.pools == st0.pools && state.height == st0.height && state.network == st0.network", "C15"),
               ])],
           closures=[Closure(0, "tx: &Transaction", "(r: CoinValue)", requires=[C("has0", "tx.outputs@.len() > 0")], ensures=[C("left", "r.0 as int == req_value(*tx, pool.left)", "C15", "C01")]),
                     Closure(1, "a: u128, b: CoinValue", "(r: u128)", ensures=[C("satl", "r as int == sat128(a + b.0)", "C15", "C01")]),
                     Closure(2, "tx: &Transaction", "(r: CoinValue)", requires=[C("has0r", "tx.outputs@.len() > 0")], ensures=[C("right", "r.0 as int == req_value(*tx, pool.right)", "C15", "C01")]),
                     Closure(3, "a: u128, b: CoinValue", "(r: u128)", ensures=[C("satr", "r as int == sat128(a + b.0)", "C15", "C01")])]),
        Fn(C_, "remove_coin", impl="CoinMapping", mode="assume", **cm_remove_coin()),
        Fn(M, "process_deposits_for_single_pool", home="C15", implicit_props=("C09", "C15", "C16", "C01"), **mm_deposits_single(),
           uses="group_core_axioms, axiom_isqrt",
           rewrites=[("R3", 0), ("ROOT", "iter", 0, "slice_iter", False), ("ANF", "fold", 0, 2, {}, "L"), ("ROOT", "iter", 0, "slice_iter", False), ("ANF", "fold", 1, 2, {}, "R"),
                     ("ROOT", "iter", 0, "slice_iter", False), ("ANF", "fold", 2, 2, {}, "W")],
           closures=[Closure(0, "tx: &Transaction", "(r: u128)", requires=[C("has0", "tx.outputs@.len() > 0")], ensures=[C("v0", "r == tx.outputs@[0].value.0", "C15", "C01")]),
                     Closure(1, "a: u128, b: u128", "(r: u128)", ensures=[C("sat0", "r as int == sat128(a + b)", "C15", "C01")]),
                     Closure(2, "tx: &Transaction", "(r: u128)", requires=[C("has1", "tx.outputs@.len() > 1")], ensures=[C("v1", "r == tx.outputs@[1].value.0", "C15", "C01")]),
                     Closure(3, "a: u128, b: u128", "(r: u128)", ensures=[C("sat1", "r as int == sat128(a + b)", "C15", "C01")]),
                     Closure(4, "tx: &Transaction", "(r: u128)", requires=[C("has2", "tx.outputs@.len() > 1")], ensures=[C("w", "r as int == dep_weight(*tx)", "C15", "C01")]),
                     Closure(5, "a: u128, b: u128", "(r: u128)", ensures=[C("sat2", "r as int == sat128(a + b)", "C15", "C01")])],
           injects=[Inject("entry", """let ghost deps0 = deposits@; let ghost st0 = *state; let ghost c0 = state.coins@.coins; let ghost n0 = deposits@.len() as int;
                        let ghost legacy = deposit_legacy(state.network, state.height);"""),
                    Inject(("after_let", "total_lefts"), """proof { let accs = choose|accs: Seq<u128>| #[trigger] fold_decided(__clL1, __cL0@, 0u128, accs) && total_lefts == accs[__cL0@.len() as int];
                        lemma_fold_sat(__cL0@, out_vals(deps0, 0), accs, n0); }"""),
                    Inject(("after_let", "total_rights"), """proof { let accs = choose|accs: Seq<u128>| #[trigger] fold_decided(__clR1, __cR0@, 0u128, accs) && total_rights == accs[__cR0@.len() as int];
                        lemma_fold_sat(__cR0@, out_vals(deps0, 1), accs, n0); }"""),
                    Inject(("after_let", "sum_mtsqrt"), """proof { let accs = choose|accs: Seq<u128>| #[trigger] fold_decided(__clW1, __cW0@, 0u128, accs) && sum_mtsqrt == accs[__cW0@.len() as int];
                        lemma_fold_sat(__cW0@, dep_weights(deps0), accs, n0); }"""),
                    Inject(("after_let", "total_mtsqrt", 1), """let ghost tl = sat_sum(out_vals(deps0, 0), n0); let ghost tr = sat_sum(out_vals(deps0, 1), n0); let ghost div = total_mtsqrt as int;
                        proof { assert(div == dep_divisor(deps0));
                            if n0 > 0 { lemma_sat_sum_bounds(out_vals(deps0, 0), n0); lemma_sat_sum_bounds(out_vals(deps0, 1), n0);
                                assert(out_vals(deps0, 0)[0] >= 1 && out_vals(deps0, 1)[0] >= 1); assert(tl >= 1 && tr >= 1);
                                let a = spec_isqrt(tl); let b = spec_isqrt(tr);
                                assert(a >= 1) by (nonlinear_arith) requires a >= 0, tl < (a + 1) * (a + 1), tl >= 1;
                                assert(b >= 1) by (nonlinear_arith) requires b >= 0, tr < (b + 1) * (b + 1), tr >= 1;
                                assert(a * b >= 1) by (nonlinear_arith) requires a >= 1, b >= 1;
                                assert(div >= 1); } }"""),
                    Inject(("after_let", "total_liqs"), """let ghost minted = total_liqs as int; let ghost pools1 = state.pools@;
                        proof { assert(pool_deposited(pool_or_empty(st0.pools@, *pool), pools1[*pool], tl, tr, minted));
                            assert(pools1.dom() =~= st0.pools@.dom().insert(*pool));
                            assert(!legacy ==> deps_settled(c0, c0, deps0, 0, *pool, minted, div, st0.height)); }"""),
                    Inject(("before", "if (state.network == NetID::Mainnet"), "let ghost cmid = state.coins@.coins; let ghost d = cmid[cid(deps0[i], 0)];"),
                    Inject("end", """proof { let ws = dep_weights(deps0);
                        assert forall|q: int| 0 <= q < ws.len() implies #[trigger] ws[q] >= 0 by { let a = spec_isqrt(deps0[q].outputs@[0].value.0 as int); let b = spec_isqrt(deps0[q].outputs@[1].value.0 as int);
                            assert(a * b >= 0) by (nonlinear_arith) requires a >= 0, b >= 0; }
                        if n0 > 0 { lemma_sat_sum_bounds(ws, n0); lemma_shares_le(minted, ws, div, n0); }
                        assert(deposits_result(st0.pools@, c0, deps0, *pool, st0.height, legacy, state.pools@, state.coins@.coins, minted)); }""")],
           loops=[Loop(0,
               body_entry="let ghost cb = state.coins@.coins; let ghost i = __i as int; proof { assert(deposits@[i] == deps0[i]); }",
               body_exit="""proof { lemma_origin_insert(cb, deps0[i], 0, d);
                   if legacy { lemma_origin_remove(cmid, cid(*deposit, 1)); } else { lemma_origin_remove(cmid, cid(deps0[i], 1));
                       lemma_deps_settled_step(c0, cb, deps0, i, *pool, minted, div, st0.height, d); } }""",
               invariants=[
                   C("len", "deposits@.len() == n0 && __n == n0 && n0 == deps0.len() && deposits_pre(deps0, *pool) && (forall|j: int| __i <= j < n0 ==> #[trigger] deposits@[j] == deps0[j])", "C15"),
                   C("consts", "total_liqs as int == minted && total_mtsqrt as int == div && (n0 > 0 ==> div >= 1) && legacy == deposit_legacy(st0.network, st0.height)", "C15", "C01"),
                   C("settled", "!legacy ==> deps_settled(c0, state.coins@.coins, deps0, __i as int, *pool, minted, div, st0.height)", "C15", "C01"),
                   C("idsi", "forall|id: CoinID| #[trigger] state.coins@.coins.contains_key(id) ==> c0.contains_key(id) || exists|q: int| 0 <= q < __i && id == cid(#[trigger] deps0[q], 0)", "C15"),
                   C("youngi", "young(c0, state.coins@.coins, st0.height)", "C09"),
                   C("inv", "state.coins.wf() && (spec_tip906(st0) ==> counts_ok(state.coins@)) && origin_ok(state.coins@.coins) && (!spec_tip906(st0) ==> state.coins@.counts == st0.coins@.counts)", "C20"),
                   C("frame", "pool_phase_frame(st0, *state) && state.fee_pool == st0.fee_pool && state.pools@ == pools1 && state.height == st0.height && state.network == st0.network", "C15"),
               ])]),
        Fn(M, "process_withdrawals_for_single_pool", home="C15", implicit_props=("C09", "C15", "C16", "C01"), **mm_withdrawals_single(),
           rewrites=[("R3", 0), ("ROOT", "iter", 0, "slice_iter", False), ("ANF", "fold", 0, 2, {}, "Q")],
           closures=[Closure(0, "tx: &Transaction", "(r: u128)", requires=[C("has0", "tx.outputs@.len() > 0")], ensures=[C("v0", "r == tx.outputs@[0].value.0", "C15", "C01")]),
                     Closure(1, "a: u128, b: u128", "(r: u128)", ensures=[C("sat0", "r as int == sat128(a + b)", "C15", "C01")])],
           injects=[Inject("entry", "let ghost reqs0 = relevant_txx@; let ghost st0 = *state; let ghost c0 = state.coins@.coins; let ghost n0 = relevant_txx@.len() as int; let ghost vals = out_vals(relevant_txx@, 0);"),
                    Inject(("after_let", "total_liqs"), """let ghost q = total_liqs as int;
                        proof { let accs = choose|accs: Seq<u128>| #[trigger] fold_decided(__clQ1, __cQ0@, 0u128, accs) && total_liqs == accs[__cQ0@.len() as int];
                            lemma_fold_sat(__cQ0@, vals, accs, n0); lemma_sat_sum_bounds(vals, n0); assert(vals[0] >= 1); assert(q == true_sum(vals, n0) && q >= 1); }"""),
                    Inject(("after_let", "is_builtin"), """proof { broadcast use axiom_builtin_order, axiom_bytes_lt, axiom_denom_bytes_inj;
                        assert(is_builtin == is_builtin_key(*pool, spec_tip(st0.network, st0.height, 180000))); assert(pool_state == st0.pools@[*pool]); }"""),
                    Inject(("before", "return;"), "proof { assert(wd_refused(st0.pools@[*pool], q, is_builtin_key(*pool, spec_tip(st0.network, st0.height, 180000)))); }"),
                    Inject(("before", "let (total_left, total_write) = pool_state.withdraw(total_liqs);"), "proof { assert(!wd_refused(st0.pools@[*pool], q, is_builtin_key(*pool, spec_tip(st0.network, st0.height, 180000)))); }"),
                    Inject(("after_stmt", "state.pools.insert(*pool, pool_state);"), """let ghost wl = total_left as int; let ghost wr = total_write as int; let ghost pools1 = state.pools@;
                        proof { assert(pool_withdrawn(st0.pools@[*pool], pools1[*pool], q, wl, wr)); assert(pools1.dom() =~= st0.pools@.dom());
                            assert(wds_settled(c0, c0, reqs0, 0, *pool, wl, wr, q, st0.height)); }"""),
                    Inject(("before", "state.coins.insert_coin(\n            coinid_1"), "let ghost cmid = state.coins@.coins;"),
                    Inject("end", """proof { lemma_shares_le(wl, vals, q, n0); lemma_shares_le(wr, vals, q, n0);
                        assert(withdrawals_result(st0.pools@, c0, reqs0, *pool, st0.height, state.pools@, state.coins@.coins, wl, wr)); }""")],
           loops=[Loop(0,
               body_entry="let ghost cb = state.coins@.coins; let ghost i = __i as int; proof { assert(relevant_txx@[i] == reqs0[i]); lemma_sat_sum_bounds(vals, n0); assert(vals[i] == reqs0[i].outputs@[0].value.0); }",
               body_exit="""proof { let a = cmid[cid(reqs0[i], 0)]; let b = state.coins@.coins[cid(reqs0[i], 1)];
                   lemma_origin_insert(cb, reqs0[i], 0, a); lemma_origin_insert_extra(cmid, reqs0[i], 1, b);
                   assert(!cmid.contains_key(cid(reqs0[i], 1))) by { assert(!wd_id(reqs0, i, cid(reqs0[i], 1))) by {
                       if wd_id(reqs0, i, cid(reqs0[i], 1)) { let j = choose|j: int| 0 <= j < i && (cid(reqs0[i], 1) == cid(#[trigger] reqs0[j], 0) || cid(reqs0[i], 1) == cid(reqs0[j], 1)); assert(spec_txhash(reqs0[j]) != spec_txhash(reqs0[i])); } } }
                   lemma_wds_settled_step(c0, cb, reqs0, i, *pool, wl, wr, q, st0.height, a, b); }""",
               invariants=[
                   C("len", "relevant_txx@.len() == n0 && __n == n0 && n0 == reqs0.len() && withdrawals_pre(reqs0, *pool) && vals == out_vals(reqs0, 0) && (forall|j: int| __i <= j < n0 ==> #[trigger] relevant_txx@[j] == reqs0[j])", "C15"),
                   C("consts", "total_liqs as int == q && q == true_sum(vals, n0) && q >= 1 && total_left as int == wl && total_write as int == wr", "C15", "C01"),
                   C("fresh", "forall|j: int| 0 <= j < n0 ==> !c0.contains_key(cid(#[trigger] reqs0[j], 1))", "C20"),
                   C("settled", "wds_settled(c0, state.coins@.coins, reqs0, __i as int, *pool, wl, wr, q, st0.height)", "C15", "C01"),
                   C("inv", "state.coins.wf() && (spec_tip906(st0) ==> counts_ok(state.coins@)) && origin_ok(state.coins@.coins) && (!spec_tip906(st0) ==> state.coins@.counts == st0.coins@.counts)", "C20"),
                   C("frame", "pool_phase_frame(st0, *state) && state.fee_pool == st0.fee_pool && state.pools@ == pools1 && state.height == st0.height && state.network == st0.network", "C15"),
               ])]),
        Fn(S, "tip_902", impl="UnsealedState", mode="assume", **st_tip(180000)),
        Fn(M, "create_builtins", home="C16", implicit_props=("C09", "C16"),
           uses="group_core_axioms, axiom_builtin_order, axiom_bytes_lt, axiom_denom_bytes_inj",
           rewrites=[("MUTPARAM", "state", "st")],
           ensures=[C("exist", """(forall|k: PoolKey| #[trigger] res.pools@.contains_key(k) <==> (state.pools@.contains_key(k) || k == pk_mel_sym() || k == pk_mel_erg() || (spec_tip(state.network, state.height, 180000) && k == pk_erg_sym())))""", "C16"),
                    C("values", """forall|k: PoolKey| #[trigger] res.pools@.contains_key(k) ==> (if state.pools@.contains_key(k) && !(spec_tip(state.network, state.height, 180000) && k == pk_erg_sym() && state.pools@[k].liqs == 0)
                        { res.pools@[k] == state.pools@[k] } else { is_initial_pool(res.pools@[k]) })""", "C16", "C09",
                      note="absent built-in pools are seeded with 10^9/10^9/10^9; so is an ERG/SYM pool that exists but was emptied while it was still an ordinary pool (before TIP-902): fix 'an emptied ERG/SYM pool is seeded at TIP-902'"),
                    C("frame", "pool_phase_frame(state, res) && res.fee_pool == state.fee_pool && res.coins == state.coins", "C16", "C17")]),
        Fn(M, "process_deposits", home="C15", implicit_props=("C09", "C15", "C16", "C01"), **mm_process_deposits(),
           rewrites=[("MUTPARAM", "state", "st"), ("R3", 0)],
           injects=[Inject(("after_let", "deposit_reqs"), """let ghost s0 = state; let ghost c0 = state.coins@.coins; let ghost reqs = deposit_reqs@; let ghost legacy = deposit_legacy(state.network, state.height);
                        let ghost mut mint: spec_fn(PoolKey) -> int = |k: PoolKey| 0int;
                        proof { lemma_selected_deposits(s0, reqs); }"""),
                    Inject(("after_let", "pools"), """proof { assert(deposit_reqs@ == reqs);
                        assert(done_set(pools@, 0) =~= ISet::<PoolKey>::empty());
                        assert(deps_done(s0.pools@, c0, s0.height, legacy, reqs, done_set(pools@, 0), mint, st.pools@, st.coins@.coins)); }"""),
                    Inject("before_tail", """proof { let n = pools@.len() as int; let fin = mentioned_set(reqs);
                        assert(done_set(pools@, n) =~= fin) by {
                            assert forall|k2: PoolKey| done_set(pools@, n).contains(k2) <==> fin.contains(k2) by {
                                if done_set(pools@, n).contains(k2) { let j = choose|j: int| 0 <= j < n && pools@[j] == k2; assert(pools@.contains(k2)); }
                                if mentions(reqs, k2) { assert(pools@.contains(k2)); let j = choose|j: int| 0 <= j < pools@.len() && pools@[j] == k2; } } }
                        assert(selected(s0.transactions@, reqs, deposit_pred(s0)));
                        assert(liqs_mono(s0.pools@, st.pools@)) by { assert forall|k2: PoolKey| #[trigger] s0.pools@.contains_key(k2) implies st.pools@.contains_key(k2) && st.pools@[k2].liqs >= s0.pools@[k2].liqs by {
                            assert(st.pools@.contains_key(k2)); if fin.contains(k2) { assert(pool_or_empty(s0.pools@, k2) == s0.pools@[k2]); } } }
                        assert(deps_done(s0.pools@, c0, s0.height, legacy, reqs, fin, mint, st.pools@, st.coins@.coins));
                        assert(pools_ok(st.pools@)) by { assert forall|k2: PoolKey| #[trigger] st.pools@.contains_key(k2) implies
                            ((pool_live(st.pools@[k2]) && st.pools@[k2].liqs > 0) || (st.pools@[k2].lefts == 0 && st.pools@[k2].rights == 0 && st.pools@[k2].liqs == 0)) by {
                                if fin.contains(k2) { lemma_deposit_keeps_ok(s0.pools@, reqs, k2, st.pools@[k2], mint(k2), c0); } } }
                        assert(st.pools@.contains_key(pk_mel_sym()) && st.pools@.contains_key(pk_mel_erg()));
                        if spec_tip(s0.network, s0.height, 180000) { assert(st.pools@.contains_key(pk_erg_sym())); }
                        if fin.contains(pk_mel_sym()) { assert(st.pools@.contains_key(pk_mel_sym())); lemma_deposit_keeps_ok(s0.pools@, reqs, pk_mel_sym(), st.pools@[pk_mel_sym()], mint(pk_mel_sym()), c0); }
                        if fin.contains(pk_mel_erg()) { assert(st.pools@.contains_key(pk_mel_erg())); lemma_deposit_keeps_ok(s0.pools@, reqs, pk_mel_erg(), st.pools@[pk_mel_erg()], mint(pk_mel_erg()), c0); }
                        if fin.contains(pk_erg_sym()) { assert(st.pools@.contains_key(pk_erg_sym())); lemma_deposit_keeps_ok(s0.pools@, reqs, pk_erg_sym(), st.pools@[pk_erg_sym()], mint(pk_erg_sym()), c0); }
                        assert(builtins_live(st)); assert(state_inv(st)); }""")],
           loops=[Loop(0, binder="it",
               body_entry="""let ghost pb = st.pools@; let ghost cb = st.coins@.coins; let ghost i = it.index@ as int; let ghost k = *pool;
                   proof { assert(k == pools@[i]); assert(pools@.contains(k)); assert(mentions(reqs, k));
                       assert(!done_set(pools@, i).contains(k)) by { if done_set(pools@, i).contains(k) { let j = choose|j: int| 0 <= j < i && pools@[j] == k; assert(pools@[j] == pools@[i]); } }
                       lemma_pool_deps_pre(c0, reqs, k); lemma_selected_from(s0, reqs, deposit_pred(s0), k);
                       assert(st.pools@.contains_key(k) ==> pb[k] == s0.pools@[k]); }""",
               body_exit="""proof { let minted = choose|minted: int| #[trigger] deposits_result(pb, cb, pool_reqs(reqs, k), k, s0.height, legacy, st.pools@, st.coins@.coins, minted);
                       lemma_deps_done_step(s0.pools@, c0, s0.height, legacy, reqs, done_set(pools@, i), mint, pb, cb, k, st.pools@, st.coins@.coins, minted);
                       lemma_young_trans(c0, cb, st.coins@.coins, s0.height);
                       lemma_filter_mem(reqs, for_pool(k));
                       assert forall|id: CoinID| #[trigger] st.coins@.coins.contains_key(id) implies c0.contains_key(id) by { if !cb.contains_key(id) {
                           let rk = pool_reqs(reqs, k); let q = choose|q: int| 0 <= q < rk.len() && id == cid(#[trigger] rk[q], 0); assert(rk.contains(rk[q])); let j = choose|j: int| 0 <= j < reqs.len() && reqs[j] == rk[q]; } }
                       mint = |k2: PoolKey| if k2 == k { minted } else { mint(k2) };
                       assert(done_set(pools@, i + 1) =~= done_set(pools@, i).insert(k)) by {
                           assert forall|k2: PoolKey| done_set(pools@, i + 1).contains(k2) <==> done_set(pools@, i).insert(k).contains(k2) by {
                               if done_set(pools@, i + 1).contains(k2) { let j = choose|j: int| 0 <= j < i + 1 && pools@[j] == k2; if j < i { assert(done_set(pools@, i).contains(k2)); } }
                               if done_set(pools@, i).contains(k2) { let j = choose|j: int| 0 <= j < i && pools@[j] == k2; assert(0 <= j < i + 1 && pools@[j] == k2); }
                               if k2 == k { assert(0 <= i < i + 1 && pools@[i] == k2); } } } }""",
               invariants=[
                   C("ctx", """refs_of(it.seq(), pools@) && deposit_reqs@ == reqs && dep_reqs_ok(c0, reqs) && (forall|j: int| 0 <= j < reqs.len() ==> is_deposit_req(s0, #[trigger] reqs[j])) && c0 == s0.coins@.coins && pools@.no_duplicates()
                         && (forall|k: PoolKey| #[trigger] pools@.contains(k) <==> mentions(reqs, k)) && state_inv(s0) && builtins_live(s0) && pools_ok(s0.pools@) && deposit_weights_fit(s0.transactions@)
                         && selected(s0.transactions@, reqs, deposit_pred(s0)) && legacy == deposit_legacy(s0.network, s0.height)""", "C15"),
                   C("frame", "pool_phase_frame(s0, st) && st.fee_pool == s0.fee_pool && st.height == s0.height && st.network == s0.network", "C15", "C17"),
                   C("inv", "st.coins.wf() && (spec_tip906(s0) ==> counts_ok(st.coins@)) && origin_ok(st.coins@.coins) && (!spec_tip906(s0) ==> st.coins@.counts == s0.coins@.counts)", "C20"),
                   C("done", "deps_done(s0.pools@, c0, s0.height, legacy, reqs, done_set(pools@, it.index@ as int), mint, st.pools@, st.coins@.coins)", "C15", "C01", "C03"),
                   C("ids", "ids_sub(c0, st.coins@.coins)", "C16"),
                   C("youngd", "young(c0, st.coins@.coins, s0.height)", "C09"),
               ])]),
        Fn(M, "process_withdrawals", home="C15", implicit_props=("C09", "C15", "C16", "C01"), **mm_process_withdrawals(),
           rewrites=[("MUTPARAM", "state", "st"), ("R3", 0)],
           injects=[Inject(("after_let", "withdraw_reqs"), """let ghost s0 = state; let ghost c0 = state.coins@.coins; let ghost reqs = withdraw_reqs@; let ghost txs = state.transactions@; let ghost t902 = spec_tip(state.network, state.height, 180000);
                        let ghost mut wl: spec_fn(PoolKey) -> int = |k: PoolKey| 0int; let ghost mut wr: spec_fn(PoolKey) -> int = |k: PoolKey| 0int;
                        proof { lemma_selected_withdrawals(s0, reqs); }"""),
                    Inject(("after_let", "pools"), """proof { assert(withdraw_reqs@ == reqs);
                        assert(done_set(pools@, 0) =~= ISet::<PoolKey>::empty());
                        assert(wdone_set(pools@, 0, reqs, s0.pools@, t902) =~= ISet::<PoolKey>::empty());
                        assert(wds_done(s0.pools@, c0, s0.height, reqs, wdone_set(pools@, 0, reqs, s0.pools@, t902), wl, wr, st.pools@, st.coins@.coins)); }"""),
                    Inject("before_tail", """proof { let n = pools@.len() as int; let fin = wd_settled_set(reqs, s0.pools@, t902);
                        assert(wdone_set(pools@, n, reqs, s0.pools@, t902) =~= fin) by {
                            assert forall|k2: PoolKey| wdone_set(pools@, n, reqs, s0.pools@, t902).contains(k2) <==> fin.contains(k2) by {
                                if wdone_set(pools@, n, reqs, s0.pools@, t902).contains(k2) { let j = choose|j: int| 0 <= j < n && pools@[j] == k2; assert(pools@.contains(k2)); }
                                if fin.contains(k2) { assert(mentions(reqs, k2)); assert(pools@.contains(k2)); let j = choose|j: int| 0 <= j < pools@.len() && pools@[j] == k2; } } }
                        assert(selected(s0.transactions@, reqs, withdraw_pred(s0)));
                        assert(wds_done(s0.pools@, c0, s0.height, reqs, fin, wl, wr, st.pools@, st.coins@.coins));
                        assert forall|j: int| 0 <= j < reqs.len() implies fin.contains(swap_key(#[trigger] reqs[j])) || !c0.contains_key(cid(reqs[j], 1)) by {
                            lemma_selected_from(s0, reqs, withdraw_pred(s0), swap_key(reqs[j]));
                            assert(txs.contains_key(spec_txhash(reqs[j])) && txs[spec_txhash(reqs[j])] == reqs[j]); assert(reqs[j].outputs@.len() == 1); }
                        lemma_wds_young(s0.pools@, c0, s0.height, reqs, fin, wl, wr, st.pools@, st.coins@.coins);
                        assert(ids_new(c0, st.coins@.coins)) by { assert forall|id: CoinID| #[trigger] st.coins@.coins.contains_key(id) implies c0.contains_key(id) || tx_id(id) by {
                            if !c0.contains_key(id) { assert(wd_new(reqs, fin, id)); let j = choose|j: int| 0 <= j < reqs.len() && fin.contains(swap_key(#[trigger] reqs[j])) && id == cid(reqs[j], 1); assert(id.txhash == spec_txhash(reqs[j])); } } }
                        assert forall|k2: PoolKey| #[trigger] st.pools@.contains_key(k2) implies
                            ((pool_live(st.pools@[k2]) && st.pools@[k2].liqs > 0) || (st.pools@[k2].lefts == 0 && st.pools@[k2].rights == 0 && st.pools@[k2].liqs == 0)) && (is_builtin_key(k2, t902) && pool_live(s0.pools@[k2]) ==> pool_live(st.pools@[k2])) by {
                                assert(s0.pools@.contains_key(k2));
                                if fin.contains(k2) { lemma_selected_from(s0, reqs, withdraw_pred(s0), k2); lemma_pool_wds_pre(txs, s0.pools@, c0, reqs, k2, t902);
                                    lemma_sat_sum_bounds(out_vals(pool_reqs(reqs, k2), 0), pool_reqs(reqs, k2).len() as int); lemma_wd_q_pos(reqs, k2);
                                    assert(!wd_refused(s0.pools@[k2], wd_q(reqs, k2), is_builtin_key(k2, t902)));
                                    lemma_withdraw_keeps_ok(s0.pools@[k2], st.pools@[k2], wd_q(reqs, k2), wl(k2), wr(k2), is_builtin_key(k2, t902)); } }
                        assert(pools_ok(st.pools@));
                        assert(st.pools@.contains_key(pk_mel_sym()) && st.pools@.contains_key(pk_mel_erg()));
                        if spec_tip(s0.network, s0.height, 180000) { assert(st.pools@.contains_key(pk_erg_sym())); }
                        assert(builtins_live(st)); assert(state_inv(st)); }""")],
           loops=[Loop(0, binder="it",
               body_entry="""let ghost pb = st.pools@; let ghost cb = st.coins@.coins; let ghost i = it.index@ as int; let ghost k = *pool;
                   proof { assert(k == pools@[i]); assert(pools@.contains(k)); assert(mentions(reqs, k));
                       let ghost dn = wdone_set(pools@, i, reqs, s0.pools@, t902);
                       assert(!dn.contains(k)) by { if dn.contains(k) { let j = choose|j: int| 0 <= j < i && pools@[j] == k; assert(pools@[j] == pools@[i]); } }
                       lemma_selected_from(s0, reqs, withdraw_pred(s0), k); lemma_pool_wds_pre(txs, s0.pools@, c0, reqs, k, t902);
                       assert(pb[k] == s0.pools@[k]);
                       // coins under index 1 of this pool's requests are still absent: earlier steps only added ids of other pools' requests
                       lemma_filter_mem(reqs, for_pool(k));
                       assert forall|q: int| 0 <= q < pool_reqs(reqs, k).len() implies !cb.contains_key(cid(#[trigger] pool_reqs(reqs, k)[q], 1)) by {
                           let t = pool_reqs(reqs, k)[q]; assert(pool_reqs(reqs, k).contains(t)); let j = choose|j: int| 0 <= j < reqs.len() && reqs[j] == t;
                           if wd_new(reqs, dn, cid(t, 1)) { let j2 = choose|j2: int| 0 <= j2 < reqs.len() && dn.contains(swap_key(#[trigger] reqs[j2])) && cid(t, 1) == cid(reqs[j2], 1);
                               if j != j2 { if j < j2 { assert(spec_txhash(reqs[j]) != spec_txhash(reqs[j2])); } else { assert(spec_txhash(reqs[j2]) != spec_txhash(reqs[j])); } } assert(for_pool(k)(reqs[j])); } } }""",
               body_exit="""proof { let dn = wdone_set(pools@, i, reqs, s0.pools@, t902); let dn1 = wdone_set(pools@, i + 1, reqs, s0.pools@, t902);
                       lemma_sat_sum_bounds(out_vals(pool_reqs(reqs, k), 0), pool_reqs(reqs, k).len() as int);
                       if wd_refused(pb[k], wd_q(reqs, k), is_builtin_key(k, t902)) {
                           assert(st.pools@ == pb && st.coins@.coins == cb);
                           assert(dn1 =~= dn) by { assert forall|k2: PoolKey| dn1.contains(k2) <==> dn.contains(k2) by {
                               if dn1.contains(k2) { let j = choose|j: int| 0 <= j < i + 1 && pools@[j] == k2; if j == i { assert(k2 == k); assert(!wd_settles(s0.pools@, reqs, k, t902)); } else { assert(0 <= j < i && pools@[j] == k2); } }
                               if dn.contains(k2) { let j = choose|j: int| 0 <= j < i && pools@[j] == k2; assert(0 <= j < i + 1 && pools@[j] == k2); } } }
                       } else {
                       let (l, r) = choose|l: int, r: int| #[trigger] withdrawals_result(pb, cb, pool_reqs(reqs, k), k, s0.height, st.pools@, st.coins@.coins, l, r);
                       lemma_wds_done_step(s0.pools@, c0, s0.height, reqs, dn, wl, wr, pb, cb, k, st.pools@, st.coins@.coins, l, r);
                       wl = |k2: PoolKey| if k2 == k { l } else { wl(k2) }; wr = |k2: PoolKey| if k2 == k { r } else { wr(k2) };
                       assert(dn1 =~= dn.insert(k)) by {
                           assert forall|k2: PoolKey| dn1.contains(k2) <==> dn.insert(k).contains(k2) by {
                               if dn1.contains(k2) { let j = choose|j: int| 0 <= j < i + 1 && pools@[j] == k2; if j < i { assert(0 <= j < i && pools@[j] == k2); assert(dn.contains(k2)); } }
                               if dn.contains(k2) { let j = choose|j: int| 0 <= j < i && pools@[j] == k2; assert(0 <= j < i + 1 && pools@[j] == k2); }
                               if k2 == k { assert(0 <= i < i + 1 && pools@[i] == k2); assert(wd_settles(s0.pools@, reqs, k, t902)); } } } } }""",
               invariants=[
                   C("ctx", """refs_of(it.seq(), pools@) && withdraw_reqs@ == reqs && wd_reqs_ok(s0.pools@, c0, reqs) && c0 == s0.coins@.coins && txs == s0.transactions@ && t902 == spec_tip(s0.network, s0.height, 180000) && pools@.no_duplicates()
                         && (forall|k: PoolKey| #[trigger] pools@.contains(k) <==> mentions(reqs, k)) && state_inv(s0) && builtins_live(s0) && pools_ok(s0.pools@) && wd_env(txs, s0.pools@, c0, t902)
                         && selected(s0.transactions@, reqs, withdraw_pred(s0))""", "C15"),
                   C("frame", "pool_phase_frame(s0, st) && st.fee_pool == s0.fee_pool && st.height == s0.height && st.network == s0.network", "C15", "C17"),
                   C("inv", "st.coins.wf() && (spec_tip906(s0) ==> counts_ok(st.coins@)) && origin_ok(st.coins@.coins) && (!spec_tip906(s0) ==> st.coins@.counts == s0.coins@.counts)", "C20"),
                   C("done", "wds_done(s0.pools@, c0, s0.height, reqs, wdone_set(pools@, it.index@ as int, reqs, s0.pools@, t902), wl, wr, st.pools@, st.coins@.coins)", "C15", "C01", "C03"),
               ])]),
        Fn(M, "dosc_inflator", mode="assume", **mm_dosc_inflator()),
        Fn(M, "process_pegging", home="C16", implicit_props=("C09", "C16", "C01"), **mm_process_pegging(),
           uses="group_core_axioms, axiom_builtin_order, axiom_bytes_lt, axiom_denom_bytes_inj, num::rational::axiom_ratio_den_pos",
           rewrites=[("MUTPARAM", "state", "st")],
           injects=[Inject("entry", "let ghost s0 = state; proof { lemma_microergs_pos(state.height.0 as nat); lemma_two_pools_min(state); }"),
                    Inject(("after_let", "x_d"), """proof { let a = x_s@.n; let b = x_d@.d; let c = x_s@.d; let e = x_d@.n;
                        assert(a * b > 0) by (nonlinear_arith) requires a > 0, b > 0; assert(c * e > 0) by (nonlinear_arith) requires c > 0, e > 0; }"""),
                    Inject(("after_let", "x_sd"), "proof { assert(x_sd@.n > 0 && x_sd@.d > 0); }"),
                    Inject(("after_let", "konstant"), "proof { let a = sm_pool.lefts as int; let b = sm_pool.rights as int; assert(a * b >= 0) by (nonlinear_arith) requires a >= 0, b >= 0; }"),
                    Inject(("after_let", "desired_x_sm"), """proof { let a = spec_microergs(st.height.0 as nat) as int; let b = x_sd@.n; let c = x_sd@.d;
                        assert(a * b > 0) by (nonlinear_arith) requires a > 0, b > 0; assert(1_000_000 * c > 0) by (nonlinear_arith) requires c > 0; }"""),
                    Inject(("after_let", "desired_mel_sqr"), """proof { let k = konstant@; let a = desired_x_sm@.d; let b = desired_x_sm@.n;
                        assert(k * a >= 0) by (nonlinear_arith) requires k >= 0, a > 0; assert(1 * b > 0);
                        vstd::arithmetic::div_mod::lemma_div_pos_is_pos(desired_mel_sqr@.n, desired_mel_sqr@.d); }"""),
                    Inject(("after_let", "desired_sym_sqr"), """proof { let k = konstant@; let a = desired_x_sm@.n; let b = desired_x_sm@.d;
                        assert(k * a >= 0) by (nonlinear_arith) requires k >= 0, a > 0; assert(1 * b > 0);
                        vstd::arithmetic::div_mod::lemma_div_pos_is_pos(desired_sym_sqr@.n, desired_sym_sqr@.d); }"""),
                    Inject("before_tail", "proof { lemma_two_pools_min(st); assert(st.pools@.dom() =~= s0.pools@.dom()); }")]),
        Fn(M, "process_swaps", home="C15", implicit_props=("C09", "C15", "C16", "C01"), **mm_process_swaps(),
           rewrites=[("MUTPARAM", "state", "st"), ("R3", 0)],
           injects=[Inject(("after_let", "swap_reqs"), """let ghost s0 = state; let ghost c0 = state.coins@.coins; let ghost reqs = swap_reqs@;
                        proof { lemma_selected_swaps(s0, reqs); }"""),
                    Inject(("after_let", "pools"), """proof { assert(swap_reqs@ == reqs);
                        assert(done_set(pools@, 0) =~= ISet::<PoolKey>::empty());
                        assert(swaps_done(s0.pools@, c0, s0.height, reqs, done_set(pools@, 0), st.pools@, st.coins@.coins)); }"""),
                    Inject("before_tail", """proof { let n = pools@.len() as int; let fin = mentioned_set(reqs);
                        assert(done_set(pools@, n) =~= fin) by {
                            assert forall|k2: PoolKey| done_set(pools@, n).contains(k2) <==> fin.contains(k2) by {
                                if done_set(pools@, n).contains(k2) { let j = choose|j: int| 0 <= j < n && pools@[j] == k2; assert(pools@.contains(k2)); }
                                if mentions(reqs, k2) { assert(pools@.contains(k2)); let j = choose|j: int| 0 <= j < pools@.len() && pools@[j] == k2; } } }
                        assert(selected(s0.transactions@, reqs, swap_pred(s0)));
                        assert(liqs_mono(s0.pools@, st.pools@)) by { assert forall|k2: PoolKey| #[trigger] s0.pools@.contains_key(k2) implies st.pools@.contains_key(k2) && st.pools@[k2].liqs >= s0.pools@[k2].liqs by { assert(st.pools@.dom().contains(k2)); } }
                        assert(pools_ok(st.pools@)) by { assert forall|k2: PoolKey| #[trigger] st.pools@.contains_key(k2) implies
                            ((pool_live(st.pools@[k2]) && st.pools@[k2].liqs > 0) || (st.pools@[k2].lefts == 0 && st.pools@[k2].rights == 0 && st.pools@[k2].liqs == 0)) by {
                                assert(s0.pools@.contains_key(k2));
                                if fin.contains(k2) { lemma_pool_reqs_pre(s0.pools@, c0, reqs, k2); } } }
                        assert(builtins_live(st)); assert(state_inv(st)); }""")],
           loops=[Loop(0, binder="it",
               body_entry="""let ghost pb = st.pools@; let ghost cb = st.coins@.coins; let ghost i = it.index@ as int; let ghost k = *pool;
                   proof { assert(k == pools@[i]); assert(pools@.contains(k)); assert(mentions(reqs, k));
                       assert(!done_set(pools@, i).contains(k)) by { if done_set(pools@, i).contains(k) { let j = choose|j: int| 0 <= j < i && pools@[j] == k; assert(pools@[j] == pools@[i]); } }
                       lemma_pool_reqs_pre(s0.pools@, c0, reqs, k); assert(pb[k] == s0.pools@[k]); }""",
               body_exit="""proof { lemma_swaps_done_step(s0.pools@, c0, s0.height, reqs, done_set(pools@, i), pb, cb, k, st.pools@, st.coins@.coins);
                       assert(done_set(pools@, i + 1) =~= done_set(pools@, i).insert(k)) by {
                           assert forall|k2: PoolKey| done_set(pools@, i + 1).contains(k2) <==> done_set(pools@, i).insert(k).contains(k2) by {
                               if done_set(pools@, i + 1).contains(k2) { let j = choose|j: int| 0 <= j < i + 1 && pools@[j] == k2; if j < i { assert(done_set(pools@, i).contains(k2)); } }
                               if done_set(pools@, i).contains(k2) { let j = choose|j: int| 0 <= j < i && pools@[j] == k2; assert(0 <= j < i + 1 && pools@[j] == k2); }
                               if k2 == k { assert(0 <= i < i + 1 && pools@[i] == k2); } } } }""",
               invariants=[
                   C("ctx", """refs_of(it.seq(), pools@) && swap_reqs@ == reqs && swap_reqs_ok(s0.pools@, c0, reqs) && c0 == s0.coins@.coins && pools@.no_duplicates()
                         && (forall|k: PoolKey| #[trigger] pools@.contains(k) <==> mentions(reqs, k)) && state_inv(s0) && builtins_live(s0) && pools_ok(s0.pools@)""", "C15"),
                   C("frame", "pool_phase_frame(s0, st) && st.fee_pool == s0.fee_pool && st.height == s0.height && st.network == s0.network", "C15", "C17"),
                   C("inv", "st.coins.wf() && (spec_tip906(s0) ==> counts_ok(st.coins@)) && origin_ok(st.coins@.coins) && (!spec_tip906(s0) ==> st.coins@.counts == s0.coins@.counts)", "C20"),
                   C("done", "swaps_done(s0.pools@, c0, s0.height, reqs, done_set(pools@, it.index@ as int), st.pools@, st.coins@.coins)", "C15", "C01", "C03"),
               ])]),
        Fn(SM, "val_iter", impl="SmtMapping", mode="assume", wrap=SMT_WRAP, sig_subst=[("impl Iterator<Item = V> + '_", "Vec<V>")], **smt_val_iter()),
        Fn(M, "preseal_melmint", home="C16", implicit_props=("C09", "C16", "C15"), **mm_preseal(),
           uses="group_core_axioms, axiom_builtin_order, axiom_bytes_lt, axiom_denom_bytes_inj",
           injects=[Inject("entry", "let ghost s0 = state;"),
                    Inject(("after_let", "state", 0), """proof { assert(state.pools@.contains_key(pk_mel_sym())); assert(state.pools@.contains_key(pk_mel_erg()));
                        if spec_tip(s0.network, s0.height, 180000) { assert(state.pools@.contains_key(pk_erg_sym())); }
                        assert(builtins_live(state)); assert(pools_ok(state.pools@)) by { assert forall|k: PoolKey| #[trigger] state.pools@.contains_key(k) implies
                            ((pool_live(state.pools@[k]) && state.pools@[k].liqs > 0) || (state.pools@[k].lefts == 0 && state.pools@[k].rights == 0 && state.pools@[k].liqs == 0)) by {
                                if s0.pools@.contains_key(k) && !(spec_tip(s0.network, s0.height, 180000) && k == pk_erg_sym() && s0.pools@[k].liqs == 0) { assert(state.pools@[k] == s0.pools@[k]); } else { assert(is_initial_pool(state.pools@[k])); } } }
                        assert(state_inv(state)); lemma_two_pools_min(state);
                        assert(liqs_mono(s0.pools@, state.pools@)) by { assert forall|k: PoolKey| #[trigger] s0.pools@.contains_key(k) implies state.pools@.contains_key(k) && state.pools@[k].liqs >= s0.pools@[k].liqs by { assert(state.pools@.contains_key(k));
                            if spec_tip(s0.network, s0.height, 180000) && k == pk_erg_sym() && s0.pools@[k].liqs == 0 { assert(is_initial_pool(state.pools@[k])); } else { assert(state.pools@[k] == s0.pools@[k]); } } }
                        lemma_builtin_liqs(state); lemma_wd_env_mono(s0.transactions@, s0.pools@, s0.coins@.coins, state.pools@, state.coins@.coins, spec_tip(s0.network, s0.height, 180000)); }
                        let ghost s1 = state;
                        proof { assert(s1.coins == s0.coins); }"""),
                    Inject(("after_let", "state", 1), """proof { lemma_two_pools_min(state); lemma_builtin_liqs(state); lemma_wd_env_mono(s0.transactions@, s1.pools@, s1.coins@.coins, state.pools@, state.coins@.coins, spec_tip(s0.network, s0.height, 180000));
                        let rq = choose|reqs: Seq<Transaction>| #[trigger] selected(s1.transactions@, reqs, swap_pred(s1)) && swap_reqs_ok(s1.pools@, s1.coins@.coins, reqs) && swaps_done(s1.pools@, s1.coins@.coins, s1.height, reqs, mentioned_set(reqs), state.pools@, state.coins@.coins);
                        lemma_swaps_markers(s1.pools@, s1.coins@.coins, s1.height, rq, mentioned_set(rq), state.pools@, state.coins@.coins); } let ghost s2 = state;"""),
                    Inject(("after_let", "state", 3), """proof { lemma_two_pools_min(state); assert(ids_new(s0.coins@.coins, state.coins@.coins));
                        let (rq, wl, wr) = choose|reqs: Seq<Transaction>, wl: spec_fn(PoolKey) -> int, wr: spec_fn(PoolKey) -> int| #[trigger] selected(s3.transactions@, reqs, withdraw_pred(s3)) && wd_reqs_ok(s3.pools@, s3.coins@.coins, reqs) && #[trigger] wds_done(s3.pools@, s3.coins@.coins, s3.height, reqs, wd_settled_set(reqs, s3.pools@, spec_tip(s3.network, s3.height, 180000)), wl, wr, state.pools@, state.coins@.coins);
                        lemma_wds_markers(s3.pools@, s3.coins@.coins, s3.height, rq, wd_settled_set(rq, s3.pools@, spec_tip(s3.network, s3.height, 180000)), wl, wr, state.pools@, state.coins@.coins);
                        if !deposit_legacy(s0.network, s0.height) { assert(markers_kept(s0.coins@.coins, state.coins@.coins)); } } let ghost s4 = state;"""),
                    Inject(("after_let", "state", 2), """let ghost s3 = state; proof { if !deposit_legacy(s2.network, s2.height) {
                        let (rq, mt) = choose|reqs: Seq<Transaction>, mint: spec_fn(PoolKey) -> int| #[trigger] selected(s2.transactions@, reqs, deposit_pred(s2)) && dep_reqs_ok(s2.coins@.coins, reqs) && #[trigger] deps_done(s2.pools@, s2.coins@.coins, s2.height, deposit_legacy(s2.network, s2.height), reqs, mentioned_set(reqs), mint, state.pools@, state.coins@.coins);
                        lemma_deps_markers(s2.pools@, s2.coins@.coins, s2.height, rq, mentioned_set(rq), mt, state.pools@, state.coins@.coins); } }"""), Inject(("after_let", "state", 2), "proof { lemma_two_pools_min(state); lemma_builtin_liqs(state); lemma_wd_env_mono(s0.transactions@, s2.pools@, s2.coins@.coins, state.pools@, state.coins@.coins, spec_tip(s0.network, s0.height, 180000)); }"), Inject(("after_let", "state", 3), "proof { lemma_two_pools_min(state); }")]),
    ],
)
