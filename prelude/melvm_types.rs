// A-U256: ethnum::U256 as an opaque 256-bit unsigned integer (view: nat < 2^256).  Hand-written ASSUMED contracts.
#[verifier::external_body] #[derive(Clone, Copy)] pub struct U256 { _p: [u128; 2] }
impl View for U256 { type V = nat; uninterp spec fn view(&self) -> nat; }
pub broadcast axiom fn axiom_u256_range(x: U256) ensures (#[trigger] x@) < vstd::arithmetic::power2::pow2(256);
pub broadcast axiom fn axiom_u256_ext(a: U256, b: U256) requires #[trigger] a@ == #[trigger] b@ ensures a == b;
