// A-NUM: num 0.4 (BigInt, BigRational = Ratio<BigInt>, Ratio<u128>, integer::Roots) and the std integer methods vstd lacks.
// Hand-written ASSUMED contracts: exact integer / rational arithmetic; every panic condition is a precondition.
use vstd::arithmetic::power::pow;
pub assume_specification [u128::pow] (b: u128, e: u32) -> (r: u128)
    requires pow(b as int, e as nat) <= u128::MAX      // overflow panics in debug builds (wraps in release)
    ensures r as int == pow(b as int, e as nat);

pub assume_specification [u128::overflowing_add] (a: u128, b: u128) -> (r: (u128, bool))
    ensures r.0 as int == (a + b) % 0x1_0000_0000_0000_0000_0000_0000_0000_0000int, r.1 == (a + b > u128::MAX);

pub mod num {
    use super::*;
    #[verifier::external_body] pub struct BigInt { _p: u8 }
    impl View for BigInt { type V = int; uninterp spec fn view(&self) -> int; }
    impl Clone for BigInt { #[verifier::external_body] fn clone(&self) -> (r: Self) ensures r@ == self@ { unimplemented!() } }
    impl FromSpecImpl<u128> for BigInt { open spec fn obeys_from_spec() -> bool { false } uninterp spec fn from_spec(v: u128) -> BigInt; }
    impl FromSpecImpl<u32> for BigInt { open spec fn obeys_from_spec() -> bool { false } uninterp spec fn from_spec(v: u32) -> BigInt; }
    impl From<u32> for BigInt { #[verifier::external_body] fn from(v: u32) -> (r: BigInt) ensures r@ == v as int { unimplemented!() } }
    impl FromSpecImpl<i32> for BigInt { open spec fn obeys_from_spec() -> bool { false } uninterp spec fn from_spec(v: i32) -> BigInt; }
    impl From<i32> for BigInt { #[verifier::external_body] fn from(v: i32) -> (r: BigInt) ensures r@ == v as int { unimplemented!() } }
    impl From<u128> for BigInt { #[verifier::external_body] fn from(v: u128) -> (r: BigInt) ensures r@ == v as int { unimplemented!() } }
    impl MulSpecImpl<BigInt> for BigInt { open spec fn obeys_mul_spec() -> bool { false } open spec fn mul_req(self, rhs: BigInt) -> bool { true } uninterp spec fn mul_spec(self, rhs: BigInt) -> BigInt; }
    impl core::ops::Mul<BigInt> for BigInt { type Output = BigInt; #[verifier::external_body] fn mul(self, rhs: BigInt) -> (r: BigInt) ensures r@ == self@ * rhs@ { unimplemented!() } }
    /// BigInt `/`: truncating division, panics on a zero divisor
    impl DivSpecImpl<BigInt> for BigInt { open spec fn obeys_div_spec() -> bool { false } open spec fn div_req(self, rhs: BigInt) -> bool { rhs@ != 0 } uninterp spec fn div_spec(self, rhs: BigInt) -> BigInt; }
    impl core::ops::Div<BigInt> for BigInt { type Output = BigInt; #[verifier::external_body] fn div(self, rhs: BigInt) -> (r: BigInt)
        ensures self@ >= 0 && rhs@ > 0 ==> r@ == self@ / rhs@ { unimplemented!() } }
    impl BigInt {
        #[verifier::external_body] pub fn pow(&self, e: u32) -> (r: BigInt) ensures r@ == pow(self@, e as nat), e == 2 ==> r@ == self@ * self@ { unimplemented!() }
        /// integer square root (Roots::sqrt): panics on a negative argument
        #[verifier::external_body] pub fn sqrt(&self) -> (r: BigInt) requires self@ >= 0 ensures r@ >= 0, r@ * r@ <= self@ < (r@ + 1) * (r@ + 1) { unimplemented!() }
        #[verifier::external_body] pub fn to_biguint(&self) -> (r: Option<BigInt>) ensures self@ >= 0 ==> r is Some && r->Some_0@ == self@, self@ < 0 ==> r is None { unimplemented!() }
    }
    #[derive(Debug)] pub struct TryFromBigIntError {}
    /// TryFrom<BigInt> / TryFrom<&BigInt> for u128: succeeds iff the value is in range
    pub open spec fn big_to_u128(v: int) -> Result<u128, TryFromBigIntError> { if 0 <= v <= u128::MAX { Ok(v as u128) } else { Err(TryFromBigIntError {}) } }
    impl TryFromSpecImpl<BigInt> for u128 { open spec fn obeys_try_from_spec() -> bool { true } open spec fn try_from_spec(v: BigInt) -> Result<u128, TryFromBigIntError> { big_to_u128(v@) } }
    impl TryFrom<BigInt> for u128 { type Error = TryFromBigIntError; #[verifier::external_body] fn try_from(v: BigInt) -> (r: Result<u128, TryFromBigIntError>) { unimplemented!() } }
    impl<'a> TryFromSpecImpl<&'a BigInt> for u128 { open spec fn obeys_try_from_spec() -> bool { true } open spec fn try_from_spec(v: &'a BigInt) -> Result<u128, TryFromBigIntError> { big_to_u128(v@) } }
    impl<'a> TryFrom<&'a BigInt> for u128 { type Error = TryFromBigIntError; #[verifier::external_body] fn try_from(v: &'a BigInt) -> (r: Result<u128, TryFromBigIntError>) { unimplemented!() } }

    pub mod integer { pub trait Roots {} }
    pub mod rational {
        use super::*;
        /// Ratio<T> / BigRational.  View: SOME fraction n/d (d > 0) denoting its value -- not necessarily the reduced one; the
        /// repo only ever consumes floor(), whose result does not depend on the representative.
        pub struct Frac { pub n: int, pub d: int }
        #[verifier::external_body] #[verifier::reject_recursive_types(T)] pub struct Ratio<T> { _p: core::marker::PhantomData<T> }
        impl<T> View for Ratio<T> { type V = Frac; uninterp spec fn view(&self) -> Frac; }
        pub broadcast axiom fn axiom_ratio_den_pos<T>(r: Ratio<T>) ensures (#[trigger] r@).d > 0;
        /// same rational number
        pub open spec fn frac_eq(a: Frac, b: Frac) -> bool { a.n * b.d == b.n * a.d }
        impl<T> Clone for Ratio<T> { #[verifier::external_body] fn clone(&self) -> (r: Self) ensures r@ == self@ { unimplemented!() } }
        pub trait RatioElem: Sized { spec fn val(&self) -> int; }
        impl RatioElem for u128 { open spec fn val(&self) -> int { *self as int } }
        impl RatioElem for BigInt { open spec fn val(&self) -> int { self@ } }
        impl<T: RatioElem> Ratio<T> {
            /// Ratio::new reduces the fraction and panics on a zero denominator
            #[verifier::external_body] pub fn new(n: T, d: T) -> (r: Ratio<T>) requires d.val() != 0 ensures d.val() > 0 ==> r@ == (Frac { n: n.val(), d: d.val() }) { unimplemented!() }
        }
        impl Ratio<u128> {
            /// numer()/denom(): the reduced representative (n', d'): n'/d' is the same rational, d' > 0
            #[verifier::external_body] pub fn numer(&self) -> (r: &u128) ensures *r == reduced(*self).0 { unimplemented!() }
            #[verifier::external_body] pub fn denom(&self) -> (r: &u128) ensures *r == reduced(*self).1 { unimplemented!() }
        }
        pub broadcast axiom fn axiom_ratio_u128_nonneg(r: Ratio<u128>) ensures (#[trigger] r@).n >= 0;
        pub uninterp spec fn reduced(r: Ratio<u128>) -> (u128, u128);
        pub broadcast axiom fn axiom_reduced(r: Ratio<u128>) ensures (#[trigger] reduced(r)).1 > 0, frac_eq(Frac { n: reduced(r).0 as int, d: reduced(r).1 as int }, r@);
        impl Ratio<BigInt> {
            /// floor(): an integral ratio (denominator 1)
            #[verifier::external_body] pub fn floor(&self) -> (r: Ratio<BigInt>) ensures r@ == (Frac { n: self@.n / self@.d, d: 1 }) { unimplemented!() }
            /// round() (half away from zero), ceil(), trunc(): the other integral roundings of num-rational, for non-negative ratios
            #[verifier::external_body] pub fn round(&self) -> (r: Ratio<BigInt>) ensures self@.n >= 0 ==> r@ == (Frac { n: (2 * self@.n + self@.d) / (2 * self@.d), d: 1 }) { unimplemented!() }
            #[verifier::external_body] pub fn ceil(&self) -> (r: Ratio<BigInt>) ensures r@ == (Frac { n: (self@.n + self@.d - 1) / self@.d, d: 1 }) { unimplemented!() }
            #[verifier::external_body] pub fn trunc(&self) -> (r: Ratio<BigInt>) ensures self@.n >= 0 ==> r@ == (Frac { n: self@.n / self@.d, d: 1 }) { unimplemented!() }
            /// numerator of the reduced form; only ever called right after floor() in the repo (denominator 1)
            #[verifier::external_body] pub fn numer(&self) -> (r: &BigInt) requires self@.d == 1 ensures r@ == self@.n { unimplemented!() }
            #[verifier::external_body] pub fn recip(&self) -> (r: Ratio<BigInt>) requires self@.n != 0 ensures self@.n > 0 ==> r@ == (Frac { n: self@.d, d: self@.n }) { unimplemented!() }
        }
        impl FromSpecImpl<BigInt> for Ratio<BigInt> { open spec fn obeys_from_spec() -> bool { false } uninterp spec fn from_spec(v: BigInt) -> Ratio<BigInt>; }
        impl From<BigInt> for Ratio<BigInt> { #[verifier::external_body] fn from(v: BigInt) -> (r: Ratio<BigInt>) ensures r@ == (Frac { n: v@, d: 1 }) { unimplemented!() } }
        impl FromSpecImpl<(BigInt, BigInt)> for Ratio<BigInt> { open spec fn obeys_from_spec() -> bool { false } uninterp spec fn from_spec(v: (BigInt, BigInt)) -> Ratio<BigInt>; }
        /// From<(T, T)> = Ratio::new: panics on a zero denominator
        impl From<(BigInt, BigInt)> for Ratio<BigInt> { #[verifier::external_body] fn from(v: (BigInt, BigInt)) -> (r: Ratio<BigInt>) ensures v.1@ > 0 ==> r@ == (Frac { n: v.0@, d: v.1@ }) { unimplemented!() } }
        impl MulSpecImpl<Ratio<BigInt>> for Ratio<BigInt> { open spec fn obeys_mul_spec() -> bool { false } open spec fn mul_req(self, rhs: Ratio<BigInt>) -> bool { true } uninterp spec fn mul_spec(self, rhs: Ratio<BigInt>) -> Ratio<BigInt>; }
        impl core::ops::Mul<Ratio<BigInt>> for Ratio<BigInt> { type Output = Ratio<BigInt>; #[verifier::external_body] fn mul(self, rhs: Ratio<BigInt>) -> (r: Ratio<BigInt>)
            ensures r@ == (Frac { n: self@.n * rhs@.n, d: self@.d * rhs@.d }) { unimplemented!() } }
        impl DivSpecImpl<Ratio<BigInt>> for Ratio<BigInt> { open spec fn obeys_div_spec() -> bool { false } open spec fn div_req(self, rhs: Ratio<BigInt>) -> bool { rhs@.n != 0 } uninterp spec fn div_spec(self, rhs: Ratio<BigInt>) -> Ratio<BigInt>; }
        impl core::ops::Div<Ratio<BigInt>> for Ratio<BigInt> { type Output = Ratio<BigInt>; #[verifier::external_body] fn div(self, rhs: Ratio<BigInt>) -> (r: Ratio<BigInt>)
            ensures rhs@.n > 0 ==> r@ == (Frac { n: self@.n * rhs@.d, d: self@.d * rhs@.n }) { unimplemented!() } }
    }
    pub type BigRational = rational::Ratio<BigInt>;
    /// BigUint is modelled by the same unbounded-integer type (only From, *, Ratio::new and the conversion back to u128 are used on it;
    /// BigUint subtraction, which panics below zero, is not)
    pub type BigUint = BigInt;
}
/// u128::sqrt (num::integer::Roots): floor of the square root
#[verifier::external_body]
pub fn u128_sqrt(x: u128) -> (r: u128) ensures (r as int) * (r as int) <= x as int, (x as int) < (r as int + 1) * (r as int + 1) { unimplemented!() }
/// num::integer::Roots::sqrt on u128 (method syntax): the integer square root, a function of its argument (A-NUM)
pub uninterp spec fn spec_isqrt(x: int) -> int;
pub broadcast axiom fn axiom_isqrt(x: int) requires x >= 0 ensures (#[trigger] spec_isqrt(x)) >= 0, spec_isqrt(x) * spec_isqrt(x) <= x, x < (spec_isqrt(x) + 1) * (spec_isqrt(x) + 1);
pub trait RootsExt { fn sqrt(&self) -> (r: u128); }
impl RootsExt for u128 { #[verifier::external_body] fn sqrt(&self) -> (r: u128) ensures r as int == spec_isqrt(*self as int) { unimplemented!() } }
