#!/bin/sh
# usage: realtest.sh <demo.rs> [git-rev]  -- run a real-code demonstration test in a scratch worktree of /repo (removed afterwards)
demo=$1; rev=${2:-WORKTREE}
d=$(mktemp -d /tmp/rt.XXXXXX); rmdir $d
if [ "$rev" = WORKTREE ]; then
  mkdir -p $d && rsync -a --exclude target --exclude .git /repo/ $d/
else
  git -C /repo worktree add -q --detach $d $rev || exit 3
fi
cp "$demo" $d/src/verif_demo.rs
printf '\n#[cfg(test)]\nmod verif_demo;\n' >> $d/src/lib.rs
# reuse the dependency build of /repo by pointing at a private copy-on-write target dir
(cd $d && CARGO_TARGET_DIR=/tmp/rt_target CARGO_NET_OFFLINE=true cargo test --offline --lib verif_demo 2>&1 | grep -E "^test |test result|panicked|assert|refused|overflow|weights|pool|exchanged" | head -40)
if [ "$rev" = WORKTREE ]; then rm -rf $d; else git -C /repo worktree remove --force $d; fi
