from spec import *
from _contracts import *

A = "src/state/applytx.rs"
S = "src/state.rs"
OUT_PROOF = """proof {
    let opts = choose|opts: Seq<Option<(CoinID, CoinDataHeight)>>| #[trigger] filter_map_decided(__cl2, __c1@, __c2@, opts);
    assert forall|i: int| 0 <= i < opts.len() implies created_item_ok(*tx, height, i, #[trigger] opts[i]) by {
        assert(call_ensures(__cl2, (__c1@[i],), opts[i])); assert(*__c0@[i] == tx.outputs@[i]); assert(__c1@[i].0 == i);
    }
    lemma_created_from_pairs(*tx, height, opts);
}"""
UNIT = Unit(
    name="applychk", lemma_obs=['lemma_tx_conserves'], uses="group_core_axioms",
    prelude=["core.rs", "raw.rs", "iter.rs", "crypto.rs", "state_abs.rs", "melvm_abs.rs", "txmethods.rs"],
    lemmas=["sums.rs", "iterlem.rs", "coinsview.rs", "header.rs", "txroot_opaque.rs", "seal_opaque.rs", "tips.rs", "apply.rs", "apply_c04.rs", "stateinv.rs", "batch_opaque.rs", "sealenv_opaque.rs", "chaininv.rs", "chainlem.rs", "feemul.rs", "seal_def.rs"],
    items=[
        TypeItem(S, "struct", "UnsealedState"),
        TypeItem(S, "enum", "StateError", derive="#[derive(Clone, Copy, PartialEq, Eq, Structural)]"),
        TypeItem(S, "struct", "SealedState", subst=[("(UnsealedState<C>, Option<ProposerAction>)", "(pub UnsealedState<C>, pub Option<ProposerAction>)")]),
        Raw("impl<C: ContentAddrStore> Clone for UnsealedState<C> { #[verifier::external_body] fn clone(&self) -> (r: Self) ensures r == *self { unimplemented!() } }"),
        TypeItem("lib/melvm/src/lib.rs", "struct", "CovenantEnv"),
        Fn("src/smtmapping.rs", "get", impl="SmtMapping", mode="assume", wrap=SMT_WRAP, **smt_get()),
        Fn("lib/tip911-stakeset/src/lib.rs", "get_stake", impl="StakeSet", mode="assume", **ss_get_stake()),
        Fn("lib/tip911-stakeset/src/lib.rs", "is_frozen", impl="StakeSet", mode="assume", **ss_is_frozen()),
        Fn(S, "seal", impl="UnsealedState", mode="assume", sig_subst=[("mut self", "self")], **st_seal_full()),
        Fn(S, "header", impl="SealedState", mode="assume", **st_header_full()),
        Fn("lib/melvm/src/lib.rs", "from_bytes", impl="Covenant", mode="assume", **mv_from_bytes()),
        Fn("lib/melvm/src/lib.rs", "execute", impl="Covenant", mode="assume", **mv_execute()),
        Fn("lib/melvm/src/value.rs", "into_bool", impl="Value", mode="assume", **mv_into_bool()),
        Fn(A, "coin_is_denom", home="C13", implicit_props=("C09",), **ap_coin_is_denom()),
        Fn(A, "stake_is_consistent", home="C13", implicit_props=("C09", "C13"), **ap_stake_consistent()),
        Fn(A, "check_tx_coins_balanced", home="C01", implicit_props=("C09", "C01"), **ap_balanced(),
           sig_subst=[("HashMap<Denom, u128, BuildHasherDefault<FxHasher>>", "FxHashMap<Denom, u128>")],
           rewrites=[("R8",)],
           loops=[Loop(0, binder="it", body_entry="proof { assert(it.seq()[it.index@ as int] == (currency, value)); assert(out_coins@.contains_key(*currency) && out_coins@[*currency] == *value); }", invariants=[
               C("prefix_ok", """forall|q: int| 0 <= q < it.index@ ==> ({ let d = *(#[trigger] it.seq()[q]).0; let v = *it.seq()[q].1;
                    d == Denom::NewCustom || (tx_kind == TxKind::DoscMint && d == Denom::Erg) || (in_coins@.contains_key(d) && v.0 == in_coins@[d]) })""", "C01", "C02", "C09", "C18"),
               C("kind", "tx_kind != TxKind::Faucet", "C01"),
               C("entries", "forall|q: int| 0 <= q < it.seq().len() ==> out_coins@.contains_key(*(#[trigger] it.seq()[q]).0) && out_coins@[*it.seq()[q].0] == *it.seq()[q].1", "C01"),
           ])]),
        Fn(A, "load_stake_info", home="C13", implicit_props=("C09", "C13"), **ap_load_stake_info(),
           rewrites=[("R8",)],
           closures=[Closure(0, "_e: stdcode::DeError", "(r: StateError)", ensures=[C("maperr", "r is MalformedTx", "C13")])],
           injects=[Inject("entry", "let ghost ep = (this.height.0 / 200000) as u64;")],
           loops=[Loop(0, binder="it", body_entry="proof { assert(*tx == txx@[it.index@ as int]); }", invariants=[
               C("seq", "refs_of(it.seq(), txx@) && ep == (this.height.0 / 200000) as u64", "C13"),
               C("reg", "!stake_legacy(this.network, this.height) ==> stakes_of(txx@, it.index@ as int, ep, accum@)", "C13"),
               C("leg", "stake_legacy(this.network, this.height) ==> accum@ == Map::<TxHash, StakeDoc>::empty()", "C13"),
               C("mal", "!stake_legacy(this.network, this.height) ==> forall|q: int| 0 <= q < it.index@ ==> !stake_malformed(#[trigger] txx@[q])", "C13"),
           ])]),
        Fn(A, "validate_tx_scripts", home="C04", implicit_props=("C09", "C04"), **ap_validate_tx_scripts(),
           closures=[Closure(0, "_e: DecodeError", "(r: StateError)", ensures=[C("maperr", "r is MalformedTx", "C04")]),
                     Closure(1, "v: Value", "(r: bool)", ensures=[C("truth", "r == spec_truthy(v)", "C04")])]),
        Fn(A, "output_coins_from_tx", home="C02", implicit_props=("C09", "C02"), **ap_output_coins_from_tx(),
           rewrites=[("ANF", "collect", 0, 4, {2: OUT_PROOF})],
           closures=[Closure(0, "p: (usize, &CoinData)", "(r: Option<(CoinID, CoinDataHeight)>)", first_stmt="let (i, coin_data) = p;", ensures=[
               C("item", """({ let i = p.0; let coin_data = p.1; match r { Some(p) => i < 256 ==> (p.0 == cid(*tx, i as int) && coin_data.covhash != spec_coin_destroy() && p.1.height == height && p.1.coin_data.covhash == coin_data.covhash
                                    && p.1.coin_data.value == coin_data.value && p.1.coin_data.additional_data == coin_data.additional_data
                                    && p.1.coin_data.denom == (if coin_data.denom == Denom::NewCustom { Denom::Custom(spec_txhash(*tx)) } else { coin_data.denom })),
                                   None => coin_data.covhash == spec_coin_destroy() } })""", "C02", "C01")])]),
        Fn(A, "check_tx_validity", home="C04", implicit_props=("C09", "C04", "C13", "C01"), **ap_check_tx_validity(),
           rewrites=[("R4", 0)],
           closures=[Closure(0, "", "(r: Header)", requires=[C("fallback", "seal_fallback_pre(*this)", note="the fallback seals a clone of this very state: it needs what sealing needs")],
                             ensures=[C("sealhdr", "r == spec_header(spec_seal(*this, None))", "C04")])],
           injects=[Inject("entry", "let ghost rel = relevant_coins@;"),
                    Inject(("after_let", "last_header"), "proof { assert(last_header == spec_last_header(*this)); }"),
                    Inject(("before", "let amount"), """proof { let n = spend_idx as int;
                        lemma_fsum_take_le(tx.inputs@, in_value(rel), n); lemma_fsum_take_le(tx.inputs@, in_value(rel), n + 1);
                        lemma_in_sums_bound(tx.inputs@, rel, n, coin_data.coin_data.denom); lemma_fsum_take_next(tx.inputs@, in_value(rel), n); }""")],
           loops=[Loop(0, invariants=[
               C("ctx", "rel == relevant_coins@ && scripts@ == spec_covenants_map(*tx) && last_header == spec_last_header(*this) && fsum(tx.inputs@, in_value(rel)) <= u128::MAX", "C04"),
               C("small_i", "tx.inputs@.len() <= 256", "C04", envelope_of="F-C04-index"),
               C("exist_i", "forall|i: int| 0 <= i < spend_idx ==> rel.contains_key(#[trigger] tx.inputs@[i])", "C02"),
               C("unlocked_i", "!lock_legacy(this.network, this.height) ==> forall|i: int| 0 <= i < spend_idx ==> !new_stakes@.contains_key((#[trigger] tx.inputs@[i]).txhash) && !this.stakes@.contains_key(tx.inputs@[i].txhash)", "C13", "C02"),
               C("approved_i", "forall|i: int| 0 <= i < spend_idx ==> script_approves(spec_covenants_map(*tx), rel[tx.inputs@[i]].coin_data.covhash, *tx, #[trigger] env_of(*tx, rel, i, spec_last_header(*this)))", "C04", "C02"),
               C("approved_first_i", "forall|i: int| 0 <= i < spend_idx && first_occ(*tx, rel, i) ==> script_approves(spec_covenants_map(*tx), rel[tx.inputs@[i]].coin_data.covhash, *tx, #[trigger] env_of(*tx, rel, i, spec_last_header(*this)))", "C04", "C02", "C19"),
               C("good", "forall|a: Address| good_scripts@.contains(a) ==> exists|i: int| 0 <= i < spend_idx && #[trigger] rel[tx.inputs@[i]].coin_data.covhash == a", "C04", "C02"),
               C("sums", "in_coins@ == in_sums(tx.inputs@, rel, spend_idx as int)", "C01"),
               C("dist", "forall|a: int, b: int| 0 <= a < b < tx.inputs@.len() && rel.contains_key(tx.inputs@[a]) && rel.contains_key(tx.inputs@[b]) ==> rel[tx.inputs@[a]].coin_data.covhash != rel[tx.inputs@[b]].coin_data.covhash", "C04", envelope_of="F-C04-cache"),
           ])]),
    ],
    findings=[
        Finding("F-C04-cache", A + "::check_tx_validity", ("C04",), [], expect_clause=["approved_i", "approved"], must_hold=["exist", "unlocked", "balanced", "locked_err", "errkind", "approved_first", "exist_i", "unlocked_i", "sums", "approved_first_i", "good"],
                what="good_scripts caches approval by covenant hash: a second input locked by the same covenant is never executed with its own environment (id, value, index)"),
        Finding("F-C04-index", A + "::check_tx_validity", ("C04",), [], expect_clause=["pos"], must_hold=["exist", "unlocked", "balanced", "locked_err", "errkind", "approved_first", "exist_i", "unlocked_i", "sums", "approved_first_i", "good"],
                what="the covenant environment's spender index is `position as u8`: from the 257th input on the reported position wraps around"),
    ],
)
