// Concrete view of the real CoinMapping over the raw SMT (hand-written).
pub open spec fn raw_view(raw: IMap<Seq<u8>, Seq<u8>>) -> CoinsView {
    CoinsView {
        coins: IMap::new(|id: CoinID| raw[k_coin(id)].len() > 0, |id: CoinID| de_cdh(raw[k_coin(id)]).unwrap()),
        counts: IMap::new(|a: Address| raw[k_count(a)].len() > 0, |a: Address| de_u64(raw[k_count(a)]).unwrap() as nat),
    }
}
/// type invariant of the coin tree: every coin entry decodes as a coin, every count entry as a u64
pub open spec fn raw_wf(raw: IMap<Seq<u8>, Seq<u8>>) -> bool {
    &&& forall|id: CoinID| (#[trigger] raw[k_coin(id)]).len() > 0 ==> de_cdh(raw[k_coin(id)]) is Some
    &&& forall|a: Address| (#[trigger] raw[k_count(a)]).len() > 0 ==> de_u64(raw[k_count(a)]) is Some
    &&& raw_closed(raw)
}
/// nothing foreign in the coin tree: every non-empty entry sits under a coin key or a count key
pub open spec fn raw_closed(raw: IMap<Seq<u8>, Seq<u8>>) -> bool { forall|k: Seq<u8>| #[trigger] raw[k].len() > 0 ==> is_coin_key(k) || is_count_key(k) }
pub open spec fn is_count_key(k: Seq<u8>) -> bool { exists|a: Address| k_count(a) == k }
/// a well-formed coin tree without count entries holds coin entries only (what the TIP-906 activation rebuild relies on)
pub proof fn lemma_only_coins(raw: IMap<Seq<u8>, Seq<u8>>)
    requires raw_wf(raw), raw_view(raw).counts == IMap::<Address, nat>::empty()
    ensures raw_only_coins(raw)
{
    assert forall|k: Seq<u8>| #[trigger] raw[k].len() > 0 implies is_coin_key(k) by {
        if !is_coin_key(k) { assert(is_count_key(k)); let a = choose|a: Address| k_count(a) == k; assert(raw_view(raw).counts.contains_key(a)); }
    }
}
/// writing under a coin key or a count key keeps the tree closed
pub proof fn lemma_closed_insert(raw: IMap<Seq<u8>, Seq<u8>>, k: Seq<u8>, v: Seq<u8>)
    requires raw_closed(raw), is_coin_key(k) || is_count_key(k)
    ensures raw_closed(raw.insert(k, v))
{
    assert forall|q: Seq<u8>| #[trigger] raw.insert(k, v)[q].len() > 0 implies is_coin_key(q) || is_count_key(q) by { if q != k { assert(raw[q].len() > 0); } }
}
impl<C: ContentAddrStore> View for CoinMapping<C> { type V = CoinsView; open spec fn view(&self) -> CoinsView { raw_view(self.inner@) } }
impl<C: ContentAddrStore> CoinMapping<C> { pub open spec fn wf(&self) -> bool { raw_wf(self.inner@) }
    pub open spec fn only_coins(&self) -> bool { raw_only_coins(self.inner@) } }
/// A-PHYS (assumption): a real tree holds fewer than 2^63 entries, so the set of coins it stores is finite and small.
pub axiom fn axiom_tree_fits<C: ContentAddrStore>(t: &novasmt::Tree<C>)
    ensures raw_view(t@).coins.dom().finite(), raw_view(t@).coins.dom().len() < 0x8000_0000_0000_0000;
/// pre-TIP-906 coin tree: every non-empty entry is a coin entry (no count entries yet, nothing foreign)
pub open spec fn raw_only_coins(raw: IMap<Seq<u8>, Seq<u8>>) -> bool { forall|k: Seq<u8>| #[trigger] raw[k].len() > 0 ==> is_coin_key(k) }
pub open spec fn is_coin_key(k: Seq<u8>) -> bool { exists|id: CoinID| k_coin(id) == k }
pub open spec fn id_of_key(k: Seq<u8>) -> CoinID { choose|id: CoinID| k_coin(id) == k }
/// the coins among the first n listed entries
pub open spec fn seen_upto(es: Seq<([u8; 32], Vec<u8>)>, n: int) -> IMap<CoinID, CoinDataHeight> {
    IMap::new(|id: CoinID| exists|i: int| 0 <= i < n && (#[trigger] es[i]).0@ == k_coin(id), |id: CoinID| de_cdh(es[choose|i: int| 0 <= i < n && (#[trigger] es[i]).0@ == k_coin(id)].1@).unwrap())
}
pub proof fn lemma_seen_step(es: Seq<([u8; 32], Vec<u8>)>, n: int)
    requires 0 <= n < es.len(), forall|i: int, j: int| 0 <= i < j < es.len() ==> (#[trigger] es[i]).0@ != (#[trigger] es[j]).0@, is_coin_key(es[n].0@)
    ensures !seen_upto(es, n).contains_key(id_of_key(es[n].0@)), seen_upto(es, n + 1) =~= seen_upto(es, n).insert(id_of_key(es[n].0@), de_cdh(es[n].1@).unwrap())
{
    broadcast use axiom_coin_key_inj;
    let id0 = id_of_key(es[n].0@);
    assert(k_coin(id0) == es[n].0@);
    if seen_upto(es, n).contains_key(id0) { let i = choose|i: int| 0 <= i < n && (#[trigger] es[i]).0@ == k_coin(id0); assert(es[i].0@ != es[n].0@); }
    let a = seen_upto(es, n + 1); let b = seen_upto(es, n).insert(id0, de_cdh(es[n].1@).unwrap());
    assert forall|id: CoinID| a.contains_key(id) <==> b.contains_key(id) by {
        if a.contains_key(id) { let i = choose|i: int| 0 <= i < n + 1 && (#[trigger] es[i]).0@ == k_coin(id); if i < n { assert(seen_upto(es, n).contains_key(id)); } else { assert(k_coin(id) == k_coin(id0)); } }
        if seen_upto(es, n).contains_key(id) { let i = choose|i: int| 0 <= i < n && (#[trigger] es[i]).0@ == k_coin(id); assert(0 <= i < n + 1 && es[i].0@ == k_coin(id)); }
        if id == id0 { assert(0 <= n < n + 1 && es[n].0@ == k_coin(id)); }
    }
    assert forall|id: CoinID| a.contains_key(id) implies a[id] == b[id] by {
        let i = choose|i: int| 0 <= i < n + 1 && (#[trigger] es[i]).0@ == k_coin(id);
        if id == id0 { if i != n { assert(es[i].0@ != es[n].0@); } }
        else { assert(i < n) by { if i == n { assert(k_coin(id) == k_coin(id0)); } }
            let j = choose|j: int| 0 <= j < n && (#[trigger] es[j]).0@ == k_coin(id); if i != j { if i < j { assert(es[i].0@ != es[j].0@); } else { assert(es[j].0@ != es[i].0@); } } }
    }
}
pub proof fn lemma_seen_finite(es: Seq<([u8; 32], Vec<u8>)>, n: int)
    requires 0 <= n <= es.len(), forall|i: int, j: int| 0 <= i < j < es.len() ==> (#[trigger] es[i]).0@ != (#[trigger] es[j]).0@, forall|i: int| 0 <= i < es.len() ==> is_coin_key((#[trigger] es[i]).0@)
    ensures seen_upto(es, n).dom().finite(), seen_upto(es, n).dom().len() == n
    decreases n
{
    if n == 0 { assert(seen_upto(es, 0).dom() =~= ISet::<CoinID>::empty()); } else {
        lemma_seen_finite(es, n - 1); assert(is_coin_key(es[n - 1].0@)); lemma_seen_step(es, n - 1);
        assert(seen_upto(es, n).dom() =~= seen_upto(es, n - 1).dom().insert(id_of_key(es[n - 1].0@)));
    }
}
