#!/bin/sh
# regression of detection: seeds that a named obligation refuted earlier must still be refuted
[ -d /tmp/mutw ] || git -C /repo worktree add -q --detach /tmp/mutw HEAD
for sp in "$@"; do
  s=${sp%%:*}; p=${sp##*:}
  git -C /tmp/mutw checkout -q -- .; git -C /tmp/mutw apply /verif/seeded/$s/patch.diff || { echo "$s NOAPPLY"; continue; }
  mkdir -p /tmp/evid_reg; r=$(VERIF_EVID=/tmp/evid_reg VERIF_GEN=/tmp/gen_reg VERIF_REPO=/tmp/mutw /verif/check $p 2>&1 | grep -E "^(VIOLATION|OK|UNDECIDED)" | head -1 | cut -c1-150)
  echo "$s $p: $r"
done
git -C /tmp/mutw checkout -q -- .
