"""Unit specification objects (the `.vspec` of DESIGN.md, as Python data) and the annotator that
turns (real function text from /repo) + (contract data from /verif) into Verus input text.
"""
import os
import re

from rsx import (alpha_back, Undecided, Edit, tokenize, match_close, find_item, strip_logging, fix_visibility, strip_cfg_feature,
                 _body_open_index, loop_positions, closure_positions, loop_body_open, find_token_seq, stmt_end,
                 OPEN, CLOSE)

REPO = os.environ.get("VERIF_REPO", "/repo")


class Clause:
    """one contract clause = one obligation"""

    def __init__(self, cid, text, props=(), kind=None, char=False, envelope_of=None, note=None, det=False):
        self.cid, self.text, self.props = cid, text.strip().rstrip(","), tuple(props)
        self.kind = kind          # filled by owner: requires / ensures / invariant / assert
        self.char = char          # characterisation clause (taken from the code, not the statement)
        self.envelope_of = envelope_of  # id of the known finding whose domain this precondition excludes
        self.note = note
        self.det = det            # A-DET clause: names the (deterministic) result of an exec fn by a spec function; emitted only
                                  # on assumed stubs, never counted as proved


def C(cid, text, *props, **kw):
    return Clause(cid, text, props, **kw)


class Loop:
    def __init__(self, index, invariants=(), decreases=None, binder=None, ensures=(), body_entry=None,
                 invariant_except_break=(), body_exit=None):
        self.index, self.invariants, self.decreases, self.binder = index, list(invariants), decreases, binder
        self.ensures = list(ensures)
        self.invariant_except_break = list(invariant_except_break)
        self.body_entry = body_entry  # proof text injected at loop body entry
        self.body_exit = body_exit    # proof text injected at the end of the loop body
        for c in self.invariants + self.invariant_except_break:
            c.kind = "invariant"
        for c in self.ensures:
            c.kind = "loop_ensures"


class Closure:
    def __init__(self, index, params, ret, requires=(), ensures=(), first_stmt=None):
        self.index, self.params, self.ret = index, params, ret
        self.first_stmt = first_stmt  # e.g. `let (i, x) = p;` when a tuple-pattern parameter had to become a variable
        for c in requires:
            c.kind = "closure_requires"
        for c in ensures:
            c.kind = "closure_ensures"
        self.requires, self.ensures = list(requires), list(ensures)


class Inject:
    """where: 'entry' | ('after_let', name[, occurrence]) | ('before', text[, occurrence]) | ('after_stmt', text[, occ])"""

    def __init__(self, where, text, clause=None):
        self.where, self.text, self.clause = where, text, clause


class Fn:
    def __init__(self, src, name, impl=None, mode="prove", wrap=None, ret="res", requires=(), ensures=(),
                 loops=(), closures=(), injects=(), rewrites=(), home=None, implicit_props=(), decreases=None,
                 sig_subst=(), body_subst=(), strip_log=True, attrs=(), canary=True, opens_impl=True, kind="fn",
                 key=None, no_unwind=False, uses=None):
        self.src, self.name, self.impl, self.mode = src, name, impl, mode
        self.wrap, self.ret = wrap, ret
        self.requires, self.ensures = list(requires), list(ensures)
        for c in self.requires:
            c.kind = "requires"
        for c in self.ensures:
            c.kind = "ensures"
        self.loops, self.closures, self.injects = list(loops), list(closures), list(injects)
        self.rewrites = list(rewrites)
        self.home = home
        self.implicit_props = tuple(implicit_props)
        self.decreases = decreases
        self.sig_subst, self.body_subst = list(sig_subst), list(body_subst)
        self.strip_log, self.attrs, self.canary = strip_log, list(attrs), canary
        self.key = key or (f"{src}::{impl + '::' if impl else ''}{name}")
        self.no_unwind = no_unwind
        self.uses = uses

    @property
    def fid(self):
        return self.key

    def clauses(self):
        out = list(self.requires) + [c for c in self.ensures if not c.det]
        for lp in self.loops:
            out += lp.invariants + lp.ensures + lp.invariant_except_break
        for cl in self.closures:
            out += cl.requires + cl.ensures
        for inj in self.injects:
            if inj.clause is not None:
                out.append(inj.clause)
        return out


_SHAPES = None


def shape_key(f):
    return f"{f.src}::{f.impl or ''}::{f.name}"


def shape_of(f):
    """the text of this function at the time the annotations were written (units/shapes.json, written by ./check --census)"""
    global _SHAPES
    if _SHAPES is None:
        import json as _j
        pth = os.path.join(os.path.dirname(os.path.dirname(os.path.abspath(__file__))), "units", "shapes.json")
        _SHAPES = _j.load(open(pth)) if os.path.exists(pth) else {}
    return _SHAPES.get(shape_key(f))


class TypeItem:
    """a struct/enum/const/type item copied verbatim from /repo (attributes dropped, derive re-added)"""

    def __init__(self, src, kind, name, derive=None, subst=(), prefix=""):
        self.src, self.kind, self.name, self.derive, self.subst, self.prefix = src, kind, name, derive, list(subst), prefix


class Pin:
    """a repo item (const/static) that is NOT extracted but declared by hand (`decl`); its repo text is pinned: if the
    normalised text differs from `expect`, the unit is undecided (the declaration may no longer describe it)"""

    def __init__(self, src, kind, name, expect, decl):
        self.src, self.kind, self.name, self.expect, self.decl = src, kind, name, expect, decl


def check_pin(p):
    src = open(os.path.join(REPO, p.src)).read()
    it = find_item(p.src, src, p.kind, p.name)
    norm = " ".join(it.text.split())
    if norm != " ".join(p.expect.split()):
        raise Undecided(f"pinned item {p.kind} {p.name} in {p.src} changed: `{norm[:120]}`")
    return p.decl, {"key": f"{p.src}::{p.kind} {p.name}", "src": p.src, "line": it.line, "sha256": it.sha256, "mode": "pinned"}


class Raw:
    """hand-written text placed among the items (glue such as impl headers); never repo code"""

    def __init__(self, text):
        self.text = text


class Finding:
    """a known-finding variant: function `fn_key` re-verified with envelope clauses replaced"""

    def __init__(self, fid, fn_key, props, domain_requires, expect_clause=None, what="", must_hold=()):
        self.fid, self.fn_key, self.props = fid, fn_key, tuple(props)
        # clauses of the function that do NOT depend on the finding's envelope: they must verify in the variant too (i.e. without the
        # envelope precondition); each becomes an obligation `<fn>#<clause>@<fid>` under the clause's own property tags
        self.must_hold = tuple(must_hold)
        self.domain_requires = domain_requires  # list[str]; replaces the clauses with envelope_of == fid
        self.expect_clause = expect_clause      # clause id expected to fail (None: implicit-safety)
        self.what = what


class Unit:
    def __init__(self, name, prelude, items, lemmas=(), findings=(), rlimit=None, props=(), uses="", lemma_obs=()):
        self.name, self.prelude, self.items, self.lemmas = name, list(prelude), list(items), list(lemmas)
        self.findings = list(findings)
        self.rlimit = rlimit
        self.uses = uses
        self.lemma_obs = tuple(lemma_obs)   # names of the marked lemmas this unit counts as its obligations

    def fns(self):
        return [i for i in self.items if isinstance(i, Fn)]

    def props(self):
        s = set()
        for f in self.fns():
            if f.mode != "prove":
                continue
            s.update(f.implicit_props)
            for c in f.clauses():
                s.update(c.props)
        for fd in self.findings:
            s.update(fd.props)
        return s


# --------------------------------------------------------------------------
# mechanical rewrites R3 / R4 / R5 / R8 (token level, on one fn's text)
# --------------------------------------------------------------------------
def rewrite_R4_enumerate(text, loop_index):
    """for (I, P) in E.iter().enumerate() {  ->  for I in 0..E.len() { let P = &E[I];   (P == `_`: no let)"""
    toks = tokenize(text)
    bo = _body_open_index(toks)
    loops = loop_positions(toks, bo, len(toks))
    if loop_index >= len(loops):
        raise Undecided(f"R4: no loop #{loop_index}")
    k = loops[loop_index]
    lb = loop_body_open(toks, k)
    head = toks[k:lb]
    txt = [t.text for t in head]
    # expected: for ( I , P ) in E... . iter ( ) . enumerate ( )
    if not (txt[0] == "for" and txt[1] == "(" and txt[3] == "," and txt[5] == ")" and txt[6] == "in"
            and txt[-8:] == [".", "iter", "(", ")", ".", "enumerate", "(", ")"]):
        raise Undecided("R4: loop head is not `for (i, p) in E.iter().enumerate()`")
    ivar, pvar = txt[2], txt[4]
    e_src = text[head[7].start:head[-9].end]
    ed = Edit(text)
    ed.replace(toks[k].start, toks[lb].start, f"for {ivar} in 0..{e_src}.len() ")
    if pvar != "_":
        ed.insert(toks[lb].end, f" let {pvar} = &{e_src}[{ivar}];")
    return ed.apply()


def rewrite_R3_for_each(text, occurrence=0):
    """E.iter().for_each(|p| BODY);  /  E.iter_mut().for_each(|p| BODY);  ->  for p in E.iter() BODY"""
    toks = tokenize(text)
    hits = []
    for i, t in enumerate(toks):
        if t.text == "for_each" and toks[i - 1].text == "." and toks[i + 1].text == "(" \
                and toks[i - 2].text == ")" and toks[i - 3].text == "(" and toks[i - 4].text in ("iter", "iter_mut") \
                and toks[i - 5].text == ".":
            hits.append(i)
    if occurrence >= len(hits):
        raise Undecided(f"R3: no for_each #{occurrence}")
    i = hits[occurrence]
    op = i + 1
    cl = match_close(toks, op)
    if toks[cl + 1].text != ";":
        raise Undecided("R3: for_each is not a statement")
    if toks[op + 1].text != "|" or toks[op + 3].text != "|" or toks[op + 4].text != "{":
        raise Undecided("R3: closure is not `|p| { .. }`")
    pvar = toks[op + 2].text
    body_open = op + 4
    body_close = match_close(toks, body_open)
    if body_close != cl - 1:
        raise Undecided("R3: closure body is not the whole argument")
    # receiver start: walk back to statement start
    j = i - 5
    while j > 0 and toks[j - 1].text not in (";", "{", "}"):
        j -= 1
    recv = text[toks[j].start:toks[i - 1].start]  # `E.iter()`
    ed = Edit(text)
    if toks[i - 4].text == "iter_mut":
        # R3b: mutable iteration as an index loop (Verus has no usable ghost view of slice::IterMut)
        coll = text[toks[j].start:toks[i - 5].start]
        ed.replace(toks[j].start, toks[body_open].end, f"let __n = {coll}.len(); for __i in 0..__n {{ let {pvar} = &mut {coll}[__i]; ")
    else:
        ed.replace(toks[j].start, toks[body_open].start, f"for {pvar} in {recv} ")
    ed.delete(toks[cl].start, toks[cl + 1].end)
    return ed.apply()


def rewrite_R8_continue(text):
    """remove `continue;` in structured tail positions of for-bodies (see DESIGN R8)."""
    changed = True
    guard = 0
    while changed:
        guard += 1
        if guard > 20:
            raise Undecided("R8: did not converge")
        changed = False
        toks = tokenize(text)
        for i, t in enumerate(toks):
            if t.kind == "ident" and t.text == "continue" and toks[i + 1].text == ";":
                # must be last statement of its block
                if toks[i + 2].text != "}":
                    raise Undecided("R8: continue not at end of block")
                blk_close = i + 2
                # find block open
                depth, j = 0, blk_close
                while j >= 0:
                    if toks[j].text in CLOSE:
                        depth += 1
                    elif toks[j].text in OPEN:
                        depth -= 1
                        if depth == 0:
                            break
                    j -= 1
                blk_open = j
                ed = Edit(text)
                ed.delete(t.start, toks[i + 1].end)
                # is this block an `if` arm followed by more statements in the enclosing block?
                nxt = toks[blk_close + 1]
                if nxt.text == "}":
                    pass  # tail position: just delete
                elif nxt.text == "else":
                    raise Undecided("R8: continue in if-arm with else")
                else:
                    # must be `if COND {`: move the remainder of the enclosing block into else
                    # find enclosing block close
                    depth, j = 0, blk_close + 1
                    while j < len(toks):
                        if toks[j].text in OPEN:
                            depth += 1
                        elif toks[j].text in CLOSE:
                            if depth == 0:
                                break
                            depth -= 1
                        j += 1
                    encl_close = j
                    # check that the statement owning the block is an `if`
                    k = blk_open - 1
                    pd = 0
                    while k >= 0:
                        if toks[k].text in (")", "]"):
                            pd += 1
                        elif toks[k].text in ("(", "["):
                            pd -= 1
                        elif pd == 0 and toks[k].text in (";", "{", "}"):
                            break
                        k -= 1
                    if toks[k + 1].text != "if":
                        raise Undecided("R8: continue not in an if arm")
                    ed.insert(toks[blk_close].end, " else {")
                    ed.insert(toks[encl_close].start, "}")
                text = ed.apply()
                changed = True
                break
    return text




def call_paren(toks, i):
    """toks[i] is a method name; return index of the `(` of its call, skipping an optional turbofish; None if not a call"""
    j = i + 1
    if toks[j].text == "::" and toks[j + 1].text == "<":
        d, k = 0, j + 1
        while k < len(toks):
            if toks[k].text == "<":
                d += 1
            elif toks[k].text == ">":
                d -= 1
            elif toks[k].text == ">>":
                d -= 2
            if d <= 0:
                break
            k += 1
        j = k + 1
    return j if toks[j].text == "(" else None


def tail_expr_start(toks, bo, body_close):
    """index of the first token of the tail expression of the block toks[bo..body_close] (None if the block ends in `;`)"""
    # last depth-0 `;`
    j, last = bo + 1, bo
    while j < body_close:
        t = toks[j]
        if t.text in OPEN:
            j = match_close(toks, j) + 1
            continue
        if t.text == ";":
            last = j
        j += 1
    k = last + 1
    while k < body_close:
        if toks[k].kind == "ident" and toks[k].text in ("if", "for", "while", "loop", "match") or toks[k].text == "{":
            # skip the block construct (with else chains)
            m = k
            while True:
                # find the block open at depth 0
                while toks[m].text != "{":
                    if toks[m].text in ("(", "["):
                        m = match_close(toks, m)
                    m += 1
                m = match_close(toks, m) + 1
                if m < body_close and toks[m].text == "else":
                    m += 1
                    continue
                break
            if m >= body_close:
                return k  # the construct is the tail expression
            k = m
            continue
        return k
    return None

def recv_start(toks, dot):
    """index of the first token of the postfix-expression that ends right before toks[dot] (a `.`)"""
    j = dot - 1
    while True:
        t = toks[j]
        if t.text in (")", "]"):
            # find matching open
            depth, k = 0, j
            while k >= 0:
                if toks[k].text in CLOSE:
                    depth += 1
                elif toks[k].text in OPEN:
                    depth -= 1
                    if depth == 0:
                        break
                k -= 1
            j = k - 1
            # a call: the callee name precedes the paren (possibly with a turbofish `name::<..>` in between)
            if toks[j].text in (">", ">>"):
                d_ = 0
                while j >= 0:
                    if toks[j].text == ">":
                        d_ += 1
                    elif toks[j].text == ">>":
                        d_ += 2
                    elif toks[j].text == "<":
                        d_ -= 1
                        if d_ == 0:
                            break
                    j -= 1
                if toks[j - 1].text == "::":
                    j -= 2
                else:
                    return k
            if toks[j].kind == "ident":
                continue
            return j + 1
        if t.kind in ("ident", "num") or t.text == "?":
            if toks[j - 1].text in (".", "::"):
                j -= 2
                continue
            return j
        return j + 1


def rewrite_ANF_chain(text, last_method, occurrence, nstages, proofs, tag=""):
    """R10: let-bind the last `nstages` method calls of a chain ending in `.last_method(..)` (A-normal form).
    proofs: {stage_index: proof text placed after that stage's let}"""
    toks = tokenize(text)
    hits = [i for i, t in enumerate(toks) if t.text == last_method and toks[i - 1].text == "." and call_paren(toks, i) is not None]
    if occurrence >= len(hits):
        raise Undecided(f"R10: no `.{last_method}(` #{occurrence}")
    last = hits[occurrence]
    end = match_close(toks, call_paren(toks, last))
    # collect the stage boundaries walking backwards: each stage is `.name(args)` (optionally `::<..>` not supported)
    stages = []  # (dot_index, close_index)
    dot = last - 1
    close = end
    for _ in range(nstages):
        stages.append((dot, close))
        # previous stage ends right before this dot
        pc = dot - 1
        if toks[pc].text != ")":
            break
        depth, k = 0, pc
        while k >= 0:
            if toks[k].text in CLOSE:
                depth += 1
            elif toks[k].text in OPEN:
                depth -= 1
                if depth == 0:
                    break
            k -= 1
        if toks[k - 1].kind != "ident" or toks[k - 2].text != ".":
            break
        close = pc
        dot = k - 2
    stages.reverse()
    if len(stages) != nstages:
        raise Undecided(f"R10: chain has fewer than {nstages} method stages")
    first_dot = stages[0][0]
    start = recv_start(toks, first_dot)
    recv = text[toks[start].start:toks[first_dot].start]
    # if the chain is the whole initialiser of a `let`, hoist the stage lets in front of it (flat), else wrap in a block
    flat_at = None
    q_ = toks[end + 1].text == "?"          # `CHAIN?`: the result is bound to __r<tag> first, so a proof can follow the last stage
    aft_ = end + (2 if q_ else 1)
    if toks[start - 1].text == "=" and toks[aft_].text == ";":
        k = start - 2
        while k > 0 and toks[k].text not in (";", "{", "}"):
            k -= 1
        if toks[k + 1].text == "let":
            flat_at = k + 1
    elif q_ and toks[start - 1].text in (";", "{", "}") and toks[aft_].text == ";":
        flat_at = start                      # expression statement `CHAIN?;`
    out = "" if flat_at is not None else "{ "
    prev = recv
    for si, (d, c) in enumerate(stages):
        call = text[toks[d].start:toks[c].end]
        # hoist a closure argument into its own let so proofs can name it
        op = call_paren(toks, d + 1)
        # hoist every closure argument into its own let so proofs can name it (__cl<tag><stage>, then ...b, ...c for further
        # closure arguments of the same call).  A closure argument ends at the top-level `,` that is followed by the next
        # closure or by the call's closing parenthesis.
        k = op + 1
        clos = []   # (start_tok, end_tok_exclusive)
        while k < c:
            if toks[k].text in ("|", "||") and toks[k - 1].text in ("(", ","):
                j = k + 1
                if toks[k].text == "|":
                    while toks[j].text != "|":
                        j = match_close(toks, j) if toks[j].text in OPEN else j
                        j += 1
                    j += 1
                while j < c:
                    if toks[j].text in OPEN:
                        j = match_close(toks, j) + 1
                        continue
                    if toks[j].text == "," and (j + 1 == c or toks[j + 1].text in ("|", "||")):
                        break
                    j += 1
                clos.append((k, j))
                k = j
                continue
            if toks[k].text in OPEN:
                k = match_close(toks, k)
            k += 1
        if clos:
            pieces = [text[toks[d].start:toks[clos[0][0]].start]]
            for n_, (a_, b_) in enumerate(clos):
                nm_ = f"__cl{tag}{si}" + ("" if n_ == 0 else "bcdef"[n_ - 1])
                out += f"let {nm_} = {text[toks[a_].start:toks[b_ - 1].end]}; "
                pieces.append(nm_)
                nxt_ = clos[n_ + 1][0] if n_ + 1 < len(clos) else c
                pieces.append(text[toks[b_ - 1].end:toks[nxt_].start] if n_ + 1 < len(clos) else "")
            call = "".join(pieces) + ")"
        if si == len(stages) - 1:
            if flat_at is not None and q_:
                out += f"let __r{tag} = {prev}{call}; "
                if si in proofs:
                    out += f"/*@B INJ chain{tag}{occurrence}#{si}*/ " + proofs[si] + " /*@E*/ "
                return (text[:toks[flat_at].start] + out + text[toks[flat_at].start:toks[start].start] + f"__r{tag}" + text[toks[end].end:])
            if flat_at is not None:
                return (text[:toks[flat_at].start] + out + text[toks[flat_at].start:toks[start].start] + f"{prev}{call}" + text[toks[end].end:])
            out += f"{prev}{call} }}"
        else:
            out += f"let __c{tag}{si} = {prev}{call}; "
            if si in proofs:
                out += f"/*@B INJ chain{tag}{occurrence}#{si}*/ " + proofs[si] + " /*@E*/ "
            prev = f"__c{tag}{si}"
    return text[:toks[start].start] + out + text[toks[end].end:]



def rewrite_ROOT(text, method, occurrence, fname, by_ref=True):
    """R9: `RECV.method()` (root of an iterator chain on a std collection) -> `fname(&RECV)`: the prelude function carrying
    the assumed contract of that std method, returning the Vec of items the iterator yields."""
    toks = tokenize(text)
    hits = [i for i, t in enumerate(toks) if t.text == method and toks[i - 1].text == "." and toks[i + 1].text == "(" and toks[i + 2].text == ")"]
    if occurrence >= len(hits):
        raise Undecided(f"R9: no `.{method}()` #{occurrence}")
    i = hits[occurrence]
    start = recv_start(toks, i - 1)
    recv = text[toks[start].start:toks[i - 1].start]
    return text[:toks[start].start] + f"{fname}({'&' if by_ref else ''}{recv.strip()})" + text[toks[i + 2].end:]



def _step_parts(text):
    """R5/R5b: split Executor::step into (closure body tokens info): returns (body_text) of the `inner` closure"""
    toks_ = tokenize(text)
    pat_ = [t.text for t in tokenize("let mut inner = ||")]
    hit_ = [i for i in range(len(toks_) - len(pat_)) if [t.text for t in toks_[i:i + len(pat_)]] == pat_]
    if len(hit_) != 1:
        raise Undecided("R5: closure `let mut inner = ||` not found exactly once")
    bo2_ = hit_[0] + len(pat_)
    bc2_ = match_close(toks_, bo2_)
    return text[toks_[bo2_].start:toks_[bc2_].end]


def parse_match_arms(body):
    """arms of the single top-level `match op {..}` in `body`: [(pattern_text, expr_text, is_block)], plus (prefix, suffix) texts"""
    toks = tokenize(body)
    mi = [i for i in range(len(toks) - 2) if toks[i].text == "match" and toks[i + 1].text == "op" and toks[i + 2].text == "{"]
    if len(mi) != 1:
        raise Undecided("R5b: `match op {` not found exactly once")
    mo = mi[0] + 2
    mc = match_close(toks, mo)
    arms = []
    i = mo + 1
    while i < mc:
        # pattern up to `=>` at depth 0
        j = i
        while toks[j].text != "=>":
            if toks[j].text in OPEN:
                j = match_close(toks, j)
            j += 1
        pat = body[toks[i].start:toks[j].start].strip()
        k = j + 1
        if toks[k].text == "{":
            e = match_close(toks, k)
            expr = body[toks[k].start:toks[e].end]
            nxt = e + 1
            if nxt < mc and toks[nxt].text == ",":
                nxt += 1
            arms.append((pat, expr, True))
            i = nxt
        else:
            e = k
            while e < mc and toks[e].text != ",":
                if toks[e].text in OPEN:
                    e = match_close(toks, e)
                e += 1
            expr = body[toks[k].start:toks[e - 1].end]
            arms.append((pat, expr, False))
            i = e + 1
    return arms, body[:toks[mi[0]].start], body[toks[mc].end:]


def enum_variant_types(enum_text):
    """{variant: [field types]} of a tuple-variant enum"""
    toks = tokenize(enum_text)
    bo = _body_open_index(toks)
    bc = match_close(toks, bo)
    out = {}
    i = bo + 1
    while i < bc:
        if toks[i].kind == "ident":
            name = toks[i].text
            if toks[i + 1].text == "(":
                c = match_close(toks, i + 1)
                inner = enum_text[toks[i + 1].end:toks[c].start]
                out[name] = [x.strip() for x in inner.split(",") if x.strip()]
                i = c + 1
            else:
                out[name] = []
                i += 1
        else:
            i += 1
    return out


def arm_variant(pat):
    m = re.match(r"OpCode::(\w+)\s*(\((.*)\))?$", pat.strip(), re.S)
    if not m:
        raise Undecided(f"R5b: unsupported arm pattern `{pat}`")
    vars_ = [v.strip() for v in (m.group(3) or "").split(",") if v.strip()]
    return m.group(1), vars_


def apply_rewrites(text, rewrites):
    for rw in rewrites:
        if rw[0] == "R4":
            text = rewrite_R4_enumerate(text, rw[1])
        elif rw[0] == "R3":
            text = rewrite_R3_for_each(text, rw[1] if len(rw) > 1 else 0)
        elif rw[0] == "R8":
            text = rewrite_R8_continue(text)
        elif rw[0] in ("R5_OUTER", "R5_INNER"):
            # R5: the zero-argument closure `let mut inner = || { BODY }; let res: Option<()> = inner();` of Executor::step is lifted
            # to a method step_inner(&mut self) -> Option<()> { BODY }; it captures only `self` and is called exactly once
            toks_ = tokenize(text)
            pat_ = [t.text for t in tokenize("let mut inner = ||")]
            hit_ = [i for i in range(len(toks_) - len(pat_)) if [t.text for t in toks_[i:i + len(pat_)]] == pat_]
            if len(hit_) != 1:
                raise Undecided("R5: closure `let mut inner = ||` not found exactly once")
            bo2_ = hit_[0] + len(pat_)
            if toks_[bo2_].text != "{":
                raise Undecided("R5: closure body is not a block")
            bc2_ = match_close(toks_, bo2_)
            if toks_[bc2_ + 1].text != ";":
                raise Undecided("R5: closure statement not terminated")
            call_ = tokenize("let res: Option<()> = inner();")
            nxt_ = [t.text for t in toks_[bc2_ + 2: bc2_ + 2 + len(call_)]]
            if nxt_ != [t.text for t in call_]:
                raise Undecided("R5: closure is not called exactly as `let res: Option<()> = inner();`")
            body_ = text[toks_[bo2_].start:toks_[bc2_].end]
            if rw[0] == "R5_OUTER":
                text = text[:toks_[hit_[0]].start] + "let res: Option<()> = self.step_inner();" + text[toks_[bc2_ + 1 + len(call_)].end:]
            else:
                text = f"fn {rw[1]}(&mut self) -> Option<()> " + body_
        elif rw[0] == "R16":  # `while let PAT = EXPR { BODY }` -> `loop { let __wl = EXPR; match __wl { PAT => { BODY } _ => break, } }` (its definition)
            toks_ = tokenize(text)
            hit_ = [i for i in range(len(toks_) - 1) if toks_[i].text == "while" and toks_[i + 1].text == "let"]
            occ_ = rw[1] if len(rw) > 1 else 0
            if occ_ >= len(hit_):
                raise Undecided("R16: no `while let`")
            i_ = hit_[occ_]
            j_ = i_ + 2
            while toks_[j_].text != "=":
                if toks_[j_].text in OPEN:
                    j_ = match_close(toks_, j_)
                j_ += 1
            lb_ = loop_body_open(toks_, j_)
            lc_ = match_close(toks_, lb_)
            pat_ = text[toks_[i_ + 2].start:toks_[j_].start].strip()
            expr_ = text[toks_[j_ + 1].start:toks_[lb_].start].strip()
            body_ = text[toks_[lb_].start:toks_[lc_].end]
            text = text[:toks_[i_].start] + f"loop {{ let __wl = {expr_}; match __wl {{ {pat_} => {body_} _ => break, }} }}" + text[toks_[lc_].end:]
        elif rw[0] in ("ARM", "DISPATCH"):
            # R5b: the arms of `match op` inside Executor::step's closure are lifted to methods arm_<Variant>(&mut self, <pattern vars>);
            # DISPATCH produces step_inner whose arms call them.  Purely syntactic; every arm is covered (census checks the list).
            body_ = _step_parts(text)
            arms_, pre_, post_ = parse_match_arms(body_)
            vt_ = enum_variant_types(find_item("lib/melvm/src/opcode.rs", open(os.path.join(REPO, "lib/melvm/src/opcode.rs")).read(), "enum", "OpCode").text)
            vt_ = {k: v for k, v in vt_.items()}
            if rw[0] == "ARM":
                hit_ = [(p_, e_, b_) for (p_, e_, b_) in arms_ if arm_variant(p_)[0] == rw[1]]
                if len(hit_) != 1:
                    raise Undecided(f"R5b: arm {rw[1]} not found exactly once")
                p_, e_, b_ = hit_[0]
                name_, vars_ = arm_variant(p_)
                tys_ = vt_.get(name_)
                if tys_ is None or len(tys_) != len(vars_):
                    raise Undecided(f"R5b: variant {name_} arity mismatch")
                params_ = "".join(f", {v}: {t}" for v, t in zip(vars_, tys_))
                stmt_ = e_ if b_ else e_ + ";"
                text = f"fn arm_{name_}(&mut self{params_}) -> Option<()> {{ {stmt_} Some(()) }}"
            else:
                out_ = pre_ + "match op {\n"
                for p_, e_, b_ in arms_:
                    name_, vars_ = arm_variant(p_)
                    out_ += f"    {p_} => {{ self.arm_{name_}({', '.join(vars_)})?; }}\n"
                out_ += "}" + post_
                text = "fn step_inner(&mut self) -> Option<()> " + out_
        elif rw[0] == "MUTSELF":  # R13: `mut self` receiver rebound to a local: fn f(self, ..) { let mut this = self; .. this .. }
            toks_ = tokenize(text)
            bo_ = _body_open_index(toks_)
            ed_ = Edit(text)
            seen_ = False
            for k_, t_ in enumerate(toks_):
                if t_.kind == "ident" and t_.text == "self":
                    if k_ < bo_:
                        if toks_[k_ - 1].text == "mut":
                            ed_.delete(toks_[k_ - 1].start, t_.start)
                            seen_ = True
                    else:
                        ed_.replace(t_.start, t_.end, "this")
            if not seen_:
                raise Undecided("R13: no `mut self` receiver")
            ed_.insert(toks_[bo_].end, " let mut this = self; ")
            text = ed_.apply()
        elif rw[0] == "MUTPARAM":  # R13b: `mut x: T` parameter -> `x: T` + `let mut x_m = x;` and every use of x in the body renamed to x_m
            toks_ = tokenize(text)
            bo_ = _body_open_index(toks_)
            local_ = rw[2] if len(rw) > 2 else rw[1] + "_m"
            ed_ = Edit(text)
            ok_ = False
            for k_, t_ in enumerate(toks_):
                if t_.kind == "ident" and t_.text == rw[1]:
                    if k_ < bo_:
                        if toks_[k_ - 1].text == "mut" and toks_[k_ + 1].text == ":":
                            ed_.delete(toks_[k_ - 1].start, t_.start)
                            ok_ = True
                    elif toks_[k_ - 1].text != ".":
                        ed_.replace(t_.start, t_.end, local_)
            if not ok_:
                raise Undecided(f"R13b: no `mut {rw[1]}` parameter")
            ed_.insert(toks_[bo_].end, f" let mut {local_} = {rw[1]}; ")
            text = ed_.apply()
        elif rw[0] == "RENAME":   # R12: an identifier clashing with a Verus builtin name is renamed throughout the function
            toks_ = tokenize(text)
            ed_ = Edit(text)
            n_ = 0
            for t_ in toks_:
                if t_.kind == "ident" and t_.text == rw[1]:
                    ed_.replace(t_.start, t_.end, rw[2])
                    n_ += 1
            if n_ == 0:
                raise Undecided(f"R12: identifier {rw[1]} not found")
            text = ed_.apply()
        elif rw[0] == "EXTEND":   # R17: `x.extend(E)` (std Extend trait method on a local map x) -> `map_extend(&mut x, E)`
            toks_ = tokenize(text)
            ed_ = Edit(text)
            n_ = 0
            for k_, t_ in enumerate(toks_):
                if t_.text == "extend" and toks_[k_ - 1].text == "." and toks_[k_ + 1].text == "(" and toks_[k_ - 2].kind == "ident" and toks_[k_ - 3].text != ".":
                    ed_.replace(toks_[k_ - 2].start, toks_[k_ + 1].end, f"map_extend(&mut {toks_[k_ - 2].text}, ")
                    n_ += 1
            if n_ == 0:
                raise Undecided("R17: no `x.extend(..)`")
            text = ed_.apply()
        elif rw[0] == "INTOVEC":   # R18: `for PAT in m {` (a local HashMap consumed by value) -> `for PAT in map_into_vec(m) {`
            toks_ = tokenize(text)
            hit_ = [k_ for k_, t_ in enumerate(toks_) if t_.text == "in" and toks_[k_ + 1].kind == "ident" and toks_[k_ + 1].text == rw[1] and toks_[k_ + 2].text == "{"]
            if len(hit_) != 1:
                raise Undecided(f"R18: `in {rw[1]} {{` found {len(hit_)} times")
            t_ = toks_[hit_[0] + 1]
            # bound first, with a ghost copy of the entry sequence for the loop invariants
            for_ = hit_[0]
            while toks_[for_].text != "for":
                for_ -= 1
            text = (text[:toks_[for_].start] + f"let __iv_{rw[1]} = map_into_vec({rw[1]}); let ghost __ivs_{rw[1]} = __iv_{rw[1]}@; "
                    + text[toks_[for_].start:t_.start] + f"__iv_{rw[1]}" + text[t_.end:])
        elif rw[0] == "PIPE":   # R19: tap's `RECV.pipe(|mut v| { BODY })` == `{ let mut v = RECV; BODY }` (its definition: pipe(self, f) = f(self))
            toks_ = tokenize(text)
            hit_ = [k_ for k_, t_ in enumerate(toks_) if t_.text == "pipe" and toks_[k_ - 1].text == "." and toks_[k_ + 1].text == "("]
            if len(hit_) != 1:
                raise Undecided(f"R19: `.pipe(` found {len(hit_)} times")
            k_ = hit_[0]
            cp_ = match_close(toks_, k_ + 1)
            a_ = k_ + 2
            mut_ = toks_[a_ + 1].text == "mut"
            b_ = a_ + (1 if mut_ else 0)     # index of the token before the parameter name
            if not (toks_[a_].text == "|" and toks_[b_ + 1].kind == "ident" and toks_[b_ + 2].text == "|" and toks_[b_ + 3].text == "{"):
                raise Undecided("R19: pipe argument is not `|[mut] v| { .. }`")
            bc_ = match_close(toks_, b_ + 3)
            if bc_ + 1 != cp_:
                raise Undecided("R19: pipe closure is not the only argument")
            st_ = recv_start(toks_, k_ - 1)
            recv_ = text[toks_[st_].start:toks_[k_ - 1].start]
            inner_ = text[toks_[b_ + 3].end:toks_[bc_].start]
            text = text[:toks_[st_].start] + "{ let " + ("mut " if mut_ else "") + toks_[b_ + 1].text + " = " + recv_.strip() + ";" + inner_ + "}" + text[toks_[cp_].end:]
        elif rw[0] == "DROPTIMER":   # R20: `let _timer = STAT_X.timer_secs("..");` (a metrics guard; no effect on the value computed) is dropped
            toks_ = tokenize(text)
            ed_ = Edit(text)
            n_ = 0
            for k_, t_ in enumerate(toks_):
                if t_.text == "let" and toks_[k_ + 1].text == "_timer" and toks_[k_ + 2].text == "=" and toks_[k_ + 3].text.startswith("STAT_"):
                    j_ = k_
                    while toks_[j_].text != ";":
                        j_ = match_close(toks_, j_) if toks_[j_].text in OPEN else j_
                        j_ += 1
                    ed_.delete(t_.start, toks_[j_].end)
                    n_ += 1
            if n_ == 0:
                raise Undecided("R20: no `let _timer = STAT_..;`")
            text = ed_.apply()
        elif rw[0] == "FIELDPARAM":   # R21: a function that uses its parameter `x` only through the field `x.f` is verified over that field:
            # every `x . f` (possibly split over lines) becomes `f`; any other use of `x` in the body makes the unit undecided.  The signature is
            # changed by the accompanying sig_subst (`x: &mut S` -> `f: &mut F`).
            x_, f_ = rw[1], rw[2]
            toks_ = tokenize(text)
            bo_ = _body_open_index(toks_)
            ed_ = Edit(text)
            n_ = 0
            for k_, t_ in enumerate(toks_):
                if k_ > bo_ and t_.kind == "ident" and t_.text == x_ and toks_[k_ - 1].text != ".":
                    if toks_[k_ + 1].text == "." and toks_[k_ + 2].text == f_:
                        ed_.replace(t_.start, toks_[k_ + 2].end, f_)
                        n_ += 1
                    else:
                        raise Undecided(f"R21: `{x_}` is used other than as `{x_}.{f_}`")
            if n_ == 0:
                raise Undecided(f"R21: no `{x_}.{f_}`")
            text = ed_.apply()
        elif rw[0] == "ROOT":
            text = rewrite_ROOT(text, rw[1], rw[2], rw[3], rw[4] if len(rw) > 4 else True)
        elif rw[0] == "ANF":
            text = rewrite_ANF_chain(text, rw[1], rw[2], rw[3], rw[4] if len(rw) > 4 else {}, rw[5] if len(rw) > 5 else "")
        elif rw[0] == "SUB":   # declared literal substitution (must match exactly once) -- reported in evidence
            old, new = rw[1], rw[2]
            if text.count(old) != 1:
                raise Undecided(f"SUB anchor `{old[:40]}` occurs {text.count(old)} times")
            text = text.replace(old, new)
        elif rw[0] == "SUBALL":  # declared regex substitution applied to EVERY match (none is fine: the code then reaches the verifier as it is)
            import re as _re
            def _rep(m, new=rw[2]):
                rep = new
                for gi in range(1, (m.lastindex or 0) + 1):
                    rep = rep.replace("${%d}" % gi, m.group(gi) or "")
                return rep
            text = _re.sub(rw[1], _rep, text)
        elif rw[0] == "SUBRE":   # declared regex substitution (must match exactly once; groups may be reused in the replacement) -- reported in evidence
            import re as _re
            pat, new = rw[1], rw[2]
            n = len(_re.findall(pat, text))
            if n != 1:
                raise Undecided(f"SUBRE anchor `{pat[:40]}` occurs {n} times")
            m = _re.search(pat, text)
            rep = new
            for gi in range(1, (m.lastindex or 0) + 1):
                rep = rep.replace("${%d}" % gi, m.group(gi) or "")
            text = text[:m.start()] + rep + text[m.end():]
        else:
            raise Undecided(f"unknown rewrite {rw[0]}")
    return text


# --------------------------------------------------------------------------
# annotator
# --------------------------------------------------------------------------
def mark(tag, ident, text):
    return f"/*@B {tag} {ident}*/ {text} /*@E*/"


def _clause_block(kw, clauses, fid, indent="    "):
    if not clauses:
        return ""
    lines = [f"{indent}{kw}"]
    for c in clauses:
        lines.append(f"{indent}    " + mark("CL", f"{fid}#{c.cid}", c.text) + ",")
    return "\n".join(lines) + "\n"


# R25 INLINE: free helper functions introduced by the tree under test (not in the census) whose body is ONE expression.  A call
# `h(a1, .., an)` whose arguments are plain places (`x`, `&x`, `&mut x`, `*x`, `x.f.g`, literals) is replaced by the body with the
# parameters substituted -- beta-reduction, exact because such arguments have no effects and may be evaluated any number of times.
# Set by engine/run.py for one evaluation; {name: (param_names, body_expression_text)}.
INLINE_HELPERS = {}
_PLACE = re.compile(r"^\s*(&\s*mut\s+|&\s*|\*\s*)?[A-Za-z_][A-Za-z0-9_]*(\s*\.\s*[A-Za-z_0-9]+)*\s*$|^\s*-?[0-9][0-9A-Za-z_]*\s*$|^\s*(true|false)\s*$")


def inline_helpers(text):
    n = 0
    for _round in range(4):
        toks = tokenize(text)
        hit = None
        for i, t in enumerate(toks):
            if t.kind == "ident" and t.text in INLINE_HELPERS and i + 1 < len(toks) and toks[i + 1].text == "(" and (i == 0 or toks[i - 1].text not in (".", "::", "fn")):
                hit = i
                break
        if hit is None:
            # method helpers: `RECV.h(args)` where h = (["self", params..], expr) was registered as a method
            for i, t in enumerate(toks):
                if t.kind == "ident" and ("." + t.text) in INLINE_HELPERS and i + 1 < len(toks) and toks[i + 1].text == "(" and i > 0 and toks[i - 1].text == ".":
                    hit = i
                    break
            if hit is None:
                break
            params, expr, blk, ptypes = INLINE_HELPERS["." + toks[hit].text]
            r0 = recv_start(toks, hit - 1)
            recv = text[toks[r0].start:toks[hit - 1].start]
            if not _PLACE.match(recv):
                raise Undecided(f"R25: receiver of helper method `{toks[hit].text}` is not a plain place")
            method_recv = (r0, recv)
        else:
            params, expr, blk, ptypes = INLINE_HELPERS[toks[hit].text]
            method_recv = None
        op = hit + 1
        cl = match_close(toks, op)
        # split arguments at depth-0 commas
        args, depth, start = [], 0, toks[op].end
        for k in range(op + 1, cl):
            tx_ = toks[k].text
            if tx_ in OPEN:
                depth += 1
            elif tx_ in CLOSE:
                depth -= 1
            elif tx_ == "," and depth == 0:
                args.append(text[start:toks[k].start]); start = toks[k].end
        last = text[start:toks[cl].start]
        if last.strip():
            args.append(last)
        if method_recv is not None:
            args = [method_recv[1]] + args
        if len(args) != len(params):
            raise Undecided(f"R25: call of helper `{toks[hit].text}` with {len(args)} arguments for {len(params)} parameters")
        if not all(_PLACE.match(a) for a in args):
            # arguments with possible effects must be evaluated exactly once, in order, before the body: the let-block form (R25b) does that
            if len(ptypes) != len(params) or (method_recv is not None and not _PLACE.match(args[0])):
                raise Undecided(f"R25: call of helper `{toks[hit].text}` with arguments that are not plain places")
            blk = True
        et = tokenize(expr)
        out, pos = [], 0
        # R25b (block body): ordinary parameters are let-bound with their declared types in front of the body -- the meaning of a call --
        # and only `self` is substituted; a one-expression body has every parameter substituted
        subst = ["self"] if blk else params
        for k_, t_ in enumerate(et):
            if t_.kind == "ident" and t_.text in subst:
                if k_ > 0 and et[k_ - 1].text in (".", "::"):
                    continue
                out.append(expr[pos:t_.start]); out.append("(" + args[params.index(t_.text)].strip() + ")"); pos = t_.end
        out.append(expr[pos:])
        if blk:
            binds = "".join(f"let {pn}: {pt} = {args[i_].strip()}; " for i_, (pn, pt) in enumerate(zip(params, ptypes)) if pn != "self")
            out = ["{ " + binds] + out + [" }"]
        ed = Edit(text)
        ed.replace(toks[method_recv[0]].start if method_recv is not None else toks[hit].start, toks[cl].end, "(" + "".join(out) + ")")
        text = ed.apply()
        n += 1
    return text, n


def annotate_fn(f, override_requires=None, canary=False, drop_body=False):
    """returns (generated_text, meta) for one Fn spec"""
    path = os.path.join(REPO, f.src)
    try:
        src = open(path).read()
    except OSError as e:
        raise Undecided(f"cannot read {f.src}: {e}")
    it = find_item(f.src, src, "fn", f.name, f.impl)
    text = it.text
    meta = {"key": f.key, "src": f.src, "line": it.line, "sha256": it.sha256, "mode": f.mode,
            "impl_header": it.impl_header, "rules": []}
    ref = shape_of(f)
    if ref is not None and ref != text:
        ren = alpha_back(ref, text)
        if ren is not None:
            # R23 ALPHA: same tokens up to a consistent renaming of locals (and whitespace / comments): verified in the annotated shape
            text = ref
            meta["rules"].append("R23 ALPHA" + ("(" + ", ".join(f"{n}->{o}" for n, o in sorted(ren.items())) + ")" if ren else "(layout only)"))
    if INLINE_HELPERS and f.mode == "prove":
        text, n_inl = inline_helpers(text)
        if n_inl:
            meta["rules"].append(f"R25 INLINEx{n_inl}(" + ",".join(sorted(INLINE_HELPERS)) + ")")
    text = fix_visibility(text)
    text, ncfg = strip_cfg_feature(text)
    if ncfg:
        meta["rules"].append(f"R14x{ncfg}")
    if f.strip_log:
        text, removed = strip_logging(text)
        if removed:
            meta["rules"].append(f"R1x{removed}")
    if f.rewrites:
        text = apply_rewrites(text, f.rewrites)
        meta["rules"] += [r[0] for r in f.rewrites]
    for old, new in f.body_subst:
        if text.count(old) < 1:
            raise Undecided(f"{f.key}: subst anchor `{old[:40]}` lost")
        text = text.replace(old, new)
        meta["rules"].append("SUBST")

    toks = tokenize(text)
    bo = _body_open_index(toks)
    body_close = match_close(toks, bo)
    ed = Edit(text)

    # ---- signature: name the return value
    # find `->` at depth 0 before bo
    j, arrow = 0, None
    while j < bo:
        if toks[j].text in ("(", "["):
            j = match_close(toks, j) + 1
            continue
        if toks[j].text == "<":
            # skip generics (angle brackets) conservatively: find matching '>' at same level
            d, k = 0, j
            while k < bo:
                if toks[k].text == "<":
                    d += 1
                elif toks[k].text == ">":
                    d -= 1
                    if d == 0:
                        break
                elif toks[k].text == ">>":
                    d -= 2
                    if d <= 0:
                        break
                elif toks[k].text == "->" and d > 0:
                    pass
                k += 1
            j = k + 1
            continue
        if toks[j].text == "->":
            arrow = j
            break
        j += 1
    has_ret = arrow is not None
    if has_ret:
        ed.insert(toks[arrow + 1].start, f"({f.ret}: ")
        ed.insert(toks[bo - 1].end, ")")

    req = list(f.requires)
    fid = f.key
    contract = ""
    if override_requires is not None:
        keep = [c for c in req if c.envelope_of != override_requires[0]]
        contract += _clause_block("requires", keep, fid)
        extra = "".join(f"        {r},\n" for r in override_requires[1])
        if keep:
            contract += extra
        elif extra:
            contract += "    requires\n" + extra
    else:
        contract += _clause_block("requires", req, fid)
    contract += _clause_block("ensures", [c for c in f.ensures if not (c.det and f.mode == "prove" and not drop_body)], fid)
    if f.decreases:
        contract += f"    decreases {f.decreases}\n"
    if f.no_unwind:
        contract += "    no_unwind\n"
    ed.insert(toks[bo].start, "\n" + contract)

    if f.mode == "assume" or drop_body:
        ed.replace(toks[bo].start, toks[body_close].end, "{ unimplemented!() }")
        new = ed.apply()
        for old_s, nw in f.sig_subst:
            if new.count(old_s) < 1:
                raise Undecided(f"{f.key}: sig subst anchor lost")
            new = new.replace(old_s, nw, 1)
        attrs = "#[verifier::external_body]\n"
        return attrs + new, meta

    # ---- loops
    loops = loop_positions(toks, bo, body_close)
    for lp in f.loops:
        if lp.index >= len(loops):
            raise Undecided(f"{f.key}: loop #{lp.index} not found (has {len(loops)})")
        k = loops[lp.index]
        lb = loop_body_open(toks, k)
        if lp.binder:
            if toks[k].text != "for":
                raise Undecided("binder on non-for loop")
            # find `in` at depth 0
            m = k + 1
            while m < lb and not (toks[m].kind == "ident" and toks[m].text == "in"):
                if toks[m].text in OPEN:
                    m = match_close(toks, m)
                m += 1
            if m >= lb:
                raise Undecided("for without in")
            ed.insert(toks[m].end, f" {lp.binder}:")
        ann = "\n"
        for c in lp.invariants:
            c.kind = "invariant"
        for c in lp.ensures:
            c.kind = "loop_ensures"
        for c in lp.invariant_except_break:
            c.kind = "invariant"
        # a finding variant drops the loop invariants that merely carry the finding's envelope through the loop (envelope_of == fid):
        # an invariant that fails on entry is still ASSUMED inside the loop body, which would shelter everything proved there
        inv_ = [c for c in lp.invariants if not (override_requires is not None and c.envelope_of == override_requires[0])]
        ann += _clause_block("invariant", inv_, fid, "        ")
        ann += _clause_block("invariant_except_break", lp.invariant_except_break, fid, "        ")
        ann += _clause_block("ensures", lp.ensures, fid, "        ")
        if lp.decreases:
            ann += f"        decreases {lp.decreases}\n"
        ed.insert(toks[lb].start, ann + "        ")
        if lp.body_entry:
            ed.insert(toks[lb].end, f"\n/*@B INJ {fid}#loop{lp.index}entry*/ " + lp.body_entry + " /*@E*/\n")
        if lp.body_exit:
            lcl = match_close(toks, lb)
            ed.insert(toks[lcl].start, f"\n/*@B INJ {fid}#loop{lp.index}exit*/ " + lp.body_exit + " /*@E*/\n")
        if canary == "loops":
            ed.insert(toks[lb].end, " proof { " + mark("CANARY", f"{fid}#loop{lp.index}", "assert(false);") + " } ")

    # ---- closures
    cls = closure_positions(toks, bo, body_close)
    for cl in f.closures:
        if cl.index >= len(cls):
            raise Undecided(f"{f.key}: closure #{cl.index} not found (has {len(cls)})")
        k = cls[cl.index]
        if toks[k].text == "||":
            bar_close = k
            ed.replace(toks[k].start, toks[k].end, f"|{cl.params}|")
        else:
            m = k + 1
            while toks[m].text != "|":
                if toks[m].text in OPEN:
                    m = match_close(toks, m)
                m += 1
            bar_close = m
            ed.replace(toks[k].start, toks[m].end, f"|{cl.params}|")
        for c in cl.requires:
            c.kind = "closure_requires"
        for c in cl.ensures:
            c.kind = "closure_ensures"
        ann = f" -> {cl.ret}\n"
        ann += _clause_block("requires", cl.requires, fid, "            ")
        ann += _clause_block("ensures", cl.ensures, fid, "            ")
        body_first = bar_close + 1
        if toks[body_first].text == "{":
            ed.insert(toks[body_first].start, ann + "            ")
            if cl.first_stmt:
                ed.insert(toks[body_first].end, " " + cl.first_stmt + " ")
        else:
            # expression body: wrap in a block; expression ends at `,` or closing bracket at depth 0
            m = body_first
            while m < len(toks):
                if toks[m].text in OPEN:
                    m = match_close(toks, m) + 1
                    continue
                if toks[m].text in (",", ")", "]", "}", ";"):
                    break
                m += 1
            ed.insert(toks[body_first].start, ann + "            { " + ((cl.first_stmt + " ") if cl.first_stmt else ""))
            ed.insert(toks[m - 1].end, " }")

    # ---- rule R22 CLOSUREPAT: a closure that carries no contract and binds its argument by a pattern (`|(k, v)| e`, `|&x| e`) is given
    # a plain parameter and the pattern is bound by a `let` at the top of its body (Verus accepts only variables as closure parameters)
    spec_idx = {cl.index for cl in f.closures}
    for ci, k in enumerate(cls):
        if ci in spec_idx or toks[k].text != "|":
            continue
        m = k + 1
        params, cur = [], []
        while toks[m].text != "|":
            if toks[m].text in OPEN:
                mc = match_close(toks, m)
                cur.extend(range(m, mc + 1)); m = mc + 1
                continue
            if toks[m].text == ",":
                params.append(cur); cur = []
            else:
                cur.append(m)
            m += 1
        if cur:
            params.append(cur)
        bar_close = m
        lets, new_params, changed = [], [], False
        for pi, idxs in enumerate(params):
            # split pattern / type at the top-level `:`
            depth_colon = None
            j = 0
            while j < len(idxs):
                tt = toks[idxs[j]].text
                if tt in OPEN:
                    mc = match_close(toks, idxs[j])
                    while j < len(idxs) and idxs[j] <= mc:
                        j += 1
                    continue
                if tt == ":":
                    depth_colon = j
                    break
                j += 1
            pat_idx = idxs if depth_colon is None else idxs[:depth_colon]
            ty_idx = [] if depth_colon is None else idxs[depth_colon + 1:]
            pat_txt = text[toks[pat_idx[0]].start:toks[pat_idx[-1]].end]
            ty_txt = text[toks[ty_idx[0]].start:toks[ty_idx[-1]].end] if ty_idx else ""
            simple = (len(pat_idx) == 1 and toks[pat_idx[0]].kind == "ident" and pat_txt != "_") or \
                     (len(pat_idx) == 2 and toks[pat_idx[0]].text == "mut" and toks[pat_idx[1]].kind == "ident")
            if simple:
                new_params.append(pat_txt + (": " + ty_txt if ty_txt else ""))
            else:
                changed = True
                nm = f"__cp{ci}_{pi}"
                new_params.append(nm + (": " + ty_txt if ty_txt else ""))
                if pat_txt != "_":
                    lets.append(f"let {pat_txt} = {nm};")
        if not changed:
            continue
        ed.replace(toks[k].start, toks[bar_close].end, "|" + ", ".join(new_params) + "|")
        body_first = bar_close + 1
        if toks[body_first].text == "{":
            ed.insert(toks[body_first].end, " " + " ".join(lets) + " ")
        else:
            m = body_first
            while m < len(toks):
                if toks[m].text in OPEN:
                    m = match_close(toks, m) + 1
                    continue
                if toks[m].text in (",", ")", "]", "}", ";"):
                    break
                m += 1
            ed.insert(toks[body_first].start, "{ " + " ".join(lets) + " ")
            ed.insert(toks[m - 1].end, " }")

    # ---- injections
    if f.uses:
        ed.insert(toks[bo].end, f" broadcast use {f.uses}; ")
    if canary == "entry":
        ed.insert(toks[bo].end, " proof { " + mark("CANARY", f"{fid}#entry", "assert(false);") + " } ")
    for inj_i, inj in enumerate(f.injects):
        body = inj.text
        if inj.clause is None:
            body = f"/*@B INJ {fid}#inj{inj_i}*/ " + body + " /*@E*/"
        if inj.clause is not None:
            inj.clause.kind = "assert"
            body = body.replace("@CLAUSE@", mark("CL", f"{fid}#{inj.clause.cid}", inj.clause.text))
        w = inj.where
        if w == "entry":
            ed.insert(toks[bo].end, "\n" + body + "\n")
        elif w == "end":
            ed.insert(toks[body_close].start, "\n" + body + "\n")
        elif w == "before_tail":
            ts = tail_expr_start(toks, bo, body_close)
            if ts is None:
                ed.insert(toks[body_close].start, "\n" + body + "\n")
            else:
                ed.insert(toks[ts].start, body + "\n")
        elif w[0] == "after_let":
            occ = w[2] if len(w) > 2 else 0
            hits = [i for i in range(bo, body_close) if toks[i].text == "let" and
                    (toks[i + 1].text == w[1] or (toks[i + 1].text == "mut" and toks[i + 2].text == w[1]))]
            if occ >= len(hits):
                raise Undecided(f"{f.key}: anchor `let {w[1]}` #{occ} lost")
            se = stmt_end(toks, hits[occ])
            ed.insert(toks[se].end, "\n" + body + "\n")
        elif w[0] in ("before", "after_stmt", "after"):
            occ = w[2] if len(w) > 2 else 0
            pt = tokenize(w[1])
            hits = find_token_seq(toks, pt, bo, body_close)
            if occ >= len(hits):
                raise Undecided(f"{f.key}: anchor `{w[1][:40]}` #{occ} lost")
            if w[0] == "before":
                ed.insert(toks[hits[occ]].start, body + "\n")
            elif w[0] == "after":
                ed.insert(toks[hits[occ] + len(pt) - 1].end, "\n" + body + "\n")
            else:
                se = stmt_end(toks, hits[occ])
                ed.insert(toks[se].end, "\n" + body + "\n")
        else:
            raise Undecided(f"unknown inject position {w}")
    new = ed.apply()
    for old, nw in f.sig_subst:
        if new.count(old) < 1:
            raise Undecided(f"{f.key}: sig subst anchor lost")
        new = new.replace(old, nw, 1)
    attrs = "".join(a + "\n" for a in f.attrs)
    return attrs + new, meta


def extract_type(t):
    path = os.path.join(REPO, t.src)
    src = open(path).read()
    it = find_item(t.src, src, t.kind, t.name)
    text = fix_visibility(it.text)
    text, _ncfg = strip_cfg_feature(text)
    # drop doc comments and attributes inside (field docs / serde attrs)
    text = re.sub(r"^\s*///.*$", "", text, flags=re.M)
    text = re.sub(r"^\s*#\[[^\]]*\]\s*$", "", text, flags=re.M)
    text = re.sub(r"\n\s*\n+", "\n", text)
    for old, new in t.subst:
        if old not in text:
            raise Undecided(f"type {t.name}: subst anchor lost")
        text = text.replace(old, new)
    pre = (t.derive + "\n") if t.derive else ""
    return pre + t.prefix + text, {"key": f"{t.src}::{t.kind} {t.name}", "src": t.src, "line": it.line,
                                    "sha256": it.sha256, "mode": "type"}
