// C01 at the level of the whole coin set: what an accepted batch does to the supply of a denomination (hand-written; unit batch).
/// A-PHYS at the abstract level (cf. axiom_tree_fits in lemmas/coins_raw.rs): a coin tree holds finitely many coins
pub axiom fn axiom_coins_finite<C: ContentAddrStore>(m: CoinMapping<C>) ensures m@.coins.dom().finite();
pub proof fn lemma_spent_val_fsum(tx: Transaction, rel: Map<CoinID, CoinDataHeight>, n: int, d: Denom)
    requires 0 <= n <= tx.inputs@.len() ensures spent_val(tx, rel, n, d) == fsum(tx.inputs@.take(n), in_of(rel, d)) decreases n
{ if n > 0 { lemma_spent_val_fsum(tx, rel, n - 1, d); lemma_fsum_take_next(tx.inputs@, in_of(rel, d), n - 1); } else { assert(tx.inputs@.take(0) =~= Seq::<CoinID>::empty()); } }
/// an output sent to the destruction address never reaches the relevant-coins map of an accepted batch: it is not kept, and nothing can
/// spend a coin locked by the all-zero covenant hash
pub proof fn lemma_no_ghost_output<C: ContentAddrStore>(s: UnsealedState<C>, txx: Seq<Transaction>, r: UnsealedState<C>, rel: Map<CoinID, CoinDataHeight>, ns: Map<TxHash, StakeDoc>, t: int, i: int)
    requires batch_core_with(s, txx, r, rel, ns), origin_ok(s.coins@.coins), 0 <= t < txx.len(), 0 <= i < txx[t].outputs@.len(), txx[t].outputs@[i].covhash == spec_coin_destroy()
    ensures !rel.contains_key(cid(txx[t], i))
{
    broadcast use axiom_covenants_map, axiom_h1_nonzero, axiom_txhash_inj;
    let id = cid(txx[t], i); let n = txx.len() as int; let c0 = s.coins@.coins;
    assert(tx_accepted(s, rel, ns, txx[t])); assert(txx[t].outputs@.len() <= 255);
    if rel.contains_key(id) {
        if kept_in(txx, n, id) {
            let (t2, i2) = choose|t2: int, i2: int| 0 <= t2 < n && 0 <= i2 < txx[t2].outputs@.len() && id == #[trigger] cid(txx[t2], i2) && txx[t2].outputs@[i2].covhash != spec_coin_destroy();
            assert(tx_accepted(s, rel, ns, txx[t2])); assert(txx[t2].outputs@.len() <= 255);
            assert(spec_txhash(txx[t2]) == spec_txhash(txx[t])); assert(i2 as u8 == i as u8); assert(i2 == i);
            assert(false);
        }
        assert(spent_by(txx, n, id));
        let (t3, k) = choose|t3: int, k: int| 0 <= t3 < n && 0 <= k < txx[t3].inputs@.len() && id == #[trigger] txx[t3].inputs@[k];
        assert(tx_accepted(s, rel, ns, txx[t3]));
        assert(c0.contains_key(id) && rel[id] == c0[id]);
        let a = rel[id].coin_data.covhash;
        assert(a == spec_coin_destroy());
        lemma_first_occ_exists(txx[t3], rel, k);
        let k0 = choose|k0: int| 0 <= k0 <= k && rel[txx[t3].inputs@[k0]].coin_data.covhash == rel[txx[t3].inputs@[k]].coin_data.covhash && #[trigger] first_occ(txx[t3], rel, k0);
        assert(script_approves(spec_covenants_map(txx[t3]), a, txx[t3], env_of(txx[t3], rel, k0, spec_last_header(s))));
        assert(spec_covenants_map(txx[t3]).contains_key(a));
        assert(false);
    }
}
/// what the first n outputs of an accepted transaction bring into the coin set, in a denomination other than its own new token, is at most what they declare
pub proof fn lemma_created_val_le<C: ContentAddrStore>(s: UnsealedState<C>, txx: Seq<Transaction>, r: UnsealedState<C>, rel: Map<CoinID, CoinDataHeight>, ns: Map<TxHash, StakeDoc>, t: int, n: int, d: Denom)
    requires batch_core_with(s, txx, r, rel, ns), origin_ok(s.coins@.coins), 0 <= t < txx.len(), 0 <= n <= txx[t].outputs@.len(), d != Denom::Custom(spec_txhash(txx[t]))
    ensures created_val(txx[t], rel, n, d) <= fsum(txx[t].outputs@.take(n), out_of(d))
    decreases n
{
    let tx = txx[t];
    if n > 0 {
        lemma_created_val_le(s, txx, r, rel, ns, t, n - 1, d); lemma_fsum_take_next(tx.outputs@, out_of(d), n - 1);
        let i = n - 1;
        if tx.outputs@[i].covhash == spec_coin_destroy() { lemma_no_ghost_output(s, txx, r, rel, ns, t, i); }
        else { assert(is_created_cdh(tx, i, s.height, rel[cid(tx, i)])); }
    } else { assert(tx.outputs@.take(0) =~= Seq::<CoinData>::empty()); }
}
/// per accepted transaction that is no issuer of d: what it creates in d, plus its fee if d is MEL, is at most what it spends in d
pub proof fn lemma_tx_supply<C: ContentAddrStore>(s: UnsealedState<C>, txx: Seq<Transaction>, r: UnsealedState<C>, rel: Map<CoinID, CoinDataHeight>, ns: Map<TxHash, StakeDoc>, t: int, d: Denom)
    requires batch_core_with(s, txx, r, rel, ns), batch_env(s, txx), origin_ok(s.coins@.coins), 0 <= t < txx.len(), !may_issue(txx[t], d)
    ensures created_val(txx[t], rel, txx[t].outputs@.len() as int, d) + fee_in(d)(txx[t]) <= spent_val(txx[t], rel, txx[t].inputs@.len() as int, d)
{
    let tx = txx[t]; let no = tx.outputs@.len() as int; let ni = tx.inputs@.len() as int;
    assert(tx_accepted(s, rel, ns, tx)); assert(tx_env(s, rel, tx));
    lemma_created_val_le(s, txx, r, rel, ns, t, no, d); assert(tx.outputs@.take(no) =~= tx.outputs@);
    lemma_spent_val_fsum(tx, rel, ni, d); assert(tx.inputs@.take(ni) =~= tx.inputs@);
    if d != Denom::NewCustom { lemma_tx_conserves(tx, rel, d); }
    else {
        // no coin ever carries the placeholder denomination: created coins of NewCustom outputs are Custom(hash)
        lemma_fsum_nonneg(tx.inputs@, in_of(rel, d));
        assert(created_val(tx, rel, no, d) == 0) by { lemma_created_newcustom_zero(s, txx, r, rel, ns, t, no); }
    }
}
pub proof fn lemma_created_newcustom_zero<C: ContentAddrStore>(s: UnsealedState<C>, txx: Seq<Transaction>, r: UnsealedState<C>, rel: Map<CoinID, CoinDataHeight>, ns: Map<TxHash, StakeDoc>, t: int, n: int)
    requires batch_core_with(s, txx, r, rel, ns), origin_ok(s.coins@.coins), 0 <= t < txx.len(), 0 <= n <= txx[t].outputs@.len()
    ensures created_val(txx[t], rel, n, Denom::NewCustom) == 0
    decreases n
{
    let tx = txx[t];
    if n > 0 { lemma_created_newcustom_zero(s, txx, r, rel, ns, t, n - 1); let i = n - 1;
        if tx.outputs@[i].covhash == spec_coin_destroy() { lemma_no_ghost_output(s, txx, r, rel, ns, t, i); } else { assert(is_created_cdh(tx, i, s.height, rel[cid(tx, i)])); } }
}
pub proof fn lemma_tot_le<C: ContentAddrStore>(s: UnsealedState<C>, txx: Seq<Transaction>, r: UnsealedState<C>, rel: Map<CoinID, CoinDataHeight>, ns: Map<TxHash, StakeDoc>, j: int, d: Denom)
    requires batch_core_with(s, txx, r, rel, ns), batch_env(s, txx), origin_ok(s.coins@.coins), 0 <= j <= txx.len(), no_issuer(txx, d)
    ensures created_tot(txx, j, rel, d) + fsum(txx.take(j), fee_in(d)) <= spent_tot(txx, j, rel, d)
    decreases j
{
    if j > 0 { lemma_tot_le(s, txx, r, rel, ns, j - 1, d); lemma_tx_supply(s, txx, r, rel, ns, j - 1, d); lemma_fsum_take_next(txx, fee_in(d), j - 1); }
    else { assert(txx.take(0) =~= Seq::<Transaction>::empty()); }
}
//@LEMMA C01 lemma_batch_supply an accepted batch without an issuer of d (no faucet, d not the new token of a batch transaction, no ERG mint when d is ERG) does not raise the total value of the unspent coins of d; for MEL the fees it pays leave the coin set as well
pub proof fn lemma_batch_supply<C: ContentAddrStore>(s: UnsealedState<C>, txx: Seq<Transaction>, r: UnsealedState<C>, rel: Map<CoinID, CoinDataHeight>, ns: Map<TxHash, StakeDoc>, d: Denom)
    requires batch_core_with(s, txx, r, rel, ns), batch_env(s, txx), origin_ok(s.coins@.coins), no_issuer(txx, d),
             coins_supply(r.coins@.coins, d) <= coins_supply(s.coins@.coins, d) + created_tot(txx, txx.len() as int, rel, d) - spent_tot(txx, txx.len() as int, rel, d)
    ensures coins_supply(r.coins@.coins, d) + fsum(txx, fee_in(d)) <= coins_supply(s.coins@.coins, d)
{ lemma_tot_le(s, txx, r, rel, ns, txx.len() as int, d); assert(txx.take(txx.len() as int) =~= txx); }
/// the hypotheses of create_next_state's supply clause, from what load_relevant_coins established
pub proof fn lemma_supply_hyp<C: ContentAddrStore>(s: UnsealedState<C>, txx: Seq<Transaction>, rel: Map<CoinID, CoinDataHeight>)
    requires rel_of(s, txx, rel), inputs_distinct(txx)
    ensures supply_hyp(s.coins@.coins, txx, rel)
{
    axiom_coins_finite(s.coins); lemma_finite_enumerable(s.coins@.coins);
    let n = txx.len() as int; let c0 = s.coins@.coins;
    assert forall|t: int, k: int| 0 <= t < txx.len() && 0 <= k < txx[t].inputs@.len() implies rel.contains_key(#[trigger] txx[t].inputs@[k])
        && (created_by(txx, n, rel, txx[t].inputs@[k]) || (c0.contains_key(txx[t].inputs@[k]) && c0[txx[t].inputs@[k]] == rel[txx[t].inputs@[k]])) by {
        let id = txx[t].inputs@[k]; assert(spent_by(txx, n, id)) by { assert(0 <= t < n && 0 <= k < txx[t].inputs@.len() && id == txx[t].inputs@[k]); }
        assert(rel.contains_key(id));
        if !kept_in(txx, n, id) { assert(c0.contains_key(id) && rel[id] == c0[id]); }
        if kept_in(txx, n, id) { let (t2, i2) = choose|t2: int, i2: int| 0 <= t2 < n && 0 <= i2 < txx[t2].outputs@.len() && id == #[trigger] cid(txx[t2], i2) && txx[t2].outputs@[i2].covhash != spec_coin_destroy(); assert(created_by(txx, n, rel, id)); }
    }
    assert(inputs_all_distinct(txx)) by { assert forall|t: int, k: int, t2: int, k2: int| 0 <= t < txx.len() && 0 <= k < txx[t].inputs@.len() && 0 <= t2 < txx.len() && 0 <= k2 < txx[t2].inputs@.len() && (t != t2 || k != k2)
        implies #[trigger] txx[t].inputs@[k] != #[trigger] txx[t2].inputs@[k2] by { assert(pos_before(t, k, n, 0) && pos_before(t2, k2, n, 0)); } }
}
