// A-STRUCTS (melswap.rs of melstructs 0.3.3): PoolKey and PoolState as the repo uses them.  Hand-written ASSUMED contracts;
// every panic condition of the real methods is a precondition here.
pub uninterp spec fn denom_bytes(d: Denom) -> Seq<u8>;               // Denom::to_bytes: "m", "s", "d", "" (NewCustom), 32 hash bytes
pub uninterp spec fn bytes_lt(a: Seq<u8>, b: Seq<u8>) -> bool;       // lexicographic order on byte strings
pub broadcast axiom fn axiom_bytes_lt(a: Seq<u8>, b: Seq<u8>) ensures !(#[trigger] bytes_lt(a, b) && bytes_lt(b, a)), a != b ==> (bytes_lt(a, b) || bytes_lt(b, a)), !bytes_lt(a, a);
pub broadcast axiom fn axiom_denom_bytes_inj(a: Denom, b: Denom) requires #[trigger] denom_bytes(a) == #[trigger] denom_bytes(b) ensures a == b;
pub broadcast axiom fn axiom_builtin_order() ensures #[trigger] bytes_lt(denom_bytes(Denom::Erg), denom_bytes(Denom::Mel)), bytes_lt(denom_bytes(Denom::Mel), denom_bytes(Denom::Sym)), bytes_lt(denom_bytes(Denom::Erg), denom_bytes(Denom::Sym));
/// canonical form: the denomination with the smaller byte encoding on the left
pub open spec fn pk_canonical(k: PoolKey) -> bool { bytes_lt(denom_bytes(k.left), denom_bytes(k.right)) }
pub open spec fn pk_new(x: Denom, y: Denom) -> PoolKey { if bytes_lt(denom_bytes(x), denom_bytes(y)) { PoolKey { left: x, right: y } } else { PoolKey { left: y, right: x } } }
/// PoolKey::from_bytes: short form (<= 32 bytes: a MEL pool, canonicalised) or long form (32 zero bytes + stdcode((l, r)), NOT canonicalised)
pub uninterp spec fn spec_pk_from_bytes(b: Seq<u8>) -> Option<PoolKey>;
pub uninterp spec fn spec_pk_bytes(k: PoolKey) -> Seq<u8>;
pub uninterp spec fn spec_liq_denom(k: PoolKey) -> Denom;
pub broadcast axiom fn axiom_liq_denom(k: PoolKey) ensures (#[trigger] spec_liq_denom(k)) is Custom;
impl PoolKey {
    #[verifier::external_body] pub fn to_bytes(self) -> (r: Bytes) ensures r@ == spec_pk_bytes(self) { unimplemented!() }
    #[verifier::external_body] pub fn from_bytes(vec: &[u8]) -> (r: Option<PoolKey>) ensures r == spec_pk_from_bytes(vec@) { unimplemented!() }
    #[verifier::external_body] pub fn liq_token_denom(&self) -> (r: Denom) ensures r == spec_liq_denom(*self) { unimplemented!() }
}
pub open spec fn sat128(x: int) -> int { if x > u128::MAX { u128::MAX as int } else { x } }
/// swap_many: add both inputs (saturating), pay out floor(in x other/this x 995/1000) of the other side
pub open spec fn swap_out(dx: int, this_after: int, other_after: int) -> int { sat128((dx * other_after * 995) / (this_after * 1000)) }
pub assume_specification<T> [bool::then_some::<T>] (b: bool, t: T) -> (r: Option<T>) ensures r == (if b { Some(t) } else { None::<T> });
impl Denom {
    #[verifier::external_body] pub fn to_bytes(self) -> (r: Bytes) ensures r@ == denom_bytes(self) { unimplemented!() }
}
impl PartialEq for Bytes { #[verifier::external_body] fn eq(&self, o: &Bytes) -> (r: bool) { unimplemented!() } }
impl PartialEqSpecImpl<Bytes> for Bytes { open spec fn obeys_eq_spec() -> bool { true } open spec fn eq_spec(&self, o: &Bytes) -> bool { self@ == o@ } }
impl PartialOrdSpecImpl<Bytes> for Bytes {
    open spec fn obeys_partial_cmp_spec() -> bool { true }
    open spec fn partial_cmp_spec(&self, other: &Bytes) -> Option<core::cmp::Ordering> {
        if bytes_lt(self@, other@) { Some(core::cmp::Ordering::Less) } else if self@ == other@ { Some(core::cmp::Ordering::Equal) } else { Some(core::cmp::Ordering::Greater) } }
}
impl PartialOrd for Bytes { #[verifier::external_body] fn partial_cmp(&self, o: &Bytes) -> (r: Option<core::cmp::Ordering>) { unimplemented!() } }
/// the pool a request names: PoolKey::from_bytes, canonical spellings only, and never a pair with the placeholder denomination NewCustom
/// (the empty name parses to NewCustom/MEL; every transaction's own new token is declared as NewCustom, so such a "pool" would trade
/// different tokens as one denomination: fix "the placeholder denomination names no pool")
pub open spec fn spec_req_key(data: Seq<u8>) -> Option<PoolKey> {
    match spec_pk_from_bytes(data) { Some(k) => if pk_canonical(k) && k.left != Denom::NewCustom && k.right != Denom::NewCustom { Some(k) } else { None }, None => None }
}
// ---- Vec<PoolKey>::sort / dedup (rule SUB: `v.sort()` -> `pk_sort(&mut v)`, `v.dedup()` -> `pk_dedup(&mut v)`; slice methods of std cannot carry specs here)
/// the derived `Ord` of PoolKey (lexicographic on (left, right) in Denom's derived order): only its being a total order matters
pub uninterp spec fn pk_le(a: PoolKey, b: PoolKey) -> bool;
pub broadcast axiom fn axiom_pk_le_total(a: PoolKey, b: PoolKey) ensures #[trigger] pk_le(a, b) || pk_le(b, a);
pub broadcast axiom fn axiom_pk_le_antisym(a: PoolKey, b: PoolKey) requires #[trigger] pk_le(a, b), #[trigger] pk_le(b, a) ensures a == b;
pub broadcast axiom fn axiom_pk_le_trans(a: PoolKey, b: PoolKey, c: PoolKey) requires #[trigger] pk_le(a, b), #[trigger] pk_le(b, c) ensures pk_le(a, c);
pub open spec fn pk_sorted(s: Seq<PoolKey>) -> bool { forall|i: int, j: int| 0 <= i <= j < s.len() ==> pk_le(#[trigger] s[i], #[trigger] s[j]) }
/// Vec::dedup: drops every element equal to its predecessor
pub open spec fn dedup_seq(s: Seq<PoolKey>) -> Seq<PoolKey> decreases s.len() {
    if s.len() <= 1 { s } else if s[s.len() - 1] == s[s.len() - 2] { dedup_seq(s.drop_last()) } else { dedup_seq(s.drop_last()).push(s[s.len() - 1]) }
}
#[verifier::external_body]
pub fn pk_sort(v: &mut Vec<PoolKey>) ensures pk_sorted(final(v)@), final(v)@.to_multiset() == old(v)@.to_multiset() { unimplemented!() }
#[verifier::external_body]
pub fn pk_dedup(v: &mut Vec<PoolKey>) ensures final(v)@ == dedup_seq(old(v)@) { unimplemented!() }
