use vstd::prelude::*;
verus! {
// ---------- assumed dependency contracts (prelude) ----------
pub trait ContentAddrStore {}
pub struct HashVal(pub [u8; 32]);
#[derive(Clone, Copy)]
pub struct Address(pub HashVal);
impl Clone for HashVal { fn clone(&self) -> (r: Self) ensures r == *self { HashVal(self.0) } }
impl Copy for HashVal {}
#[derive(Clone, Copy)]
pub struct CoinID { pub txhash: HashVal, pub index: u8 }
pub struct CoinData { pub covhash: Address, pub value: u128 }
pub struct CoinDataHeight { pub coin_data: CoinData, pub height: u64 }

pub uninterp spec fn ser_coinid(id: CoinID) -> Seq<u8>;
pub uninterp spec fn ser_cdh(c: CoinDataHeight) -> Seq<u8>;
pub uninterp spec fn ser_u64(c: u64) -> Seq<u8>;
pub uninterp spec fn de_cdh(s: Seq<u8>) -> Option<CoinDataHeight>;
pub uninterp spec fn de_u64(s: Seq<u8>) -> Option<u64>;
pub uninterp spec fn h1(s: Seq<u8>) -> [u8; 32];
pub uninterp spec fn hk(k: Seq<u8>, s: Seq<u8>) -> [u8; 32];
pub uninterp spec fn coin_count_tag() -> Seq<u8>;

pub struct Bytesish { pub v: Vec<u8> }
impl Bytesish {
    pub fn is_empty(&self) -> (r: bool) ensures r == (self.v@.len() == 0) { self.v.len() == 0 }
}
impl CoinID { #[verifier::external_body] pub fn stdcode(&self) -> (r: Vec<u8>) ensures r@ == ser_coinid(*self) { unimplemented!() } }
impl CoinDataHeight { #[verifier::external_body] pub fn stdcode(&self) -> (r: Vec<u8>) ensures r@ == ser_cdh(*self) { unimplemented!() } }

pub mod tmelcrypt {
    use super::*;
    #[verifier::external_body] pub fn hash_single(b: &Vec<u8>) -> (r: HashVal) ensures r.0 == h1(b@) { unimplemented!() }
}

#[verifier::external_body]
#[verifier::accept_recursive_types(C)]
pub struct Tree<C: ContentAddrStore> { _c: core::marker::PhantomData<C> }
impl<C: ContentAddrStore> Tree<C> {
    pub uninterp spec fn view(&self) -> Map<[u8; 32], Seq<u8>>;   // total map; absent == empty seq
    #[verifier::external_body] pub fn get(&self, key: [u8; 32]) -> (r: Bytesish) ensures r.v@ == self@[key] { unimplemented!() }
    #[verifier::external_body] pub fn insert(&mut self, key: [u8; 32], v: &[u8]) ensures final(self)@ == old(self)@.insert(key, v@) { unimplemented!() }
}
#[verifier::external_body] pub fn empty_bytes() -> (r: &'static [u8]) ensures r@.len() == 0 { &[] }

pub struct CoinMapping<C: ContentAddrStore> { pub inner: Tree<C> }

impl<C: ContentAddrStore> CoinMapping<C> {
    pub open spec fn coin_raw(&self, id: CoinID) -> Seq<u8> { self.inner@[h1(ser_coinid(id))] }

    // ---------- extracted text ----------
    pub fn remove_coin_simple(&mut self, id: CoinID)
        ensures final(self).coin_raw(id).len() == 0,
    {
        let id = id.stdcode();
        self.inner
            .insert(tmelcrypt::hash_single(&id).0, empty_bytes());
    }
}
}
fn main() {}
