#!/usr/bin/env python3
"""setup: nothing to build (the framework is Python + installed verifiers); verify the tools are present."""
import shutil, subprocess, sys
ok = True
for t in ("verus", "cargo", "python3"):
    if shutil.which(t) is None:
        print("missing tool:", t); ok = False
sys.exit(0 if ok else 1)
