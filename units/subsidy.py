from spec import *
from _contracts import *

S = "src/state.rs"
SM = "src/smtmapping.rs"
UNIT = Unit(
    name="subsidy", uses="group_core_axioms, axiom_builtin_order, axiom_bytes_lt, axiom_denom_bytes_inj",
    prelude=["core.rs", "raw.rs", "iter.rs", "crypto.rs", "state_abs.rs", "num.rs", "melswap.rs"],
    lemmas=["sums.rs", "iterlem.rs", "coinsview.rs", "tips.rs", "apply.rs", "stateinv.rs"],
    items=[
        *pk_stubs(),
        Fn(DEP_MELSWAP, "swap_many", impl="PoolState", mode="assume", **ps_swap_many()),
        TypeItem(S, "struct", "UnsealedState"),
        TypeItem("src/tip_heights.rs", "const", "TIP_909_HEIGHT"),
        TypeItem("src/tip_heights.rs", "const", "TIP_909A_HEIGHT"),
        Fn(SM, "get", impl="SmtMapping", mode="assume", wrap=SMT_WRAP, **smt_get()),
        Fn(SM, "insert", impl="SmtMapping", mode="assume", wrap=SMT_WRAP, **smt_insert()),
        Fn(S, "tip_condition", impl="UnsealedState", mode="assume", **st_tip_condition()),
        Fn(S, "tip_909a", impl="UnsealedState", home="C01", implicit_props=("C09",), **st_tip(1048000)),
        Fn(S, "apply_tip_909", impl="UnsealedState", home="C01", implicit_props=("C09", "C01", "C16"), **st_tip909(),
           injects=[Inject(("after_let", "divider"), "proof { assert(divider < 128); }"),
                    Inject(("after_let", "reward"), """proof { assert(reward == spec_tip909_reward(self.height.0)); let d = divider;
                        assert(((1u128 << 20) >> d) <= 0x100000u128) by (bit_vector) requires d < 128u64; }"""),
                    Inject(("after_let", "tip909a_erg_subsidy"), "proof { assert(reward >> 8 <= reward) by (bit_vector); assert(reward >> 8 == reward / 256) by (bit_vector); }"),
                    Inject(("after_let", "fee_subsidy"), "proof { assert(fee_subsidy == spec_tip909_fee_part(reward, spec_tip(self.network, self.height, 1048000))); }"),
                    Inject(("after_let", "erg_subsidy"), "proof { assert(erg_subsidy == spec_tip909_erg_part(reward, spec_tip(self.network, self.height, 1048000))); }"),
                    Inject(("before", "let erg_subsidy"), "let ghost melg = mel as int; let ghost sm0 = old(self).pools@[pk_mel_sym()]; let ghost sm1 = self.pools@[pk_mel_sym()]; proof { assert(right_fed(sm0, sm1, fee_subsidy as int, melg)); }"),
                    Inject("end", """proof { let e0 = old(self).pools@[pk_erg_sym()]; let e1 = self.pools@[pk_erg_sym()]; let ergg = e0.lefts - e1.lefts;
                        assert(pk_mel_sym() != pk_erg_sym());
                        assert(self.pools@[pk_mel_sym()] == sm1);
                        assert(right_fed(e0, e1, erg_subsidy as int, ergg));
                        assert(self.pools@.dom() =~= old(self).pools@.dom()); }""")]),
    ],
)
