// C18 spec functions (hand-written: the formulas are characterisations of the pinned code, the bounds come from the property)
pub open spec fn spec_dosc_to_erg(h: nat, dosc: int) -> int { (dosc * spec_microergs(h)) / 1_000_000 }
pub open spec fn spec_work(difficulty: nat, tip910: bool) -> int {
    let w = pow(2, difficulty); if tip910 { if w * 100 > u128::MAX { u128::MAX as int } else { w * 100 } } else { w }
}
/// reward in real DOSC: work x speed x 10^6 / (dosc_speed^2 x 2880), capped at u128::MAX
pub open spec fn spec_reward(my_speed: int, dosc_speed: int, difficulty: nat, tip910: bool) -> int {
    let r = (spec_work(difficulty, tip910) * my_speed * 1_000_000) / (dosc_speed * dosc_speed * 2880);
    if r > u128::MAX { u128::MAX as int } else { r }
}
pub open spec fn spec_speed(tip910: bool, difficulty: nat, dh: int) -> int { (if tip910 { 100int } else { 1int }) * pow(2, difficulty) / dh }
pub proof fn lemma_pow2_100(d: nat) requires d <= 100 ensures 1 <= pow(2, d) <= 0x10_0000_0000_0000_0000_0000_0000int
{
    vstd::arithmetic::power::lemma_pow_positive(2, d);
    vstd::arithmetic::power::lemma_pow_increases(2, d, 100);
    vstd::arithmetic::power2::lemma_pow2(100);
    vstd::arithmetic::power2::lemma2_to64();
    vstd::arithmetic::power2::lemma_pow2_adds(32, 4);
    vstd::arithmetic::power2::lemma_pow2_adds(64, 36);
    assert(vstd::arithmetic::power2::pow2(36) == 0x10_0000_0000int);
    assert(pow(2, 100) == 0x10_0000_0000_0000_0000_0000_0000int);
}
pub open spec fn erg_out(tx: Transaction) -> int { if spec_total_outputs(tx).contains_key(Denom::Erg) { spec_total_outputs(tx)[Denom::Erg].0 as int } else { 0 } }
/// puzzle of a DoscMint: keyed hash of the header at the spent coin's creation height, keyed... over the coin's id
pub open spec fn spec_puzzle(hdr: Header, id: CoinID) -> HashVal { hk(spec_header_hash(hdr).0@, ser_coinid(id)) }
/// C18: what an accepted ERG-minting transaction has shown
pub open spec fn doscmint_ok<C: ContentAddrStore>(s: UnsealedState<C>, rel: Map<CoinID, CoinDataHeight>, tx: Transaction, speed: u128) -> bool {
    &&& tx.inputs@.len() > 0 && rel.contains_key(tx.inputs@[0])
    &&& ({ let cd = rel[tx.inputs@[0]];
        &&& s.height.0 >= cd.height.0
        &&& s.network == NetID::Mainnet ==> s.height.0 - cd.height.0 >= 100
        &&& s.history@.contains_key(cd.height)
        &&& de_doscpayload(tx.data@) is Some
        &&& ({ let d = de_doscpayload(tx.data@)->Some_0.0 as nat; let pb = de_doscpayload(tx.data@)->Some_0.1@;
            &&& melpow::proof_of_bytes(pb) is Some
            &&& ({ let p = melpow::proof_of_bytes(pb)->Some_0; let puzzle = spec_puzzle(s.history@[cd.height], tx.inputs@[0]).0@;
                let tip910 = !melpow::pow_ok(p, puzzle, d, false);
                &&& melpow::pow_ok(p, puzzle, d, false) || melpow::pow_ok(p, puzzle, d, true)
                &&& s.height.0 > cd.height.0
                &&& speed as int == spec_speed(tip910, d, s.height.0 - cd.height.0)
                &&& s.history@.contains_key(BlockHeight((s.height.0 - 1) as u64))
                &&& erg_out(tx) <= spec_dosc_to_erg(s.height.0 as nat, spec_reward(speed as int, s.history@[BlockHeight((s.height.0 - 1) as u64)].dosc_speed as int, d, tip910))
            }) }) })
}
/// envelope F-C09-melpow: melpow::Proof::verify is total on the proof this transaction carries
pub open spec fn dosc_pow_total<C: ContentAddrStore>(s: UnsealedState<C>, rel: Map<CoinID, CoinDataHeight>, tx: Transaction) -> bool {
    forall|hdr: Header| (tx.inputs@.len() > 0 && de_doscpayload(tx.data@) is Some && melpow::proof_of_bytes(de_doscpayload(tx.data@)->Some_0.1@) is Some)
        ==> melpow::pow_total(melpow::proof_of_bytes(de_doscpayload(tx.data@)->Some_0.1@)->Some_0, (#[trigger] spec_puzzle(hdr, tx.inputs@[0])).0@, de_doscpayload(tx.data@)->Some_0.0 as nat)
}
/// envelope: the inflated reward fits in u128 (needs a proof of difficulty ~64+, i.e. 2^64 sequential hashes)
pub open spec fn dosc_reward_fits<C: ContentAddrStore>(s: UnsealedState<C>) -> bool {
    microergs_fit(s.height.0 as nat) && forall|sp: int, ds: int, d: nat, t: bool| #[trigger] spec_dosc_to_erg(s.height.0 as nat, spec_reward(sp, ds, d, t)) <= u128::MAX
}
