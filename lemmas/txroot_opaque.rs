// the transactions root as seen by the units that do not compute it (definition: lemmas/txroot_def.rs, unit `txroot`)
pub uninterp spec fn spec_root_txs(m: Map<TxHash, Transaction>, tip908: bool) -> HashVal;
pub broadcast axiom fn axiom_root_txs_inj(a: Map<TxHash, Transaction>, b: Map<TxHash, Transaction>, t: bool) requires #[trigger] spec_root_txs(a, t) == #[trigger] spec_root_txs(b, t) ensures a.dom() == b.dom();
