#!/bin/sh
# usage: mut.sh <file-in-repo> <python-regex-old> <new> <prop...>  -- apply a mutation to /repo, run checks, restore
f=$1; old=$2; new=$3; shift 3
python3 - "$f" "$old" "$new" <<'P'
import sys,re
f,old,new=sys.argv[1:4]
s=open('/repo/'+f).read()
n=len(re.findall(old,s))
if n!=1: print("MUTATION ANCHOR COUNT",n); sys.exit(3)
open('/repo/'+f,'w').write(re.sub(old,new,s))
P
[ $? -eq 0 ] || exit 3
for p in "$@"; do /verif/check $p 2>&1 | grep -E "^(VIOLATION|OK|UNDECIDED|KNOWN)" | cut -c1-220; done
git -C /repo checkout -- .
