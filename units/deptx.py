from spec import *
from _contracts import *
import glob, os

# melstructs 0.3.3 `Transaction` methods the batch validation rests on: DEPENDENCY text, extracted on every run from the registry
# source that Cargo.lock pins and verified against the contracts the other units assume (prelude/core.rs, lemmas/apply.rs).
D = DEP_TX
UNIT = Unit(
    name="deptx", uses="group_core_axioms, axiom_ser_len, axiom_cov_weight_bound, axiom_ser_len_bound",
    prelude=["core.rs", "raw.rs", "iter.rs", "crypto.rs", "state_abs.rs"],
    lemmas=["sums.rs", "iterlem.rs", "coinsview.rs", "tips.rs", "apply.rs", "deptx.rs"],
    items=[
        TypeItem("src/state.rs", "struct", "UnsealedState"),
        Fn(D, "is_well_formed", impl="Transaction", home="C02", implicit_props=("C09", "C02"),
           **tx_is_well_formed(),
           rewrites=[("R3", 0)],
           loops=[Loop(0, binder="it", invariants=[
               C("seen", "refs_of(it.seq(), self.outputs@) && (output <==> forall|i: int| 0 <= i < it.index@ ==> (#[trigger] self.outputs@[i]).value.0 <= MAX_COINVAL.0)", "C02")])]),
        Fn(D, "weight", impl="Transaction", home="C05", implicit_props=("C09", "C05"), **tx_weight(),
           rewrites=[("ROOT", "iter", 0, "vec_iter", True), ("ANF", "sum", 0, 2, {0: """proof { let covs = self.covenants@; let ws = __c0@;
               assert forall|i: int| 0 <= i < covs.len() implies (#[trigger] ws[i]) as nat == spec_cov_weight_b(covs[i]@) by { }
               lemma_cov_sum_fsum(ws, covs, covs.len() as int); assert(ws.take(ws.len() as int) =~= ws); }"""})],
           injects=[Inject(("after_let", "raw_length"), "proof { assert(raw_length as nat == spec_ser_len(*self)); }")],
           closures=[Closure(0, "scr: &Bytes", "(r: u128)", ensures=[C("w", "r as nat == spec_cov_weight_b(scr@)", "C05")])]),
        Fn(D, "base_fee", impl="Transaction", home="C05", implicit_props=("C09", "C05"), **tx_base_fee(),
           sig_subst=[("cov_to_weight: impl Fn(&[u8]) -> u128", "cov_to_weight: impl Fn(&[u8]) -> u128")],
           injects=[Inject("entry", "proof { let w = spec_tx_weight(*self) as u128; let m = fee_multiplier; let p = if w * m > u128::MAX { u128::MAX } else { (w * m) as u128 }; assert(p >> 16 == p / 65536) by (bit_vector); broadcast use axiom_weight_bound; }")]),
        Fn(D, "total_outputs", impl="Transaction", home="C01", implicit_props=("C09", "C01"),
           requires=[C("fit", "outputs_fit(*self)", note="`CoinValue + CoinValue` inside is unchecked: the caller (load_relevant_coins' guard, cf14a0b) establishes that outputs plus fee fit in u128")],
           ensures=[C("entries", """forall|d: Denom| (#[trigger] res@.contains_key(d) <==> (d == Denom::Mel || exists|i: int| 0 <= i < self.outputs@.len() && (#[trigger] self.outputs@[i]).denom == d))
                        && (res@.contains_key(d) ==> res@[d].0 as int == fsum(self.outputs@, out_of(d)) + (if d == Denom::Mel { self.fee.0 as int } else { 0 }))""", "C01", "C02",
                      note="exactly what axiom_total_outputs (lemmas/apply.rs) states of the A-DET name spec_total_outputs: one entry per denomination among the outputs plus MEL, each the sum of those outputs, the fee added to MEL")],
           rewrites=[("R3", 0)],
           injects=[Inject("entry", "let ghost outs = self.outputs@; let ghost vf = |o: CoinData| o.value.0 as int;"),
                    Inject(("after_let", "old", 1), """proof { assert(outs.take(outs.len() as int) =~= outs);
                        lemma_fsum_le(outs, out_of(Denom::Mel), vf);
                        if !toret@.contains_key(Denom::Mel) { assert forall|i: int| 0 <= i < outs.len() implies out_of(Denom::Mel)(#[trigger] outs[i]) == 0 by {} lemma_fsum_zero_if(outs, out_of(Denom::Mel)); } }"""),
                    Inject("before_tail", """proof { assert forall|d: Denom| (#[trigger] toret@.contains_key(d) <==> (d == Denom::Mel || exists|i: int| 0 <= i < outs.len() && (#[trigger] outs[i]).denom == d))
                        && (toret@.contains_key(d) ==> toret@[d].0 as int == fsum(outs, out_of(d)) + (if d == Denom::Mel { self.fee.0 as int } else { 0 })) by {} }""")],
           loops=[Loop(0, binder="it",
               body_entry="""let ghost i = it.index@ as int; let ghost t0 = toret@; let ghost dd = output.denom;
                   proof { assert(*output == outs[i]); lemma_fsum_take_next(outs, out_of(dd), i); lemma_fsum_take_le(outs, out_of(dd), i + 1); lemma_fsum_le(outs, out_of(dd), vf);
                       if !t0.contains_key(dd) { assert forall|q: int| 0 <= q < outs.take(i).len() implies out_of(dd)(#[trigger] outs.take(i)[q]) == 0 by { assert(outs.take(i)[q] == outs[q]); }
                           lemma_fsum_zero_if(outs.take(i), out_of(dd)); } }""",
               body_exit="""proof { assert forall|d: Denom| (#[trigger] toret@.contains_key(d) <==> exists|q: int| 0 <= q < i + 1 && (#[trigger] outs[q]).denom == d)
                       && (toret@.contains_key(d) ==> toret@[d].0 as int == fsum(outs.take(i + 1), out_of(d))) by {
                       lemma_fsum_take_next(outs, out_of(d), i);
                       if d != dd { assert(t0.contains_key(d) <==> toret@.contains_key(d)); if t0.contains_key(d) { let q = choose|q: int| 0 <= q < i && (#[trigger] outs[q]).denom == d; } }
                       else { assert(outs[i].denom == d); } } }""",
               invariants=[
               C("ctx", "outs == self.outputs@ && vf == (|o: CoinData| o.value.0 as int)", "C01"),
               C("acc", """refs_of(it.seq(), self.outputs@) && outputs_fit(*self) && forall|d: Denom| (#[trigger] toret@.contains_key(d) <==> exists|i: int| 0 <= i < it.index@ && (#[trigger] self.outputs@[i]).denom == d)
                        && (toret@.contains_key(d) ==> toret@[d].0 as int == fsum(self.outputs@.take(it.index@ as int), out_of(d)))""", "C01")])]),
    ],
)
