/// the state a sealing produces (melmint settlement, TIP-909 subsidy, proposer action); DEFINED in the seal unit
/// (lemmas/seal_def.rs), opaque in the units that only call `seal` through its contract
pub uninterp spec fn spec_seal<C: ContentAddrStore>(s: UnsealedState<C>, a: Option<ProposerAction>) -> UnsealedState<C>;
