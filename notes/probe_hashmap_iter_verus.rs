use vstd::prelude::*;
use vstd::std_specs::hash::*;
use std::collections::HashMap;
verus! {
broadcast use group_hash_axioms;

fn t(m: HashMap<u64, u128>) -> (r: bool)
    ensures r <==> (forall|k: u64| #[trigger] m@.contains_key(k) ==> m@[k] < 10)
{
    let mut ok = true;
    for (k, v) in it: m.iter()
        invariant
            ok <==> (forall|i: int| 0 <= i < it.index@ ==> (#[trigger] it.seq()[i]).1 < 10),
    {
        if *v >= 10 { ok = false; }
    }
    proof {
        assert(true);
    }
    ok
}
}
fn main() {}
