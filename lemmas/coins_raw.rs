// Concrete view of the real CoinMapping over the raw SMT (hand-written).
pub open spec fn raw_view(raw: IMap<Seq<u8>, Seq<u8>>) -> CoinsView {
    CoinsView {
        coins: IMap::new(|id: CoinID| raw[k_coin(id)].len() > 0, |id: CoinID| de_cdh(raw[k_coin(id)]).unwrap()),
        counts: IMap::new(|a: Address| raw[k_count(a)].len() > 0, |a: Address| de_u64(raw[k_count(a)]).unwrap() as nat),
    }
}
/// type invariant of the coin tree: every coin entry decodes as a coin, every count entry as a u64
pub open spec fn raw_wf(raw: IMap<Seq<u8>, Seq<u8>>) -> bool {
    &&& forall|id: CoinID| (#[trigger] raw[k_coin(id)]).len() > 0 ==> de_cdh(raw[k_coin(id)]) is Some
    &&& forall|a: Address| (#[trigger] raw[k_count(a)]).len() > 0 ==> de_u64(raw[k_count(a)]) is Some
}
impl<C: ContentAddrStore> View for CoinMapping<C> { type V = CoinsView; open spec fn view(&self) -> CoinsView { raw_view(self.inner@) } }
impl<C: ContentAddrStore> CoinMapping<C> { pub open spec fn wf(&self) -> bool { raw_wf(self.inner@) } }
/// A-PHYS (assumption): a real tree holds fewer than 2^63 entries, so the set of coins it stores is finite and small.
pub axiom fn axiom_tree_fits<C: ContentAddrStore>(t: &novasmt::Tree<C>)
    ensures raw_view(t@).coins.dom().finite(), raw_view(t@).coins.dom().len() < 0x8000_0000_0000_0000;
