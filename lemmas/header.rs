// C07: the header a sealed state commits to, as a function of the abstract state (hand-written)
pub uninterp spec fn spec_header<C: ContentAddrStore>(s: UnsealedState<C>) -> Header;
