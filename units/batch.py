from spec import *
from _contracts import *

A = "src/state/applytx.rs"
S = "src/state.rs"
C_ = "src/state/coins.rs"

CACHE_PROOF = """proof {
    let parts = choose|parts: Seq<Vec<&CoinID>>| #[trigger] flat_map_decided(__cl1, __c0@, __c1@, parts);
    assert forall|t: int, k: int| 0 <= t < transactions@.len() && 0 <= k < transactions@[t].inputs@.len() implies
        cache@.contains_key(#[trigger] transactions@[t].inputs@[k]) && cache@[transactions@[t].inputs@[k]] == spec_get_coin(state.coins@, transactions@[t].inputs@[k]) by {
        assert(call_ensures(__cl1, (__c0@[t],), parts[t]));
        assert(*parts[t]@[k] == transactions@[t].inputs@[k]);
        assert(__c1@.contains(parts[t]@[k]));
        let a = choose|a: int| 0 <= a < __c1@.len() && __c1@[a] == parts[t]@[k];
        assert(call_ensures(__cl2, (__c1@[a],), __c2@[a]));
        lemma_map_of_pairs_functional(__c2@, a, |id: CoinID| spec_get_coin(state.coins@, id));
    }
}"""
UNIT = Unit(
    name="batch", uses="group_core_axioms",
    prelude=["core.rs", "raw.rs", "iter.rs", "crypto.rs", "state_abs.rs"],
    lemmas=["sums.rs", "iterlem.rs", "coinsview.rs", "tips.rs", "apply.rs", "batch_def.rs"],
    items=[
        TypeItem(S, "struct", "UnsealedState"),
        TypeItem(S, "enum", "StateError", derive="#[derive(Clone, Copy, PartialEq, Eq, Structural)]"),
        Fn(C_, "get_coin", impl="CoinMapping", mode="assume", **cm_get_coin()),
        Fn(A, "extract_input_coins", home="C02", implicit_props=("C09", "C02"), **ap_extract_input_coins(),
           sig_subst=[("extract_input_coins<C: ContentAddrStore>", "extract_input_coins<'a, C: ContentAddrStore>"), ("transactions: &[Transaction]", "transactions: &'a [Transaction]")],
           rewrites=[("ANF", "collect", 0, 4, {})],
           closures=[Closure(0, "transaction: &'a Transaction", "(r: Vec<&'a CoinID>)", ensures=[C("inputs", "refs_of(r@, transaction.inputs@)", "C02")]),
                     Closure(1, "input: &CoinID", "(r: (CoinID, Option<CoinDataHeight>))", requires=[C("wf", "state.coins.wf()")],
                             ensures=[C("lookup", "r.0 == *input && r.1 == spec_get_coin(state.coins@, *input)", "C02")])],
           injects=[Inject("entry", "let ghost txx = transactions@; let ghost sofar = coins_so_far@; let ghost c0 = state.coins@.coins;"),
                    Inject(("after_let", "cache"), CACHE_PROOF)],
           loops=[
               Loop(0, binder="it", body_entry="proof { assert(*tx == txx[it.index@ as int]); }",
                    body_exit="proof { lemma_loaded_next_tx(txx, it.index@ as int, sofar, c0, accum@); }",
                    invariants=[
                   C("ctx", "refs_of(it.seq(), txx) && txx == transactions@ && sofar == coins_so_far@ && c0 == state.coins@.coins && cache_ok(txx, state.coins@, cache@)", "C02"),
                   C("loaded", "loaded(txx, it.index@ as int, 0, sofar, c0, accum@)", "C02"),
               ]),
               Loop(1, binder="it2", body_entry="let ghost accum_pre = accum@; proof { assert(*input == txx[it.index@ as int].inputs@[it2.index@ as int]); }",
                    body_exit="proof { lemma_loaded_step(txx, it.index@ as int, it2.index@ as int, sofar, c0, accum_pre, accum@); }",
                    invariants=[
                   C("ctxi", "refs_of(it.seq(), txx) && 0 <= it.index@ < txx.len() && *tx == txx[it.index@ as int] && refs_of(it2.seq(), tx.inputs@) && txx == transactions@ && sofar == coins_so_far@ && c0 == state.coins@.coins && cache_ok(txx, state.coins@, cache@)", "C02"),
                   C("loadedi", "loaded(txx, it.index@ as int, it2.index@ as int, sofar, c0, accum@)", "C02"),
               ]),
           ]),
        Fn(A, "output_coins_from_tx", mode="assume", **ap_output_coins_from_tx()),
        Fn(A, "load_relevant_coins", home="C02", implicit_props=("C09", "C02"), **ap_load_relevant_coins(),
           rewrites=[("EXTEND",)],
           injects=[Inject("entry", "let ghost tq = txx@; let ghost h0 = this.height;"),
                    Inject(("before", "let input_coins"), "let ghost acc1 = accum@;"),
                    Inject(("before", "let coins_to_add"), """proof { assert(tx.outputs@.take(tx.outputs@.len() as int) =~= tx.outputs@);
                        lemma_fsum_ext(tx.outputs@, out_val(), |o: CoinData| o.value.0 as int); assert(outputs_fit(*tx)); }"""),
                    Inject(("after_stmt", "map_extend(&mut accum, input_coins);"), "proof { lemma_rel_of(*this, tq, acc1, input_coins@); }"),
                    Inject(("before", "Ok(accum)"), "proof { assert(inputs_distinct(tq)); }")],
           loops=[
               Loop(0, binder="it", body_entry="let ghost acc0 = accum@; proof { assert(*tx == tq[it.index@ as int]); }",
                    body_exit="proof { lemma_created_next(tq, it.index@ as int, h0, acc0, coins_to_add@); assert(accum@ =~= acc0.union_prefer_right(coins_to_add@)); }",
                    invariants=[
                   C("ctx0", "refs_of(it.seq(), tq) && tq == txx@ && h0 == this.height && this.coins.wf()", "C02"),
                   C("wf0", "forall|q: int| 0 <= q < it.index@ ==> spec_well_formed(#[trigger] tq[q]) && outputs_fit(tq[q])", "C02", "C09"),
                   C("created0", "created_so_far(tq, it.index@ as int, h0, accum@)", "C02"),
               ]),
               Loop(1, binder="it2", body_entry="proof { assert(*output == tx.outputs@[it2.index@ as int]); lemma_fsum_take_next(tx.outputs@, out_val(), it2.index@ as int); }",
                    invariants=[
                   C("ctx1", "refs_of(it.seq(), tq) && 0 <= it.index@ < tq.len() && *tx == tq[it.index@ as int] && refs_of(it2.seq(), tx.outputs@) && tq == txx@ && h0 == this.height && this.coins.wf() && spec_well_formed(*tx)", "C02"),
                   C("wf1", "forall|q: int| 0 <= q < it.index@ ==> spec_well_formed(#[trigger] tq[q]) && outputs_fit(tq[q])", "C02", "C09"),
                   C("created1", "created_so_far(tq, it.index@ as int, h0, accum@)", "C02"),
                   C("total", "total as int == tx.fee.0 + fsum(tx.outputs@.take(it2.index@ as int), out_val())", "C09"),
               ]),
               Loop(2, binder="it", body_entry="proof { assert(*tx == tq[it.index@ as int]); }",
                    body_exit="proof { lemma_distinct_next_tx(tq, it.index@ as int); lemma_visited_next_tx(tq, it.index@ as int); }",
                    invariants=[
                   C("ctx2", "refs_of(it.seq(), tq) && tq == txx@ && rel_of(*this, tq, accum@) && (forall|q: int| 0 <= q < tq.len() ==> spec_well_formed(#[trigger] tq[q]) && outputs_fit(tq[q]))", "C02"),
                   C("seen2", "forall|x: CoinID| seen@.contains(&x) <==> #[trigger] visited(tq, it.index@ as int, 0, x)", "C02"),
                   C("distinct2", "distinct_before(tq, it.index@ as int, 0)", "C02"),
               ]),
               Loop(3, binder="it2", body_entry="let ghost seen0 = seen@; proof { assert(*input == tq[it.index@ as int].inputs@[it2.index@ as int]); assert(seen0.contains(input) <==> visited(tq, it.index@ as int, it2.index@ as int, *input)); }",
                    body_exit="proof { assert(!seen0.contains(input)); assert(seen@ == seen0.insert(input)); lemma_distinct_step(tq, it.index@ as int, it2.index@ as int); lemma_visited_step(tq, it.index@ as int, it2.index@ as int); }",
                    invariants=[
                   C("ctx3", "refs_of(it.seq(), tq) && 0 <= it.index@ < tq.len() && *tx == tq[it.index@ as int] && refs_of(it2.seq(), tx.inputs@) && tq == txx@ && rel_of(*this, tq, accum@) && (forall|q: int| 0 <= q < tq.len() ==> spec_well_formed(#[trigger] tq[q]) && outputs_fit(tq[q]))", "C02"),
                   C("seen3", "forall|x: CoinID| seen@.contains(&x) <==> #[trigger] visited(tq, it.index@ as int, it2.index@ as int, x)", "C02"),
                   C("distinct3", "distinct_before(tq, it.index@ as int, it2.index@ as int)", "C02"),
               ]),
           ]),
    ],
)
