// C04 spec functions (hand-written from the property statement)
/// C04: the covenant carried for `covhash` decodes and evaluates to a true value on (tx, env)
pub open spec fn script_approves(scripts: Map<Address, Bytes>, covhash: Address, tx: Transaction, env: CovenantEnv) -> bool {
    scripts.contains_key(covhash) && spec_cov_decode(scripts[covhash]@) is Some
    && (match spec_exec(spec_cov_decode(scripts[covhash]@)->Some_0, tx, Some(env)) { Some(v) => spec_truthy(v), None => false })
}
pub open spec fn env_of(tx: Transaction, rel: Map<CoinID, CoinDataHeight>, i: int, last_header: Header) -> CovenantEnv {
    CovenantEnv { parent_coinid: tx.inputs@[i], parent_cdh: rel[tx.inputs@[i]], spender_index: i as u8, last_header: last_header }
}
/// input i is the first input of tx locked by its covenant hash (the covenant cache `good_scripts` cannot have it yet)
pub open spec fn first_occ(tx: Transaction, rel: Map<CoinID, CoinDataHeight>, i: int) -> bool {
    forall|j: int| 0 <= j < i ==> rel[#[trigger] tx.inputs@[j]].coin_data.covhash != rel[tx.inputs@[i]].coin_data.covhash
}
/// the domains the two known C04 findings exclude: at most 256 inputs (F-C04-index), pairwise different covenant hashes (F-C04-cache)
pub open spec fn c04_domain(tx: Transaction, rel: Map<CoinID, CoinDataHeight>) -> bool {
    tx.inputs@.len() <= 256 && forall|a: int, b: int| 0 <= a < b < tx.inputs@.len() && rel.contains_key(tx.inputs@[a]) && rel.contains_key(tx.inputs@[b]) ==> rel[tx.inputs@[a]].coin_data.covhash != rel[tx.inputs@[b]].coin_data.covhash
}
/// every covenant hash among the inputs has a first occurrence at or before any of its occurrences
pub proof fn lemma_first_occ_exists(tx: Transaction, rel: Map<CoinID, CoinDataHeight>, k: int)
    requires 0 <= k < tx.inputs@.len()
    ensures exists|k0: int| 0 <= k0 <= k && rel[tx.inputs@[k0]].coin_data.covhash == rel[tx.inputs@[k]].coin_data.covhash && #[trigger] first_occ(tx, rel, k0)
    decreases k
{
    if first_occ(tx, rel, k) { assert(0 <= k <= k && first_occ(tx, rel, k)); }
    else {
        let j = choose|j: int| 0 <= j < k && rel[#[trigger] tx.inputs@[j]].coin_data.covhash == rel[tx.inputs@[k]].coin_data.covhash;
        lemma_first_occ_exists(tx, rel, j);
        let k0 = choose|k0: int| 0 <= k0 <= j && rel[tx.inputs@[k0]].coin_data.covhash == rel[tx.inputs@[j]].coin_data.covhash && #[trigger] first_occ(tx, rel, k0);
        assert(0 <= k0 <= k && rel[tx.inputs@[k0]].coin_data.covhash == rel[tx.inputs@[k]].coin_data.covhash && first_occ(tx, rel, k0));
    }
}
