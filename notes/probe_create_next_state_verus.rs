use vstd::prelude::*;
use vstd::std_specs::ops::*;
use vstd::std_specs::cmp::*;
use std::collections::HashMap;
verus! {
// ================= prelude (assumed contracts) =================
pub trait ContentAddrStore {}
#[derive(Clone, Copy, PartialEq, Eq, Hash)] pub struct HashVal(pub [u8; 32]);
#[derive(Clone, Copy, PartialEq, Eq, Hash)] pub struct TxHash(pub HashVal);
#[derive(Clone, Copy, PartialEq, Eq, Hash)] pub struct Address(pub HashVal);
#[derive(Clone, Copy, PartialEq, Eq, Hash)] pub struct CoinID { pub txhash: TxHash, pub index: u8 }
#[derive(Clone, Copy, PartialEq, Eq)] pub enum TxKind { DoscMint, Faucet, LiqDeposit, LiqWithdraw, Normal, Stake, Swap }
#[derive(Clone, Copy, PartialEq, Eq)] pub enum Denom { Mel, Sym, Erg, NewCustom, Custom(TxHash) }
#[derive(Clone, Copy, PartialEq, Eq)] pub struct CoinValue(pub u128);
#[derive(Clone, Copy, PartialEq, Eq)] pub struct BlockHeight(pub u64);
#[verifier::external_body] pub struct Bytes { _p: u8 }
impl Bytes { pub uninterp spec fn view(&self) -> Seq<u8>; }
impl Clone for Bytes { #[verifier::external_body] fn clone(&self) -> (r: Self) ensures r@ == self@ { unimplemented!() } }
pub struct CoinData { pub covhash: Address, pub value: CoinValue, pub denom: Denom, pub additional_data: Bytes }
impl Clone for CoinData { #[verifier::external_body] fn clone(&self) -> (r: Self) ensures r == *self { unimplemented!() } }
pub struct CoinDataHeight { pub coin_data: CoinData, pub height: BlockHeight }
impl Clone for CoinDataHeight { #[verifier::external_body] fn clone(&self) -> (r: Self) ensures r == *self { unimplemented!() } }
pub struct Transaction { pub kind: TxKind, pub inputs: Vec<CoinID>, pub outputs: Vec<CoinData>, pub fee: CoinValue,
    pub covenants: Vec<Bytes>, pub data: Bytes, pub sigs: Vec<Bytes> }
impl Clone for Transaction { #[verifier::external_body] fn clone(&self) -> (r: Self) ensures r == *self { unimplemented!() } }

pub enum StateError { MalformedTx, InsufficientFees(CoinValue), DuplicateTx }

pub uninterp spec fn spec_txhash(tx: Transaction) -> TxHash;
pub uninterp spec fn spec_weight(tx: Transaction) -> nat;
pub open spec fn spec_base_fee(tx: Transaction, mult: u128) -> nat {
    let p = spec_weight(tx) * (mult as nat);
    (if p > u128::MAX { u128::MAX as nat } else { p }) / 65536
}
impl Transaction {
    #[verifier::external_body] pub fn hash_nosigs(&self) -> (r: TxHash) ensures r == spec_txhash(*self) { unimplemented!() }
    #[verifier::external_body]
    pub fn base_fee<F: Fn(&[u8]) -> u128>(&self, fee_multiplier: u128, ballast: u128, cov_to_weight: F) -> (r: CoinValue)
        ensures ballast == 0 ==> r.0 == spec_base_fee(*self, fee_multiplier)
    { unimplemented!() }
}
impl CoinID { pub fn new(txhash: TxHash, index: u8) -> (r: CoinID) ensures r == (CoinID { txhash, index }) { CoinID { txhash, index } } }
#[verifier::external_body] pub fn covenant_weight_from_bytes(b: &[u8]) -> u128 { unimplemented!() }

impl SubSpecImpl<CoinValue> for CoinValue {
    open spec fn obeys_sub_spec() -> bool { true }
    open spec fn sub_req(self, rhs: CoinValue) -> bool { self.0 >= rhs.0 }
    open spec fn sub_spec(self, rhs: CoinValue) -> CoinValue { CoinValue((self.0 - rhs.0) as u128) }
}
impl core::ops::Sub<CoinValue> for CoinValue { type Output = CoinValue;
    fn sub(self, rhs: CoinValue) -> (r: CoinValue) { CoinValue(self.0 - rhs.0) } }
impl PartialOrdSpecImpl<CoinValue> for CoinValue {
    open spec fn obeys_partial_cmp_spec() -> bool { true }
    open spec fn partial_cmp_spec(&self, other: &CoinValue) -> Option<core::cmp::Ordering> {
        if self.0 < other.0 { Some(core::cmp::Ordering::Less) } else if self.0 == other.0 { Some(core::cmp::Ordering::Equal) } else { Some(core::cmp::Ordering::Greater) } }
}
impl PartialOrd for CoinValue {
    #[verifier::external_body] fn partial_cmp(&self, other: &CoinValue) -> (r: Option<core::cmp::Ordering>) { self.0.partial_cmp(&other.0) }
}

pub struct CoinsView { pub coins: Map<CoinID, CoinDataHeight> }
#[verifier::external_body] #[verifier::accept_recursive_types(C)]
pub struct CoinMapping<C: ContentAddrStore> { _c: core::marker::PhantomData<C> }
impl<C: ContentAddrStore> CoinMapping<C> {
    pub uninterp spec fn view(&self) -> Map<CoinID, CoinDataHeight>;
    #[verifier::external_body] pub fn insert_coin(&mut self, id: CoinID, data: CoinDataHeight, tip_906: bool)
        ensures final(self)@ == old(self)@.insert(id, data) { unimplemented!() }
    #[verifier::external_body] pub fn remove_coin(&mut self, id: CoinID, tip_906: bool)
        ensures final(self)@ == old(self)@.remove(id) { unimplemented!() }
}
#[verifier::external_body] pub struct TransactionSet { _p: u8 }
impl TransactionSet {
    pub uninterp spec fn view(&self) -> Map<TxHash, Transaction>;
    #[verifier::external_body] pub fn insert(&mut self, txn: Transaction)
        ensures final(self)@ == old(self)@.insert(spec_txhash(txn), txn) { unimplemented!() }
}
pub struct UnsealedState<C: ContentAddrStore> {
    pub coins: CoinMapping<C>, pub transactions: TransactionSet,
    pub fee_pool: CoinValue, pub fee_multiplier: u128, pub tips: CoinValue,
}
pub type FxHashMap<K, V> = HashMap<K, V>;

#[verifier::external_body]
fn handle_faucet_tx<C: ContentAddrStore>(state: &mut UnsealedState<C>, tx: &Transaction) -> (r: Result<(), StateError>)
    ensures final(state).fee_pool == old(state).fee_pool, final(state).tips == old(state).tips,
            final(state).fee_multiplier == old(state).fee_multiplier
{ unimplemented!() }

// ================= extracted text (R4 applied to the enumerate loop) =================
fn create_next_state<C: ContentAddrStore>(
    mut next_state: UnsealedState<C>,
    transactions: &[Transaction],
    relevant_coins: &FxHashMap<CoinID, CoinDataHeight>,
    is_tip_906: bool,
) -> (res: Result<UnsealedState<C>, StateError>)
    requires
        forall|i: int| 0 <= i < transactions@.len() ==> transactions@[i].outputs@.len() <= 255,
    ensures
        res is Ok ==> res->Ok_0.fee_multiplier == next_state.fee_multiplier,
        res is Ok ==> (forall|i: int| 0 <= i < transactions@.len() ==>
            transactions@[i].fee.0 >= spec_base_fee(#[trigger] transactions@[i], next_state.fee_multiplier)),
{
    let ghost mult0 = next_state.fee_multiplier;
    for tx in it: transactions
        invariant
            next_state.fee_multiplier == mult0,
            forall|i: int| 0 <= i < transactions@.len() ==> transactions@[i].outputs@.len() <= 255,
            forall|i: int| 0 <= i < it.index@ ==> transactions@[i].fee.0 >= spec_base_fee(#[trigger] transactions@[i], mult0),
    {
        let txhash = tx.hash_nosigs();

        if tx.kind == TxKind::Faucet {
            handle_faucet_tx(&mut next_state, tx)?;
        }

        for i in 0..tx.outputs.len()
            invariant next_state.fee_multiplier == mult0, tx.outputs@.len() <= 255,
        {
            let coinid = CoinID::new(txhash, i as u8);
            // this filters out coins that we get rid of (e.g. due to them going to the coin destruction cov)
            if let Some(coin_data) = relevant_coins.get(&coinid) {
                next_state
                    .coins
                    .insert_coin(coinid, coin_data.clone(), is_tip_906);
            }
        }
        for coinid in tx.inputs.iter()
            invariant next_state.fee_multiplier == mult0,
        {
            next_state.coins.remove_coin(*coinid, is_tip_906);
        }

        // fees
        let min_fee = tx.base_fee(next_state.fee_multiplier, 0, |c| {
            covenant_weight_from_bytes(c)
        });
        if tx.fee < min_fee {
            return Err(StateError::InsufficientFees(min_fee));
        } else {
            let tips = tx.fee - min_fee;
            next_state.tips.0 = next_state.tips.0.saturating_add(tips.0);
            next_state.fee_pool.0 = next_state.fee_pool.0.saturating_add(min_fee.0);
        }
        next_state.transactions.insert(tx.clone());
    }
    Ok(next_state)
}
}
fn main() {}
