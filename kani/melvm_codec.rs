// Kani harnesses for C12 on the REAL compiled OpCode::{decode, encode} (appended to a scratch copy of lib/melvm as
// `#[cfg(kani)] mod verif_codec;`).  Each harness is loop-free over its symbolic domain apart from loops bounded by the
// buffer length, unwound completely (unwinding assertions on): a complete proof for that domain, not a bounded stand-in.
use crate::opcode::OpCode;

const N: usize = 35;

fn decode_encode(first_lo: u8, first_hi: u8) {
    let buf: [u8; N] = kani::any();
    let len: usize = kani::any();
    kani::assume(len <= N);
    kani::assume(len == 0 || (buf[0] >= first_lo && buf[0] <= first_hi));
    let mut input: &[u8] = &buf[..len];
    match OpCode::decode(&mut input) {
        Ok(op) => {
            let consumed = len - input.len();
            assert!(consumed >= 1);
            let mut out: Vec<u8> = Vec::new();
            assert!(op.encode(&mut out).is_ok());
            assert!(out.len() == consumed);
            let mut i = 0;
            while i < consumed {
                assert!(out[i] == buf[i]);
                i += 1;
            }
        }
        Err(e) => { std::mem::forget(e); }   // io::Error's drop glue is irrelevant to the claim and costly for CBMC
    }
}

macro_rules! part {
    ($name:ident, $lo:expr, $hi:expr) => {
        #[kani::proof]
        #[kani::unwind(40)]
        fn $name() { decode_encode($lo, $hi) }
    };
}
part!(dec_enc_00_2f, 0x00, 0x2f);
part!(dec_enc_30_6f, 0x30, 0x6f);
part!(dec_enc_70_af, 0x70, 0xaf);
part!(dec_enc_b0_ef, 0xb0, 0xef);
part!(dec_enc_f0, 0xf0, 0xf0);
part!(dec_enc_f1, 0xf1, 0xf1);
part!(dec_enc_f2, 0xf2, 0xf2);
part!(dec_enc_f3_ff, 0xf3, 0xff);

// ---- K2: encode, append an arbitrary tail, decode: the same instruction comes back and exactly the encoding is consumed
fn enc_dec(op: OpCode) {
    let mut out: Vec<u8> = Vec::new();
    if op.encode(&mut out).is_ok() {
        let n = out.len();
        let t0: u8 = kani::any();
        let t1: u8 = kani::any();
        out.push(t0);
        out.push(t1);
        let mut input: &[u8] = &out[..];
        match OpCode::decode(&mut input) {
            Ok(back) => { assert!(back == op); assert!(input.len() == 2); assert!(n >= 1); }
            Err(e) => { std::mem::forget(e); assert!(false) }
        }
    }
}
fn any_u256() -> ethnum::U256 { ethnum::U256::from_words(kani::any(), kani::any()) }
// one concrete opcode after the other (a symbolic selector would make CBMC merge all decode paths: memory exhaustion)
#[kani::proof] #[kani::unwind(40)]
fn enc_dec_noarg() {
    enc_dec(OpCode::Noop); enc_dec(OpCode::Add); enc_dec(OpCode::Sub); enc_dec(OpCode::Mul); enc_dec(OpCode::Div); enc_dec(OpCode::Rem);
    enc_dec(OpCode::And); enc_dec(OpCode::Or); enc_dec(OpCode::Xor); enc_dec(OpCode::Not); enc_dec(OpCode::Eql); enc_dec(OpCode::Lt); enc_dec(OpCode::Gt);
    enc_dec(OpCode::Shl); enc_dec(OpCode::Shr); enc_dec(OpCode::Store); enc_dec(OpCode::Load); enc_dec(OpCode::VRef); enc_dec(OpCode::VAppend);
}
#[kani::proof] #[kani::unwind(40)]
fn enc_dec_noarg2() {
    enc_dec(OpCode::VEmpty); enc_dec(OpCode::VLength); enc_dec(OpCode::VSlice); enc_dec(OpCode::VSet); enc_dec(OpCode::VPush); enc_dec(OpCode::VCons);
    enc_dec(OpCode::BRef); enc_dec(OpCode::BAppend); enc_dec(OpCode::BEmpty); enc_dec(OpCode::BLength); enc_dec(OpCode::BSlice); enc_dec(OpCode::BSet);
    enc_dec(OpCode::BPush); enc_dec(OpCode::BCons); enc_dec(OpCode::ItoB); enc_dec(OpCode::BtoI); enc_dec(OpCode::TypeQ); enc_dec(OpCode::Dup);
}
#[kani::proof] #[kani::unwind(40)]
fn enc_dec_args() {
    enc_dec(OpCode::Exp(kani::any())); enc_dec(OpCode::Hash(kani::any())); enc_dec(OpCode::SigEOk(kani::any())); enc_dec(OpCode::StoreImm(kani::any()));
    enc_dec(OpCode::LoadImm(kani::any()));
}
#[kani::proof] #[kani::unwind(40)]
fn enc_dec_args2() {
    enc_dec(OpCode::Bez(kani::any())); enc_dec(OpCode::Bnz(kani::any())); enc_dec(OpCode::Jmp(kani::any())); enc_dec(OpCode::Loop(kani::any(), kani::any()));
}
#[kani::proof] #[kani::unwind(40)]
fn enc_dec_pushi() { enc_dec(OpCode::PushI(any_u256())) }
#[kani::proof] #[kani::unwind(40)]
fn enc_dec_pushic() { enc_dec(OpCode::PushIC(any_u256())) }
#[kani::proof] #[kani::unwind(40)]
fn enc_dec_pushb() {
    let buf: [u8; 33] = kani::any();
    let len: usize = kani::any();
    kani::assume(len <= 33);
    enc_dec(OpCode::PushB(buf[..len].to_vec()))
}

// ---- edge values of the three literal-carrying instructions, one concrete operand after the other (constant-propagated by CBMC: seconds).
// NOT a full-domain proof: the full-domain statements are enc_dec_pushi / enc_dec_pushic / enc_dec_pushb above (15-35 minutes each, thorough
// tier); this harness keeps the quick tier sensitive to boundary mistakes (operand widths, length prefixes 0 / 32 / 33) when opcode.rs changed.
fn w(hi: u128, lo: u128) -> ethnum::U256 { ethnum::U256::from_words(hi, lo) }
#[kani::proof] #[kani::unwind(40)]
fn enc_dec_push_edges() {
    // 0, 1, 2^128, 2^248 - 1, 2^248 (32 significant bytes), 2^256 - 1
    enc_dec(OpCode::PushI(w(0, 0))); enc_dec(OpCode::PushI(w(u128::MAX, u128::MAX)));
    enc_dec(OpCode::PushIC(w(0, 0))); enc_dec(OpCode::PushIC(w(0, 1))); enc_dec(OpCode::PushIC(w(1, 0)));
    enc_dec(OpCode::PushIC(w((1u128 << 120) - 1, u128::MAX))); enc_dec(OpCode::PushIC(w(1u128 << 120, 0))); enc_dec(OpCode::PushIC(w(u128::MAX, u128::MAX)));
}
#[kani::proof] #[kani::unwind(40)]
fn enc_dec_pushb_edges() {
    enc_dec(OpCode::PushB(Vec::new()));
    enc_dec(OpCode::PushB(vec![0u8; 1]));
    enc_dec(OpCode::PushB(vec![7u8; 33]));
}
