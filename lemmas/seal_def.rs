// C05/C06/C17: what sealing does (hand-written from the property statements)
pub uninterp spec fn spec_preseal<C: ContentAddrStore>(s: UnsealedState<C>) -> UnsealedState<C>;   // melmint settlement: unit `mint`
pub uninterp spec fn spec_tip909<C: ContentAddrStore>(s: UnsealedState<C>) -> UnsealedState<C>;     // per-block subsidy
/// C05: the proposer's reward coin: 1/65536 of the fee pool plus all tips, MEL, locked by the action's destination
pub open spec fn is_reward_cdh<C: ContentAddrStore>(s: UnsealedState<C>, a: ProposerAction, d: CoinDataHeight) -> bool {
    d.height == s.height && d.coin_data.denom == Denom::Mel && d.coin_data.covhash == a.reward_dest
    && d.coin_data.value.0 == (s.fee_pool.0 >> 16) + s.tips.0 && d.coin_data.additional_data@ == Seq::<u8>::empty()
}
/// what apply_proposer_action does to a state (C05 + C17), as a relation on the fields
pub open spec fn proposer_applied<C: ContentAddrStore>(s: UnsealedState<C>, a: ProposerAction, after901: bool, r: UnsealedState<C>) -> bool {
    &&& ({ let t = s.fee_multiplier as int + spec_fee_step(s.fee_multiplier, after901, a.fee_multiplier_delta as int);
           r.fee_multiplier as int == (if t < 0 { 0 } else if t > u128::MAX { u128::MAX as int } else { t }) })
    &&& r.fee_pool.0 == s.fee_pool.0 - (s.fee_pool.0 >> 16) && r.tips.0 == 0
    &&& exists|d: CoinDataHeight| is_reward_cdh(s, a, d) && #[trigger] view_insert(s.coins@, spec_proposer_reward(s.height), d, spec_tip906(s)) == r.coins@
    &&& r.network == s.network && r.height == s.height && r.history == s.history && r.transactions == s.transactions
    &&& r.dosc_speed == s.dosc_speed && r.pools == s.pools && r.stakes == s.stakes
}
/// state invariant assumed: the reward pseudo-coin of the block being built does not exist yet (a height is sealed once)
pub open spec fn reward_fresh<C: ContentAddrStore>(s: UnsealedState<C>) -> bool { !s.coins@.coins.contains_key(spec_proposer_reward(s.height)) }
/// C09 envelopes of the TIP-909 subsidy step, on the state after melmint settlement
pub open spec fn tip909_env<C: ContentAddrStore>(s: UnsealedState<C>) -> bool {
    s.height.0 < 950000 + 128 * 1_000_000 && s.pools@.contains_key(pk_mel_sym()) && s.fee_pool.0 + s.pools@[pk_mel_sym()].lefts <= u128::MAX
}
/// sealing = melmint settlement, then the TIP-909 subsidy when active, then the proposer action if there is one
pub open spec fn seal_rel<C: ContentAddrStore>(s: UnsealedState<C>, a: Option<ProposerAction>, r: UnsealedState<C>) -> bool {
    let s1 = spec_preseal(s);
    let s2 = if spec_tip(s1.network, s1.height, 950000) { spec_tip909(s1) } else { s1 };
    match a { None => r == s2, Some(act) => proposer_applied(s2, act, spec_tip(s2.network, s2.height, 42700), r) }
}
/// C07/C13: what opening the next block does
pub open spec fn next_rel<C: ContentAddrStore>(s: UnsealedState<C>, n: UnsealedState<C>) -> bool {
    &&& n.height.0 == s.height.0 + 1 && n.network == s.network
    &&& n.history@ == s.history@.insert(s.height, spec_header(s))
    &&& n.transactions@ == Map::<TxHash, Transaction>::empty()
    &&& (forall|k: TxHash| #[trigger] n.stakes@.contains_key(k) <==> (s.stakes@.contains_key(k) && s.stakes@[k].e_post_end >= (s.height.0 + 1) / 200000))
    &&& (forall|k: TxHash| n.stakes@.contains_key(k) ==> #[trigger] n.stakes@[k] == s.stakes@[k])
    &&& n.fee_pool == s.fee_pool && n.fee_multiplier == s.fee_multiplier && n.tips == s.tips && n.dosc_speed == s.dosc_speed && n.pools == s.pools
    &&& n.coins@.coins == s.coins@.coins
    &&& (spec_tip906(n) == spec_tip906(s) ==> n.coins@ == s.coins@)
}
//@LEMMA C07 lemma_chain_next opening the next block preserves the header chain invariant
pub proof fn lemma_chain_next<C: ContentAddrStore>(s: UnsealedState<C>, n: UnsealedState<C>)
    requires chain_ok(s), next_rel(s, n)
    ensures chain_ok(n)
{
    assert forall|h: BlockHeight| #[trigger] n.history@.contains_key(h) <==> h.0 < n.height.0 by {
        if h.0 < n.height.0 { if h.0 < s.height.0 { assert(s.history@.contains_key(h)); } else { assert(h == s.height); } }
    }
    assert forall|h: BlockHeight| #[trigger] n.history@.contains_key(h) implies n.history@[h].height == h && n.history@[h].network == n.network
            && (h.0 > 0 ==> n.history@[h].previous == spec_header_hash(n.history@[BlockHeight((h.0 - 1) as u64)])) by {
        if h == s.height { if h.0 > 0 { assert(s.history@.contains_key(BlockHeight((h.0 - 1) as u64))); } }
        else { assert(s.history@.contains_key(h)); if h.0 > 0 { assert(s.history@.contains_key(BlockHeight((h.0 - 1) as u64))); } }
    }
}
// ---- batch application as seen by block application: batch_env / batch_core are DEFINED in lemmas/batch_def.rs (unit `batch`,
// which proves apply_tx_batch_impl against them) and declared uninterpreted in lemmas/batch_opaque.rs for the units that only
// pass them along (here only their frame consequences are used)
pub open spec fn batch_pre<C: ContentAddrStore>(s: UnsealedState<C>, txx: Seq<Transaction>) -> bool { state_inv(s) && chain_ok(s) && hinv(s) && batch_env(s, txx) && (s.height.0 == 0 ==> seal_fallback_pre(s)) }
pub open spec fn batch_result<C: ContentAddrStore>(s: UnsealedState<C>, txx: Seq<Transaction>, r: UnsealedState<C>) -> bool {
    batch_core(s, txx, r) && r.network == s.network && r.height == s.height && r.history == s.history && r.pools == s.pools
    && r.fee_multiplier == s.fee_multiplier && state_inv(r) && r.tips.0 <= u128::MAX - 0x1_0000_0000_0000_0000_0000_0000_0000u128
}
pub uninterp spec fn spec_next<C: ContentAddrStore>(s: SealedState<C>) -> UnsealedState<C>;   // A-DET name of next_unsealed's result
/// C06: `r` is what applying `block` to the sealed state `s` must produce: open the next block, apply the block's
/// transactions (in some enumeration of the unordered set), seal with the block's proposer action
pub open spec fn block_applied<C: ContentAddrStore>(s: UnsealedState<C>, block: Block, r: UnsealedState<C>) -> bool {
    exists|n: UnsealedState<C>, txx: Seq<Transaction>, mid: UnsealedState<C>|
        next_rel(s, n) && txx.no_duplicates() && txx.to_set() == block.transactions@ && #[trigger] batch_result(n, txx, mid) && seal_rel(mid, block.proposer_action, r)
}
// ---- C08 restart
/// invariant of sealed states: sealing with a proposer action pays out all pending tips
pub open spec fn sealed_ok<C: ContentAddrStore>(s: SealedState<C>) -> bool { s.1 is Some ==> s.0.tips.0 == 0 }
/// `blk` is the block a sealed state `s` serialises to
pub open spec fn is_block_of<C: ContentAddrStore>(s: SealedState<C>, blk: Block) -> bool {
    blk.header == spec_header(s.0) && blk.proposer_action == s.1 && blk.transactions@ == s.0.transactions@.values() && txs_keyed(s.0.transactions@) && chain_ok(s.0)
}
/// indistinguishable as far as every later transition can observe: all components equal (containers by content)
pub open spec fn same_views<C: ContentAddrStore>(a: UnsealedState<C>, b: UnsealedState<C>) -> bool {
    a.network == b.network && a.height == b.height && a.history@ == b.history@ && a.coins@.coins == b.coins@.coins && a.coins@.counts == b.coins@.counts
    && a.transactions@.dom() == b.transactions@.dom() && a.fee_pool == b.fee_pool && a.fee_multiplier == b.fee_multiplier && a.tips == b.tips
    && a.dosc_speed == b.dosc_speed && a.pools@ == b.pools@ && a.stakes@ == b.stakes@
}

/// what the genesis-only fallback of check_tx_validity (`this.clone().seal(None).header()`, taken when the history has no previous
/// header, i.e. at height 0) needs of the state: the preconditions of sealing it without an action, and of reading the header
pub open spec fn seal_fallback_pre<C: ContentAddrStore>(s: UnsealedState<C>) -> bool {
    state_inv(s) && pools_ok(s.pools@) && builtins_if_present(s) && seal_env(s) && reward_fresh(s)
    && (spec_tip(s.network, s.height, 950000) ==> tip909_env(spec_preseal(s))) && s.tips.0 <= u128::MAX - 0x1_0000_0000_0000_0000_0000_0000_0000u128 && chain_ok(s)
}
pub open spec fn prev_height<C: ContentAddrStore>(s: UnsealedState<C>) -> BlockHeight { BlockHeight(if s.height.0 == 0 { 0u64 } else { (s.height.0 - 1) as u64 }) }
