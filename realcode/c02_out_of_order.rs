// Demonstration on the real code (drop into /repo/src as verif_demo.rs, add `#[cfg(test)] mod verif_demo;` to lib.rs).
// Batch [B, A] where B spends A's output must give the same coin set as [A, B]; on the unrepaired tree A's output
// survives (value is created) and the coin roots differ.
use crate::*;
use melstructs::*;
use melvm::Covenant;
use novasmt::{Database, InMemoryCas};

fn cd(v: u128) -> CoinData { CoinData { covhash: Covenant::always_true().hash(), value: CoinValue(v), denom: Denom::Mel, additional_data: vec![].into() } }
fn mk(inputs: Vec<CoinID>, outputs: Vec<CoinData>) -> Transaction {
    Transaction { kind: TxKind::Normal, inputs, outputs, fee: CoinValue(0), covenants: vec![Covenant::always_true().to_bytes()], data: vec![].into(), sigs: vec![] }
}
#[test]
fn c02_out_of_order_batch() {
    let db = Database::new(InMemoryCas::default());
    let mut state = GenesisConfig::std_testnet().realize(&db);
    state.network = NetID::Custom02;
    state.fee_multiplier = 0;
    let x = CoinID { txhash: tmelcrypt::HashVal([1; 32]).into(), index: 0 };
    state.coins.insert_coin(x, CoinDataHeight { coin_data: cd(1000), height: 0.into() }, state.tip_906());
    let a = mk(vec![x], vec![cd(1000)]);
    let b = mk(vec![a.output_coinid(0)], vec![cd(1000)]);
    let mut s1 = state.clone();
    s1.apply_tx_batch(&[a.clone(), b.clone()]).unwrap();
    let mut s2 = state.clone();
    s2.apply_tx_batch(&[b.clone(), a.clone()]).unwrap();
    let h1 = s1.seal(None);
    let h2 = s2.seal(None);
    assert!(h1.coin(a.output_coinid(0)).is_none(), "in-order: A's output must be spent");
    assert!(h2.coin(a.output_coinid(0)).is_none(), "out-of-order: A's output must be spent too (coin resurrected)");
    assert_eq!(h1.header().coins_hash, h2.header().coins_hash);
}
