// F-C16-overmint on the real code: asserts the property (liquidity tokens handed out for the deposits of one block never
// exceed the liquidity the pool recorded for them); FAILS on the pinned tree: two deposits of (4, 4) into the MEL/SYM pool
// each receive ALL of the 8 tokens minted for the combined (8, 8), because the pro-rata weights isqrt(l)*isqrt(r) of the
// parts (4 + 4) exceed the weight of the total (isqrt(8)^2 = 4).
use crate::*;
use melstructs::*;
use melvm::Covenant;
use novasmt::{Database, InMemoryCas};

#[test]
fn c16_deposits_of_one_block_mint_no_more_liquidity_than_the_pool_records() {
    let db = Database::new(InMemoryCas::default());
    let mut state = GenesisConfig::std_testnet().realize(&db);
    state.network = NetID::Custom02;
    state.fee_multiplier = 0;
    let cov = Covenant::always_true();
    let mut put = |n: u8, value: u128, denom: Denom| {
        let id = CoinID { txhash: tmelcrypt::HashVal([n; 32]).into(), index: 0 };
        let t = state.tip_906();
        state.coins.insert_coin(id, CoinDataHeight { coin_data: CoinData { covhash: cov.hash(), value: CoinValue(value), denom, additional_data: vec![].into() }, height: 0.into() }, t);
        id
    };
    let m1 = put(1, 4, Denom::Mel); let s1 = put(2, 4, Denom::Sym);
    let m2 = put(3, 4, Denom::Mel); let s2 = put(4, 4, Denom::Sym);
    let mut state = state.seal(None).next_unsealed();   // block 0 creates the built-in pools
    let key = PoolKey::new(Denom::Mel, Denom::Sym);
    let liqs_before = state.clone().seal(None).pool(key).unwrap().liqs;
    let dep = |a: CoinID, b: CoinID, nonce: u8| Transaction {
        kind: TxKind::LiqDeposit, inputs: vec![a, b],
        outputs: vec![CoinData { covhash: cov.hash(), value: CoinValue(4), denom: key.left(), additional_data: vec![nonce].into() },
                      CoinData { covhash: cov.hash(), value: CoinValue(4), denom: key.right(), additional_data: vec![nonce].into() }],
        fee: CoinValue(0), covenants: vec![cov.to_bytes()], data: key.to_bytes().to_vec().into(), sigs: vec![] };
    let (d1, d2) = if key.left() == Denom::Mel { (dep(m1, s1, 1), dep(m2, s2, 2)) } else { (dep(s1, m1, 1), dep(s2, m2, 2)) };
    state.apply_tx(&d1).unwrap();
    state.apply_tx(&d2).unwrap();
    let sealed = state.seal(None);
    let minted = sealed.pool(key).unwrap().liqs - liqs_before;
    let got1 = sealed.coin(d1.output_coinid(0)).unwrap().coin_data;
    let got2 = sealed.coin(d2.output_coinid(0)).unwrap().coin_data;
    assert_eq!(got1.denom, key.liq_token_denom());
    assert_eq!(got2.denom, key.liq_token_denom());
    assert!(got1.value.0 + got2.value.0 <= minted,
        "depositors received {} + {} liquidity tokens but the pool recorded only {} for them", got1.value.0, got2.value.0, minted);
}
