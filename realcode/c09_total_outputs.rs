// C09 on the real code: 255 outputs of 2^120 plus a fee of 2^120 make Transaction::total_outputs overflow (panic in debug,
// wrap in release) inside apply_tx.  Asserts the property: the transaction is rejected, the validator does not panic.
use crate::*;
use melstructs::*;
use melvm::Covenant;
use novasmt::{Database, InMemoryCas};
use std::panic::{catch_unwind, AssertUnwindSafe};

#[test]
fn c09_total_outputs_overflow_is_rejected_not_a_panic() {
    let db = Database::new(InMemoryCas::default());
    let mut state = GenesisConfig::std_testnet().realize(&db);
    state.network = NetID::Custom02;
    state.fee_multiplier = 0;
    let x = CoinID { txhash: tmelcrypt::HashVal([1; 32]).into(), index: 0 };
    let cd = |v: CoinValue| CoinData { covhash: Covenant::always_true().hash(), value: v, denom: Denom::Mel, additional_data: vec![].into() };
    state.coins.insert_coin(x, CoinDataHeight { coin_data: cd(CoinValue(1000)), height: 0.into() }, state.tip_906());
    let tx = Transaction { kind: TxKind::Normal, inputs: vec![x], outputs: (0..255).map(|_| cd(MAX_COINVAL)).collect(), fee: MAX_COINVAL,
        covenants: vec![Covenant::always_true().to_bytes()], data: vec![].into(), sigs: vec![] };
    assert!(tx.is_well_formed());
    let r = catch_unwind(AssertUnwindSafe(move || state.apply_tx(&tx)));
    assert!(r.is_ok(), "apply_tx panicked");
    assert!(r.unwrap().is_err(), "the transaction must be rejected");
}
