// state invariants shared by the sealing and melmint units (hand-written)
pub open spec fn spec_builtin_pools<C: ContentAddrStore>(s: UnsealedState<C>) -> bool {
    s.pools@.contains_key(pk_mel_sym()) && s.pools@.contains_key(pk_mel_erg()) && (spec_tip(s.network, s.height, 180000) ==> s.pools@.contains_key(pk_erg_sym()))
}
/// invariants the state carries through every transition (C20 count invariant once TIP-906 is active, C16 built-in pools)
pub open spec fn state_inv<C: ContentAddrStore>(s: UnsealedState<C>) -> bool {
    s.coins.wf() && (spec_tip906(s) ==> counts_ok(s.coins@)) && (!spec_tip906(s) ==> s.coins@.counts == IMap::<Address, nat>::empty()) && origin_ok(s.coins@.coins) && txs_keyed(s.transactions@)
}
/// frame of the two pool-side phases of sealing: they touch coins, pools and the fee pool only
pub open spec fn pool_phase_frame<C: ContentAddrStore>(a: UnsealedState<C>, b: UnsealedState<C>) -> bool {
    a.network == b.network && a.height == b.height && a.history == b.history && a.transactions == b.transactions
    && a.fee_multiplier == b.fee_multiplier && a.tips == b.tips && a.dosc_speed == b.dosc_speed && a.stakes == b.stakes
}
pub proof fn lemma_two_pools<C: ContentAddrStore>(s: UnsealedState<C>) requires spec_builtin_pools(s) ensures s.pools@.dom().len() >= 2
{
    let a = pk_mel_sym(); let b = pk_mel_erg();
    let d = s.pools@.dom();
    assert(d.contains(a) && d.contains(b) && a != b);
    let two = Set::<PoolKey>::empty().insert(a).insert(b);
    assert(two.subset_of(d));
    vstd::set_lib::lemma_len_subset(two, d);
    assert(two.len() == 2);
}
pub proof fn lemma_two_pools_min<C: ContentAddrStore>(s: UnsealedState<C>)
    requires s.pools@.contains_key(pk_mel_sym()) && s.pools@.contains_key(pk_mel_erg()) ensures s.pools@.dom().len() >= 2
{
    let a = pk_mel_sym(); let b = pk_mel_erg(); let d = s.pools@.dom();
    let two = Set::<PoolKey>::empty().insert(a).insert(b);
    assert(two.subset_of(d));
    vstd::set_lib::lemma_len_subset(two, d);
    assert(two.len() == 2);
}
pub open spec fn pool_live(p: PoolState) -> bool { p.lefts > 0 && p.rights > 0 }

// ---- C16: built-in pools
pub open spec fn is_initial_pool(p: PoolState) -> bool { p.lefts == 1_000_000_000 && p.rights == 1_000_000_000 && p.liqs == 1_000_000_000 && p.price_accum == 0 }
/// every pool in the tree is either live (reserves and liquidity non-zero) or completely empty
pub open spec fn pools_ok(m: Map<PoolKey, PoolState>) -> bool {
    forall|k: PoolKey| #[trigger] m.contains_key(k) ==> (pool_live(m[k]) && m[k].liqs > 0) || (m[k].lefts == 0 && m[k].rights == 0 && m[k].liqs == 0)
}
pub open spec fn builtins_live<C: ContentAddrStore>(s: UnsealedState<C>) -> bool {
    &&& s.pools@.contains_key(pk_mel_sym()) && pool_live(s.pools@[pk_mel_sym()])
    &&& s.pools@.contains_key(pk_mel_erg()) && pool_live(s.pools@[pk_mel_erg()])
    &&& (spec_tip(s.network, s.height, 180000) ==> s.pools@.contains_key(pk_erg_sym()) && pool_live(s.pools@[pk_erg_sym()]))
}
/// built-in pools that already exist are live (their initial liquidity belongs to nobody, so they can never be emptied)
pub open spec fn builtins_if_present<C: ContentAddrStore>(s: UnsealedState<C>) -> bool {
    (s.pools@.contains_key(pk_mel_sym()) ==> pool_live(s.pools@[pk_mel_sym()])) && (s.pools@.contains_key(pk_mel_erg()) ==> pool_live(s.pools@[pk_mel_erg()]))
    // nothing is required of ERG/SYM: before TIP-902 it is an ordinary pool that its holders may empty; create_builtins seeds it at
    // activation when it is absent OR empty (fix "an emptied ERG/SYM pool is seeded at TIP-902"), and pools_ok makes a non-empty one live
}

// ---- TIP-909 subsidy (apply_tip_909)
pub open spec fn spec_tip909_reward(height: u64) -> u128 { (1u128 << 20) >> ((if height >= 950000 { (height - 950000) as u64 } else { 0u64 }) / 1_000_000u64) }
pub open spec fn spec_tip909_fee_part(reward: u128, a: bool) -> u128 { if a { (reward - (reward >> 8)) as u128 } else { reward / 2 } }
pub open spec fn spec_tip909_erg_part(reward: u128, a: bool) -> u128 { if a { reward >> 8 } else { (reward - reward / 2) as u128 } }
/// swap_many(0, dx) on a pool: dx added to the right reserve (saturating), floor(dx * lefts * 995 / (rights' * 1000)) taken from the left reserve
pub open spec fn right_fed(p0: PoolState, p1: PoolState, dx: int, out: int) -> bool {
    let rr = if p0.rights + dx > u128::MAX { u128::MAX as int } else { p0.rights + dx };
    out == (if (dx * p0.lefts * 995) / (rr * 1000) > u128::MAX { u128::MAX as int } else { (dx * p0.lefts * 995) / (rr * 1000) })
    && p1.lefts as int == p0.lefts - out && p1.rights as int == rr && p1.liqs == p0.liqs && p1.lefts > 0 && p1.rights > 0
}
pub open spec fn tip909_applied<C: ContentAddrStore>(s: UnsealedState<C>, r: UnsealedState<C>) -> bool {
    let reward = spec_tip909_reward(s.height.0); let a = spec_tip(s.network, s.height, 1048000);
    &&& r.pools@.dom() == s.pools@.dom()
    &&& forall|k: PoolKey| k != pk_mel_sym() && k != pk_erg_sym() && s.pools@.contains_key(k) ==> #[trigger] r.pools@[k] == s.pools@[k]
    &&& exists|mel: int, erg: int| #[trigger] right_fed(s.pools@[pk_mel_sym()], r.pools@[pk_mel_sym()], spec_tip909_fee_part(reward, a) as int, mel)
            && #[trigger] right_fed(s.pools@[pk_erg_sym()], r.pools@[pk_erg_sym()], spec_tip909_erg_part(reward, a) as int, erg) && r.fee_pool.0 as int == s.fee_pool.0 + mel
}

/// coin ids that settlement may introduce are ids of transaction outputs (never a reward or faucet-marker pseudo-id)
pub open spec fn tx_id(id: CoinID) -> bool { exists|tx: Transaction| id.txhash == #[trigger] spec_txhash(tx) }
pub open spec fn ids_new(c0: IMap<CoinID, CoinDataHeight>, c1: IMap<CoinID, CoinDataHeight>) -> bool { forall|id: CoinID| #[trigger] c1.contains_key(id) ==> c0.contains_key(id) || tx_id(id) }
