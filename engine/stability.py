#!/usr/bin/env python3
"""dev helper: stability.py [unit ...] [--seeds 1,2,3] -- re-run each unit's base file under several Z3 random seeds and
report every function that fails (or runs out of resources) under some seed although it verifies under the default one.
A proof that depends on the seed is brittle: an unrelated edit of the file can flip it (DESIGN 3.3)."""
import sys, os, re, json, concurrent.futures as cf
HERE = os.path.dirname(os.path.abspath(__file__)); sys.path.insert(0, HERE); sys.path.insert(0, os.path.join(os.path.dirname(HERE), "units"))
import check as CK, run as R
from rsx import Undecided
args = [a for a in sys.argv[1:] if not a.startswith("--")]
seeds = [1, 2, 3]
if "--seeds" in sys.argv: seeds = [int(x) for x in sys.argv[sys.argv.index("--seeds") + 1].split(",")]; args = [a for a in args if a != sys.argv[sys.argv.index("--seeds") + 1]]
units = CK.load_units()
names = args or list(units)
def go(job):
    n, seed = job
    try:
        b = R.evaluate_base(units[n]) if seed == 0 else None
        if seed == 0:
            return n, seed, b["verified"], b["errors"], [(e["msg"][:60], str(e.get("primary"))[:160]) for e in b["errs"]]
        text = TEXT[n]
        res = R.run_verus(text, f"{n}__seed{seed}", extra=["--smt-option", f"smt.random_seed={seed}"])
        js = res["json"] or {}
        vr = js.get("verification-results", {})
        bad = []
        for d in res["diags"]:
            m = d.get("message", "")
            if d.get("level") == "error" and "aborting" not in m:
                ln = [s["line_start"] for s in d.get("spans", [])]
                bad.append((m[:60], ln[:3]))
        return n, seed, vr.get("verified"), vr.get("errors"), bad
    except Undecided as e:
        return n, seed, None, None, [str(e)]
TEXT = {}
with cf.ThreadPoolExecutor(max_workers=6) as ex:
    for n, seed, v, e, bad in ex.map(go, [(n, 0) for n in names]):
        print("base", n, v, e, bad, flush=True)
for n in names:
    TEXT[n] = R.compose(units[n], None)[0]
with cf.ThreadPoolExecutor(max_workers=6) as ex:
    for n, seed, v, e, bad in ex.map(go, [(n, s) for n in names for s in seeds]):
        print("seed", seed, n, v, e, bad if e else "", flush=True)
