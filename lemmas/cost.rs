// C11 (global part): every run of the one-step semantics executes at most `weight` instructions, hence terminates.
// The argument is a potential function over (program counter, loop stack): `phi` bounds the number of steps still possible and
// every successful step lowers it by at least one.  Weights here are UNSATURATED naturals (`uwi`); `lemma_uwi_sat` shows that the
// saturating weight the code computes (spec_weight, proved equal to opcodes_weight in unit `weight`) is min(uwi, u128::MAX).
pub open spec fn imax(a: int, b: int) -> int { if a >= b { a } else { b } }
/// unsaturated weight of the window p[i..e): the sum of its instruction weights, loop bodies cut at `e`
pub open spec fn uwi(p: Seq<OpCode>, i: int, e: int) -> nat decreases e - i, 1int {
    if i < 0 || i >= e || e > p.len() { 0 } else { cwi(p, i, e) + uwi(p, i + 1, e) }
}
/// unsaturated weight of the instruction at i inside the window ending at e
pub open spec fn cwi(p: Seq<OpCode>, i: int, e: int) -> nat decreases e - i, 0int {
    if i < 0 || i >= e || e > p.len() { 0 } else {
        match p[i] {
            OpCode::Loop(iters, len) => 1 + (iters as nat) * uwi(p, i + 1, imin(i + 1 + len as int, e)),
            op => simple_weight(op) as nat,
        }
    }
}
pub open spec fn fend(f: LoopState, n: int) -> int { imin(f.end as int + 1, n) }
/// steps still possible from program counter `pc` under loop stack `l` (innermost loop last)
pub open spec fn phi(p: Seq<OpCode>, pc: int, l: Seq<LoopState>) -> nat decreases l.len() {
    if l.len() == 0 { uwi(p, pc, p.len() as int) } else {
        let f = l.last(); let e = fend(f, p.len() as int);
        uwi(p, pc, e) + (f.iterations_left as nat) * uwi(p, f.begin as int, e) + phi(p, imax(pc, f.end as int + 1), l.drop_last())
    }
}
pub proof fn lemma_cwi_pos(p: Seq<OpCode>, i: int, e: int)
    requires 0 <= i < e <= p.len()
    ensures cwi(p, i, e) >= 1
{
    match p[i] { OpCode::Loop(iters, len) => {}, op => { assert(simple_weight(op) >= 1); } }
}
pub proof fn lemma_uwi_anti(p: Seq<OpCode>, i1: int, i2: int, e: int)
    requires 0 <= i1 <= i2
    ensures uwi(p, i2, e) <= uwi(p, i1, e)
    decreases i2 - i1
{
    if i1 < i2 {
        lemma_uwi_anti(p, i1 + 1, i2, e);
        if i1 < e && e <= p.len() { assert(uwi(p, i1, e) == cwi(p, i1, e) + uwi(p, i1 + 1, e)); } else { assert(uwi(p, i2, e) == 0); }
    }
}
pub proof fn lemma_phi_anti(p: Seq<OpCode>, pc1: int, pc2: int, l: Seq<LoopState>)
    requires 0 <= pc1 <= pc2
    ensures phi(p, pc2, l) <= phi(p, pc1, l)
    decreases l.len()
{
    if l.len() == 0 { lemma_uwi_anti(p, pc1, pc2, p.len() as int); } else {
        let f = l.last(); let e = fend(f, p.len() as int);
        lemma_uwi_anti(p, pc1, pc2, e);
        lemma_phi_anti(p, imax(pc1, f.end as int + 1), imax(pc2, f.end as int + 1), l.drop_last());
    }
}
/// moving past the instruction at pc (to any later position) under an unchanged loop stack costs at least one unit
pub proof fn lemma_advance(p: Seq<OpCode>, pc: int, pc2: int, l: Seq<LoopState>)
    requires 0 <= pc < p.len(), pc2 >= pc + 1
    ensures phi(p, pc2, l) + 1 <= phi(p, pc, l)
    decreases l.len()
{
    let n = p.len() as int;
    if l.len() == 0 {
        lemma_cwi_pos(p, pc, n); lemma_uwi_anti(p, pc + 1, pc2, n);
        assert(uwi(p, pc, n) == cwi(p, pc, n) + uwi(p, pc + 1, n));
    } else {
        let f = l.last(); let e = fend(f, n);
        if pc <= f.end as int {
            assert(pc < e);
            lemma_cwi_pos(p, pc, e); lemma_uwi_anti(p, pc + 1, pc2, e);
            assert(uwi(p, pc, e) == cwi(p, pc, e) + uwi(p, pc + 1, e));
            lemma_phi_anti(p, imax(pc, f.end as int + 1), imax(pc2, f.end as int + 1), l.drop_last());
        } else {
            assert(uwi(p, pc, e) == 0 && uwi(p, pc2, e) == 0);
            assert(imax(pc, f.end as int + 1) == pc && imax(pc2, f.end as int + 1) == pc2);
            lemma_advance(p, pc, pc2, l.drop_last());
        }
    }
}
/// entering a counted loop: its remaining iterations plus everything after it are already paid for by the Loop instruction's weight
pub proof fn lemma_loop_enter(p: Seq<OpCode>, pc: int, l: Seq<LoopState>, iters: u16, len: u16)
    requires 0 <= pc < p.len(), p[pc] == OpCode::Loop(iters, len), iters > 0, p.len() <= 0x7fff_ffff_ffff,
             l.len() > 0 ==> pc + len <= l.last().end,
    ensures phi(p, pc + 1, l.push(LoopState { begin: (pc + 1) as usize, end: (pc + len) as usize, iterations_left: (iters - 1) as u16 })) + 1 <= phi(p, pc, l)
{
    let n = p.len() as int;
    let g = LoopState { begin: (pc + 1) as usize, end: (pc + len) as usize, iterations_left: (iters - 1) as u16 };
    let l2 = l.push(g);
    let eg = fend(g, n);
    assert(l2.last() == g && l2.drop_last() =~= l);
    assert(eg == imin(pc + len + 1, n));
    let ub = uwi(p, pc + 1, eg);
    assert(phi(p, pc + 1, l2) == ub + ((iters - 1) as nat) * ub + phi(p, imax(pc + 1, pc + len + 1), l));
    assert(ub + ((iters - 1) as nat) * ub == (iters as nat) * ub) by (nonlinear_arith) requires iters > 0;
    assert(imax(pc + 1, pc + len + 1) == pc + len + 1);
    if l.len() == 0 {
        assert(uwi(p, pc, n) == cwi(p, pc, n) + uwi(p, pc + 1, n));
        assert(cwi(p, pc, n) == 1 + (iters as nat) * uwi(p, pc + 1, imin(pc + 1 + len as int, n)));
        lemma_uwi_anti(p, pc + 1, pc + len + 1, n);
    } else {
        let f = l.last(); let e = fend(f, n);
        assert(pc < e);
        assert(uwi(p, pc, e) == cwi(p, pc, e) + uwi(p, pc + 1, e));
        assert(imin(pc + 1 + len as int, e) == eg);
        assert(cwi(p, pc, e) == 1 + (iters as nat) * uwi(p, pc + 1, imin(pc + 1 + len as int, e)));
        lemma_uwi_anti(p, pc + 1, pc + len + 1, e);
        assert(imax(pc, f.end as int + 1) == f.end as int + 1 && imax(pc + len + 1, f.end as int + 1) == f.end as int + 1);
    }
}
/// the loop bookkeeping never raises the potential
pub proof fn lemma_update_phi(p: Seq<OpCode>, m: VM)
    requires m.pc >= 0
    ensures phi(p, sem_update(m).pc, sem_update(m).loops) <= phi(p, m.pc, m.loops), sem_update(m).pc >= 0
    decreases m.loops.len()
{
    if m.loops.len() > 0 {
        let st = m.loops.last(); let l = m.loops.drop_last(); let e = fend(st, p.len() as int);
        if m.pc > st.end {
            assert(uwi(p, m.pc, e) == 0);
            assert(imax(m.pc, st.end as int + 1) == m.pc);
            if st.iterations_left > 0 && m.pc - st.end == 1 {
                let st2 = LoopState { iterations_left: (st.iterations_left - 1) as u16, ..st };
                let l2 = l.push(st2);
                assert(l2.last() == st2 && l2.drop_last() =~= l);
                let ub = uwi(p, st.begin as int, e);
                assert(fend(st2, p.len() as int) == e);
                assert(phi(p, st.begin as int, l2) == ub + ((st.iterations_left - 1) as nat) * ub + phi(p, imax(st.begin as int, st.end as int + 1), l));
                assert(ub + ((st.iterations_left - 1) as nat) * ub == (st.iterations_left as nat) * ub) by (nonlinear_arith) requires st.iterations_left > 0;
                lemma_phi_anti(p, st.end as int + 1, imax(st.begin as int, st.end as int + 1), l);
            } else {
                let m2 = VM { loops: l, ..m };
                lemma_update_phi(p, m2);
                assert(phi(p, m.pc, m.loops) >= phi(p, m.pc, l));
            }
        }
    }
}
//@LEMMA C11 lemma_step_phi every successful step of the MelVM semantics lowers the remaining-cost potential by at least one
pub proof fn lemma_step_phi(p: Seq<OpCode>, m: VM, m2: VM)
    requires 0 <= m.pc < p.len(), p.len() <= 0x7fff_ffff_ffff, sem_step(p[m.pc], m) == Some(m2)
    ensures phi(p, m2.pc, m2.loops) + 1 <= phi(p, m.pc, m.loops), m2.pc >= 0
{
    let op = p[m.pc];
    let mi = sem_inner(op, VM { pc: m.pc + 1, ..m })->Some_0;
    assert(m2 == sem_update(mi));
    match op {
        OpCode::Loop(iters, len) => {
            if iters == 0 { assert(mi.loops == m.loops && mi.pc == m.pc + 1 + len); lemma_advance(p, m.pc, mi.pc, m.loops); }
            else { lemma_loop_enter(p, m.pc, m.loops, iters, len); assert(mi.pc == m.pc + 1); }
        },
        OpCode::Jmp(gap) => { assert(mi.loops == m.loops && mi.pc >= m.pc + 1); lemma_advance(p, m.pc, mi.pc, m.loops); },
        OpCode::Bez(gap) => { assert(mi.loops == m.loops && mi.pc >= m.pc + 1); lemma_advance(p, m.pc, mi.pc, m.loops); },
        OpCode::Bnz(gap) => { assert(mi.loops == m.loops && mi.pc >= m.pc + 1); lemma_advance(p, m.pc, mi.pc, m.loops); },
        _ => { assert(mi.loops == m.loops && mi.pc == m.pc + 1); lemma_advance(p, m.pc, mi.pc, m.loops); },
    }
    assert(phi(p, mi.pc, mi.loops) + 1 <= phi(p, m.pc, m.loops));
    lemma_update_phi(p, mi);
}
/// n successful steps use up at least n units of potential
pub proof fn lemma_run_phi(p: Seq<OpCode>, m0: VM, n: nat)
    requires m0.pc >= 0, p.len() <= 0x7fff_ffff_ffff, run_n(p, m0, n) is Some
    ensures phi(p, run_n(p, m0, n)->Some_0.pc, run_n(p, m0, n)->Some_0.loops) + n <= phi(p, m0.pc, m0.loops), run_n(p, m0, n)->Some_0.pc >= 0
    decreases n
{
    if n > 0 {
        let m1 = run_n(p, m0, (n - 1) as nat)->Some_0;
        lemma_run_phi(p, m0, (n - 1) as nat);
        lemma_step_phi(p, m1, run_n(p, m0, n)->Some_0);
    }
}
pub open spec fn sat128n(x: nat) -> int { if x > u128::MAX { u128::MAX as int } else { x as int } }
/// the saturating weight computed by the code (spec_weight of the slice) is the unsaturated weight capped at u128::MAX
pub proof fn lemma_uwi_sat(p: Seq<OpCode>, i: int, e: int)
    requires 0 <= i <= e <= p.len()
    ensures spec_weight(p.subrange(i, e)) == sat128n(uwi(p, i, e)), i < e ==> spec_car_weight(p.subrange(i, e)) == sat128n(cwi(p, i, e))
    decreases e - i, 1int
{
    let s = p.subrange(i, e);
    if i < e {
        lemma_cwi_sat(p, i, e);
        lemma_uwi_sat(p, i + 1, e);
        assert(s.skip(1) =~= p.subrange(i + 1, e));
        assert(spec_weight(s) == sat_add(spec_car_weight(s), spec_weight(s.skip(1))));
        assert(uwi(p, i, e) == cwi(p, i, e) + uwi(p, i + 1, e));
    } else { assert(s.len() == 0); }
}
pub proof fn lemma_cwi_sat(p: Seq<OpCode>, i: int, e: int)
    requires 0 <= i < e <= p.len()
    ensures spec_car_weight(p.subrange(i, e)) == sat128n(cwi(p, i, e))
    decreases e - i, 0int
{
    let s = p.subrange(i, e);
    assert(s[0] == p[i]);
    match p[i] {
        OpCode::Loop(iters, len) => {
            let k = imin(len as int, s.len() - 1);
            let e2 = imin(i + 1 + len as int, e);
            assert(e2 == i + 1 + k);
            assert(s.skip(1).take(k) =~= p.subrange(i + 1, e2));
            lemma_uwi_sat(p, i + 1, e2);
            let u = uwi(p, i + 1, e2);
            let w = sat128n(u);
            assert(spec_car_weight(s) == sat_add(sat_mul(w, iters as int), 1));
            assert(sat_mul(w, iters as int) == sat128n((iters as nat) * u)) by (nonlinear_arith)
                requires w == sat128n(u), iters >= 0;
            assert(cwi(p, i, e) == 1 + (iters as nat) * u);
        },
        op => { assert(1 <= simple_weight(op) <= 70000); assert(spec_car_weight(s) == simple_weight(op)); },
    }
}
//@LEMMA C11 lemma_steps_le_weight a covenant run from its start executes at most weight-many instructions (so it terminates); for a weight below the u128 cap this is the weight the code computes
pub proof fn lemma_steps_le_weight(p: Seq<OpCode>, m0: VM, n: nat)
    requires m0.pc == 0, m0.loops.len() == 0, p.len() <= 0x7fff_ffff_ffff, run_n(p, m0, n) is Some
    ensures n <= uwi(p, 0, p.len() as int), spec_weight(p) == sat128n(uwi(p, 0, p.len() as int)), spec_weight(p) < u128::MAX ==> n <= spec_weight(p)
{
    lemma_run_phi(p, m0, n);
    lemma_uwi_sat(p, 0, p.len() as int);
    assert(p.subrange(0, p.len() as int) =~= p);
}
