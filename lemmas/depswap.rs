// lemmas for the PoolState arithmetic of melstructs 0.3.3 (hand-written; used by unit depswap only)
/// floor division by a positive divisor: q = n / d satisfies q*d <= n < (q+1)*d
pub proof fn lemma_div_bounds(n: int, d: int)
    requires d > 0 ensures (n / d) * d <= n, n < (n / d + 1) * d
{
    vstd::arithmetic::div_mod::lemma_fundamental_div_mod(n, d);
    vstd::arithmetic::div_mod::lemma_mod_bound(n, d);
    assert(d * (n / d) == (n / d) * d) by (nonlinear_arith);
    assert((n / d + 1) * d == (n / d) * d + d) by (nonlinear_arith);
}
/// the 0.5% fee: what a side pays out is strictly less than what it holds (so a swap never empties a reserve), and never negative
pub proof fn lemma_swap_out_lt(dx: int, this_after: int, other_after: int)
    requires 0 <= dx <= this_after, this_after > 0, 0 < other_after <= u128::MAX
    ensures 0 <= swap_out(dx, this_after, other_after) < other_after
{
    let n = dx * other_after * 995; let d = this_after * 1000; let q = n / d;
    assert(d > 0) by (nonlinear_arith) requires this_after > 0, d == this_after * 1000;
    lemma_div_bounds(n, d);
    assert(n >= 0) by (nonlinear_arith) requires dx >= 0, other_after > 0, n == dx * other_after * 995;
    assert(q >= 0) by (nonlinear_arith) requires n >= 0, d > 0, n < (q + 1) * d;
    assert(n <= this_after * other_after * 995) by (nonlinear_arith) requires 0 <= dx <= this_after, other_after > 0, n == dx * other_after * 995;
    assert(q < other_after) by (nonlinear_arith) requires q * d <= n, n <= this_after * other_after * 995, d == this_after * 1000, this_after > 0, other_after > 0;
}
/// a pro-rata share of a reserve: floor(x * q / t) <= x when q <= t
pub proof fn lemma_share_le(x: int, q: int, t: int)
    requires 0 <= x, 0 <= q <= t, t > 0 ensures 0 <= (x * q) / t <= x
{
    lemma_div_bounds(x * q, t);
    let r = (x * q) / t;
    assert(x * q >= 0) by (nonlinear_arith) requires x >= 0, q >= 0;
    assert(r >= 0) by (nonlinear_arith) requires x * q >= 0, t > 0, x * q < (r + 1) * t;
    assert(x * q <= x * t) by (nonlinear_arith) requires x >= 0, q <= t;
    assert(r <= x) by (nonlinear_arith) requires r * t <= x * q, x * q <= x * t, t > 0;
}
