"""Contracts shared between the unit that PROVES a repo function and the units that ASSUME it at call sites
(one clause text, two uses -- so the assumed contract cannot drift from the proved one)."""
from spec import C

def cm_insert_coin():
    return dict(
        requires=[C("wf", "old(self).wf()"), C("inv", "tip_906 ==> counts_ok(old(self)@)")],
        ensures=[C("wf", "final(self).wf()", "C20", "C02"),
                 C("exact", "final(self)@ == view_insert(old(self)@, id, data, tip_906)", "C02", "C20", "C01"),
                 C("counts_ok", "tip_906 && (old(self)@.coins.contains_key(id) ==> old(self)@.coins[id].coin_data.covhash == data.coin_data.covhash) ==> counts_ok(final(self)@)", "C20")])

def cm_remove_coin():
    return dict(
        requires=[C("wf", "old(self).wf()"), C("inv", "tip_906 ==> counts_ok(old(self)@)")],
        ensures=[C("wf", "final(self).wf()", "C20", "C02"),
                 C("exact", "final(self)@ == view_remove(old(self)@, id, tip_906)", "C02", "C20", "C01"),
                 C("counts_ok", "tip_906 ==> counts_ok(final(self)@)", "C20")])

def cm_get_coin():
    return dict(
        requires=[C("wf", "self.wf()")],
        ensures=[C("exact", "res == (if self@.coins.contains_key(id) { Some(self@.coins[id]) } else { None::<CoinDataHeight> })", "C02", "C19")])

def cm_coin_count():
    return dict(
        requires=[C("wf", "self.wf()")],
        ensures=[C("exact", "res as nat == count_of(self@.counts, covhash)", "C20")])

def cm_insert_coin_count():
    return dict(
        requires=[C("wf", "old(self).wf()")],
        ensures=[C("wf", "final(self).wf()", "C20"),
                 C("coins", "final(self)@.coins == old(self)@.coins", "C20", "C02"),
                 C("counts", "final(self)@.counts == (if count == 0 { old(self)@.counts.remove(covhash) } else { old(self)@.counts.insert(covhash, count as nat) })", "C20")])
