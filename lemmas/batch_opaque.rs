// batch_env / batch_core as seen by the units that do not look inside them (definitions: lemmas/batch_def.rs, unit `batch`)
pub uninterp spec fn batch_env<C: ContentAddrStore>(s: UnsealedState<C>, txx: Seq<Transaction>) -> bool;   // envelopes + invariants of the batch
pub uninterp spec fn batch_core<C: ContentAddrStore>(s: UnsealedState<C>, txx: Seq<Transaction>, r: UnsealedState<C>) -> bool;
