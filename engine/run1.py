#!/usr/bin/env python3
"""dev helper: run1.py <unit> -- run the base file of one unit; print every error with its generated-file line"""
import sys, os
HERE = os.path.dirname(os.path.abspath(__file__)); sys.path.insert(0, HERE); sys.path.insert(0, os.path.join(os.path.dirname(HERE), "units"))
import check as CK, run as R
from rsx import Undecided
u = CK.load_units()[sys.argv[1]]
try:
    r = R.evaluate_base(u)
except Undecided as e:
    print("UNDECIDED", e); sys.exit(2)
print(r["status"], "verified", r["verified"], "errors", r["errors"], r["reasons"][:3])
for e in r["errs"][:int(sys.argv[2]) if len(sys.argv) > 2 else 12]:
    print("--", e.get("line"), e["msg"][:600])
    for k in ("label", "text", "owner", "primary", "lines"):
        if e.get(k): print("   ", k, str(e[k])[:300])
print("file:", r.get("file"))
