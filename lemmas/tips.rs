// TIP activation (characterisation of UnsealedState::tip_condition)
/// TIP activation rule of the repo: mainnet at the activation height, testnet at 500, custom networks always; u64::MAX = never
pub open spec fn spec_tip(network: NetID, height: BlockHeight, activation: u64) -> bool {
    if activation == u64::MAX { false } else if network == NetID::Mainnet { height.0 >= activation }
    else if network == NetID::Testnet { height.0 >= 500 } else { true }
}
pub open spec fn spec_tip906<C: ContentAddrStore>(s: UnsealedState<C>) -> bool { spec_tip(s.network, s.height, 830000) }

/// state invariant: the transaction set is keyed by the transactions' own hashes
pub open spec fn txs_keyed(m: Map<TxHash, Transaction>) -> bool { forall|h: TxHash| m.contains_key(h) ==> spec_txhash(#[trigger] m[h]) == h }
