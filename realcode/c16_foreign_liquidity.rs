// F-C16-foreign-liquidity on the real code: asserts the property (the liquidity tokens of a pool held in unspent coins never exceed
// the liquidity the pool records) and FAILS on the tree: liquidity tokens are ordinary coins of denomination
// `PoolKey::liq_token_denom()`, and a faucet transaction (accepted on every network but mainnet) may create coins of ANY
// denomination -- here twice the MEL/SYM pool's recorded liquidity. (A genesis configuration whose initial coin carries that
// denomination does the same on any network.) Since the fix "withdrawal requests that over-redeem a pool are not settled" such
// tokens can no longer be redeemed beyond the pool's record nor stop sealing; they still exist.
use crate::*;
use melstructs::*;
use melvm::Covenant;
use novasmt::{Database, InMemoryCas};

#[test]
fn c16_liquidity_tokens_in_coins_never_exceed_the_pools_record() {
    let db = Database::new(InMemoryCas::default());
    let mut state = GenesisConfig::std_testnet().realize(&db);
    state.network = NetID::Custom02;
    state.fee_multiplier = 0;
    let cov = Covenant::always_true();
    let mut state = state.seal(None).next_unsealed();   // block 0 creates the built-in pools
    let key = PoolKey::new(Denom::Mel, Denom::Sym);
    let liqs = state.clone().seal(None).pool(key).unwrap().liqs;
    let faucet = Transaction { kind: TxKind::Faucet, inputs: vec![],
        outputs: vec![CoinData { covhash: cov.hash(), value: CoinValue(liqs * 2), denom: key.liq_token_denom(), additional_data: vec![].into() }],
        fee: CoinValue(0), covenants: vec![], data: vec![1u8].into(), sigs: vec![] };
    state.apply_tx(&faucet).expect("faucets are allowed off mainnet");
    let sealed = state.seal(None);
    let held = sealed.coin(faucet.output_coinid(0)).unwrap().coin_data;
    assert_eq!(held.denom, key.liq_token_denom());
    let recorded = sealed.pool(key).unwrap().liqs;
    assert!(held.value.0 <= recorded, "a coin holds {} liquidity tokens of a pool that records only {}", held.value.0, recorded);
}
