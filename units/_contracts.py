"""Contracts shared between the unit that PROVES a repo function and the units that ASSUME it at call sites
(one clause text, two uses -- so the assumed contract cannot drift from the proved one)."""
from spec import C

def cm_insert_coin():
    return dict(
        requires=[C("wf", "old(self).wf()"), C("inv", "tip_906 ==> counts_ok(old(self)@)")],
        ensures=[C("wf", "final(self).wf()", "C20", "C02"),
                 C("exact", "final(self)@ == view_insert(old(self)@, id, data, tip_906)", "C02", "C20", "C01"),
                 C("counts_ok", "tip_906 && (old(self)@.coins.contains_key(id) ==> old(self)@.coins[id].coin_data.covhash == data.coin_data.covhash) ==> counts_ok(final(self)@)", "C20")])

def cm_remove_coin():
    return dict(
        requires=[C("wf", "old(self).wf()"), C("inv", "tip_906 ==> counts_ok(old(self)@)")],
        ensures=[C("wf", "final(self).wf()", "C20", "C02"),
                 C("exact", "final(self)@ == view_remove(old(self)@, id, tip_906)", "C02", "C20", "C01"),
                 C("counts_ok", "tip_906 ==> counts_ok(final(self)@)", "C20")])

def cm_get_coin():
    return dict(
        requires=[C("wf", "self.wf()")],
        ensures=[C("exact", "res == (if self@.coins.contains_key(id) { Some(self@.coins[id]) } else { None::<CoinDataHeight> })", "C02", "C19")])

def cm_coin_count():
    return dict(
        requires=[C("wf", "self.wf()")],
        ensures=[C("exact", "res as nat == count_of(self@.counts, covhash)", "C20")])

def cm_insert_coin_count():
    return dict(
        requires=[C("wf", "old(self).wf()")],
        ensures=[C("wf", "final(self).wf()", "C20"),
                 C("coins", "final(self)@.coins == old(self)@.coins", "C20", "C02"),
                 C("counts", "final(self)@.counts == (if count == 0 { old(self)@.counts.remove(covhash) } else { old(self)@.counts.insert(covhash, count as nat) })", "C20")])


# ---- tip911-stakeset
def ss_add_stake():
    return dict(ensures=[C("exact", "final(self)@ == old(self)@.insert(txhash, stake)", "C13", "C08")])

def ss_get_stake():
    return dict(ensures=[C("exact", "res == (if self@.contains_key(txhash) { Some(self@[txhash]) } else { None::<StakeDoc> })", "C13", "C08")])

def ss_votes():
    return dict(requires=[C("fits", "spec_staked_total(self@) <= u128::MAX", note="C09 envelope: total staked SYM fits in u128 (supply <= 2^127)")],
                ensures=[C("sum", "res as int == spec_votes(self@, epoch, Some(key))", "C13", "C14", "C03", "C08")])

def ss_total_votes():
    return dict(requires=[C("fits", "spec_staked_total(self@) <= u128::MAX")],
                ensures=[C("sum", "res as int == spec_votes(self@, epoch, None)", "C13", "C14", "C03", "C08")])

def ss_unlock_old():
    return dict(ensures=[C("keeps", "forall|k: TxHash| #[trigger] final(self)@.contains_key(k) <==> (old(self)@.contains_key(k) && old(self)@[k].e_post_end >= epoch)", "C13", "C08"),
                         C("same", "forall|k: TxHash| final(self)@.contains_key(k) ==> #[trigger] final(self)@[k] == old(self)@[k]", "C13", "C08")])

# ---- state.rs
def st_header():
    return dict(ensures=[C("is", "res == spec_header(self.0)", "C07", "C06")])

def st_tip_condition():
    return dict(ensures=[C("rule", "res == spec_tip(self.network, self.height, activation.0)", "C20", "C17", char=True)])

def st_tip(n):
    return dict(ensures=[C("rule", f"res == spec_tip(self.network, self.height, {n})", "C20", "C17", char=True)])

def ts_insert():
    return dict(ensures=[C("exact", "final(self)@ == old(self)@.insert(spec_txhash(txn), txn)", "C02", "C06", "C07")])

def ap_faucet_pseudocoin():
    return dict(ensures=[C("id", "res == spec_marker(txhash)", "C19")])

def ap_handle_faucet():
    return dict(
        requires=[C("wf", "old(state).coins.wf()"), C("inv", "spec_tip906(*old(state)) ==> counts_ok(old(state).coins@)")],
        ensures=[
            C("wf", "final(state).coins.wf() && (spec_tip906(*old(state)) ==> counts_ok(final(state).coins@))", "C20"),
            C("frame", "same_but_coins(*final(state), *old(state))", "C19", "C05", "C17"),
            C("not_faucet", "tx.kind != TxKind::Faucet ==> res is Ok && final(state).coins@ == old(state).coins@", "C19"),
            C("mainnet", "tx.kind == TxKind::Faucet && old(state).network == NetID::Mainnet && !is_grandfathered(spec_txhash(*tx)) ==> res is Err && res->Err_0 is MalformedTx", "C19", "C01"),
            C("duplicate", """tx.kind == TxKind::Faucet && !(old(state).network == NetID::Mainnet && !is_grandfathered(spec_txhash(*tx)))
                   && old(state).coins@.coins.contains_key(spec_marker(spec_txhash(*tx))) ==> res is Err && res->Err_0 is DuplicateTx""", "C19"),
            C("err_noop", "res is Err ==> final(state).coins@ == old(state).coins@", "C19", "C02"),
            C("err_kinds", "res is Err ==> res->Err_0 is MalformedTx || res->Err_0 is DuplicateTx", "C19", char=True),
            C("marker", """res is Ok && tx.kind == TxKind::Faucet && !is_grandfathered(spec_txhash(*tx)) ==>
                   !old(state).coins@.coins.contains_key(spec_marker(spec_txhash(*tx)))
                   && exists|m: CoinDataHeight| is_marker_cdh(m) && #[trigger] view_insert(old(state).coins@, spec_marker(spec_txhash(*tx)), m, spec_tip906(*old(state))) == final(state).coins@""", "C19"),
            C("grandfathered", "res is Ok && tx.kind == TxKind::Faucet && is_grandfathered(spec_txhash(*tx)) ==> final(state).coins@ == old(state).coins@", "C19", char=True),
        ])

def ss_is_frozen():
    return dict(ensures=[C("frozen", "res == (self@.contains_key(coin.txhash) && coin.index == 0)", "C13", "C03",
                           note="the frozen coin of a registered stake is output 0 of the staking transaction (proved in unit stakeset; declared as a stub wherever a change might call it: seed C03i)")])

def ap_balanced():
    return dict(ensures=[C("iff", "res is Ok <==> balanced(tx_kind, in_coins@, out_coins@)", "C01", "C02", "C09", "C18",
                           note="C09/C18: a balanced non-faucet transaction has an input (MEL is always among the outputs' denominations), which is what DoscMint validation's `inputs.get(0).expect(..)` rests on (seed C09g)"),
                         C("err", "res is Err ==> res->Err_0 is UnbalancedInOut", "C01", char=True)])

def ap_stake_consistent():
    return dict(ensures=[C("iff", "res == stake_consistent(*stake_doc, curr_epoch, *coin)", "C13")])

def ap_coin_is_denom():
    return dict(ensures=[C("iff", "res == (coin_data.denom == denom)", "C13")])

def ap_load_stake_info():
    return dict(ensures=[
        C("registered", "res is Ok && !stake_legacy(this.network, this.height) ==> stakes_of(txx@, txx@.len() as int, (this.height.0 / 200000) as u64, res->Ok_0@)", "C13"),
        C("legacy", "res is Ok && stake_legacy(this.network, this.height) ==> res->Ok_0@ == Map::<TxHash, StakeDoc>::empty()", "C13", char=True),
        C("malformed", "res is Ok && !stake_legacy(this.network, this.height) ==> forall|q: int| 0 <= q < txx@.len() ==> !stake_malformed(#[trigger] txx@[q])", "C13", "C09"),
        C("err", "res is Err ==> res->Err_0 is MalformedTx && !stake_legacy(this.network, this.height) && exists|q: int| 0 <= q < txx@.len() && stake_malformed(#[trigger] txx@[q])", "C13"),
    ])

# ---- melvm (lib/melvm/src/lib.rs) as seen by callers
def mv_from_bytes():
    return dict(ensures=[C("decodes", "match spec_cov_decode(b@) { Some(c) => res == Ok::<Covenant, DecodeError>(c), None => res is Err }", "C12", "C04")])

def mv_execute():
    return dict(ensures=[C("runs", "res == spec_exec(*self, *tx, env)", "C10", "C04", det=True)])

def mv_into_bool():
    return dict(ensures=[C("truthy", "res == spec_truthy(self)", "C10", "C04")])

def ap_validate_tx_scripts():
    ENV = "CovenantEnv { parent_coinid: *coin_id, parent_cdh: *coin_data, spender_index: spend_idx as u8, last_header: last_header }"
    CH = "coin_data.coin_data.covhash"
    return dict(ensures=[
        C("iff", f"res is Ok <==> (good_scripts@.contains({CH}) || script_approves(scripts@, {CH}, *tx, {ENV}))", "C04", "C19", "C02"),
        C("missing", f"!good_scripts@.contains({CH}) && !scripts@.contains_key({CH}) ==> res is Err && res->Err_0 is NonexistentScript", "C04"),
        C("undecodable", f"!good_scripts@.contains({CH}) && scripts@.contains_key({CH}) && spec_cov_decode(scripts@[{CH}]@) is None ==> res is Err && res->Err_0 is MalformedTx", "C04"),
        C("err_kinds", "res is Err ==> res->Err_0 is NonexistentScript || res->Err_0 is MalformedTx || res->Err_0 is ViolatesScript", "C04", char=True),
    ])

SMT_WRAP = "impl<C: ContentAddrStore, K, V> SmtMapping<C, K, V>"
def smt_get():
    return dict(ensures=[C("get", "res == (if self@.contains_key(*key) { Some(self@[*key]) } else { None::<V> })", "C07")])

def st_seal():
    return dict(ensures=[C("seal", "res.0 == spec_seal(self, action) && res.1 == action", "C06")])

def ap_check_tx_validity():
    return dict(
        requires=[
            C("outputs_fit", "outputs_fit(*tx)", note="established by load_relevant_coins' overflow guard"),
            C("inputs_fit", "fsum(tx.inputs@, in_value(relevant_coins@)) <= u128::MAX", note="C09 envelope: the values of the coins a transaction spends fit in u128 (supply <= 2^127; `overflow_coins` pins the panic outside it)"),
            C("fallback", "!this.history@.contains_key(prev_height(*this)) ==> seal_fallback_pre(*this)",
              note="when the history has no previous header (height 0 only) the function seals a clone of this state to obtain one: the state then has to satisfy the preconditions of sealing (part of batch_pre at height 0)"),
            C("small", "tx.inputs@.len() <= 256", envelope_of="F-C04-index", note="the environment's spender index is `i as u8`"),
            C("distinct_cov", "forall|a: int, b: int| 0 <= a < b < tx.inputs@.len() && relevant_coins@.contains_key(tx.inputs@[a]) && relevant_coins@.contains_key(tx.inputs@[b]) ==> relevant_coins@[tx.inputs@[a]].coin_data.covhash != relevant_coins@[tx.inputs@[b]].coin_data.covhash", envelope_of="F-C04-cache"),
        ],
        ensures=[
            C("exist", "res is Ok ==> forall|i: int| 0 <= i < tx.inputs@.len() ==> relevant_coins@.contains_key(#[trigger] tx.inputs@[i])", "C02", "C04", "C19", "C09", "C18", "C03", "C06"),
            C("unlocked", "res is Ok && !lock_legacy(this.network, this.height) ==> forall|i: int| 0 <= i < tx.inputs@.len() ==> !new_stakes@.contains_key((#[trigger] tx.inputs@[i]).txhash) && !this.stakes@.contains_key(tx.inputs@[i].txhash)", "C13", "C02", "C03", "C06"),
            C("approved", "res is Ok ==> forall|i: int| 0 <= i < tx.inputs@.len() ==> script_approves(spec_covenants_map(*tx), relevant_coins@[tx.inputs@[i]].coin_data.covhash, *tx, #[trigger] env_of(*tx, relevant_coins@, i, spec_last_header(*this)))", "C04", "C02", "C19"),
            C("approved_first", "res is Ok ==> forall|i: int| 0 <= i < tx.inputs@.len() && first_occ(*tx, relevant_coins@, i) ==> script_approves(spec_covenants_map(*tx), relevant_coins@[tx.inputs@[i]].coin_data.covhash, *tx, #[trigger] env_of(*tx, relevant_coins@, i, spec_last_header(*this)))", "C04", "C02", "C19",
              note="holds WITHOUT the envelopes of the two C04 findings: the first input locked by each covenant hash is always run against its own environment (the cache cannot have it yet); this is what the marker / destroyed-output arguments of the batch level rest on"),
            C("pos", "res is Ok ==> forall|i: int| 0 <= i < tx.inputs@.len() ==> (#[trigger] env_of(*tx, relevant_coins@, i, spec_last_header(*this))).spender_index as int == i", "C04",
              note="the position among the inputs that a covenant is told IS the input's position (the code passes `position as u8`); holds under the envelope `small`, fails without it: known finding F-C04-index"),
            C("balanced", "res is Ok ==> balanced(tx.kind, in_sums(tx.inputs@, relevant_coins@, tx.inputs@.len() as int), spec_total_outputs(*tx))", "C01", "C02", "C09", "C18"),
            C("errkind", "res is Err ==> !(res->Err_0 is WrongHeader)", "C06", char=True),
            C("locked_err", "(exists|i: int| 0 <= i < tx.inputs@.len() && (new_stakes@.contains_key((#[trigger] tx.inputs@[i]).txhash) || this.stakes@.contains_key(tx.inputs@[i].txhash))) && !lock_legacy(this.network, this.height) ==> res is Err", "C13", "C03", "C06"),
        ])

def ap_output_coins_from_tx():
    return dict(requires=[C("small", "tx.outputs@.len() <= 255")],
                ensures=[C("created", "created_map(*tx, height, res@)", "C02", "C01")])

# ---- melmint.rs reward arithmetic / DoscMint (C18)
def mm_microergs():
    return dict(requires=[C("mfits", "microergs_fit(height.0 as nat)", note="C09 envelope of the memo table (proved contract: unit memo): the inflator of this height fits in u128 -- it grows by 1/2000000 per block and overflows near height 1.5e8")],
                ensures=[C("memo", "res as nat == spec_microergs(height.0 as nat)", "C18", "C01")])

def mm_dosc_to_erg():
    return dict(requires=[C("mfits", "microergs_fit(height.0 as nat)", note="C09 envelope of the memo table (proved contract: unit memo): the inflator of this height fits in u128 -- it grows by 1/2000000 per block and overflows near height 1.5e8"), C("fits", "spec_dosc_to_erg(height.0 as nat, real_ as int) <= u128::MAX",
                            note="C09 envelope: the inflated reward fits in u128 (`expect` panics otherwise); needs a MelPoW proof of difficulty beyond ~64")],
                ensures=[C("formula", "res as int == spec_dosc_to_erg(height.0 as nat, real_ as int)", "C18", "C01", char=True)])

def mm_calculate_reward():
    return dict(requires=[C("speed", "dosc_speed != 0"), C("diff", "difficulty <= 100")],
                ensures=[C("formula", "res as int == spec_reward(my_speed as int, dosc_speed as int, difficulty as nat, tip910)", "C18", "C01", char=True)])

def ap_validate_doscmint():
    return dict(
        requires=[C("inputs", "tx.inputs@.len() > 0", note="a DoscMint without inputs never balances (total_outputs always has a MEL entry): rejected by check_tx_validity before this runs"),
                  C("hist", "history_ok(*this)", note="state invariant: history holds exactly the heights below the current one; recorded DOSC speeds are >= 10^6"),
                  C("heights", "forall|id: CoinID| relevant_coins@.contains_key(id) ==> (#[trigger] relevant_coins@[id]).height.0 <= this.height.0", note="state invariant: no coin is younger than the block being built"),
                  C("fit", "outputs_fit(*tx)"),
                  C("pow_total", "dosc_pow_total(*this, relevant_coins@, *tx)", envelope_of="F-C09-melpow"),
                  C("reward_fits", "dosc_reward_fits(*this)", note="C09 envelope: inflated reward < 2^128")],
        ensures=[C("c18", "res is Ok ==> doscmint_ok(*this, relevant_coins@, *tx, res->Ok_0)", "C18", "C01", "C03",
                   note="C03: the reward is measured against the PREVIOUS header's speed (doscmint_ok), not against anything an earlier transaction of the block has changed: seed C03f took `this.dosc_speed` and made one-at-a-time application order-dependent"),
                 C("err", "res is Err ==> res->Err_0 is InvalidMelPoW || res->Err_0 is MalformedTx || res->Err_0 is NonexistentCoin", "C18", char=True)])

# ---- containers at the abstract level
def smt_insert():
    return dict(ensures=[C("insert", "final(self)@ == old(self)@.insert(key, val)", "C07")])
def smt_root_hash():
    return dict(ensures=[C("root", "res == spec_root_smt(self@)", "C07")])
def cm_root_hash_abs():
    return dict(ensures=[C("root", "res == spec_root_coins(self@)", "C07")])
def st_txroot():
    return dict(requires=[C("keyed", "txs_keyed(self.transactions@)", note="state invariant (part of state_inv): the transaction set is keyed by the transactions' own hashes")],
                ensures=[C("root", "res == spec_root_txs(self.transactions@, spec_tip908(*self))", "C07")])
def ss_pre_tip911():
    return dict(ensures=[C("root", "HashVal(novasmt::root_of(res@)) == spec_root_stakes(self@)", "C07", "C13", "C08")])
def st_header_full():
    return dict(requires=[C("chain", "chain_ok(self.0) && txs_keyed(self.0.transactions@)")], ensures=[C("is", "res == spec_header(self.0)", "C07", "C06")])
def st_tip906_transition(proj=False):
    """apply_tip_906_for_next_state touches only next_state.coins: proved in unit `coins` over that field (rule R21), assumed elsewhere over the whole state"""
    o, f = ("old(coins)", "final(coins)") if proj else ("old(next_state).coins", "final(next_state).coins")
    d = dict(requires=[C("wf", f"{o}.wf()", note="tree invariant: entries decode, and every non-empty entry sits under a coin key or a count key (raw_closed) - kept by every CoinMapping operation, proved in unit coins"),
                       C("fresh", f"{o}@.counts == IMap::<Address, nat>::empty()", note="no count entries before activation; with wf this gives 'coin entries only' (lemma_only_coins), so the `expect(\"pre-tip906 coin tree has non-cdh elements?!\")` cannot fire")],
             ensures=[C("counts", f"{f}.wf() && {f}@.coins == {o}@.coins && counts_ok({f}@)", "C20",
                        note="one-off initialisation at TIP-906 activation: afterwards every covenant hash's count equals its number of unspent coins")])
    if not proj:
        d["ensures"].append(C("frame", "same_but_coins(*final(next_state), *old(next_state))", "C20", note="the function takes the state but touches only its coins field (checked by rule R21 in the proving unit)"))
    return d

def mm_preseal():
    return dict(requires=[C("inv", "state_inv(state) && pools_ok(state.pools@) && builtins_if_present(state)"),
                          C("env", "seal_env(state)", note="C09 envelope of the settlement phases (lemmas/mint.rs: seal_env)")],
                ensures=[C("det", "res == spec_preseal(state)", det=True),
                         C("frame", "pool_phase_frame(state, res) && res.fee_pool == state.fee_pool", "C15", "C17", "C05"),
                         C("inv", "state_inv(res)", "C20"),
                         C("builtins", "spec_builtin_pools(res) && builtins_live(res) && pools_ok(res.pools@)", "C16", "C09"),
                         C("ids", "ids_new(state.coins@.coins, res.coins@.coins)", "C20", "C02", note="settlement introduces no coin id other than ids of transaction outputs"),
                         C("young", "young(state.coins@.coins, res.coins@.coins, state.height)", "C09", "C02", note="every coin settlement leaves behind is untouched or was written at this block's height (under the pre-978392 deposit rule too)"),
                         C("markers", "!deposit_legacy(state.network, state.height) ==> markers_kept(state.coins@.coins, res.coins@.coins)", "C19",
                           note="settlement never touches a faucet's dedup marker (not derived for the pre-978392 deposit rule, whose coin writes are characterised by their frame only)")])
def st_tip909():
    return dict(requires=[C("pools", "old(self).pools@.contains_key(pk_mel_sym()) && old(self).pools@.contains_key(pk_erg_sym()) && pool_live(old(self).pools@[pk_mel_sym()]) && pool_live(old(self).pools@[pk_erg_sym()])"),
                          C("height", "old(self).height.0 < 950000 + 128 * 1_000_000", note="C09 envelope: `(1 << 20) >> divider` overflows the shift once divider reaches 128, i.e. from height 128 950 000 on (about 120 years of 30-second blocks); not reproduced on the real code (sealing at such a height is impractical to run)"),
                          C("fits", "old(self).fee_pool.0 + old(self).pools@[pk_mel_sym()].lefts <= u128::MAX", note="C09 envelope: fee pool plus the MEL reserve fit in u128 (MEL supply < 2^127)")],
                ensures=[C("det", "*final(self) == spec_tip909(*old(self))", det=True),
                         C("subsidy", "tip909_applied(*old(self), *final(self))", "C01", "C05", "C16",
                           note="TIP-909: SYM is issued into the MEL/SYM and ERG/SYM pools (listed issuance); the MEL it buys moves from the MEL/SYM reserve to the fee pool; the ERG it buys is discarded"),
                         C("frame", "pool_phase_frame(*old(self), *final(self)) && final(self).coins == old(self).coins", "C01", "C17"),
                         C("builtins", "forall|k: PoolKey| old(self).pools@.contains_key(k) ==> #[trigger] final(self).pools@.contains_key(k)", "C16")])
def smt_val_iter():
    return dict(ensures=[C("all", "res@.len() == self@.dom().len()", "C16")])
def st_seal_full():
    return dict(requires=[C("inv", "state_inv(self) && pools_ok(self.pools@) && builtins_if_present(self)"), C("env", "seal_env(self) && reward_fresh(self)"), C("env909", "spec_tip(self.network, self.height, 950000) ==> tip909_env(spec_preseal(self))", note="C09 envelopes of apply_tip_909 (see its contract), on the state after settlement"),
                          C("fits", "self.tips.0 <= u128::MAX - 0x1_0000_0000_0000_0000_0000_0000_0000u128", note="C09 envelope: pending tips below 2^128 - 2^112")],
                ensures=[C("det", "res.0 == spec_seal(self, action)", det=True),
                         C("rel", "seal_rel(self, action, res.0) && res.1 == action", "C06", "C05", "C17", "C01", "C15", "C16"),
                         C("action_tips", "sealed_ok(SealedState(res.0, action))", "C08", "C05"),
                         C("noaction", "action is None ==> res.0.fee_multiplier == self.fee_multiplier && res.0.tips == self.tips", "C17", "C05"),
                         C("markers", "!deposit_legacy(self.network, self.height) ==> markers_kept(self.coins@.coins, res.0.coins@.coins) && (markers_ok(self.coins@.coins) ==> markers_ok(res.0.coins@.coins))", "C19",
                           note="sealing never removes or overwrites a faucet's dedup marker: settlement writes under transaction-output ids, the reward coin under the reward pseudo-id (A-HASH domain separation)"),
                         C("frame", "res.0.network == self.network && res.0.height == self.height && res.0.history == self.history && res.0.transactions == self.transactions && res.0.stakes == self.stakes && res.0.dosc_speed == self.dosc_speed", "C07", "C06"),
                         C("inv", "res.0.coins.wf() && spec_builtin_pools(res.0)", "C16", "C20"),
                         C("sinv", "state_inv(res.0) && pools_ok(res.0.pools@) && builtins_live(res.0)", "C16", "C20", "C09", note="sealing preserves the state invariants"),
                         C("hinv", "hinv(self) ==> hinv_sealed(res.0)", "C09", "C18", "C05",
                           note="chain invariants through sealing: settlement writes coins at this height under transaction-output ids, the reward coin at this height under this height's pseudo-id (so the NEXT height's reward id is still free: what collect_proposer_action_fee needs)")])

def st_next_unsealed():
    return dict(requires=[C("chain", "chain_ok(self.0) && self.0.height.0 < u64::MAX"), C("wf", "state_inv(self.0)")],
                ensures=[C("det", "res == spec_next(*self)", det=True),
                         C("next", "next_rel(self.0, res)", "C07", "C13", "C06", "C01", "C02", "C19"),
                         C("chain", "chain_ok(res)", "C07"),
                         C("inv", "state_inv(res)", "C20"),
                         C("hinv", "hinv_sealed(self.0) ==> hinv(res)", "C09", "C18", note="opening the next block: the sealed header (with its non-zero DOSC speed) enters the history below the new height; coins are untouched")])
def st_apply_tx_batch():
    return dict(requires=[C("pre", "batch_pre(*old(self), txx@)")],
                ensures=[C("noop", "res is Err ==> *final(self) == *old(self)", "C02"),
                         C("errkind", "res is Err ==> !(res->Err_0 is WrongHeader)", "C06", char=True),
                         C("ok", "res is Ok ==> batch_result(*old(self), txx@, *final(self))", "C02", "C06", "C01"),
                         C("stakes_kept", "res is Ok ==> forall|k: TxHash| old(self).stakes@.contains_key(k) ==> #[trigger] final(self).stakes@.contains_key(k)", "C13"),
                         C("markers", "res is Ok && markers_ok(old(self).coins@.coins) ==> markers_kept(old(self).coins@.coins, final(self).coins@.coins) && markers_ok(final(self).coins@.coins)", "C19"),
                         C("hinv", "res is Ok ==> hinv(*final(self))", "C09", "C18")])

def ts_iter():
    return dict(ensures=[C("enum", "exists|ks: Seq<TxHash>| is_enum(self@, ks) && res@.len() == ks.len() && (forall|i: int| 0 <= i < ks.len() ==> *(#[trigger] res@[i]) == self@[ks[i]])", "C07")])
def ap_batch_impl():
    return dict(requires=[C("pre", "batch_pre(*this, txx@)")],
                ensures=[C("ok", "res is Ok ==> batch_result(*this, txx@, res->Ok_0)", "C02", "C06", "C03", "C01"),
                         C("stakes_kept", "res is Ok ==> forall|k: TxHash| this.stakes@.contains_key(k) ==> #[trigger] res->Ok_0.stakes@.contains_key(k)", "C13", note="a batch only adds stakes: every registered stake stays registered"),
                         C("markers", "res is Ok && markers_ok(this.coins@.coins) ==> markers_kept(this.coins@.coins, res->Ok_0.coins@.coins) && markers_ok(res->Ok_0.coins@.coins)", "C19",
                           note="no transaction can spend a faucet's dedup marker (nothing hashes to its all-zero covenant hash), so an accepted batch keeps every marker"),
                         C("supply", "res is Ok ==> forall|d: Denom| #[trigger] no_issuer(txx@, d) ==> coins_supply(res->Ok_0.coins@.coins, d) + fsum(txx@, fee_in(d)) <= coins_supply(this.coins@.coins, d)", "C01",
                           note="C01 over the whole coin set: an accepted batch containing no issuer of d (no faucet, d not the new token of one of its transactions, no ERG mint when d is ERG) does not raise the total value of the unspent coins of d, however its transactions are ordered or combined; for MEL the fees it pays leave the coin set too (they enter fee pool and tips exactly: batch_core). lemma_batch_supply over create_next_state#supply and lemma_tx_conserves"),
                         C("hinv", "res is Ok ==> hinv(res->Ok_0)", "C09", "C18", note="chain invariants kept by an accepted batch: no coin younger than the block, no reward pseudo-coin of this or a later height, history below the height with non-zero DOSC speeds, current speed non-zero"),
                         C("errkind", "res is Err ==> !(res->Err_0 is WrongHeader)", "C06", char=True)])

def cm_new_abs():
    return dict(ensures=[C("root", "spec_root_coins(res@) == HashVal(novasmt::root_of(inner@))", "C07", "C08"),
                         C("empty", "novasmt::root_of(inner@)@ == Seq::new(32, |i: int| 0u8) ==> res@.coins == IMap::<CoinID, CoinDataHeight>::empty() && res@.counts == IMap::<Address, nat>::empty() && res.wf()", "C07", "C20",
                           note="A-SMT: the all-zero root is the empty tree's; the empty tree is well-formed (proved in unit coins). A tree fetched from the store by a non-zero root is NOT claimed well-formed")])
def smt_new():
    return dict(ensures=[C("root", "spec_root_smt(res@) == HashVal(novasmt::root_of(tree@))", "C07", "C08"),
                         C("empty", "novasmt::root_of(tree@)@ == Seq::new(32, |i: int| 0u8) ==> res@ == Map::<K, V>::empty()", "C07", note="A-SMT: the all-zero root is the empty tree's")])

def mm_phase(name, extra_props=()):
    """contract shared by process_swaps / process_deposits / process_withdrawals / process_pegging (pool-side phases of sealing)"""
    return dict(requires=[C("inv", "state_inv(state) && builtins_live(state) && pools_ok(state.pools@)")],
                ensures=[C("frame", "pool_phase_frame(state, res) && res.fee_pool == state.fee_pool", "C15", "C17", "C05"),
                         C("inv", "state_inv(res) && pools_ok(res.pools@)", "C20", "C16"),
                         C("builtins", "builtins_live(res) && (forall|k: PoolKey| state.pools@.contains_key(k) ==> #[trigger] res.pools@.contains_key(k))", "C16", "C09"),
                         C("young", "young(state.coins@.coins, res.coins@.coins, state.height)", "C09", "C02", note="every coin the phase leaves behind is untouched or was written at this block's height (chain invariant coin_heights_ok)")])

# ---- batch application (src/state/applytx.rs)
def ap_extract_input_coins():
    return dict(
        requires=[C("wf", "state.coins.wf()")],
        ensures=[C("dom", "res is Ok ==> forall|id: CoinID| #[trigger] res->Ok_0@.contains_key(id) <==> (spent_by(transactions@, transactions@.len() as int, id) && !coins_so_far@.contains_key(id))", "C02"),
                 C("val", "res is Ok ==> forall|id: CoinID| #[trigger] res->Ok_0@.contains_key(id) ==> state.coins@.coins.contains_key(id) && res->Ok_0@[id] == state.coins@.coins[id]", "C02", "C01"),
                 C("err", """res is Err ==> res->Err_0 is NonexistentCoin && spent_by(transactions@, transactions@.len() as int, res->Err_0->NonexistentCoin_0)
                        && !coins_so_far@.contains_key(res->Err_0->NonexistentCoin_0) && !state.coins@.coins.contains_key(res->Err_0->NonexistentCoin_0)""", "C02")])

def ap_create_next_state():
    return dict(
    requires=[
        C("wf", "next_state.coins.wf() && (is_tip_906 ==> counts_ok(next_state.coins@)) && is_tip_906 == spec_tip906(next_state) && origin_ok(next_state.coins@.coins)"),
        C("wellformed", "forall|q: int| 0 <= q < transactions@.len() ==> spec_well_formed(#[trigger] transactions@[q]) && cov_weights_fit(transactions@[q])",
          note="established by load_relevant_coins: bounds on outputs and fee; the covenants' weights fit u128 together (Transaction::weight sums them unchecked; fix: covenant weights that overflow u128)"),
        C("rel", "rel_consistent(transactions@, relevant_coins@)"),
        C("fees_fit", "next_state.fee_pool.0 + next_state.tips.0 + fsum(transactions@, fee_of()) <= u128::MAX",
          note="C09 envelope: fee pool + tips + the batch's fees fit in u128 (MEL supply <= 2^127)"),
    ],
    ensures=[
        C("coins", "res is Ok ==> batch_coins(next_state.coins@.coins, res->Ok_0.coins@.coins, transactions@, relevant_coins@)", "C02", "C01", "C19", "C03"),
        C("supply", """res is Ok && supply_hyp(next_state.coins@.coins, transactions@, relevant_coins@) ==> enumerable(res->Ok_0.coins@.coins) && forall|d: Denom| coins_supply(res->Ok_0.coins@.coins, d)
               <= coins_supply(next_state.coins@.coins, d) + #[trigger] created_tot(transactions@, transactions@.len() as int, relevant_coins@, d) - spent_tot(transactions@, transactions@.len() as int, relevant_coins@, d)""", "C01",
          note="C01 at the level of the whole coin set: for every denomination the total value of unspent coins moves by at most (what the batch's kept outputs carry) minus (what its inputs carried); per-transaction balance then bounds the first by the second"),
        C("frame", """res is Ok ==> res->Ok_0.network == next_state.network && res->Ok_0.height == next_state.height && res->Ok_0.history == next_state.history
               && res->Ok_0.fee_multiplier == next_state.fee_multiplier && res->Ok_0.dosc_speed == next_state.dosc_speed
               && res->Ok_0.pools == next_state.pools && res->Ok_0.stakes == next_state.stakes""", "C02", "C05", "C17"),
        C("min_fee", "res is Ok ==> forall|q: int| 0 <= q < transactions@.len() ==> (#[trigger] transactions@[q]).fee.0 >= spec_base_fee(transactions@[q], next_state.fee_multiplier)", "C05", "C02"),
        C("fee_split", """res is Ok ==> res->Ok_0.fee_pool.0 as int == next_state.fee_pool.0 + fsum(transactions@, min_fee_of(next_state.fee_multiplier))
               && res->Ok_0.tips.0 as int == next_state.tips.0 + fsum(transactions@, tip_of(next_state.fee_multiplier))""", "C05", "C01"),
        C("fee_reject", """res is Err && res->Err_0 is InsufficientFees ==> exists|q: int, m: u128| 0 <= q < transactions@.len()
               && (#[trigger] transactions@[q]).fee.0 < #[trigger] spec_base_fee(transactions@[q], m) && (res->Err_0->InsufficientFees_0).0 == spec_base_fee(transactions@[q], m)""", "C05", "C02", char=True,
          note="a batch is refused for fees only if some transaction pays strictly less than its minimum fee (the multiplier is existentially quantified: Verus loses the initial value of a `mut` parameter inside later loops)"),
        C("txs", "res is Ok ==> forall|h: TxHash| #[trigger] res->Ok_0.transactions@.contains_key(h) <==> (next_state.transactions@.contains_key(h) || in_batch(transactions@, transactions@.len() as int, h))", "C02", "C06"),
        C("faucets", """res is Ok ==> forall|q: int| 0 <= q < transactions@.len() && (#[trigger] transactions@[q]).kind == TxKind::Faucet ==>
               !(next_state.network == NetID::Mainnet && !is_grandfathered(spec_txhash(transactions@[q])))
               && (!is_grandfathered(spec_txhash(transactions@[q])) ==> !next_state.coins@.coins.contains_key(spec_marker(spec_txhash(transactions@[q]))))""", "C19"),
        C("wf", "res is Ok ==> res->Ok_0.coins.wf() && origin_ok(res->Ok_0.coins@.coins)", "C20"),
        C("counts", "res is Ok && is_tip_906 ==> counts_ok(res->Ok_0.coins@)", "C20"),
        C("counts_frame", "res is Ok && !is_tip_906 ==> res->Ok_0.coins@.counts == next_state.coins@.counts", "C20"),
        C("fee_total", "res is Ok ==> res->Ok_0.fee_pool.0 + res->Ok_0.tips.0 == next_state.fee_pool.0 + next_state.tips.0 + fsum(transactions@, fee_of())", "C05", "C01", "C03"),
        C("errkind", "res is Err ==> !(res->Err_0 is WrongHeader)", "C06", char=True),
        C("keyed", "res is Ok && txs_keyed(next_state.transactions@) ==> txs_keyed(res->Ok_0.transactions@)", "C02", "C15"),
    ])

def ap_load_relevant_coins():
    return dict(
        requires=[C("wf", "this.coins.wf()")],
        ensures=[C("rel", "res is Ok ==> rel_of(*this, txx@, res->Ok_0@)", "C02", "C01", "C19", "C03", "C06"),
                 C("wellformed", "res is Ok ==> forall|q: int| 0 <= q < txx@.len() ==> spec_well_formed(#[trigger] txx@[q]) && outputs_fit(txx@[q]) && cov_weights_fit(txx@[q])", "C02", "C09", "C05"),
                 C("nodup", "res is Ok ==> inputs_distinct(txx@)", "C02", "C01", "C03"),
                 C("err", "res is Err ==> res->Err_0 is MalformedTx || res->Err_0 is NonexistentCoin", "C02", char=True)])

def mm_extract_pool_keys():
    return dict(ensures=[C("keys", "forall|k: PoolKey| #[trigger] res@.contains(k) <==> mentions(old(transactions)@, k)", "C15", "C16", "C03", "C01"),
                         C("once", "res@.no_duplicates()", "C15", "C16", "C03", "C01", note="each pool named by the block's requests is settled exactly once"),
                         C("sorted", "pk_sorted(res@)", "C03"),
                         C("frame", "final(transactions)@ == old(transactions)@", "C15")])

def mm_transactions_for_pool():
    return dict(ensures=[C("filter", "res@ == transactions@.filter(for_pool(*pool_key))", "C15", "C16", "C01")])

def mm_process_swaps():
    d = mm_phase("swaps")
    d["ensures"] = d["ensures"] + [
        C("exact", """exists|reqs: Seq<Transaction>| #[trigger] selected(state.transactions@, reqs, swap_pred(state)) && swap_reqs_ok(state.pools@, state.coins@.coins, reqs)
               && swaps_done(state.pools@, state.coins@.coins, state.height, reqs, mentioned_set(reqs), res.pools@, res.coins@.coins)""", "C15", "C01", "C16", "C03", "C19",
          note="every pool named by a genuine swap request is settled exactly once, at one price for both directions; nothing else moves"),
        C("mono", "liqs_mono(state.pools@, res.pools@) && ids_sub(state.coins@.coins, res.coins@.coins)", "C16")]
    return d

def mm_deposits_single():
    return dict(
        requires=[C("reqs", "deposits_pre(old(deposits)@, *pool)"),
                  C("pool", "old(state).pools@.contains_key(*pool) && old(state).pools@[*pool].liqs != 0 ==> old(state).pools@[*pool].lefts > 0 && old(state).pools@[*pool].rights > 0"),
                  C("inv", "old(state).coins.wf() && (spec_tip906(*old(state)) ==> counts_ok(old(state).coins@)) && origin_ok(old(state).coins@.coins)"),
                  C("fits", "true_sum(dep_weights(old(deposits)@), old(deposits)@.len() as int) <= u128::MAX", note="C09 envelope: the deposits' weights isqrt(l)*isqrt(r) add up to less than 2^128 (each is below 2^120)")],
        ensures=[C("result", """exists|minted: int| #[trigger] deposits_result(old(state).pools@, old(state).coins@.coins, old(deposits)@, *pool, old(state).height,
                        deposit_legacy(old(state).network, old(state).height), final(state).pools@, final(state).coins@.coins, minted)""", "C15", "C16", "C01"),
                 C("ids", "forall|id: CoinID| #[trigger] final(state).coins@.coins.contains_key(id) ==> old(state).coins@.coins.contains_key(id) || exists|i: int| 0 <= i < old(deposits)@.len() && id == cid(#[trigger] old(deposits)@[i], 0)", "C15", "C01",
                   note="holds under the pre-978392 rules too: deposit settlement introduces no coin id other than the requests' first outputs"),
                 C("frame", "pool_phase_frame(*old(state), *final(state)) && final(state).fee_pool == old(state).fee_pool", "C15", "C17"),
                 C("young", "young(old(state).coins@.coins, final(state).coins@.coins, old(state).height)", "C09", "C02", note="holds under the pre-978392 rules too: every coin written carries this block's height, nothing else is altered (removals aside)"),
                 C("inv", "final(state).coins.wf() && (spec_tip906(*old(state)) ==> counts_ok(final(state).coins@)) && origin_ok(final(state).coins@.coins) && (!spec_tip906(*old(state)) ==> final(state).coins@.counts == old(state).coins@.counts)", "C20")])

def mm_withdrawals_single():
    return dict(
        requires=[C("reqs", "withdrawals_pre(old(relevant_txx)@, *pool)"),
                  C("pool", "old(state).pools@.contains_key(*pool)"),
                  C("fits", "true_sum(out_vals(old(relevant_txx)@, 0), old(relevant_txx)@.len() as int) <= u128::MAX",
                    note="C09 envelope: the liquidity named by the requests fits in u128 (so the saturating total the code compares IS the total). The former precondition 'requests do not exceed the pool's liquidity' (the C16 backing invariant, which PoolState::withdraw asserts) is gone: the code now checks it itself (fix: over-redeeming requests are left unsettled)"),
                  C("fresh1", "forall|i: int| 0 <= i < old(relevant_txx)@.len() ==> !old(state).coins@.coins.contains_key(cid(#[trigger] old(relevant_txx)@[i], 1))",
                    note="state invariant assumed: a one-output withdrawal request has no coin under index 1 yet (a transaction enters the chain once)"),
                  C("inv", "old(state).coins.wf() && (spec_tip906(*old(state)) ==> counts_ok(old(state).coins@)) && origin_ok(old(state).coins@.coins)")],
        ensures=[C("refused", """wd_refused(old(state).pools@[*pool], true_sum(out_vals(old(relevant_txx)@, 0), old(relevant_txx)@.len() as int), is_builtin_key(*pool, spec_tip(old(state).network, old(state).height, 180000)))
                        ==> *final(state) == *old(state)""", "C09", "C16", "C15",
                   note="requests that together name more liquidity than the pool records, or all the liquidity of a built-in pool, change nothing (they can exist: a faucet or a genesis coin may carry a liquidity-token denomination)"),
                 C("result", """!wd_refused(old(state).pools@[*pool], true_sum(out_vals(old(relevant_txx)@, 0), old(relevant_txx)@.len() as int), is_builtin_key(*pool, spec_tip(old(state).network, old(state).height, 180000)))
                        ==> exists|wl: int, wr: int| #[trigger] withdrawals_result(old(state).pools@, old(state).coins@.coins, old(relevant_txx)@, *pool, old(state).height,
                        final(state).pools@, final(state).coins@.coins, wl, wr)""", "C15", "C16", "C01"),
                 C("frame", "pool_phase_frame(*old(state), *final(state)) && final(state).fee_pool == old(state).fee_pool", "C15", "C17"),
                 C("inv", "final(state).coins.wf() && (spec_tip906(*old(state)) ==> counts_ok(final(state).coins@)) && origin_ok(final(state).coins@.coins) && (!spec_tip906(*old(state)) ==> final(state).coins@.counts == old(state).coins@.counts)", "C20")])

def mm_process_deposits():
    d = mm_phase("deposits")
    d["requires"] = d["requires"] + [C("fits", "deposit_weights_fit(state.transactions@)", note="C09 envelope: see deposit_weights_fit")]
    d["ensures"] = d["ensures"] + [
        C("exact", """exists|reqs: Seq<Transaction>, mint: spec_fn(PoolKey) -> int| #[trigger] selected(state.transactions@, reqs, deposit_pred(state)) && dep_reqs_ok(state.coins@.coins, reqs)
               && #[trigger] deps_done(state.pools@, state.coins@.coins, state.height, deposit_legacy(state.network, state.height), reqs, mentioned_set(reqs), mint, res.pools@, res.coins@.coins)""", "C15", "C01", "C16", "C03", "C19",
          note="every pool named by a genuine deposit request is settled exactly once; liquidity handed out never exceeds what the pool records"),
        C("mono", "liqs_mono(state.pools@, res.pools@) && ids_sub(state.coins@.coins, res.coins@.coins)", "C16")]
    return d

def mm_process_withdrawals():
    d = mm_phase("withdrawals")
    d["requires"] = d["requires"] + [C("env", "wd_env(state.transactions@, state.pools@, state.coins@.coins, spec_tip(state.network, state.height, 180000))", note="envelope of the withdrawal phase (u128 range of the requested totals; index-1 ids of one-output requests unused): see wd_env. The C16 backing invariant is no longer part of it")]
    d["ensures"] = d["ensures"] + [
        C("exact", """exists|reqs: Seq<Transaction>, wl: spec_fn(PoolKey) -> int, wr: spec_fn(PoolKey) -> int| #[trigger] selected(state.transactions@, reqs, withdraw_pred(state)) && wd_reqs_ok(state.pools@, state.coins@.coins, reqs)
               && #[trigger] wds_done(state.pools@, state.coins@.coins, state.height, reqs, wd_settled_set(reqs, state.pools@, spec_tip(state.network, state.height, 180000)), wl, wr, res.pools@, res.coins@.coins)""", "C15", "C01", "C16", "C03", "C19",
          note="every pool named by genuine withdrawal requests that do not over-redeem (wd_refused) is settled exactly once: exactly the redeemed liquidity is retired, payouts leave the reserves and are split pro rata; over-redeeming requests and every other coin and pool are untouched"),
        C("ids", "ids_new(state.coins@.coins, res.coins@.coins)", "C20", "C02", note="withdrawal settlement introduces no coin id other than (hash of a request, 1)")]
    return d

def mm_dosc_inflator():
    return dict(requires=[C("mfits", "microergs_fit(height.0 as nat)", note="C09 envelope of the memo table (proved contract: unit memo): the inflator of this height fits in u128 -- it grows by 1/2000000 per block and overflows near height 1.5e8")],
                ensures=[C("ratio", "res@ == (num::rational::Frac { n: spec_microergs(height.0 as nat) as int, d: 1_000_000 })", "C18", "C01", char=True)])

def mm_process_pegging():
    d = mm_phase("pegging")
    d["requires"] = d["requires"] + [C("mfits", "microergs_fit(state.height.0 as nat)", note="C09 envelope of the memo table (see microergs_per_dosc)")]
    d["ensures"] = d["ensures"] + [
        C("pegged", """res.coins == state.coins && res.pools@.dom() == state.pools@.dom() && (forall|k: PoolKey| k != pk_mel_sym() && state.pools@.contains_key(k) ==> #[trigger] res.pools@[k] == state.pools@[k])
               && res.pools@[pk_mel_sym()].liqs == state.pools@[pk_mel_sym()].liqs && pool_live(res.pools@[pk_mel_sym()])""", "C01", "C16", "C15",
          note="pegging touches no coin and no pool other than MEL/SYM, whose liquidity count is unchanged (the reserves it adds are listed issuance)")]
    return d

def st_tip908_transactions():
    return dict(requires=[C("keyed", "txs_keyed(self.transactions@)")],
                ensures=[C("dense", "HashVal(res.root()) == spec_dense_txs(self.transactions@)", "C07", "C03", note="the post-TIP-908 root commits, per transaction, to its signature-free hash and to the hash of its whole encoding; it does not depend on the order in which the set is visited")])

def ss_new():
    return dict(ensures=[C("from", "res@ == map_of_pairs(stakes@)", "C13", "C08")])

# ---- dependency functions verified from the registry source (melstructs 0.3.3, pinned by Cargo.lock): the SAME contract is proved in
# unit `depswap` on the text of ~/.cargo/registry/src/*/melstructs-0.3.3/src/melswap.rs and assumed by the units that call it
import glob as _glob, os
_cands = sorted(_glob.glob(os.path.expanduser("~/.cargo/registry/src/*/melstructs-0.3.3/src/melswap.rs")))
DEP_MELSWAP = _cands[0] if _cands else "/nonexistent/melstructs-0.3.3/src/melswap.rs"
def ps_new_empty():
    return dict(ensures=[C("empty", "res.lefts == 0 && res.rights == 0 && res.price_accum == 0 && res.liqs == 0", "C15", "C16")])
def ps_swap_many():
    return dict(requires=[C("live", "sat128(old(self).lefts + lefts) > 0 && sat128(old(self).rights + rights) > 0",
                            note="Ratio::new(lefts', rights') and the division by it panic when a side is zero after the inputs are added")],
                ensures=[C("swap", """({ let l = sat128(old(self).lefts + lefts); let rr = sat128(old(self).rights + rights);
                   res.0 as int == swap_out(rights as int, rr, l) && res.1 as int == swap_out(lefts as int, l, rr)
                   && final(self).lefts as int == l - res.0 && final(self).rights as int == rr - res.1 && final(self).liqs == old(self).liqs
                   && final(self).lefts > 0 && final(self).rights > 0 })""", "C15", "C16", "C01",
                   note="add both inputs (saturating), pay out floor(in x other/this x 995/1000) of the other side at the single post-deposit price; neither reserve is emptied")])
def ps_deposit():
    return dict(requires=[C("live", "old(self).liqs != 0 ==> old(self).lefts > 0 && old(self).rights > 0", note="divides by lefts x rights")],
                ensures=[C("accum", "final(self).price_accum == old(self).price_accum", "C15"),
                         C("fresh", "old(self).liqs == 0 ==> res == lefts && final(self).lefts == lefts && final(self).rights == rights && final(self).liqs == lefts", "C15", "C16", "C01"),
                         C("added", "old(self).liqs != 0 ==> final(self).liqs as int == sat128(old(self).liqs + res) && final(self).lefts as int == sat128(old(self).lefts + lefts) && final(self).rights as int == sat128(old(self).rights + rights)", "C15", "C16", "C01")])
def ps_implied_price():
    return dict(requires=[C("live", "self.rights > 0", note="Ratio::new(lefts, rights) panics on a zero right reserve")],
                ensures=[C("price", "res@ == (num::rational::Frac { n: self.lefts as int, d: self.rights as int })", "C01", "C15")])
def ps_withdraw():
    return dict(requires=[C("backed", "old(self).liqs >= liqs && old(self).liqs > 0", note="assert!(self.liqs >= liqs); Ratio::new(liqs, self.liqs) panics on an empty pool")],
                ensures=[C("retired", "final(self).liqs == old(self).liqs - liqs", "C15", "C16", "C01"),
                         C("emptied", "final(self).liqs == 0 ==> res.0 == old(self).lefts && res.1 == old(self).rights && final(self).lefts == 0 && final(self).rights == 0", "C15", "C16", "C01"),
                         C("prorata", """final(self).liqs != 0 ==> res.0 as int == (old(self).lefts * liqs) / (old(self).liqs as int) && res.1 as int == (old(self).rights * liqs) / (old(self).liqs as int)
                    && final(self).lefts == old(self).lefts - res.0 && final(self).rights == old(self).rights - res.1""", "C15", "C16", "C01")])

_ct = sorted(_glob.glob(os.path.expanduser("~/.cargo/registry/src/*/melstructs-0.3.3/src/transaction.rs")))
DEP_TX = _ct[0] if _ct else "/nonexistent/melstructs-0.3.3/src/transaction.rs"
def tx_is_well_formed():
    return dict(ensures=[C("wf", "res == spec_well_formed(*self)", "C02", "C09", "C01",
                           note="the bound every later overflow argument starts from: at most 255 outputs, every output value and the fee at most MAX_COINVAL = 2^120")])
WEIGHER = "forall|c: &[u8]| #[trigger] call_requires(cov_to_weight, (c,))"
WEIGHS = "forall|c: &[u8], w: u128| #[trigger] call_ensures(cov_to_weight, (c,), w) ==> w as nat == spec_cov_weight_b(c@)"
def tx_weight():
    return dict(requires=[C("fit", "cov_weights_fit(*self)", note="`Iterator::sum` over the covenants' weights is unchecked u128 addition: established by load_relevant_coins' guard (fix: covenant weights that overflow u128)"),
                          C("weigher", WEIGHER, note="the closure passed is total"), C("weighs", WEIGHS, note="... and is a covenant weigher (the one call site passes `|c| covenant_weight_from_bytes(c)`)")],
                ensures=[C("weight", "res as nat == spec_tx_weight(*self)", "C05",
                           note="C05's weight formula, proved from the registry source: serialized size + covenant weights + 1000 per output - 1000 per input, saturating, never below zero")])
def tx_base_fee():
    return dict(requires=[C("fit", "cov_weights_fit(*self)"), C("weigher", WEIGHER), C("weighs", WEIGHS)],
                ensures=[C("fee", "ballast == 0 ==> res.0 == spec_base_fee(*self, fee_multiplier)", "C05",
                           note="minimum fee = floor(min(weight x multiplier, 2^128-1) / 65536): saturating product, then >> 16")])

COV_WEIGHT_STUB = "#[verifier::external_body] pub fn covenant_weight_from_bytes(b: &[u8]) -> (r: u128) ensures r as nat == spec_cov_weight_b(b@) { unimplemented!() }   // contract proved in unit codec"

def ap_check_tx_validity_stub():
    """what the callers of check_tx_validity may assume WITHOUT the envelopes of the two C04 findings.  Derived from what unit applychk proves:
    the whole contract under the envelopes (base run) and the clauses exist / unlocked / balanced / locked_err / errkind / approved_first without
    them (must_hold of the finding variants).  `approved` and `pos` are therefore stated under the domain c04_domain here."""
    d = ap_check_tx_validity()
    req = [c for c in d["requires"] if not c.envelope_of]
    ens = []
    for c in d["ensures"]:
        if c.cid in ("approved", "pos"):
            c2 = C(c.cid, c.text.replace("res is Ok ==>", "res is Ok && c04_domain(*tx, relevant_coins@) ==>", 1), *c.props, note="under the domain of the two C04 findings only (F-C04-cache, F-C04-index)")
            ens.append(c2)
        else:
            ens.append(c)
    return dict(requires=req, ensures=ens)

def pk_new_c():
    return dict(requires=[C("distinct", "x != y", note="panics when both denominations are the same (to_canonical returns None)")],
                ensures=[C("canonical", "res == pk_new(x, y) && pk_canonical(res)", "C15", "C16", note="the denomination with the smaller byte encoding on the left")])
def pk_side(which):
    return dict(ensures=[C("side", f"res == self.{which}", "C15")])
def pk_to_canonical():
    return dict(ensures=[C("canon", """res == (if bytes_lt(denom_bytes(self.left), denom_bytes(self.right)) { Some(self) }
                        else if bytes_lt(denom_bytes(self.right), denom_bytes(self.left)) { Some(PoolKey { left: self.right, right: self.left }) } else { None::<PoolKey> })""", "C15")])
def pk_stubs():
    from spec import Fn as _Fn
    return [_Fn(DEP_MELSWAP, "new", impl="PoolKey", mode="assume", **pk_new_c()), _Fn(DEP_MELSWAP, "left", impl="PoolKey", mode="assume", **pk_side("left")),
            _Fn(DEP_MELSWAP, "right", impl="PoolKey", mode="assume", **pk_side("right"))]
