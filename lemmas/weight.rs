// C11: the weight of a program (hand-written from opcode.rs' table; the table itself is a characterisation, the bounds
// "every instruction weighs at least 1" and "a loop weighs body x iterations + 1" come from the property statement)
pub open spec fn sat_add(a: int, b: int) -> int { if a + b > u128::MAX { u128::MAX as int } else { a + b } }
pub open spec fn sat_mul(a: int, b: int) -> int { if a * b > u128::MAX { u128::MAX as int } else { a * b } }
pub open spec fn imin(a: int, b: int) -> int { if a <= b { a } else { b } }
pub open spec fn simple_weight(op: OpCode) -> int {
    match op {
        OpCode::Noop => 1, OpCode::Add => 4, OpCode::Sub => 4, OpCode::Mul => 6, OpCode::Div => 6, OpCode::Rem => 6,
        OpCode::Exp(k) => 6 + 10 * (k as int + 1),
        OpCode::And => 4, OpCode::Or => 4, OpCode::Xor => 4, OpCode::Not => 4, OpCode::Eql => 4, OpCode::Lt => 4, OpCode::Gt => 4, OpCode::Shl => 4, OpCode::Shr => 4,
        OpCode::Hash(n) => 50 + n as int, OpCode::SigEOk(n) => 100 + n as int,
        OpCode::Store => 10, OpCode::Load => 10, OpCode::StoreImm(_) => 4, OpCode::LoadImm(_) => 4,
        OpCode::VRef => 10, OpCode::VSet => 20, OpCode::VAppend => 50, OpCode::VSlice => 50, OpCode::VLength => 4, OpCode::VEmpty => 4,
        OpCode::BEmpty => 4, OpCode::BPush => 10, OpCode::VPush => 10, OpCode::VCons => 10, OpCode::BRef => 10, OpCode::BAppend => 10,
        OpCode::BLength => 4, OpCode::BSlice => 50, OpCode::BSet => 20, OpCode::BCons => 10,
        OpCode::TypeQ => 4, OpCode::ItoB => 50, OpCode::BtoI => 50,
        OpCode::Bez(_) => 1, OpCode::Bnz(_) => 1, OpCode::Jmp(_) => 1,
        OpCode::PushB(_) => 1, OpCode::PushI(_) => 1, OpCode::PushIC(_) => 1, OpCode::Dup => 4,
        OpCode::Loop(_, _) => 1,
    }
}
/// saturating weight of a program: sum of the instruction weights; a loop weighs (weight of its body) x iterations + 1,
/// the body being the next `len` instructions (cut at the end of the enclosing slice)
pub open spec fn spec_weight(ops: Seq<OpCode>) -> int decreases ops.len(), 1int {
    if ops.len() == 0 { 0 } else { sat_add(spec_car_weight(ops), spec_weight(ops.skip(1))) }
}
pub open spec fn spec_car_weight(ops: Seq<OpCode>) -> int decreases ops.len(), 0int {
    if ops.len() == 0 { 0 } else {
        match ops[0] {
            OpCode::Loop(iters, body_len) => sat_add(sat_mul(spec_weight(ops.skip(1).take(imin(body_len as int, ops.len() - 1))), iters as int), 1),
            op => simple_weight(op),
        }
    }
}
//@LEMMA C11 lemma_weight_range every instruction weighs at least 1; weights saturate at u128::MAX
pub proof fn lemma_weight_range(ops: Seq<OpCode>)
    ensures 0 <= spec_weight(ops) <= u128::MAX, 0 <= spec_car_weight(ops) <= u128::MAX, ops.len() > 0 ==> spec_car_weight(ops) >= 1
    decreases ops.len(), 1int
{
    if ops.len() > 0 {
        lemma_weight_range(ops.skip(1));
        match ops[0] {
            OpCode::Loop(iters, body_len) => {
                let body = ops.skip(1).take(imin(body_len as int, ops.len() - 1));
                lemma_weight_range(body);
                let w = spec_weight(body);
                assert(w * (iters as int) >= 0) by (nonlinear_arith) requires w >= 0, iters >= 0;
                assert(spec_car_weight(ops) == sat_add(sat_mul(w, iters as int), 1));
            }
            op => { assert(1 <= simple_weight(op) <= 70000); assert(spec_car_weight(ops) == simple_weight(op)); }
        }
        assert(1 <= spec_car_weight(ops) <= u128::MAX);
        assert(spec_weight(ops) == sat_add(spec_car_weight(ops), spec_weight(ops.skip(1))));
    }
}
pub proof fn lemma_sat_add_assoc(a: int, b: int, c: int)
    requires a >= 0, b >= 0, c >= 0
    ensures sat_add(sat_add(a, b), c) == sat_add(a, sat_add(b, c))
{}
