// A-IO: std::io::{Read for &[u8], Write for Vec<u8>} and the integer <-> byte conversions, as the per-instruction codec uses them
// (hand-written ASSUMED contracts on std; `u16::from_be_bytes` / `.to_be_bytes()` cannot carry an assume_specification in this Verus
// build -- their array length is an anonymous constant -- so the declared substitutions of unit codec route them through these functions).
#[verifier::external_type_specification] #[verifier::external_body] pub struct ExIoError(std::io::Error);
/// `impl Read for &[u8]`: read_exact copies the first buf.len() bytes and advances the slice; fails (input unspecified) when too short
pub assume_specification<'a>[ <&'a [u8] as std::io::Read>::read_exact ](this: &mut &'a [u8], buf: &mut [u8]) -> (r: std::io::Result<()>)
    ensures old(this)@.len() >= old(buf)@.len() ==> r is Ok && final(buf)@ == old(this)@.take(old(buf)@.len() as int) && final(this)@ == old(this)@.skip(old(buf)@.len() as int),
            old(this)@.len() < old(buf)@.len() ==> r is Err;
/// `impl Write for Vec<u8>`: write_all appends and never fails
pub assume_specification<A: std::alloc::Allocator>[ <Vec<u8, A> as std::io::Write>::write_all ](this: &mut Vec<u8, A>, buf: &[u8]) -> (r: std::io::Result<()>)
    ensures r is Ok, final(this)@ == old(this)@ + buf@;
pub assume_specification<T> [<[T]>::reverse] (s: &mut [T]) ensures final(s)@ == old(s)@.reverse();
#[verifier::external_body] pub fn u16_from_be_bytes(b: [u8; 2]) -> (r: u16) ensures r == u16of(b@[0], b@[1]) { u16::from_be_bytes(b) }
#[verifier::external_body] pub fn u16_from_le_bytes(b: [u8; 2]) -> (r: u16) ensures r == u16of(b@[1], b@[0]) { u16::from_le_bytes(b) }
#[verifier::external_body] pub fn u16_from_ne_bytes(b: [u8; 2]) -> (r: u16) ensures r == u16of(b@[1], b@[0]) { u16::from_ne_bytes(b) }   // A-RUSTC: little-endian target
#[verifier::external_body] pub fn u8_from_be_bytes(b: [u8; 1]) -> (r: u8) ensures r == b@[0] { u8::from_be_bytes(b) }
/// `.to_be_bytes()` on u8 / u16 / U256 (declared substitution `.to_be_bytes()` -> `.to_be_bytes_v()`)
pub trait ToBeV { type Out; spec fn be_spec(&self) -> Seq<u8>; fn to_be_bytes_v(&self) -> (r: Self::Out); }
impl ToBeV for u8 { type Out = [u8; 1]; open spec fn be_spec(&self) -> Seq<u8> { seq![*self] }
    #[verifier::external_body] fn to_be_bytes_v(&self) -> (r: [u8; 1]) ensures r@ == seq![*self] { self.to_be_bytes() } }
impl ToBeV for u16 { type Out = [u8; 2]; open spec fn be_spec(&self) -> Seq<u8> { be16(*self) }
    #[verifier::external_body] fn to_be_bytes_v(&self) -> (r: [u8; 2]) ensures r@ == be16(*self) { self.to_be_bytes() } }
impl ToBeV for U256 { type Out = [u8; 32]; open spec fn be_spec(&self) -> Seq<u8> { be_bytes(self@) }
    #[verifier::external_body] fn to_be_bytes_v(&self) -> (r: [u8; 32]) ensures r@ == be_bytes(self@) { unimplemented!() } }
pub trait ToLeV { type Out; fn to_le_bytes_v(&self) -> (r: Self::Out); }
impl ToLeV for u16 { type Out = [u8; 2];
    #[verifier::external_body] fn to_le_bytes_v(&self) -> (r: [u8; 2]) ensures r@ == be16(*self).reverse() { self.to_le_bytes() } }
impl ToLeV for U256 { type Out = [u8; 32];
    #[verifier::external_body] fn to_le_bytes_v(&self) -> (r: [u8; 32]) ensures r@ == be_bytes(self@).reverse() { unimplemented!() } }
impl U256 {
    /// little-endian bytes = big-endian of the reversed string
    #[verifier::external_body] pub fn from_le_bytes(b: [u8; 32]) -> (o: U256) ensures o@ == be_value(b@.reverse()) { unimplemented!() }
    /// leading zero BITS; only what the codec uses is stated: /8 gives the number of leading zero bytes of the big-endian encoding (256 for zero)
    #[verifier::external_body] pub fn leading_zeros(self) -> (o: u32) ensures o <= 256, (o / 8) as nat == lead0(be_bytes(self@)), self@ == 0 ==> o == 256 { unimplemented!() }
}
/// `bytes.iter().take_while(|i| **i == 0).count()` (declared substitution): the number of leading zero bytes
#[verifier::external_body] pub fn count_leading_zero_bytes(b: &[u8; 32]) -> (r: usize) ensures r as nat == lead0(b@) { b.iter().take_while(|i| **i == 0).count() }
