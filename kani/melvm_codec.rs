// Kani harnesses for C12 on the REAL compiled OpCode::{decode, encode} (appended to a scratch copy of lib/melvm as
// `#[cfg(kani)] mod verif_codec;`).  Each harness is loop-free over its symbolic domain apart from loops bounded by the
// buffer length, unwound completely (unwinding assertions on): a complete proof for that domain, not a bounded stand-in.
use crate::opcode::OpCode;

const N: usize = 35;

fn decode_encode(first_lo: u8, first_hi: u8) {
    let buf: [u8; N] = kani::any();
    let len: usize = kani::any();
    kani::assume(len <= N);
    kani::assume(len == 0 || (buf[0] >= first_lo && buf[0] <= first_hi));
    let mut input: &[u8] = &buf[..len];
    match OpCode::decode(&mut input) {
        Ok(op) => {
            let consumed = len - input.len();
            assert!(consumed >= 1);
            let mut out: Vec<u8> = Vec::new();
            assert!(op.encode(&mut out).is_ok());
            assert!(out.len() == consumed);
            let mut i = 0;
            while i < consumed {
                assert!(out[i] == buf[i]);
                i += 1;
            }
        }
        Err(e) => { std::mem::forget(e); }   // io::Error's drop glue is irrelevant to the claim and costly for CBMC
    }
}

macro_rules! part {
    ($name:ident, $lo:expr, $hi:expr) => {
        #[kani::proof]
        #[kani::unwind(40)]
        fn $name() { decode_encode($lo, $hi) }
    };
}
part!(dec_enc_00_2f, 0x00, 0x2f);
part!(dec_enc_30_6f, 0x30, 0x6f);
part!(dec_enc_70_af, 0x70, 0xaf);
part!(dec_enc_b0_ef, 0xb0, 0xef);
part!(dec_enc_f0, 0xf0, 0xf0);
part!(dec_enc_f1, 0xf1, 0xf1);
part!(dec_enc_f2, 0xf2, 0xf2);
part!(dec_enc_f3_ff, 0xf3, 0xff);

// ---- K2: encode, append an arbitrary tail, decode: the same instruction comes back and exactly the encoding is consumed
fn enc_dec(op: OpCode) {
    let mut out: Vec<u8> = Vec::new();
    if op.encode(&mut out).is_ok() {
        let n = out.len();
        let t0: u8 = kani::any();
        let t1: u8 = kani::any();
        out.push(t0);
        out.push(t1);
        let mut input: &[u8] = &out[..];
        match OpCode::decode(&mut input) {
            Ok(back) => { assert!(back == op); assert!(input.len() == 2); assert!(n >= 1); }
            Err(e) => { std::mem::forget(e); assert!(false) }
        }
    }
}
fn any_u256() -> ethnum::U256 { ethnum::U256::from_words(kani::any(), kani::any()) }
#[kani::proof] #[kani::unwind(40)]
fn enc_dec_noarg() {
    let sel: u8 = kani::any();
    let op = match sel {
        0 => OpCode::Noop, 1 => OpCode::Add, 2 => OpCode::Sub, 3 => OpCode::Mul, 4 => OpCode::Div, 5 => OpCode::Rem, 6 => OpCode::And, 7 => OpCode::Or,
        8 => OpCode::Xor, 9 => OpCode::Not, 10 => OpCode::Eql, 11 => OpCode::Lt, 12 => OpCode::Gt, 13 => OpCode::Shl, 14 => OpCode::Shr, 15 => OpCode::Store,
        16 => OpCode::Load, 17 => OpCode::VRef, 18 => OpCode::VAppend, 19 => OpCode::VEmpty, 20 => OpCode::VLength, 21 => OpCode::VSlice, 22 => OpCode::VSet,
        23 => OpCode::VPush, 24 => OpCode::VCons, 25 => OpCode::BRef, 26 => OpCode::BAppend, 27 => OpCode::BEmpty, 28 => OpCode::BLength, 29 => OpCode::BSlice,
        30 => OpCode::BSet, 31 => OpCode::BPush, 32 => OpCode::BCons, 33 => OpCode::ItoB, 34 => OpCode::BtoI, 35 => OpCode::TypeQ, _ => OpCode::Dup,
    };
    enc_dec(op)
}
#[kani::proof] #[kani::unwind(40)]
fn enc_dec_args() {
    let sel: u8 = kani::any();
    let a: u16 = kani::any();
    let b: u16 = kani::any();
    let op = match sel {
        0 => OpCode::Exp(a as u8), 1 => OpCode::Hash(a), 2 => OpCode::SigEOk(a), 3 => OpCode::StoreImm(a), 4 => OpCode::LoadImm(a),
        5 => OpCode::Bez(a), 6 => OpCode::Bnz(a), 7 => OpCode::Jmp(a), _ => OpCode::Loop(a, b),
    };
    enc_dec(op)
}
#[kani::proof] #[kani::unwind(40)]
fn enc_dec_pushi() { enc_dec(OpCode::PushI(any_u256())) }
#[kani::proof] #[kani::unwind(40)]
fn enc_dec_pushic() { enc_dec(OpCode::PushIC(any_u256())) }
#[kani::proof] #[kani::unwind(40)]
fn enc_dec_pushb() {
    let buf: [u8; 33] = kani::any();
    let len: usize = kani::any();
    kani::assume(len <= 33);
    enc_dec(OpCode::PushB(buf[..len].to_vec()))
}
