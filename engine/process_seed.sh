#!/bin/sh
# usage: process_seed.sh <name e.g. C12g> <property> <root|melvm>  -- confirm a sub-agent's seed in its scratch worktree /tmp/seed_<name>,
# then run ./check <property> against that worktree with the change applied (VERIF_REPO; /repo untouched). Logs: /tmp/confirm_<name>.log, /tmp/check_<name>.log
n=$1; p=$2; c=${3:-root}; w=/tmp/seed_$n
sh /verif/engine/confirm_seed.sh $w $w/target $c > /tmp/confirm_$n.log 2>&1
cd $w && git checkout -q -- . && git apply SEED/patch.diff || { echo "PATCH DOES NOT APPLY" > /tmp/check_$n.log; exit 3; }
mkdir -p /tmp/evid_$n; VERIF_EVID=/tmp/evid_$n VERIF_GEN=/tmp/gen_$n VERIF_REPO=$w /verif/check $p > /tmp/check_$n.full 2>&1; echo "exit=$?" >> /tmp/check_$n.full
grep -E "^(VIOLATION|OK|UNDECIDED|KNOWN|exit=)" /tmp/check_$n.full | cut -c1-300 > /tmp/check_$n.log
cd $w && git checkout -q -- .
