// A-ITER: eager sequence semantics for iterator chains (hand-written ASSUMED contracts).
// An iterator is modelled by the `Vec` of the items it will yield: prelude stubs of `iter()/values()/keys()` return that
// Vec (so `for x in E.iter()` loops run through Verus' native Vec loop support) and the std adapter methods used by the
// repo (`map, filter, filter_map, cloned, copied, sum, fold, count, collect`) are methods of the extension trait below on
// that Vec, specified through the closure's own requires/ensures (injected at the call site, rule R6).  All closures
// involved are `Fn` and pure, so eager evaluation equals std's lazy evaluation.
/// `b` is the decision function the (pure) predicate closure `f` computed on the items; `out` is the filtered sequence
pub open spec fn filter_decided<T, F: Fn(&T) -> bool>(f: F, items: Seq<T>, out: Seq<T>, b: spec_fn(T) -> bool) -> bool {
    (forall|i: int| 0 <= i < items.len() ==> call_ensures(f, (&#[trigger] items[i],), b(items[i]))) && out == items.filter(b)
}
pub trait IterChain<T>: Sized {
    spec fn items(&self) -> Seq<T>;
    fn filter<F: Fn(&T) -> bool>(self, f: F) -> (r: Vec<T>)
        requires forall|i: int| 0 <= i < self.items().len() ==> call_requires(f, (&#[trigger] self.items()[i],)),
        ensures exists|b: spec_fn(T) -> bool| #[trigger] filter_decided(f, self.items(), r@, b);
    fn map<U, F: Fn(T) -> U>(self, f: F) -> (r: Vec<U>)
        requires forall|i: int| 0 <= i < self.items().len() ==> call_requires(f, (#[trigger] self.items()[i],)),
        ensures r@.len() == self.items().len(),
                forall|i: int| 0 <= i < self.items().len() ==> call_ensures(f, (self.items()[i],), #[trigger] r@[i]);
    fn count(self) -> (r: usize) ensures r == self.items().len();
}
impl<T> IterChain<T> for Vec<T> {
    open spec fn items(&self) -> Seq<T> { self@ }
    #[verifier::external_body] fn filter<F: Fn(&T) -> bool>(self, f: F) -> (r: Vec<T>) { unimplemented!() }
    #[verifier::external_body] fn map<U, F: Fn(T) -> U>(self, f: F) -> (r: Vec<U>) { unimplemented!() }
    #[verifier::external_body] fn count(self) -> (r: usize) { unimplemented!() }
}
pub trait IterChainRef<T>: Sized {
    spec fn ritems(&self) -> Seq<T>;
    fn cloned(self) -> (r: Vec<T>) ensures r@ == self.ritems();
    fn copied(self) -> (r: Vec<T>) ensures r@ == self.ritems();
}
impl<'a, T: Clone> IterChainRef<T> for Vec<&'a T> {
    open spec fn ritems(&self) -> Seq<T> { Seq::new(self@.len(), |i: int| *self@[i]) }
    #[verifier::external_body] fn cloned(self) -> (r: Vec<T>) { unimplemented!() }
    #[verifier::external_body] fn copied(self) -> (r: Vec<T>) { unimplemented!() }
}
pub trait IterSum: Sized {
    spec fn sitems(&self) -> Seq<u128>;
    /// Iterator::sum::<u128> uses `+`: overflow panics in debug builds and wraps in release builds; neither is acceptable
    /// in consensus code, so absence of overflow is the precondition.
    fn sum(self) -> (r: u128)
        requires fsum(self.sitems(), |x: u128| x as int) <= u128::MAX
        ensures r as int == fsum(self.sitems(), |x: u128| x as int);
}
impl IterSum for Vec<u128> {
    open spec fn sitems(&self) -> Seq<u128> { self@ }
    #[verifier::external_body] fn sum(self) -> (r: u128) { unimplemented!() }
}

// ---- more adapters (A-ITER) and rayon (A-RAYON: parallel iterators evaluate pure closures; their result equals the
// sequential evaluation over the same items, except that WHICH error a failing try_* returns is unspecified)
pub open spec fn opt_flatten<U>(s: Seq<Option<U>>) -> Seq<U> decreases s.len() {
    if s.len() == 0 { Seq::empty() } else if s.last() is Some { opt_flatten(s.drop_last()).push(s.last()->Some_0) } else { opt_flatten(s.drop_last()) }
}
pub open spec fn filter_map_decided<T, U, F: Fn(T) -> Option<U>>(f: F, items: Seq<T>, out: Seq<U>, opts: Seq<Option<U>>) -> bool {
    opts.len() == items.len() && (forall|i: int| 0 <= i < items.len() ==> call_ensures(f, (items[i],), #[trigger] opts[i])) && out == opt_flatten(opts)
}
pub open spec fn map_of_pairs<K, V>(s: Seq<(K, V)>) -> Map<K, V> decreases s.len() {
    if s.len() == 0 { Map::empty() } else { map_of_pairs(s.drop_last()).insert(s.last().0, s.last().1) }
}
pub trait FromItems<T>: Sized { spec fn built_from(items: Seq<T>, r: Self) -> bool; }
impl<K, V> FromItems<(K, V)> for HashMap<K, V> { open spec fn built_from(items: Seq<(K, V)>, r: Self) -> bool { r@ == map_of_pairs(items) } }
impl<T> FromItems<T> for Vec<T> { open spec fn built_from(items: Seq<T>, r: Self) -> bool { r@ == items } }
pub trait IterChain2<T>: Sized {
    spec fn items2(&self) -> Seq<T>;
    fn enumerate(self) -> (r: Vec<(usize, T)>)
        ensures r@.len() == self.items2().len(), forall|i: int| 0 <= i < r@.len() ==> (#[trigger] r@[i]).0 == i && r@[i].1 == self.items2()[i];
    fn filter_map<U, F: Fn(T) -> Option<U>>(self, f: F) -> (r: Vec<U>)
        requires forall|i: int| 0 <= i < self.items2().len() ==> call_requires(f, (#[trigger] self.items2()[i],)),
        ensures exists|opts: Seq<Option<U>>| #[trigger] filter_map_decided(f, self.items2(), r@, opts);
    fn collect<B: FromItems<T>>(self) -> (r: B) ensures B::built_from(self.items2(), r);
    /// rayon try_for_each / Iterator::try_for_each: Ok iff every call is Ok; otherwise the error of some failing call
    fn try_for_each<E, F: Fn(T) -> Result<(), E>>(self, f: F) -> (r: Result<(), E>)
        requires forall|i: int| 0 <= i < self.items2().len() ==> call_requires(f, (#[trigger] self.items2()[i],)),
        ensures r is Ok ==> forall|i: int| 0 <= i < self.items2().len() ==> call_ensures(f, (#[trigger] self.items2()[i],), Ok::<(), E>(())),
                r is Err ==> exists|i: int| 0 <= i < self.items2().len() && call_ensures(f, (#[trigger] self.items2()[i],), r);
}
impl<T> IterChain2<T> for Vec<T> {
    open spec fn items2(&self) -> Seq<T> { self@ }
    #[verifier::external_body] fn enumerate(self) -> (r: Vec<(usize, T)>) { unimplemented!() }
    #[verifier::external_body] fn filter_map<U, F: Fn(T) -> Option<U>>(self, f: F) -> (r: Vec<U>) { unimplemented!() }
    #[verifier::external_body] fn collect<B: FromItems<T>>(self) -> (r: B) { unimplemented!() }
    #[verifier::external_body] fn try_for_each<E, F: Fn(T) -> Result<(), E>>(self, f: F) -> (r: Result<(), E>) { unimplemented!() }
}
/// Iterator::find (A-ITER): the first item the predicate accepts, None when it accepts none
pub trait IterFind<T>: Sized {
    spec fn items_f(&self) -> Seq<T>;
    fn find<F: Fn(&T) -> bool>(self, f: F) -> (r: Option<T>)
        requires forall|i: int| 0 <= i < self.items_f().len() ==> call_requires(f, (&#[trigger] self.items_f()[i],)),
        ensures r is None ==> forall|i: int| 0 <= i < self.items_f().len() ==> call_ensures(f, (&#[trigger] self.items_f()[i],), false),
                r is Some ==> exists|i: int| 0 <= i < self.items_f().len() && #[trigger] self.items_f()[i] == r->Some_0 && call_ensures(f, (&self.items_f()[i],), true)
                    && forall|j: int| 0 <= j < i ==> call_ensures(f, (&#[trigger] self.items_f()[j],), false);
}
impl<T> IterFind<T> for Vec<T> { open spec fn items_f(&self) -> Seq<T> { self@ } #[verifier::external_body] fn find<F: Fn(&T) -> bool>(self, f: F) -> (r: Option<T>) { unimplemented!() } }
/// rayon: `par_iter()` / `into_par_iter()` as the Vec of item references
pub trait ParIterExt<T> { spec fn pitems(&self) -> Seq<T>; fn par_iter<'a>(&'a self) -> (r: Vec<&'a T>) ensures refs_of(r@, self.pitems()); }
impl<T> ParIterExt<T> for Vec<T> { open spec fn pitems(&self) -> Seq<T> { self@ } #[verifier::external_body] fn par_iter<'a>(&'a self) -> (r: Vec<&'a T>) { unimplemented!() } }
impl<T> ParIterExt<T> for [T] { open spec fn pitems(&self) -> Seq<T> { self@ } #[verifier::external_body] fn par_iter<'a>(&'a self) -> (r: Vec<&'a T>) { unimplemented!() } }
/// std `slice::iter()` at the root of an adapter chain (rule R9): the Vec of element references it yields
#[verifier::external_body]
pub fn vec_iter<'a, T>(v: &'a Vec<T>) -> (r: Vec<&'a T>) ensures refs_of(r@, v@) { unimplemented!() }
#[verifier::external_body]
pub fn slice_iter<'a, T>(v: &'a [T]) -> (r: Vec<&'a T>) ensures refs_of(r@, v@) { unimplemented!() }
pub open spec fn fold_decided<T, B, F: Fn(B, T) -> B>(f: F, items: Seq<T>, init: B, accs: Seq<B>) -> bool {
    accs.len() == items.len() + 1 && accs[0] == init && forall|i: int| 0 <= i < items.len() ==> call_ensures(f, (accs[i], items[i]), #[trigger] accs[i + 1])
}
pub trait IterFold<T>: Sized {
    spec fn fitems(&self) -> Seq<T>;
    fn fold<B, F: Fn(B, T) -> B>(self, init: B, f: F) -> (r: B)
        requires forall|b: B, i: int| 0 <= i < self.fitems().len() ==> #[trigger] call_requires(f, (b, self.fitems()[i])),
        ensures exists|accs: Seq<B>| #[trigger] fold_decided(f, self.fitems(), init, accs) && r == accs[self.fitems().len() as int];
}
impl<T> IterFold<T> for Vec<T> {
    open spec fn fitems(&self) -> Seq<T> { self@ }
    #[verifier::external_body] fn fold<B, F: Fn(B, T) -> B>(self, init: B, f: F) -> (r: B) { unimplemented!() }
}
// ---- rayon flat_map / try_fold / try_reduce, HashMap::extend, FxHashSet (A-ITER / A-RAYON)
/// flat_map: every produced item appears in the result and every result item was produced (membership level; order and
/// multiplicity are not specified -- the repo only collects the result into a map keyed by the item)
pub open spec fn flat_map_decided<T, U, F: Fn(T) -> Vec<U>>(f: F, items: Seq<T>, out: Seq<U>, parts: Seq<Vec<U>>) -> bool {
    &&& parts.len() == items.len() && (forall|i: int| 0 <= i < items.len() ==> call_ensures(f, (items[i],), #[trigger] parts[i]))
    &&& forall|i: int, j: int| 0 <= i < parts.len() && 0 <= j < parts[i]@.len() ==> out.contains(#[trigger] parts[i]@[j])
    &&& forall|x: U| out.contains(x) ==> exists|i: int, j: int| 0 <= i < parts.len() && 0 <= j < parts[i]@.len() && x == #[trigger] parts[i]@[j]
}
pub trait IterChain3<T>: Sized {
    spec fn items3(&self) -> Seq<T>;
    fn flat_map<U, F: Fn(T) -> Vec<U>>(self, f: F) -> (r: Vec<U>)
        requires forall|i: int| 0 <= i < self.items3().len() ==> call_requires(f, (#[trigger] self.items3()[i],)),
        ensures exists|parts: Seq<Vec<U>>| #[trigger] flat_map_decided(f, self.items3(), r@, parts);
    /// rayon try_fold followed by try_reduce is modelled as ONE sequential chunk: try_fold yields the left fold of the
    /// items from identity() (stopping at the first Err); rayon may split the items into several chunks and report any of
    /// the errors -- results that depend on the split are outside this model (A-RAYON)
    fn try_fold<A, E, ID: Fn() -> A, F: Fn(A, T) -> Result<A, E>>(self, identity: ID, fold_op: F) -> (r: TryFolded<A, E>)
        requires call_requires(identity, ()), forall|a: A, i: int| 0 <= i < self.items3().len() ==> #[trigger] call_requires(fold_op, (a, self.items3()[i])),
        ensures exists|accs: Seq<A>| #[trigger] try_fold_decided(identity, fold_op, self.items3(), accs, r.val);
}
/// accs: the accumulators reached before the fold stopped (accs[0] = identity(); one more per Ok step)
pub open spec fn try_fold_decided<T, A, E, ID: Fn() -> A, F: Fn(A, T) -> Result<A, E>>(identity: ID, f: F, items: Seq<T>, accs: Seq<A>, r: Result<A, E>) -> bool {
    &&& 1 <= accs.len() <= items.len() + 1 && call_ensures(identity, (), accs[0])
    &&& forall|i: int| 0 <= i < accs.len() - 1 ==> call_ensures(f, (accs[i], items[i]), Ok::<A, E>(#[trigger] accs[i + 1]))
    &&& match r { Ok(v) => accs.len() == items.len() + 1 && v == accs[items.len() as int],
                  Err(e) => accs.len() <= items.len() && call_ensures(f, (accs[accs.len() - 1], items[accs.len() - 1]), r) }
}
pub struct TryFolded<A, E> { pub val: Result<A, E> }
impl<A, E> TryFolded<A, E> {
    /// one chunk: the reduction of a single partial result with the identity (either side), or the partial result itself
    #[verifier::external_body]
    pub fn try_reduce<ID: Fn() -> A, G: Fn(A, A) -> Result<A, E>>(self, identity: ID, op: G) -> (r: Result<A, E>)
        requires call_requires(identity, ()), forall|a: A, b: A| #[trigger] call_requires(op, (a, b)),
        ensures match self.val { Err(e) => r == self.val,
                    Ok(v) => r == self.val || exists|i0: A| call_ensures(identity, (), i0) && (#[trigger] call_ensures(op, (i0, v), r) || call_ensures(op, (v, i0), r)) }
    { unimplemented!() }
}
impl<T> IterChain3<T> for Vec<T> {
    open spec fn items3(&self) -> Seq<T> { self@ }
    #[verifier::external_body] fn flat_map<U, F: Fn(T) -> Vec<U>>(self, f: F) -> (r: Vec<U>) { unimplemented!() }
    #[verifier::external_body] fn try_fold<A, E, ID: Fn() -> A, F: Fn(A, T) -> Result<A, E>>(self, identity: ID, fold_op: F) -> (r: TryFolded<A, E>) { unimplemented!() }
}
/// rayon `into_par_iter()` on a slice reference: the Vec of element references
pub trait IntoParIterExt<'a, T> { spec fn ipitems(&self) -> Seq<T>; fn into_par_iter(self) -> (r: Vec<&'a T>) ensures refs_of(r@, self.ipitems()); }
impl<'a, T> IntoParIterExt<'a, T> for &'a [T] { open spec fn ipitems(&self) -> Seq<T> { self@ } #[verifier::external_body] fn into_par_iter(self) -> (r: Vec<&'a T>) { unimplemented!() } }
/// HashMap::extend(other map) (rule R17 rewrites `X.extend(Y)` to `map_extend(&mut X, Y)`: std's Extend trait method cannot carry a spec): right-biased union
#[verifier::external_body]
pub fn map_extend<K, V>(m: &mut HashMap<K, V>, other: HashMap<K, V>) ensures final(m)@ == old(m)@.union_prefer_right(other@) { unimplemented!() }
/// `for (k, v) in map` (HashMap consumed by value; rule R18): the entries in the map's unspecified iteration order, each key once
#[verifier::external_body]
pub fn map_into_vec<K, V>(m: HashMap<K, V>) -> (r: Vec<(K, V)>)
    ensures forall|i: int| 0 <= i < r@.len() ==> m@.contains_key((#[trigger] r@[i]).0) && m@[r@[i].0] == r@[i].1,
            forall|k: K| m@.contains_key(k) ==> exists|i: int| 0 <= i < r@.len() && (#[trigger] r@[i]).0 == k,
            forall|i: int, j: int| 0 <= i < j < r@.len() ==> (#[trigger] r@[i]).0 != (#[trigger] r@[j]).0
{ unimplemented!() }
