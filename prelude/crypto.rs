// A-ED (continued): exec face of tmelcrypt::Ed25519PK
impl Ed25519PK {
    #[verifier::external_body]
    pub fn verify<M: BytesLike, S: BytesLike>(&self, msg: &M, sig: &S) -> (r: bool) ensures r == sig_ok(*self, msg.bytes(), sig.bytes()) { unimplemented!() }
}
/// melstructs::ConsensusProof = BTreeMap<Ed25519PK, Bytes>, modelled as an opaque finite map whose iteration yields every
/// entry exactly once (A-STRUCTS/A-ITER)
#[verifier::external_body] pub struct ConsensusProof { _p: u8 }
impl View for ConsensusProof { type V = Map<Ed25519PK, Bytes>; uninterp spec fn view(&self) -> Map<Ed25519PK, Bytes>; }
pub open spec fn keyseq<'a, V>(r: Seq<(&'a Ed25519PK, V)>) -> Seq<Ed25519PK> { Seq::new(r.len(), |i: int| *r[i].0) }
impl ConsensusProof {
    #[verifier::external_body]
    pub fn iter(&self) -> (r: Vec<(&Ed25519PK, &Bytes)>)
        ensures is_enum(self@, keyseq(r@)), forall|i: int| 0 <= i < r@.len() ==> *(#[trigger] r@[i]).1 == self@[*r@[i].0]
    { unimplemented!() }
    #[verifier::external_body]
    pub fn keys(&self) -> (r: Vec<&Ed25519PK>) ensures is_enum(self@, derefseq(r@)) { unimplemented!() }
}
