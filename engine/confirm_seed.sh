#!/bin/sh
# usage: confirm_seed.sh <worktree> <target-dir> [melvm]  -- confirm a seeded change in its scratch worktree:
#   suite with the change (only the 4 pinned-tree failures), demo fails with the change, demo passes without it.
w=$1; t=$2; crate=${3:-root}
cd $w || exit 3
git checkout -q -- . ; git apply SEED/patch.diff || exit 3
export CARGO_TARGET_DIR=$t CARGO_NET_OFFLINE=true
echo "== suite with change"; cargo test --workspace --no-fail-fast --offline 2>&1 | grep -E "^test result|FAILED|^error" | sort | uniq -c
if [ $crate = melvm ]; then src=lib/melvm/src; pk="-p melvm"; else src=src; pk="--lib"; fi
cp SEED/demo.rs $src/verif_demo.rs; printf '\n#[cfg(test)]\nmod verif_demo;\n' >> $src/lib.rs
echo "== demo with change"; cargo test --offline $pk verif_demo 2>&1 | grep -E "^test |test result|panicked|^error" | head
git apply -R SEED/patch.diff
echo "== demo without change"; cargo test --offline $pk verif_demo 2>&1 | grep -E "^test |test result|panicked|^error" | head
rm $src/verif_demo.rs; git checkout -q -- .
