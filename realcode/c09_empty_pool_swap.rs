// C09 on the real code: a user pool is created by a deposit, emptied by withdrawing all its liquidity, then one swap request
// names it: swap_many divides by the zero reserve and `seal` panics.  Asserts the property (sealing completes).
use crate::*;
use melstructs::*;
use melvm::Covenant;
use novasmt::{Database, InMemoryCas};
use std::panic::{catch_unwind, AssertUnwindSafe};

#[test]
fn c09_swap_against_emptied_pool_does_not_stop_sealing() {
    let db = Database::new(InMemoryCas::default());
    let mut state = GenesisConfig::std_testnet().realize(&db);
    state.network = NetID::Custom02;
    state.fee_multiplier = 0;
    let at = Covenant::always_true();
    let cd = |v: u128, d: Denom| CoinData { covhash: at.hash(), value: CoinValue(v), denom: d, additional_data: vec![].into() };
    let mk = |kind, inputs: Vec<CoinID>, outputs: Vec<CoinData>, data: Vec<u8>| Transaction { kind, inputs, outputs, fee: CoinValue(0), covenants: vec![at.to_bytes()], data: data.into(), sigs: vec![] };
    let m = CoinID { txhash: tmelcrypt::HashVal([1; 32]).into(), index: 0 };
    state.coins.insert_coin(m, CoinDataHeight { coin_data: cd(10_000, Denom::Mel), height: 0.into() }, state.tip_906());
    // block 1: mint a custom token
    let mut state = state.seal(None).next_unsealed();
    let t0 = mk(TxKind::Normal, vec![m], vec![cd(10_000, Denom::Mel), cd(5_000, Denom::NewCustom)], vec![]);
    state.apply_tx(&t0).unwrap();
    let tok = Denom::Custom(t0.hash_nosigs());
    let key = PoolKey::new(Denom::Mel, tok);
    // block 2: deposit MEL + token into a new pool
    let mut state = state.seal(None).next_unsealed();
    let (l, r) = (key.left(), key.right());
    let amount = |d: Denom| if d == Denom::Mel { 4_000 } else { 5_000 };
    let t1 = mk(TxKind::LiqDeposit, vec![t0.output_coinid(0), t0.output_coinid(1)],
        vec![cd(amount(l), l), cd(amount(r), r), cd(6_000, Denom::Mel)], key.to_bytes().to_vec());
    state.apply_tx(&t1).unwrap();
    // block 3: withdraw all the liquidity
    let sealed = state.seal(None);
    let liq = sealed.coin(t1.output_coinid(0)).unwrap().coin_data;
    let mut state = sealed.next_unsealed();
    // (a LiqWithdraw has exactly one output; the transaction also needs a MEL input to balance the MEL fee entry, so pay it as fee)
    let mut t2 = mk(TxKind::LiqWithdraw, vec![t1.output_coinid(0), t1.output_coinid(2)], vec![liq.clone()], key.to_bytes().to_vec());
    t2.fee = CoinValue(6_000);
    state.apply_tx(&t2).unwrap();
    let sealed = state.seal(None);
    assert_eq!(sealed.pool(key).unwrap().liqs, 0, "pool should be empty now");
    // block 4: swap request against the emptied pool
    let mut state = sealed.next_unsealed();
    let mel_back = sealed.coin(t2.output_coinid(if key.left() == Denom::Mel { 0 } else { 1 })).unwrap();
    let mel_idx = if key.left() == Denom::Mel { 0 } else { 1 };
    let t3 = mk(TxKind::Swap, vec![t2.output_coinid(mel_idx)], vec![mel_back.coin_data.clone()], key.to_bytes().to_vec());
    state.apply_tx(&t3).unwrap();
    let r = catch_unwind(AssertUnwindSafe(move || state.seal(None).header().height));
    assert!(r.is_ok(), "seal panicked on a swap against an emptied pool");
}
