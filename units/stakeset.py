from spec import *
from _contracts import *

S = "lib/tip911-stakeset/src/lib.rs"
VOTES_CLOSURES = lambda keyed: [
    Closure(0, "v: &&StakeDoc", "(r: bool)",
            ensures=[C("pred", "r == (v.e_start <= epoch && v.e_post_end > epoch" + (" && v.pubkey == key" if keyed else "") + ")", "C13", "C14", char=False)]),
    Closure(1, "v: &StakeDoc", "(r: u128)", ensures=[C("weight", "r == v.syms_staked.0", "C13", "C14")]),
]
VOTES_PROOF = """proof {
    let key_o: Option<Ed25519PK> = %s;
    let ks = choose|ks: Seq<TxHash>| is_enum(self@, ks) && __c0@.len() == ks.len() && (forall|i: int| 0 <= i < ks.len() ==> *(#[trigger] __c0@[i]) == self@[ks[i]]);
    let b = choose|b: spec_fn(&StakeDoc) -> bool| #[trigger] filter_decided(__cl1, __c0@, __c1@, b);
    let p = |d: &StakeDoc| d.e_start <= epoch && d.e_post_end > epoch && (key_o is None || d.pubkey == key_o->Some_0);
    lemma_filter_agree(__c0@, b, p);
    lemma_votes_chain(self@, ks, __c0@, __c1@, __c2@, p, epoch, key_o);
}"""
def votes_proof(keyed):
    k = "Some(key)" if keyed else "None"
    return [Inject("entry", "broadcast use group_seq_axioms;"), ]

UNIT = Unit(
    name="stakeset", lemma_obs=['lemma_fsum_perm'],
    prelude=["core.rs", "iter.rs", "imbl.rs"],
    lemmas=["sums.rs", "stakes.rs"],
    items=[
        TypeItem(S, "struct", "StakeSet", subst=[("stakes:", "pub stakes:")]),
        Raw("impl View for StakeSet { type V = Map<TxHash, StakeDoc>; open spec fn view(&self) -> Map<TxHash, StakeDoc> { self.stakes@ } }"),
        Fn(S, "add_stake", impl="StakeSet", home="C13", implicit_props=("C09", "C13"), **ss_add_stake()),
        Fn(S, "get_stake", impl="StakeSet", home="C13", implicit_props=("C09", "C13"), **ss_get_stake()),
        Fn(S, "unlock_old", impl="StakeSet", home="C13", implicit_props=("C09", "C13"), **ss_unlock_old(),
           closures=[Closure(0, "_k: &TxHash, v: &StakeDoc", "(r: bool)", ensures=[C("pred", "r == (v.e_post_end >= epoch)", "C13")])]),
        Fn(S, "votes", impl="StakeSet", home="C13", implicit_props=("C09", "C13", "C14"), **ss_votes(),
           rewrites=[("ANF", "sum", 0, 4, {2: VOTES_PROOF % "Some(key)"})], closures=VOTES_CLOSURES(True)),
        Fn(S, "total_votes", impl="StakeSet", home="C13", implicit_props=("C09", "C13", "C14"), **ss_total_votes(),
           rewrites=[("ANF", "sum", 0, 4, {2: VOTES_PROOF % "None"})], closures=VOTES_CLOSURES(False)),
    ],
)
