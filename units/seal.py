from spec import *
from _contracts import *

S = "src/state.rs"
C_ = "src/state/coins.rs"
T = "src/state/txset.rs"
SS = "lib/tip911-stakeset/src/lib.rs"
SM = "src/smtmapping.rs"
UNIT = Unit(
    name="seal", lemma_obs=['lemma_chain_next'], uses="group_core_axioms",
    prelude=["core.rs", "raw.rs", "iter.rs", "crypto.rs", "state_abs.rs", "std_extra.rs"],
    lemmas=["sums.rs", "iterlem.rs", "coinsview.rs", "supply.rs", "tips.rs", "apply.rs", "header.rs", "txroot_opaque.rs", "seal_opaque.rs", "stateinv.rs", "batch_opaque.rs", "sealenv_opaque.rs", "chaininv.rs", "chainlem.rs", "seal_def.rs", "feemul.rs"],
    items=[
        TypeItem(S, "struct", "UnsealedState"),
        TypeItem(S, "struct", "SealedState", subst=[("(UnsealedState<C>, Option<ProposerAction>)", "(pub UnsealedState<C>, pub Option<ProposerAction>)")]),
        TypeItem(S, "enum", "StateError", derive="#[derive(Clone, Copy, PartialEq, Eq, Structural)]"),
        Raw("impl<C: ContentAddrStore> Clone for UnsealedState<C> { #[verifier::external_body] fn clone(&self) -> (r: Self) ensures r == *self { unimplemented!() } }"),
        TypeItem("src/tip_heights.rs", "const", "TIP_901_HEIGHT"), TypeItem("src/tip_heights.rs", "const", "TIP_906_HEIGHT"),
        Fn(C_, "insert_coin", impl="CoinMapping", mode="assume", **cm_insert_coin()),
        Fn(C_, "root_hash", impl="CoinMapping", mode="assume", **cm_root_hash_abs()),
        Fn(SM, "insert", impl="SmtMapping", mode="assume", wrap=SMT_WRAP, **smt_insert()),
        Fn(SM, "get", impl="SmtMapping", mode="assume", wrap=SMT_WRAP, **smt_get()),
        Fn(SM, "root_hash", impl="SmtMapping", mode="assume", wrap=SMT_WRAP, **smt_root_hash()),
        Fn(SS, "unlock_old", impl="StakeSet", mode="assume", **ss_unlock_old()),
        Fn(SS, "pre_tip911", impl="StakeSet", mode="assume", sig_subst=[("novasmt::Tree<InMemoryCas>", "novasmt::Tree<InMemoryCas>")], **ss_pre_tip911()),
        Fn(S, "tip_condition", impl="UnsealedState", home="C17", implicit_props=("C09",), **st_tip_condition()),
        Fn(S, "tip_901", impl="UnsealedState", home="C17", implicit_props=("C09",), **st_tip(42700)),
        Fn(S, "tip_906", impl="UnsealedState", home="C20", implicit_props=("C09",), **st_tip(830000)),
        Fn(S, "transactions_root_hash", impl="UnsealedState", mode="assume", **st_txroot()),
        Fn(S, "move_action_fee_multiplier", impl="UnsealedState", mode="assume",
           ensures=[C("total", """({ let t = old(self).fee_multiplier as int + spec_fee_step(old(self).fee_multiplier, after_tip_901, action.fee_multiplier_delta as int);
                      final(self).fee_multiplier as int == (if t < 0 { 0 } else if t > u128::MAX { u128::MAX as int } else { t }) })""", "C17"),
                    C("frame", """final(self).network == old(self).network && final(self).height == old(self).height
                      && final(self).history == old(self).history && final(self).coins == old(self).coins
                      && final(self).transactions == old(self).transactions && final(self).fee_pool == old(self).fee_pool
                      && final(self).tips == old(self).tips && final(self).dosc_speed == old(self).dosc_speed
                      && final(self).pools == old(self).pools && final(self).stakes == old(self).stakes""", "C17")]),
        Fn(S, "collect_proposer_action_fee", impl="UnsealedState", home="C05", implicit_props=("C09", "C05"),
           requires=[C("wf", "old(self).coins.wf() && (spec_tip906(*old(self)) ==> counts_ok(old(self).coins@)) && origin_ok(old(self).coins@.coins) && reward_fresh(*old(self))"),
                     C("fits", "(old(self).fee_pool.0 >> 16) + old(self).tips.0 <= u128::MAX", note="C09 envelope: fee pool + tips fit in u128")],
           ensures=[C("inv", "(spec_tip906(*old(self)) ==> counts_ok(final(self).coins@)) && origin_ok(final(self).coins@.coins) && (!spec_tip906(*old(self)) ==> final(self).coins@.counts == old(self).coins@.counts)", "C20"),
                    C("reward", """exists|d: CoinDataHeight| is_reward_cdh(*old(self), action, d)
                        && #[trigger] view_insert(old(self).coins@, spec_proposer_reward(old(self).height), d, spec_tip906(*old(self))) == final(self).coins@""", "C05", "C01", "C06"),
                    C("pool", "final(self).fee_pool.0 == old(self).fee_pool.0 - (old(self).fee_pool.0 >> 16) && final(self).tips.0 == 0", "C05", "C01", "C06", "C08"),
                    C("frame", """final(self).network == old(self).network && final(self).height == old(self).height && final(self).history == old(self).history
                        && final(self).transactions == old(self).transactions && final(self).fee_multiplier == old(self).fee_multiplier
                        && final(self).dosc_speed == old(self).dosc_speed && final(self).pools == old(self).pools && final(self).stakes == old(self).stakes""", "C05", "C17"),
                    C("wf", "final(self).coins.wf()", "C20")],
           injects=[Inject("entry", "proof { let x = self.fee_pool.0; assert((x >> 16) <= x) by (bit_vector); assert((x >> 16) == x / 65536) by (bit_vector); }"),
                    Inject(("after_let", "pseudocoin_data"), "let ghost pd = pseudocoin_data; proof { assert(is_reward_cdh(*old(self), action, pd)); assert(self.coins == old(self).coins && spec_tip906(*self) == spec_tip906(*old(self))); }"),
                    Inject("end", "proof { assert(self.coins@ == view_insert(old(self).coins@, spec_proposer_reward(old(self).height), pd, spec_tip906(*old(self)))); }"),
                    Inject("end", "proof { let d = self.coins@.coins[spec_proposer_reward(old(self).height)]; lemma_origin_reward(old(self).coins@.coins, old(self).height, d); assert(self.coins@.coins =~= old(self).coins@.coins.insert(spec_proposer_reward(old(self).height), d)); }")]),
        Fn(S, "apply_proposer_action", impl="UnsealedState", home="C05", implicit_props=("C09", "C05", "C17"),
           requires=[C("wf", "old(self).coins.wf() && (spec_tip906(*old(self)) ==> counts_ok(old(self).coins@)) && origin_ok(old(self).coins@.coins) && reward_fresh(*old(self))"),
                     C("fits", "(old(self).fee_pool.0 >> 16) + old(self).tips.0 <= u128::MAX")],
           ensures=[C("inv", "(spec_tip906(*old(self)) ==> counts_ok(final(self).coins@)) && origin_ok(final(self).coins@.coins) && (!spec_tip906(*old(self)) ==> final(self).coins@.counts == old(self).coins@.counts)", "C20"),
                    C("applied", "proposer_applied(*old(self), action, after_tip_901, *final(self))", "C05", "C17", "C01", "C06", "C08"),
                    C("wf", "final(self).coins.wf()", "C20")]),
        Raw("pub mod melmint { pub use super::*; }"),
        Fn("src/state/melmint.rs", "preseal_melmint", mode="assume", **mm_preseal()),
        Fn(S, "apply_tip_909", impl="UnsealedState", mode="assume", **st_tip909()),
        Fn(S, "tip_909", impl="UnsealedState", home="C01", implicit_props=("C09",), **st_tip(950000)),
        Fn(S, "tip_902", impl="UnsealedState", home="C16", implicit_props=("C09",), **st_tip(180000)),
        TypeItem("src/tip_heights.rs", "const", "TIP_909_HEIGHT"), TypeItem("src/tip_heights.rs", "const", "TIP_902_HEIGHT"),
        Fn(SM, "val_iter", impl="SmtMapping", mode="assume", wrap=SMT_WRAP, sig_subst=[("impl Iterator<Item = V> + '_", "Vec<V>")], **smt_val_iter()),
        Fn(S, "seal", impl="UnsealedState", home="C06", implicit_props=("C09", "C06", "C16"), rewrites=[("MUTSELF",)], **st_seal_full(),
           injects=[Inject(("after", "this = crate::melmint::preseal_melmint(this);"), "proof { lemma_two_pools(this); } let ghost ps1 = this;"),
                    Inject("before_tail", """proof { if hinv(self) { broadcast use axiom_reward_inj;
                        lemma_young_heights(self.coins@.coins, ps1.coins@.coins, self.height); lemma_ids_new_rewards(self.coins@.coins, ps1.coins@.coins, self.height.0 as int);
                        assert(heights_le(this.coins@.coins, this.height)) by { assert forall|id: CoinID| this.coins@.coins.contains_key(id) implies (#[trigger] this.coins@.coins[id]).height.0 <= this.height.0 by {
                            if id != spec_proposer_reward(self.height) { assert(ps1.coins@.coins.contains_key(id) && this.coins@.coins[id] == ps1.coins@.coins[id]); } } }
                        assert(rewards_below(this.coins@.coins, this.height.0 + 1)) by { assert forall|hh: BlockHeight| this.coins@.coins.contains_key(#[trigger] spec_proposer_reward(hh)) implies hh.0 < this.height.0 + 1 by {
                            if hh != self.height { assert(spec_reward_hash(hh) != spec_reward_hash(self.height)); assert(ps1.coins@.coins.contains_key(spec_proposer_reward(hh))); } } }
                        assert(hinv_sealed(this)); } }
                    proof { broadcast use axiom_reward_not_marker; if !deposit_legacy(self.network, self.height) {
                        assert forall|h: TxHash| self.coins@.coins.contains_key(#[trigger] spec_marker(h)) implies this.coins@.coins.contains_key(spec_marker(h)) && this.coins@.coins[spec_marker(h)] == self.coins@.coins[spec_marker(h)] by {
                            assert(ps1.coins@.coins.contains_key(spec_marker(h))); assert(spec_marker(h) != spec_proposer_reward(ps1.height)); }
                        if markers_ok(self.coins@.coins) { broadcast use axiom_marker_not_output;
                            assert forall|h: TxHash| this.coins@.coins.contains_key(#[trigger] spec_marker(h)) implies this.coins@.coins[spec_marker(h)].coin_data.covhash == Address(spec_zero_hash()) by {
                                let m = spec_marker(h); assert(m != spec_proposer_reward(ps1.height));
                                assert(ps1.coins@.coins.contains_key(m));
                                assert(!tx_id(m)) by { if tx_id(m) { let tx = choose|tx: Transaction| m.txhash == #[trigger] spec_txhash(tx); assert(spec_fdp_hash(h) != spec_txhash(tx).0); } }
                                assert(self.coins@.coins.contains_key(m)); } } } }"""),
                    Inject(("before", "if let Some(action) = action"), """proof { let x = this.fee_pool.0; assert((x >> 16) <= 0x1_0000_0000_0000_0000_0000_0000_0000u128) by (bit_vector);
                        broadcast use axiom_reward_not_output; let rid = spec_proposer_reward(this.height);
                        assert(!tx_id(rid)) by { if tx_id(rid) { let tx = choose|tx: Transaction| rid.txhash == #[trigger] spec_txhash(tx); assert(spec_reward_hash(this.height) != spec_txhash(tx).0); } }
                        assert(ids_new(self.coins@.coins, this.coins@.coins)); assert(reward_fresh(this)); assert(state_inv(this) && pools_ok(this.pools@) && builtins_live(this)); }""")]),
        Fn(S, "header", impl="SealedState", home="C07", implicit_props=("C09", "C07"), **st_header_full(),
           closures=[Closure(0, "height: u64", "(r: HashVal)", requires=[C("has", "inner.history@.contains_key(BlockHeight(height))")],
                             ensures=[C("prev", "r == spec_header_hash(inner.history@[BlockHeight(height)])", "C07")])]),
        Fn(S, "apply_tip_906_for_next_state", impl="SealedState", mode="assume", **st_tip906_transition()),
        Fn(S, "next_unsealed", impl="SealedState", home="C07", implicit_props=("C09", "C07", "C13", "C20"), **st_next_unsealed(),
           injects=[Inject("before_tail", "proof { lemma_chain_next(self.0, new); }")]),
        Fn(T, "iter", impl="TransactionSet", mode="assume", sig_subst=[("impl Iterator<Item = &Transaction>", "Vec<&Transaction>")], **ts_iter()),
        Fn(S, "to_block", impl="SealedState", home="C06", implicit_props=("C09", "C06", "C08"),
           requires=[C("chain", "chain_ok(self.0) && txs_keyed(self.0.transactions@)")],
           ensures=[C("block", "res.header == spec_header(self.0) && res.proposer_action == self.1 && res.transactions@ == self.0.transactions@.values()", "C06", "C08")],
           rewrites=[("ANF", "collect", 0, 3, {1: """proof {
               let ks = choose|ks: Seq<TxHash>| is_enum(self.0.transactions@, ks) && __c0@.len() == ks.len() && (forall|i: int| 0 <= i < ks.len() ==> *(#[trigger] __c0@[i]) == self.0.transactions@[ks[i]]);
               assert(__c1@.to_set() =~= self.0.transactions@.values()) by {
                   assert forall|t: Transaction| __c1@.to_set().contains(t) <==> self.0.transactions@.values().contains(t) by {
                       if __c1@.contains(t) { let i = choose|i: int| 0 <= i < __c1@.len() && __c1@[i] == t; assert(*__c0@[i] == self.0.transactions@[ks[i]]); assert(ks.contains(ks[i])); }
                       if self.0.transactions@.values().contains(t) { let k = choose|k: TxHash| self.0.transactions@.contains_key(k) && self.0.transactions@[k] == t;
                           assert(ks.contains(k)); let i = choose|i: int| 0 <= i < ks.len() && ks[i] == k; assert(__c1@[i] == t); }
                   }
               }
           }"""})]),
        Fn(C_, "inner", impl="CoinMapping", mode="assume", ensures=[C("root", "HashVal(novasmt::root_of(res@)) == spec_root_coins(self@)", "C07", note="unit coins proves inner() == the field and root_hash() == root_of(field); root_hash() is named spec_root_coins(view) in the abstract units")]),
        Fn("src/state/applytx.rs", "apply_tx_batch_impl", mode="assume", **ap_batch_impl()),
        Fn(S, "apply_tx_batch", impl="UnsealedState", home="C02", implicit_props=("C09", "C02"), **st_apply_tx_batch()),
        Fn(C_, "get_coin", impl="CoinMapping", mode="assume", **cm_get_coin()),
        Fn("lib/tip911-stakeset/src/lib.rs", "get_stake", impl="StakeSet", mode="assume", **ss_get_stake()),
        Fn(S, "coin", impl="SealedState", home="C07", implicit_props=("C09", "C02"), requires=[C("wf", "self.0.coins.wf()")],
           ensures=[C("is", "res == (if self.0.coins@.coins.contains_key(id) { Some(self.0.coins@.coins[id]) } else { None::<CoinDataHeight> })", "C02", "C07")]),
        Fn(S, "history", impl="SealedState", home="C07", implicit_props=("C09", "C07"),
           ensures=[C("is", "res == (if self.0.history@.contains_key(height) { Some(self.0.history@[height]) } else { None::<Header> })", "C07")]),
        Fn(S, "pool", impl="SealedState", home="C16", implicit_props=("C09", "C16"),
           ensures=[C("is", "res == (if self.0.pools@.contains_key(key) { Some(self.0.pools@[key]) } else { None::<PoolState> })", "C16", "C15")]),
        Fn(S, "stake", impl="SealedState", home="C13", implicit_props=("C09", "C13"),
           ensures=[C("is", "res == (if self.0.stakes@.contains_key(key) { Some(self.0.stakes@[key]) } else { None::<StakeDoc> })", "C13")]),
        Fn(S, "raw_coins_smt", impl="SealedState", home="C07", implicit_props=("C09", "C07"), ensures=[C("is", "HashVal(novasmt::root_of(res@)) == spec_header(self.0).coins_hash", "C07", note="the tree handed out for Merkle proofs of coins has the root the header commits to")]),
        Fn(T, "iter_hashes", impl="TransactionSet", mode="assume", sig_subst=[("impl Iterator<Item = TxHash> + '_", "Vec<TxHash>")], ensures=[C("keys", "is_enum(self@, res@)", "C07", "C03")]),
        Fn(S, "transaction_sorted_posn", impl="SealedState", home="C07", implicit_props=("C09", "C07"),
           ensures=[C("found", "res is Some ==> exists|ks: Seq<TxHash>| is_enum(self.0.transactions@, ks) && res->Some_0 < ks.len() && #[trigger] ks[res->Some_0 as int] == txhash", "C07",
                      note="the position handed out is that of the requested hash in the set's own enumeration (TransactionSet::iter_hashes: the keys of the ordered map)"),
                    C("absent", "res is None <==> !self.0.transactions@.contains_key(txhash)", "C07")],
           rewrites=[("ANF", "map", 0, 4, {2: """proof { let ks = __c0@; let m = self.0.transactions@;
               if __c2 is None { assert forall|i: int| 0 <= i < ks.len() implies ks[i] != txhash by { assert(__c1.items_f()[i] == __c1@[i]); assert(call_ensures(__cl2, (&__c1.items_f()[i],), false)); }
                   if m.contains_key(txhash) { assert(ks.contains(txhash)); let i = choose|i: int| 0 <= i < ks.len() && ks[i] == txhash; } }
               else { assert(__c1.items_f() == __c1@); let i = choose|i: int| 0 <= i < __c1@.len() && #[trigger] __c1.items_f()[i] == __c2->Some_0 && call_ensures(__cl2, (&__c1.items_f()[i],), true); assert(ks[i] == txhash); assert(ks.contains(txhash)); } }"""})],
           closures=[Closure(0, "__p: &(usize, TxHash)", "(r: bool)", first_stmt="let (_, k) = __p;", ensures=[C("eq", "r == (__p.1 == txhash)", "C07")]),
                     Closure(1, "__q: (usize, TxHash)", "(r: usize)", first_stmt="let (i, _) = __q;", ensures=[C("fst", "r == __q.0", "C07")])]),
        Fn(S, "raw_stakes", impl="SealedState", home="C13", implicit_props=("C09", "C13"), ensures=[C("is", "res == self.0.stakes", "C13")]),
        Fn(S, "apply_tx", impl="UnsealedState", home="C02", implicit_props=("C09", "C02"),
           requires=[C("pre", "batch_pre(*old(self), seq![*tx])")],
           ensures=[C("noop", "res is Err ==> *final(self) == *old(self)", "C02"),
                    C("ok", "res is Ok ==> batch_result(*old(self), seq![*tx], *final(self))", "C02", "C06", note="a single transaction is the batch of length one")]),
        Fn(S, "apply_block", impl="SealedState", home="C06", implicit_props=("C09", "C06", "C16"),
           requires=[C("pre", "chain_ok(self.0) && state_inv(self.0) && spec_builtin_pools(self.0) && pools_ok(self.0.pools@) && builtins_if_present(self.0) && self.0.height.0 < u64::MAX && hinv_sealed(self.0)"),
                     C("env", "forall|n: UnsealedState<C>, txx: Seq<Transaction>| next_rel(self.0, n) && txx.to_set() == block.transactions@ ==> #[trigger] batch_env(n, txx)",
                       note="C09 envelope: the arithmetic envelopes of batch application hold for the block's transactions"),
                     C("env2", "forall|n: UnsealedState<C>, txx: Seq<Transaction>, mid: UnsealedState<C>| next_rel(self.0, n) && txx.to_set() == block.transactions@ && #[trigger] batch_result(n, txx, mid) ==> seal_env(mid) && (spec_tip(mid.network, mid.height, 950000) ==> tip909_env(spec_preseal(mid)))",
                       note="C09 envelope: the arithmetic envelopes of the settlement phases of sealing hold for the block's transactions")],
           ensures=[C("accepted", "res is Ok ==> spec_header(res->Ok_0.0) == block.header && res->Ok_0.1 == block.proposer_action && block_applied(self.0, *block, res->Ok_0.0)", "C06", "C03"),
                    C("inv_next", "res is Ok ==> chain_ok(res->Ok_0.0) && state_inv(res->Ok_0.0) && spec_builtin_pools(res->Ok_0.0) && pools_ok(res->Ok_0.0.pools@) && builtins_live(res->Ok_0.0) && builtins_if_present(res->Ok_0.0) && hinv_sealed(res->Ok_0.0)", "C16", "C20", "C07", "C09",
                      note="the state invariants that apply_block requires of the current sealed state hold again of the state it returns: with GenesisConfig::realize + seal as the base case they hold along every chain of accepted blocks (modulo the assumed envelopes). Since fix 0959dea nothing is required of ERG/SYM before TIP-902: create_builtins seeds it at activation when absent or emptied, so the built-in invariants are inductive from genesis)"),
                    C("locked", "res is Ok ==> forall|k: TxHash| self.0.stakes@.contains_key(k) && self.0.stakes@[k].e_post_end >= (self.0.height.0 + 1) / 200000 ==> #[trigger] res->Ok_0.0.stakes@.contains_key(k)", "C13",
                      note="a registered stake stays registered (so its coin stays locked: check_tx_validity#unlocked) in every block up to and including the last block of the epoch numbered by its end field; next_unsealed#next drops it exactly in the first block of the following epoch"),
                    C("markers", "res is Ok && markers_ok(self.0.coins@.coins) && !deposit_legacy(self.0.network, BlockHeight((self.0.height.0 + 1) as u64)) ==> markers_kept(self.0.coins@.coins, res->Ok_0.0.coins@.coins) && markers_ok(res->Ok_0.0.coins@.coins)", "C19",
                      note="a faucet's dedup marker, once written, is carried by every later block (outside the pre-978392 deposit rule): with create_next_state refusing a faucet whose marker is present, a faucet is accepted at most once over the life of the chain"),
                    C("wrong_header", "res is Err && res->Err_0 is WrongHeader ==> exists|r: UnsealedState<C>| #[trigger] block_applied(self.0, *block, r) && spec_header(r) != block.header", "C06")],
           rewrites=[("R3", 0), ("ANF", "collect", 0, 3, {1: "proof { assert(__c1@ =~= derefseq(__c0@)); assert(__c1@.no_duplicates() && __c1@.to_set() == block.transactions@); }"})],
           injects=[Inject(("after_let", "transactions"), "proof { assert(transactions@.no_duplicates() && transactions@.to_set() == block.transactions@); }"),
                    Inject(("after_let", "basis", 0), "let ghost n0 = basis; proof { lemma_two_pools_min(basis); }"),
                    Inject(("after", "basis.apply_tx_batch(&transactions)?;"), "let ghost mid0 = basis; proof { lemma_two_pools_min(basis); }"),
                    Inject(("after_let", "basis", 1), """proof { lemma_two_pools(basis.0); assert(batch_result(n0, transactions@, mid0)); assert(block_applied(self.0, *block, basis.0));
                        assert(chain_ok(n0)); assert(mid0.history == n0.history && mid0.height == n0.height && mid0.network == n0.network); assert(chain_ok(mid0));
                        assert(basis.0.history == mid0.history && basis.0.height == mid0.height && basis.0.network == mid0.network); assert(chain_ok(basis.0));
                        assert(state_inv(basis.0) && pools_ok(basis.0.pools@) && builtins_live(basis.0));
                        assert(n0.coins@.coins == self.0.coins@.coins); }""")]),
        Fn(C_, "new", impl="CoinMapping", mode="assume", **cm_new_abs()),
        Fn(SM, "new", impl="SmtMapping", mode="assume", wrap=SMT_WRAP, **smt_new()),
        Fn(S, "from_block", impl="SealedState", home="C08", implicit_props=("C09", "C08"),
           requires=[C("store", "novasmt_db::db_has(*db, blk.header.coins_hash.0) && novasmt_db::db_has(*db, blk.header.history_hash.0) && novasmt_db::db_has(*db, blk.header.pools_hash.0)",
                       note="the content-addressed store holds the three trees the header commits to"),
                     C("no_tips", "forall|s: SealedState<C>| is_block_of(s, *blk) && s.1 is None ==> (#[trigger] s.0).tips.0 == 0", envelope_of="F-C08-tips")],
           ensures=[C("fields", """res.0.network == blk.header.network && res.0.height == blk.header.height && res.0.fee_pool == blk.header.fee_pool
                        && res.0.fee_multiplier == blk.header.fee_multiplier && res.0.dosc_speed == blk.header.dosc_speed && res.0.tips.0 == 0 && res.0.stakes == *stakes && res.1 == blk.proposer_action
                        && spec_root_coins(res.0.coins@) == blk.header.coins_hash && spec_root_smt(res.0.history@) == blk.header.history_hash && spec_root_smt(res.0.pools@) == blk.header.pools_hash""", "C08"),
                    C("restart", "forall|s: SealedState<C>| is_block_of(s, *blk) && sealed_ok(s) && *stakes == s.0.stakes ==> same_views(res.0, #[trigger] s.0) && res.1 == s.1", "C08",
                      note="sealed_ok (a state sealed with a proposer action has no pending tips) is established by seal's clause action_tips and by from_block's own clause sealed"),
                    C("sealed", "sealed_ok(res)", "C08")],
           rewrites=[("ANF", "collect", 0, 3, {})],
           injects=[Inject("entry", "let ghost stakes0 = *stakes;"), Inject("before_tail", """proof { broadcast use axiom_root_smt_inj, axiom_root_coins_inj;
               assert forall|s: SealedState<C>| is_block_of(s, *blk) && sealed_ok(s) && stakes0 == s.0.stakes implies same_views(state, #[trigger] s.0) by {
                   let m = s.0.transactions@;
                   assert forall|h: TxHash| state.transactions@.contains_key(h) <==> m.contains_key(h) by {
                       if state.transactions@.contains_key(h) { let i = choose|i: int| 0 <= i < __c1@.len() && spec_txhash(#[trigger] __c1@[i]) == h;
                           assert(__c1@.to_set().contains(__c1@[i])); assert(m.values().contains(__c1@[i]));
                           let k = choose|k: TxHash| m.contains_key(k) && m[k] == __c1@[i]; assert(k == h); }
                       if m.contains_key(h) { assert(m.values().contains(m[h])); assert(__c1@.to_set().contains(m[h]));
                           let i = choose|i: int| 0 <= i < __c1@.len() && __c1@[i] == m[h]; assert(spec_txhash(__c1@[i]) == h); }
                   }
                   assert(state.transactions@.dom() =~= m.dom());
               } }""")]),
    ],
    findings=[
        Finding("F-C08-tips", S + "::SealedState::from_block", ("C08",), [], expect_clause=["restart", "proof"], must_hold=["fields", "sealed"],
                what="from_block resets pending tips to 0 while next_unsealed carries them over: a state sealed without a proposer action after fee-overpaying transactions is rebuilt with different tips"),
    ],
)
