// A-U256 / A-CATVEC: ethnum::U256 operations and catvec::CatVec as the interpreter uses them (hand-written ASSUMED contracts).
pub open spec fn m256() -> nat { vstd::arithmetic::power2::pow2(256) }
pub uninterp spec fn u256_and(a: nat, b: nat) -> nat;
pub uninterp spec fn u256_or(a: nat, b: nat) -> nat;
pub uninterp spec fn u256_xor(a: nat, b: nat) -> nat;
pub open spec fn pow2n(n: nat) -> nat { vstd::arithmetic::power2::pow2(n) }
impl U256 {
    #[verifier::external_body] pub const ONE: U256 = U256 { _p: [1, 0] };
    #[verifier::external_body] pub const ZERO: U256 = U256 { _p: [0, 0] };
    #[verifier::external_body] pub fn overflowing_add(self, r: U256) -> (o: (U256, bool)) ensures o.0@ == (self@ + r@) % m256() { unimplemented!() }
    #[verifier::external_body] pub fn overflowing_sub(self, r: U256) -> (o: (U256, bool)) ensures o.0@ == ((self@ + m256() - r@) as nat) % m256() { unimplemented!() }
    #[verifier::external_body] pub fn overflowing_mul(self, r: U256) -> (o: (U256, bool)) ensures o.0@ == (self@ * r@) % m256() { unimplemented!() }
    #[verifier::external_body] pub fn checked_div(self, r: U256) -> (o: Option<U256>) ensures r@ == 0 ==> o is None, r@ != 0 ==> o is Some && o->Some_0@ == self@ / r@ { unimplemented!() }
    #[verifier::external_body] pub fn checked_rem(self, r: U256) -> (o: Option<U256>) ensures r@ == 0 ==> o is None, r@ != 0 ==> o is Some && o->Some_0@ == self@ % r@ { unimplemented!() }
    /// shift by n mod 256
    #[verifier::external_body] pub fn wrapping_shl(self, n: u32) -> (o: U256) ensures o@ == (self@ * pow2n((n % 256) as nat)) % m256() { unimplemented!() }
    #[verifier::external_body] pub fn wrapping_shr(self, n: u32) -> (o: U256) ensures o@ == self@ / pow2n((n % 256) as nat) { unimplemented!() }
    // neighbouring ethnum methods a refactor would plausibly use (lesson 3 of DESIGN 8.6): same ASSUMED source, ethnum's documented semantics
    #[verifier::external_body] pub fn checked_shl(self, n: u32) -> (o: Option<U256>) ensures n >= 256 ==> o is None, n < 256 ==> o is Some && o->Some_0@ == (self@ * pow2n(n as nat)) % m256() { unimplemented!() }
    #[verifier::external_body] pub fn checked_shr(self, n: u32) -> (o: Option<U256>) ensures n >= 256 ==> o is None, n < 256 ==> o is Some && o->Some_0@ == self@ / pow2n(n as nat) { unimplemented!() }
    #[verifier::external_body] pub fn overflowing_shl(self, n: u32) -> (o: (U256, bool)) ensures o.0@ == (self@ * pow2n((n % 256) as nat)) % m256(), o.1 == (n >= 256) { unimplemented!() }
    #[verifier::external_body] pub fn overflowing_shr(self, n: u32) -> (o: (U256, bool)) ensures o.0@ == self@ / pow2n((n % 256) as nat), o.1 == (n >= 256) { unimplemented!() }
    #[verifier::external_body] pub fn wrapping_add(self, r: U256) -> (o: U256) ensures o@ == (self@ + r@) % m256() { unimplemented!() }
    #[verifier::external_body] pub fn wrapping_sub(self, r: U256) -> (o: U256) ensures o@ == ((self@ + m256() - r@) as nat) % m256() { unimplemented!() }
    #[verifier::external_body] pub fn wrapping_mul(self, r: U256) -> (o: U256) ensures o@ == (self@ * r@) % m256() { unimplemented!() }
    #[verifier::external_body] pub fn checked_add(self, r: U256) -> (o: Option<U256>) ensures self@ + r@ >= m256() ==> o is None, self@ + r@ < m256() ==> o is Some && o->Some_0@ == self@ + r@ { unimplemented!() }
    #[verifier::external_body] pub fn checked_sub(self, r: U256) -> (o: Option<U256>) ensures self@ < r@ ==> o is None, self@ >= r@ ==> o is Some && o->Some_0@ == self@ - r@ { unimplemented!() }
    #[verifier::external_body] pub fn checked_mul(self, r: U256) -> (o: Option<U256>) ensures self@ * r@ >= m256() ==> o is None, self@ * r@ < m256() ==> o is Some && o->Some_0@ == self@ * r@ { unimplemented!() }
    #[verifier::external_body] pub fn saturating_add(self, r: U256) -> (o: U256) ensures o@ == (if self@ + r@ >= m256() { (m256() - 1) as nat } else { self@ + r@ }) { unimplemented!() }
    #[verifier::external_body] pub fn saturating_sub(self, r: U256) -> (o: U256) ensures o@ == (if self@ < r@ { 0nat } else { (self@ - r@) as nat }) { unimplemented!() }
    #[verifier::external_body] pub fn wrapping_div(self, r: U256) -> (o: U256) requires r@ != 0 ensures o@ == self@ / r@ { unimplemented!() }
    #[verifier::external_body] pub fn wrapping_rem(self, r: U256) -> (o: U256) requires r@ != 0 ensures o@ == self@ % r@ { unimplemented!() }
    #[verifier::external_body] pub fn as_u8(self) -> (o: u8) ensures o as nat == self@ % 0x100 { unimplemented!() }
    #[verifier::external_body] pub fn as_u16(self) -> (o: u16) ensures o as nat == self@ % 0x1_0000 { unimplemented!() }
    #[verifier::external_body] pub fn as_u64(self) -> (o: u64) ensures o as nat == self@ % 0x1_0000_0000_0000_0000 { unimplemented!() }
    #[verifier::external_body] pub fn as_u128(self) -> (o: u128) ensures o as nat == self@ % vstd::arithmetic::power2::pow2(128) { unimplemented!() }
    #[verifier::external_body] pub fn as_usize(self) -> (o: usize) ensures o as nat == self@ % 0x1_0000_0000_0000_0000 { unimplemented!() }
    #[verifier::external_body] pub fn as_u32(self) -> (o: u32) ensures o as nat == self@ % 0x1_0000_0000 { unimplemented!() }
    #[verifier::external_body] pub fn low(&self) -> (o: &u128) ensures *o as nat == self@ % vstd::arithmetic::power2::pow2(128) { unimplemented!() }
    #[verifier::external_body] pub fn to_be_bytes(self) -> (o: [u8; 32]) ensures o@ == be_bytes(self@) { unimplemented!() }
    #[verifier::external_body] pub fn from_be_bytes(b: [u8; 32]) -> (o: U256) ensures o@ == be_value(b@) { unimplemented!() }
}
pub uninterp spec fn be_bytes(n: nat) -> Seq<u8>;       // 32-byte big-endian encoding
pub uninterp spec fn be_value(b: Seq<u8>) -> nat;       // inverse
pub broadcast axiom fn axiom_be(n: nat) requires n < m256() ensures (#[trigger] be_bytes(n)).len() == 32, be_value(be_bytes(n)) == n;
pub broadcast axiom fn axiom_u256_consts() ensures #[trigger] U256::ONE@ == 1, #[trigger] U256::ZERO@ == 0;
impl PartialEqSpecImpl<U256> for U256 { open spec fn obeys_eq_spec() -> bool { true } open spec fn eq_spec(&self, o: &U256) -> bool { self@ == o@ } }
impl PartialEq for U256 { #[verifier::external_body] fn eq(&self, o: &U256) -> (r: bool) { unimplemented!() } }
impl PartialOrdSpecImpl<U256> for U256 {
    open spec fn obeys_partial_cmp_spec() -> bool { true }
    open spec fn partial_cmp_spec(&self, other: &U256) -> Option<core::cmp::Ordering> {
        if self@ < other@ { Some(core::cmp::Ordering::Less) } else if self@ == other@ { Some(core::cmp::Ordering::Equal) } else { Some(core::cmp::Ordering::Greater) } }
}
impl PartialOrd for U256 { #[verifier::external_body] fn partial_cmp(&self, o: &U256) -> (r: Option<core::cmp::Ordering>) { unimplemented!() } }
impl BitAndSpecImpl<U256> for U256 { open spec fn obeys_bitand_spec() -> bool { false } open spec fn bitand_req(self, r: U256) -> bool { true } uninterp spec fn bitand_spec(self, r: U256) -> U256; }
impl core::ops::BitAnd<U256> for U256 { type Output = U256; #[verifier::external_body] fn bitand(self, r: U256) -> (o: U256) ensures o@ == u256_and(self@, r@), r@ == 1 ==> o@ == self@ % 2 { unimplemented!() } }
impl BitOrSpecImpl<U256> for U256 { open spec fn obeys_bitor_spec() -> bool { false } open spec fn bitor_req(self, r: U256) -> bool { true } uninterp spec fn bitor_spec(self, r: U256) -> U256; }
impl core::ops::BitOr<U256> for U256 { type Output = U256; #[verifier::external_body] fn bitor(self, r: U256) -> (o: U256) ensures o@ == u256_or(self@, r@) { unimplemented!() } }
impl BitXorSpecImpl<U256> for U256 { open spec fn obeys_bitxor_spec() -> bool { false } open spec fn bitxor_req(self, r: U256) -> bool { true } uninterp spec fn bitxor_spec(self, r: U256) -> U256; }
impl core::ops::BitXor<U256> for U256 { type Output = U256; #[verifier::external_body] fn bitxor(self, r: U256) -> (o: U256) ensures o@ == u256_xor(self@, r@) { unimplemented!() } }
impl NotSpecImpl for U256 { open spec fn obeys_not_spec() -> bool { false } open spec fn not_req(self) -> bool { true } uninterp spec fn not_spec(self) -> U256; }
impl core::ops::Not for U256 { type Output = U256; #[verifier::external_body] fn not(self) -> (o: U256) ensures o@ == (m256() - 1 - self@) as nat { unimplemented!() } }
impl ShrAssignSpecImpl<i32> for U256 { open spec fn obeys_shr_assign_spec() -> bool { false } open spec fn shr_assign_req(&self, r: i32) -> bool { 0 <= r < 256 } uninterp spec fn shr_assign_spec(&self, r: i32) -> &U256; }
impl core::ops::ShrAssign<i32> for U256 { #[verifier::external_body] fn shr_assign(&mut self, r: i32) ensures r == 1 ==> final(self)@ == old(self)@ / 2 { unimplemented!() } }
impl FromSpecImpl<u8> for U256 { open spec fn obeys_from_spec() -> bool { false } uninterp spec fn from_spec(v: u8) -> U256; }
impl From<u8> for U256 { #[verifier::external_body] fn from(v: u8) -> (r: U256) ensures r@ == v as nat { unimplemented!() } }
impl FromSpecImpl<u16> for U256 { open spec fn obeys_from_spec() -> bool { false } uninterp spec fn from_spec(v: u16) -> U256; }
impl From<u16> for U256 { #[verifier::external_body] fn from(v: u16) -> (r: U256) ensures r@ == v as nat { unimplemented!() } }
impl FromSpecImpl<u32> for U256 { open spec fn obeys_from_spec() -> bool { false } uninterp spec fn from_spec(v: u32) -> U256; }
impl From<u32> for U256 { #[verifier::external_body] fn from(v: u32) -> (r: U256) ensures r@ == v as nat { unimplemented!() } }
impl FromSpecImpl<u64> for U256 { open spec fn obeys_from_spec() -> bool { false } uninterp spec fn from_spec(v: u64) -> U256; }
impl From<u64> for U256 { #[verifier::external_body] fn from(v: u64) -> (r: U256) ensures r@ == v as nat { unimplemented!() } }
impl FromSpecImpl<u128> for U256 { open spec fn obeys_from_spec() -> bool { false } uninterp spec fn from_spec(v: u128) -> U256; }
impl From<u128> for U256 { #[verifier::external_body] fn from(v: u128) -> (r: U256) ensures r@ == v as nat { unimplemented!() } }

/// catvec::CatVec<T, N>: persistent concatenable vector; view = the sequence of its elements
#[verifier::external_body] #[verifier::accept_recursive_types(T)]
pub struct CatVec<T, const N: usize> { _p: core::marker::PhantomData<T> }
impl<T, const N: usize> View for CatVec<T, N> { type V = Seq<T>; uninterp spec fn view(&self) -> Seq<T>; }
impl<T, const N: usize> Clone for CatVec<T, N> { #[verifier::external_body] fn clone(&self) -> (r: Self) ensures r@ == self@ { unimplemented!() } }
impl<T, const N: usize> Default for CatVec<T, N> { #[verifier::external_body] fn default() -> (r: Self) ensures r@ == Seq::<T>::empty() { unimplemented!() } }
pub broadcast axiom fn axiom_catvec_ext<T, const N: usize>(a: CatVec<T, N>, b: CatVec<T, N>) requires #[trigger] a@ == #[trigger] b@ ensures a == b;
impl<T, const N: usize> CatVec<T, N> {
    #[verifier::external_body] pub fn len(&self) -> (r: usize) ensures r == self@.len() { unimplemented!() }
    #[verifier::external_body] pub fn get(&self, i: usize) -> (r: Option<&T>) ensures i < self@.len() ==> r == Some(&self@[i as int]), i >= self@.len() ==> r is None { unimplemented!() }
    /// `*v.get_mut(i)? = x` (rule R15)
    #[verifier::external_body] pub fn set_checked(&mut self, i: usize, x: T) -> (r: Option<()>)
        ensures i < old(self)@.len() ==> r is Some && final(self)@ == old(self)@.update(i as int, x), i >= old(self)@.len() ==> r is None && final(self)@ == old(self)@ { unimplemented!() }
    #[verifier::external_body] pub fn push_back(&mut self, x: T) ensures final(self)@ == old(self)@.push(x) { unimplemented!() }
    /// insert at idx (panics beyond the end)
    #[verifier::external_body] pub fn insert(&mut self, idx: usize, x: T) requires idx <= old(self)@.len() ensures final(self)@ == old(self)@.insert(idx as int, x) { unimplemented!() }
    #[verifier::external_body] pub fn append(&mut self, other: Self) ensures final(self)@ == old(self)@ + other@ { unimplemented!() }
    /// slice_into(begin..end): keep [begin, end)
    #[verifier::external_body] pub fn slice_into(&mut self, range: core::ops::Range<usize>) requires range.start <= range.end <= old(self)@.len()
        ensures final(self)@ == old(self)@.subrange(range.start as int, range.end as int) { unimplemented!() }
}

impl<T, const N: usize> FromSpecImpl<Vec<T>> for CatVec<T, N> { open spec fn obeys_from_spec() -> bool { false } uninterp spec fn from_spec(v: Vec<T>) -> CatVec<T, N>; }
impl<T, const N: usize> From<Vec<T>> for CatVec<T, N> { #[verifier::external_body] fn from(v: Vec<T>) -> (r: CatVec<T, N>) ensures r@ == v@ { unimplemented!() } }
impl<'a, const N: usize> FromSpecImpl<&'a [u8]> for CatVec<u8, N> { open spec fn obeys_from_spec() -> bool { false } uninterp spec fn from_spec(v: &'a [u8]) -> CatVec<u8, N>; }
impl<'a, const N: usize> From<&'a [u8]> for CatVec<u8, N> { #[verifier::external_body] fn from(v: &'a [u8]) -> (r: CatVec<u8, N>) ensures r@ == v@ { unimplemented!() } }
impl<const N: usize> FromSpecImpl<[u8; 32]> for CatVec<u8, N> { open spec fn obeys_from_spec() -> bool { false } uninterp spec fn from_spec(v: [u8; 32]) -> CatVec<u8, N>; }
impl<const N: usize> From<[u8; 32]> for CatVec<u8, N> { #[verifier::external_body] fn from(v: [u8; 32]) -> (r: CatVec<u8, N>) ensures r@ == v@ { unimplemented!() } }
impl<T, const N: usize> FromSpecImpl<CatVec<T, N>> for Vec<T> { open spec fn obeys_from_spec() -> bool { false } uninterp spec fn from_spec(v: CatVec<T, N>) -> Vec<T>; }
impl<T, const N: usize> From<CatVec<T, N>> for Vec<T> { #[verifier::external_body] fn from(v: CatVec<T, N>) -> (r: Vec<T>) ensures r@ == v@ { unimplemented!() } }
pub uninterp spec fn pk_of(b: Seq<u8>) -> Ed25519PK;   // the key with these 32 bytes
/// Vec<u8>::try_into::<[u8; 32]>().ok()
#[verifier::external_body]
pub fn vec_to_array32(v: Vec<u8>) -> (r: Option<[u8; 32]>) ensures v@.len() == 32 ==> r is Some && r->Some_0@ == v@, v@.len() != 32 ==> r is None { unimplemented!() }
impl Ed25519PK {
    #[verifier::external_body] pub fn from_bytes(b: &[u8]) -> (r: Option<Ed25519PK>) ensures b@.len() == 32 ==> r == Some(pk_of(b@)), b@.len() != 32 ==> r is None { unimplemented!() }
}
