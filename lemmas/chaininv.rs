// Invariants every reachable state carries along the chain (hand-written definitions; proved kept by apply_tx_batch_impl,
// preseal_melmint, seal, next_unsealed, apply_block, with GenesisConfig::realize as the base case). They used to be assumed
// parts of batch_env / seal's `reward_fresh` precondition.
/// every header recorded in the history sits below the current height and records a non-zero DOSC speed
pub open spec fn history_ok<C: ContentAddrStore>(s: UnsealedState<C>) -> bool {
    forall|h: BlockHeight| #[trigger] s.history@.contains_key(h) ==> h.0 < s.height.0 && s.history@[h].dosc_speed != 0
}
/// no coin is younger than block `h`
pub open spec fn heights_le(c: IMap<CoinID, CoinDataHeight>, h: BlockHeight) -> bool { forall|id: CoinID| c.contains_key(id) ==> (#[trigger] c[id]).height.0 <= h.0 }
pub open spec fn coin_heights_ok<C: ContentAddrStore>(s: UnsealedState<C>) -> bool { heights_le(s.coins@.coins, s.height) }
/// the proposer-reward pseudo-coins present belong to heights below `h`
pub open spec fn rewards_below(c: IMap<CoinID, CoinDataHeight>, h: int) -> bool { forall|hh: BlockHeight| c.contains_key(#[trigger] spec_proposer_reward(hh)) ==> hh.0 < h }
/// state being built at height `height`: nothing of this height has been sealed yet
pub open spec fn hinv<C: ContentAddrStore>(s: UnsealedState<C>) -> bool { history_ok(s) && s.dosc_speed != 0 && coin_heights_ok(s) && rewards_below(s.coins@.coins, s.height.0 as int) }
/// sealed state of height `height`: this height's reward coin may exist
pub open spec fn hinv_sealed<C: ContentAddrStore>(s: UnsealedState<C>) -> bool { history_ok(s) && s.dosc_speed != 0 && coin_heights_ok(s) && rewards_below(s.coins@.coins, s.height.0 + 1) }
/// A-HASH: the reward pseudo-id is a keyed hash of the height's eight bytes: different heights, different ids
pub broadcast axiom fn axiom_reward_inj(a: BlockHeight, b: BlockHeight) requires #[trigger] spec_reward_hash(a) == #[trigger] spec_reward_hash(b) ensures a == b;
/// A-HASH: no keyed hash is the all-zero value (the genesis coin's transaction hash)
pub broadcast axiom fn axiom_reward_nonzero(a: BlockHeight) ensures #[trigger] spec_reward_hash(a) != spec_zero_hash();
/// coin-set step of a settlement phase or a batch as far as ages go: whatever is in `c1` was in `c0` unchanged, or was written at height `h`
pub open spec fn young(c0: IMap<CoinID, CoinDataHeight>, c1: IMap<CoinID, CoinDataHeight>, h: BlockHeight) -> bool {
    forall|id: CoinID| #[trigger] c1.contains_key(id) ==> (c0.contains_key(id) && c1[id] == c0[id]) || c1[id].height == h
}
pub proof fn lemma_young_trans(c0: IMap<CoinID, CoinDataHeight>, c1: IMap<CoinID, CoinDataHeight>, c2: IMap<CoinID, CoinDataHeight>, h: BlockHeight)
    requires young(c0, c1, h), young(c1, c2, h) ensures young(c0, c2, h)
{
    assert forall|id: CoinID| #[trigger] c2.contains_key(id) implies (c0.contains_key(id) && c2[id] == c0[id]) || c2[id].height == h by {
        if c1.contains_key(id) && c2[id] == c1[id] { assert(c1.contains_key(id)); }
    }
}
pub proof fn lemma_young_heights(c0: IMap<CoinID, CoinDataHeight>, c1: IMap<CoinID, CoinDataHeight>, h: BlockHeight)
    requires young(c0, c1, h), heights_le(c0, h) ensures heights_le(c1, h)
{
    assert forall|id: CoinID| c1.contains_key(id) implies (#[trigger] c1[id]).height.0 <= h.0 by { if c0.contains_key(id) && c1[id] == c0[id] { assert(c0[id].height.0 <= h.0); } }
}
