use crate::testing::functions::create_state;
use crate::*;
use melstructs::*;
use melvm::{opcode::OpCode, Covenant};
use novasmt::{Database, InMemoryCas};
use std::collections::HashMap;
use std::panic::{catch_unwind, AssertUnwindSafe};
use stdcode::StdcodeSerializeExt;

fn at() -> Address { Covenant::always_true().hash() }
fn cd(v: u128, d: Denom) -> CoinData { CoinData { covhash: at(), value: CoinValue(v), denom: d, additional_data: vec![].into() } }
fn mk(kind: TxKind, inputs: Vec<CoinID>, outputs: Vec<CoinData>, fee: u128, data: Vec<u8>, covs: Vec<bytes::Bytes>) -> Transaction {
    Transaction { kind, inputs, outputs, fee: CoinValue(fee), covenants: covs, data: data.into(), sigs: vec![] }
}
fn genesis() -> CoinID { CoinID { txhash: tmelcrypt::HashVal([0; 32]).into(), index: 0 } }
const TOTAL: u128 = 10000 * 1_000_000;

#[test]
fn a_confirm_inverted() {
    let (pk, sk) = tmelcrypt::ed25519_keygen();
    let mut stakers = HashMap::new();
    stakers.insert(sk, CoinValue(100));
    let state = create_state(&stakers, 0);
    let sealed = state.seal(None);
    let empty: ConsensusProof = Default::default();
    eprintln!("A empty proof confirms = {}", sealed.confirm(empty).is_some());
    let mut full: ConsensusProof = Default::default();
    full.insert(pk, sk.sign(&sealed.header().hash()).into());
    eprintln!("A unanimous proof confirms = {}", sealed.confirm(full).is_some());
}

#[test]
fn b_swap_kind_and_zero() {
    let mut state = create_state(&HashMap::new(), 0);
    state.fee_multiplier = 0;
    let mut state = state.seal(None).next_unsealed();
    // Normal tx whose data happens to spell the MEL/SYM pool
    let t = mk(TxKind::Normal, vec![genesis()], vec![cd(TOTAL, Denom::Mel)], 0, b"s".to_vec(), vec![Covenant::always_true().to_bytes()]);
    state.apply_tx(&t).unwrap();
    let sealed = state.clone().seal(None);
    eprintln!("B normal tx output after seal = {:?}", sealed.coin(t.output_coinid(0)).map(|c| (c.coin_data.denom, c.coin_data.value)));
    // zero-valued request
    let mut state2 = create_state(&HashMap::new(), 0);
    state2.fee_multiplier = 0;
    let mut state2 = state2.seal(None).next_unsealed();
    let z = mk(TxKind::Swap, vec![genesis()], vec![cd(0, Denom::Mel), cd(TOTAL, Denom::Mel)], 0, b"s".to_vec(), vec![Covenant::always_true().to_bytes()]);
    state2.apply_tx(&z).unwrap();
    let r = catch_unwind(AssertUnwindSafe(move || { state2.seal(None).header().height }));
    eprintln!("B zero-valued swap: seal completes = {}", r.is_ok());
}

#[test]
fn d_tips_restart() {
    let db = Database::new(InMemoryCas::default());
    let mut state = GenesisConfig::std_testnet().realize(&db);
    state.network = NetID::Custom02;
    state.stakes.unlock_old(u64::MAX);
    state.fee_multiplier = 0;
    state.coins.insert_coin(genesis(), CoinDataHeight { coin_data: cd(TOTAL, Denom::Mel), height: 0.into() }, state.tip_906());
    let t = mk(TxKind::Normal, vec![genesis()], vec![cd(TOTAL - 5000, Denom::Mel)], 5000, vec![], vec![Covenant::always_true().to_bytes()]);
    state.apply_tx(&t).unwrap();
    let sealed = state.seal(None); // no proposer action: tips stay pending
    let restored = SealedState::from_block(&sealed.to_block(), &sealed.raw_stakes(), &db);
    let act = Some(ProposerAction { fee_multiplier_delta: 0, reward_dest: at() });
    let h1 = sealed.next_unsealed().seal(act).header();
    let h2 = restored.next_unsealed().seal(act).header();
    eprintln!("D headers equal now = {}, equal after one more block = {}", sealed.header() == restored.header(), h1 == h2);
}

#[test]
fn e_weight_exponential() {
    for n in [12usize, 16, 20, 22] {
        let ops: Vec<OpCode> = (0..n).map(|_| OpCode::Loop(1, 60000)).collect();
        let bytes = Covenant::from_ops(&ops).to_bytes();
        let t = std::time::Instant::now();
        let w = melvm::covenant_weight_from_bytes(&bytes);
        eprintln!("E n={} bytes={} weight={} time={:?}", n, bytes.len(), w, t.elapsed());
    }
}

#[test]
fn f_melpow_empty_proof() {
    let mut state = create_state(&HashMap::new(), 0);
    state.fee_multiplier = 0;
    let mut state = state.seal(None).next_unsealed().seal(None).next_unsealed();
    let data = (0u32, Vec::<u8>::new()).stdcode();
    let t = mk(TxKind::DoscMint, vec![genesis()], vec![cd(TOTAL, Denom::Mel)], 0, data, vec![Covenant::always_true().to_bytes()]);
    let r = catch_unwind(AssertUnwindSafe(move || state.apply_tx(&t)));
    eprintln!("F doscmint with empty proof: returned = {:?}", r.as_ref().map(|x| format!("{:?}", x)).unwrap_or("PANIC".into()));
}

#[test]
fn g_good_scripts_cache() {
    // covenant: parent value == 5
    let cov = Covenant::from_ops(&[OpCode::LoadImm(5), OpCode::PushI(5u32.into()), OpCode::Eql]);
    let ch = cov.hash();
    let mut state = create_state(&HashMap::new(), 0);
    state.fee_multiplier = 0;
    let mut c = |v| CoinData { covhash: ch, value: CoinValue(v), denom: Denom::Mel, additional_data: vec![].into() };
    let t = mk(TxKind::Normal, vec![genesis()], vec![c(5), c(10), cd(TOTAL - 15, Denom::Mel)], 0, vec![], vec![Covenant::always_true().to_bytes()]);
    state.apply_tx(&t).unwrap();
    let alone = mk(TxKind::Normal, vec![t.output_coinid(1)], vec![cd(10, Denom::Mel)], 0, vec![], vec![cov.to_bytes()]);
    eprintln!("G spending the value-10 coin alone: {:?}", state.clone().apply_tx(&alone));
    let both = mk(TxKind::Normal, vec![t.output_coinid(0), t.output_coinid(1)], vec![cd(15, Denom::Mel)], 0, vec![], vec![cov.to_bytes()]);
    eprintln!("G spending it after the value-5 coin in one tx: {:?}", state.clone().apply_tx(&both));
}

#[test]
fn h_poolkey_noncanonical() {
    let mut v = vec![0u8; 32];
    v.extend_from_slice(&stdcode::serialize(&(Denom::Sym, Denom::Mel)).unwrap());
    let k = PoolKey::from_bytes(&v);
    eprintln!("H long encoding (SYM,MEL) parses to {:?}; canonical = {:?}", k.map(|k| (k.left(), k.right())), PoolKey::new(Denom::Mel, Denom::Sym));
    let mut v = vec![0u8; 32];
    v.extend_from_slice(&stdcode::serialize(&(Denom::Sym, Denom::Sym)).unwrap());
    eprintln!("H long encoding (SYM,SYM) parses to {:?}", PoolKey::from_bytes(&v).map(|k| (k.left(), k.right())));
}
