// F-C08-tips on the real code: a state sealed WITHOUT a proposer action after a fee-overpaying transaction keeps pending tips;
// the state rebuilt from its block has tips 0, so the two produce different successor blocks.  Asserts the property; FAILS.
use crate::*;
use melstructs::*;
use melvm::Covenant;
use novasmt::{Database, InMemoryCas};

#[test]
fn c08_restored_state_behaves_like_the_original() {
    let db = Database::new(InMemoryCas::default());
    let mut state = GenesisConfig::std_testnet().realize(&db);
    state.network = NetID::Custom02;
    state.fee_multiplier = 0;
    let x = CoinID { txhash: tmelcrypt::HashVal([1; 32]).into(), index: 0 };
    let cd = |v: u128| CoinData { covhash: Covenant::always_true().hash(), value: CoinValue(v), denom: Denom::Mel, additional_data: vec![].into() };
    state.coins.insert_coin(x, CoinDataHeight { coin_data: cd(1_000_000), height: 0.into() }, state.tip_906());
    let t = Transaction { kind: TxKind::Normal, inputs: vec![x], outputs: vec![cd(1_000_000 - 5000)], fee: CoinValue(5000),
        covenants: vec![Covenant::always_true().to_bytes()], data: vec![].into(), sigs: vec![] };
    state.apply_tx(&t).unwrap();
    let sealed = state.seal(None);
    let restored = SealedState::from_block(&sealed.to_block(), &sealed.raw_stakes(), &db);
    assert_eq!(sealed.header(), restored.header());
    let action = Some(ProposerAction { fee_multiplier_delta: 0, reward_dest: Covenant::always_true().hash() });
    let next_a = sealed.next_unsealed().seal(action);
    let next_b = restored.next_unsealed().seal(action);
    assert_eq!(next_a.header(), next_b.header(), "successor of the restored state differs from the successor of the original");
}
