from spec import *
from _contracts import *

A = "src/state/applytx.rs"
S = "src/state.rs"
C_ = "src/state/coins.rs"

CACHE_PROOF = """proof {
    let parts = choose|parts: Seq<Vec<&CoinID>>| #[trigger] flat_map_decided(__cl1, __c0@, __c1@, parts);
    assert forall|t: int, k: int| 0 <= t < transactions@.len() && 0 <= k < transactions@[t].inputs@.len() implies
        cache@.contains_key(#[trigger] transactions@[t].inputs@[k]) && cache@[transactions@[t].inputs@[k]] == spec_get_coin(state.coins@, transactions@[t].inputs@[k]) by {
        assert(call_ensures(__cl1, (__c0@[t],), parts[t]));
        assert(*parts[t]@[k] == transactions@[t].inputs@[k]);
        assert(__c1@.contains(parts[t]@[k]));
        let a = choose|a: int| 0 <= a < __c1@.len() && __c1@[a] == parts[t]@[k];
        assert(call_ensures(__cl2, (__c1@[a],), __c2@[a]));
        lemma_map_of_pairs_functional(__c2@, a, |id: CoinID| spec_get_coin(state.coins@, id));
    }
}"""
V_PRE = """proof { assert forall|i: int| 0 <= i < __cV0@.len() implies outputs_fit(*(#[trigger] __cV0@[i])) && tx_env(s0, rel, *__cV0@[i]) by { assert(*__cV0@[i] == tq[i]); } }"""
V_POST = """proof { if __rV is Ok {
        assert forall|t: int| 0 <= t < tq.len() implies tx_checked(s0, rel, nsm, #[trigger] tq[t]) by {
            assert(__cV0.items2()[t] == __cV0@[t]); assert(call_ensures(__clV1, (__cV0.items2()[t],), Ok::<(), StateError>(()))); assert(*__cV0@[t] == tq[t]); }
    } else { let i = choose|i: int| 0 <= i < __cV0@.len() && call_ensures(__clV1, (#[trigger] __cV0@[i],), __rV); } }"""
D_PRE = """let ghost db = choose|b: spec_fn(&Transaction) -> bool| #[trigger] filter_decided(__clD1, __cD0@, __cD1@, b);
    proof { lemma_filter_mem(__cD0@, db);
        assert forall|i: int| 0 <= i < __cD1@.len() implies dosc_pre(s0, rel, *(#[trigger] __cD1@[i])) by {
            assert(__cD1@.contains(__cD1@[i]));
            let j = choose|j: int| 0 <= j < __cD0@.len() && __cD0@[j] == __cD1@[i];
            assert(call_ensures(__clD1, (&__cD0@[j],), db(__cD0@[j])));
            assert(*__cD0@[j] == tq[j]); assert(tx_checked(s0, rel, nsm, tq[j])); assert(tx_env(s0, rel, tq[j]));
            lemma_balanced_has_input(tq[j], rel);
        } }"""
D_POST = """proof { let accs = choose|accs: Seq<u128>| #[trigger] try_fold_decided(__clD2, __clD2b, __cD1@, accs, fv);
        if __rD is Ok {
            let v = fv->Ok_0;
            assert forall|i: int| 0 <= i < __cD1@.len() implies dosc_step(s0, rel, *(#[trigger] __cD1@[i]), accs[i], accs[i + 1]) by {
                assert(call_ensures(__clD2b, (accs[i], __cD1@[i]), Ok::<u128, StateError>(accs[i + 1]))); }
            lemma_dosc_fold(s0, rel, __cD1@, accs, __cD1@.len() as int);
            assert(__rD->Ok_0 == v);
            assert forall|t: int| 0 <= t < tq.len() && (#[trigger] tq[t]).kind == TxKind::DoscMint implies dosc_le(s0, rel, tq[t], v) by {
                assert(call_ensures(__clD1, (&__cD0@[t],), db(__cD0@[t]))); assert(*__cD0@[t] == tq[t]);
                assert(__cD0@.contains(__cD0@[t])); assert(__cD1@.contains(__cD0@[t]));
                let i = choose|i: int| 0 <= i < __cD1@.len() && __cD1@[i] == __cD0@[t];
                assert(dosc_le(s0, rel, *__cD1@[i], accs[__cD1@.len() as int])); }
            if v != s0.dosc_speed {
                let i = choose|i: int| 0 <= i < __cD1@.len() && doscmint_ok(s0, rel, *(#[trigger] __cD1@[i]), v);
                assert(__cD1@.contains(__cD1@[i]));
                let j = choose|j: int| 0 <= j < __cD0@.len() && __cD0@[j] == __cD1@[i];
                assert(call_ensures(__clD1, (&__cD0@[j],), db(__cD0@[j]))); assert(*__cD0@[j] == tq[j]);
                assert(0 <= j < tq.len() && tq[j].kind == TxKind::DoscMint && doscmint_ok(s0, rel, tq[j], v));
            }
        } }"""
UNIT = Unit(
    name="batch", lemma_obs=['lemma_batch_core_perm', 'lemma_marker_kept', 'lemma_faucet_once', 'lemma_markers_batch'], uses="group_core_axioms",
    prelude=["core.rs", "raw.rs", "iter.rs", "crypto.rs", "state_abs.rs", "melvm_abs.rs", "txmethods.rs", "num.rs", "melpow.rs"],
    lemmas=["sums.rs", "iterlem.rs", "coinsview.rs", "header.rs", "txroot_opaque.rs", "seal_opaque.rs", "tips.rs", "supply.rs", "apply.rs", "supply_batch.rs", "apply_c04.rs", "microergs.rs", "chaininv.rs", "dosc.rs", "stateinv.rs", "batch_def.rs", "supply_thm.rs", "feemul.rs", "sealenv_opaque.rs", "seal_def.rs"],
    items=[
        TypeItem(S, "struct", "UnsealedState"),
        TypeItem(S, "enum", "StateError", derive="#[derive(Clone, Copy, PartialEq, Eq, Structural)]"),
        TypeItem(S, "struct", "SealedState", subst=[("(UnsealedState<C>, Option<ProposerAction>)", "(pub UnsealedState<C>, pub Option<ProposerAction>)")]),
        Raw("impl<C: ContentAddrStore> Clone for UnsealedState<C> { #[verifier::external_body] fn clone(&self) -> (r: Self) ensures r == *self { unimplemented!() } }"),
        TypeItem("lib/melvm/src/lib.rs", "struct", "CovenantEnv"),
        Fn(C_, "get_coin", impl="CoinMapping", mode="assume", **cm_get_coin()),
        Fn(DEP_TX, "is_well_formed", impl="Transaction", mode="assume", **tx_is_well_formed()),
        Raw(COV_WEIGHT_STUB),
        Fn(A, "extract_input_coins", home="C02", implicit_props=("C09", "C02"), **ap_extract_input_coins(),
           sig_subst=[("extract_input_coins<C: ContentAddrStore>", "extract_input_coins<'a, C: ContentAddrStore>"), ("transactions: &[Transaction]", "transactions: &'a [Transaction]")],
           rewrites=[("ANF", "collect", 0, 4, {})],
           closures=[Closure(0, "transaction: &'a Transaction", "(r: Vec<&'a CoinID>)", ensures=[C("inputs", "refs_of(r@, transaction.inputs@)", "C02")]),
                     Closure(1, "input: &CoinID", "(r: (CoinID, Option<CoinDataHeight>))", requires=[C("wf", "state.coins.wf()")],
                             ensures=[C("lookup", "r.0 == *input && r.1 == spec_get_coin(state.coins@, *input)", "C02")])],
           injects=[Inject("entry", "let ghost txx = transactions@; let ghost sofar = coins_so_far@; let ghost c0 = state.coins@.coins;"),
                    Inject(("after_let", "cache"), CACHE_PROOF)],
           loops=[
               Loop(0, binder="it", body_entry="proof { assert(*tx == txx[it.index@ as int]); }",
                    body_exit="proof { lemma_loaded_next_tx(txx, it.index@ as int, sofar, c0, accum@); }",
                    invariants=[
                   C("ctx", "refs_of(it.seq(), txx) && txx == transactions@ && sofar == coins_so_far@ && c0 == state.coins@.coins && cache_ok(txx, state.coins@, cache@)", "C02"),
                   C("loaded", "loaded(txx, it.index@ as int, 0, sofar, c0, accum@)", "C02"),
               ]),
               Loop(1, binder="it2", body_entry="let ghost accum_pre = accum@; proof { assert(*input == txx[it.index@ as int].inputs@[it2.index@ as int]); }",
                    body_exit="proof { lemma_loaded_step(txx, it.index@ as int, it2.index@ as int, sofar, c0, accum_pre, accum@); }",
                    invariants=[
                   C("ctxi", "refs_of(it.seq(), txx) && 0 <= it.index@ < txx.len() && *tx == txx[it.index@ as int] && refs_of(it2.seq(), tx.inputs@) && txx == transactions@ && sofar == coins_so_far@ && c0 == state.coins@.coins && cache_ok(txx, state.coins@, cache@)", "C02"),
                   C("loadedi", "loaded(txx, it.index@ as int, it2.index@ as int, sofar, c0, accum@)", "C02"),
               ]),
           ]),
        Fn(A, "output_coins_from_tx", mode="assume", **ap_output_coins_from_tx()),
        Fn(A, "load_relevant_coins", home="C02", implicit_props=("C09", "C02"), **ap_load_relevant_coins(),
           rewrites=[("EXTEND",)],
           injects=[Inject("entry", "let ghost tq = txx@; let ghost h0 = this.height;"),
                    Inject(("before", "let input_coins"), "let ghost acc1 = accum@;"),
                    Inject(("before", "let coins_to_add"), """proof { assert(tx.outputs@.take(tx.outputs@.len() as int) =~= tx.outputs@);
                        lemma_fsum_ext(tx.outputs@, out_val(), |o: CoinData| o.value.0 as int); assert(outputs_fit(*tx)); assert(cov_weights_fit(*tx)); }"""),
                    Inject(("after_stmt", "map_extend(&mut accum, input_coins);"), "proof { lemma_rel_of(*this, tq, acc1, input_coins@); }"),
                    Inject(("before", "Ok(accum)"), "proof { assert(inputs_distinct(tq)); }")],
           loops=[
               Loop(0, binder="it", body_entry="let ghost acc0 = accum@; proof { assert(*tx == tq[it.index@ as int]); }",
                    body_exit="proof { lemma_created_next(tq, it.index@ as int, h0, acc0, coins_to_add@); assert(accum@ =~= acc0.union_prefer_right(coins_to_add@)); }",
                    invariants=[
                   C("ctx0", "refs_of(it.seq(), tq) && tq == txx@ && h0 == this.height && this.coins.wf()", "C02"),
                   C("wf0", "forall|q: int| 0 <= q < it.index@ ==> spec_well_formed(#[trigger] tq[q]) && outputs_fit(tq[q]) && cov_weights_fit(tq[q])", "C02", "C09"),
                   C("created0", "created_so_far(tq, it.index@ as int, h0, accum@)", "C02"),
               ]),
               Loop(1, binder="it2", body_entry="proof { assert(*output == tx.outputs@[it2.index@ as int]); lemma_fsum_take_next(tx.outputs@, out_val(), it2.index@ as int); }",
                    invariants=[
                   C("ctx1", "refs_of(it.seq(), tq) && 0 <= it.index@ < tq.len() && *tx == tq[it.index@ as int] && refs_of(it2.seq(), tx.outputs@) && tq == txx@ && h0 == this.height && this.coins.wf() && spec_well_formed(*tx)", "C02"),
                   C("wf1", "forall|q: int| 0 <= q < it.index@ ==> spec_well_formed(#[trigger] tq[q]) && outputs_fit(tq[q]) && cov_weights_fit(tq[q])", "C02", "C09"),
                   C("created1", "created_so_far(tq, it.index@ as int, h0, accum@)", "C02"),
                   C("total", "total as int == tx.fee.0 + fsum(tx.outputs@.take(it2.index@ as int), out_val())", "C09"),
               ]),
               Loop(2, binder="it3", body_entry="proof { assert(*covenant == tx.covenants@[it3.index@ as int]); }",
                    invariants=[
                   C("ctx1c", "refs_of(it.seq(), tq) && 0 <= it.index@ < tq.len() && *tx == tq[it.index@ as int] && refs_of(it3.seq(), tx.covenants@) && tq == txx@ && h0 == this.height && this.coins.wf() && spec_well_formed(*tx) && total as int == tx.fee.0 + fsum(tx.outputs@.take(tx.outputs@.len() as int), out_val())", "C02"),
                   C("wf1c", "forall|q: int| 0 <= q < it.index@ ==> spec_well_formed(#[trigger] tq[q]) && outputs_fit(tq[q]) && cov_weights_fit(tq[q])", "C02", "C09"),
                   C("created1c", "created_so_far(tq, it.index@ as int, h0, accum@)", "C02"),
                   C("covsum", "covenants_weight as nat == cov_sum(tx.covenants@, it3.index@ as int)", "C09", "C05", note="the running (checked) total of the covenants' weights: reaching the end of the loop means they fit in u128 together"),
               ]),
               Loop(3, binder="it", body_entry="proof { assert(*tx == tq[it.index@ as int]); }",
                    body_exit="proof { lemma_distinct_next_tx(tq, it.index@ as int); lemma_visited_next_tx(tq, it.index@ as int); }",
                    invariants=[
                   C("ctx2", "refs_of(it.seq(), tq) && tq == txx@ && rel_of(*this, tq, accum@) && (forall|q: int| 0 <= q < tq.len() ==> spec_well_formed(#[trigger] tq[q]) && outputs_fit(tq[q]) && cov_weights_fit(tq[q]))", "C02"),
                   C("seen2", "forall|x: CoinID| seen@.contains(&x) <==> #[trigger] visited(tq, it.index@ as int, 0, x)", "C02"),
                   C("distinct2", "distinct_before(tq, it.index@ as int, 0)", "C02"),
               ]),
               Loop(4, binder="it2", body_entry="let ghost seen0 = seen@; proof { assert(*input == tq[it.index@ as int].inputs@[it2.index@ as int]); assert(seen0.contains(input) <==> visited(tq, it.index@ as int, it2.index@ as int, *input)); }",
                    body_exit="proof { assert(!seen0.contains(input)); assert(seen@ == seen0.insert(input)); lemma_distinct_step(tq, it.index@ as int, it2.index@ as int); lemma_visited_step(tq, it.index@ as int, it2.index@ as int); }",
                    invariants=[
                   C("ctx3", "refs_of(it.seq(), tq) && 0 <= it.index@ < tq.len() && *tx == tq[it.index@ as int] && refs_of(it2.seq(), tx.inputs@) && tq == txx@ && rel_of(*this, tq, accum@) && (forall|q: int| 0 <= q < tq.len() ==> spec_well_formed(#[trigger] tq[q]) && outputs_fit(tq[q]) && cov_weights_fit(tq[q]))", "C02"),
                   C("seen3", "forall|x: CoinID| seen@.contains(&x) <==> #[trigger] visited(tq, it.index@ as int, it2.index@ as int, x)", "C02"),
                   C("distinct3", "distinct_before(tq, it.index@ as int, it2.index@ as int)", "C02"),
               ]),
           ]),
        Fn(S, "tip_906", impl="UnsealedState", mode="assume", **st_tip(830000)),
        Fn("lib/tip911-stakeset/src/lib.rs", "add_stake", impl="StakeSet", mode="assume", **ss_add_stake()),
        Fn(A, "load_stake_info", mode="assume", **ap_load_stake_info()),
        Fn(A, "check_tx_validity", mode="assume", **ap_check_tx_validity_stub()),
        Fn(A, "validate_and_get_doscmint_speed", mode="assume", **ap_validate_doscmint()),
        Fn(A, "create_next_state", mode="assume", **ap_create_next_state()),
        Fn(A, "apply_tx_batch_impl", home="C02", implicit_props=("C09", "C02", "C03", "C06"), **ap_batch_impl(),
           rewrites=[("ANF", "try_for_each", 0, 2, {0: V_PRE, 1: V_POST}, "V"), ("ANF", "try_reduce", 0, 4, {1: D_PRE, 2: "let ghost fv = __cD2.val;", 3: D_POST}, "D"), ("INTOVEC", "new_stakes")],
           closures=[Closure(0, "tx: &Transaction", "(r: Result<(), StateError>)", requires=[C("vpre", "outputs_fit(*tx) && tx_env_r(this, relevant_coins@, *tx)")],
                             ensures=[C("vpost", "(r is Ok ==> tx_checked_r(this, relevant_coins@, new_stakes@, *tx)) && (r is Err ==> !(r->Err_0 is WrongHeader))", "C02", "C04", "C13", "C01", "C03")]),
                     Closure(1, "tx: &&Transaction", "(r: bool)", ensures=[C("isdosc", "r == (tx.kind == TxKind::DoscMint)", "C18")]),
                     Closure(2, "", "(r: u128)", ensures=[C("id1", "r == this.dosc_speed", "C18", "C03")]),
                     Closure(3, "a: u128, tx: &Transaction", "(r: Result<u128, StateError>)", requires=[C("dpre", "dosc_pre_r(this, relevant_coins@, *tx)")],
                             ensures=[C("dpost", "match r { Ok(v) => dosc_step_r(this, relevant_coins@, *tx, a, v), Err(e) => !(e is WrongHeader) }", "C18", "C03")]),
                     Closure(4, "", "(r: u128)", ensures=[C("id2", "r == this.dosc_speed", "C18", "C03")]),
                     Closure(5, "a: u128, b: u128", "(r: Result<u128, StateError>)", ensures=[C("maxr", "r == Ok::<u128, StateError>(umax(a, b))", "C18", "C03")])],
           injects=[Inject("entry", "let ghost tq = txx@; let ghost s0 = *this;"),
                    Inject(("after_let", "relevant_coins"), """let ghost rel = relevant_coins@;
                        proof { assert(rel_of(s0, tq, rel));
                            assert forall|t: int| 0 <= t < tq.len() implies #[trigger] tx_env(s0, rel, tq[t]) by {}
                            lemma_rel_consistent(s0, tq, rel); lemma_rel_heights(s0, tq, rel); }"""),
                    Inject(("after_let", "new_stakes"), "let ghost nsm = new_stakes@;"),
                    Inject(("before", "let mut next_state = create_next_state("), "proof { lemma_supply_hyp(s0, tq, rel); }"),
                    Inject(("after_let", "next_state"), "let ghost ns1 = next_state;"),
                    Inject(("before", "let __iv_new_stakes"), "let ghost ns2 = next_state;"),
                    Inject(("before", "Ok(next_state)"), """proof {
                        assert(next_state.stakes@ =~= s0.stakes@.union_prefer_right(nsm));
                        assert(batch_core_with(s0, tq, next_state, rel, nsm));
                        if markers_ok(s0.coins@.coins) { lemma_markers_batch(s0, tq, next_state, rel, nsm); }
                        lemma_batch_hinv(s0, tq, next_state, rel, nsm);
                        assert(next_state.coins == ns1.coins);
                        assert forall|d: Denom| #[trigger] no_issuer(tq, d) implies coins_supply(next_state.coins@.coins, d) + fsum(tq, fee_in(d)) <= coins_supply(s0.coins@.coins, d) by {
                            assert(coins_supply(ns1.coins@.coins, d) <= coins_supply(s0.coins@.coins, d) + created_tot(tq, tq.len() as int, rel, d) - spent_tot(tq, tq.len() as int, rel, d));
                            lemma_batch_supply(s0, tq, next_state, rel, nsm, d); }
                        assert(state_inv(next_state)); }""")],
           loops=[Loop(0, binder="it", body_entry="proof { assert(it.seq()[it.index@ as int] == (k, v)); }",
                       invariants=[
               C("sframe", "next_state == (UnsealedState { stakes: next_state.stakes, ..ns2 }) && it.seq() == __ivs_new_stakes", "C02"),
               C("entries", """(forall|i: int| 0 <= i < __ivs_new_stakes.len() ==> nsm.contains_key((#[trigger] __ivs_new_stakes[i]).0) && nsm[__ivs_new_stakes[i].0] == __ivs_new_stakes[i].1)
                     && (forall|h: TxHash| nsm.contains_key(h) ==> exists|i: int| 0 <= i < __ivs_new_stakes.len() && (#[trigger] __ivs_new_stakes[i]).0 == h)
                     && (forall|i: int, j: int| 0 <= i < j < __ivs_new_stakes.len() ==> (#[trigger] __ivs_new_stakes[i]).0 != (#[trigger] __ivs_new_stakes[j]).0)""", "C13"),
               C("added", """(forall|h: TxHash| #[trigger] next_state.stakes@.contains_key(h) <==> (ns2.stakes@.contains_key(h) || exists|i: int| 0 <= i < it.index@ && (#[trigger] __ivs_new_stakes[i]).0 == h))
                     && (forall|h: TxHash| #[trigger] next_state.stakes@.contains_key(h) ==> next_state.stakes@[h] == (if exists|i: int| 0 <= i < it.index@ && (#[trigger] __ivs_new_stakes[i]).0 == h { nsm[h] } else { ns2.stakes@[h] }))""", "C13"),
           ])]),
    ],
)
