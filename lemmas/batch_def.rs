// Batch application (C02/C03/C06): what load_relevant_coins / extract_input_coins / apply_tx_batch_impl compute (hand-written)
pub open spec fn spec_get_coin(v: CoinsView, id: CoinID) -> Option<CoinDataHeight> { if v.coins.contains_key(id) { Some(v.coins[id]) } else { None::<CoinDataHeight> } }
/// the lookup cache holds, for every input of the batch, what the coin mapping says about it
pub open spec fn cache_ok(txx: Seq<Transaction>, v: CoinsView, cache: Map<CoinID, Option<CoinDataHeight>>) -> bool {
    forall|t: int, k: int| 0 <= t < txx.len() && 0 <= k < txx[t].inputs@.len() ==> cache.contains_key(#[trigger] txx[t].inputs@[k]) && cache[txx[t].inputs@[k]] == spec_get_coin(v, txx[t].inputs@[k])
}
/// inputs of txx[0..j) and the first n inputs of txx[j] that are not created inside the batch (`sofar`) have been loaded from the state
pub open spec fn loaded(txx: Seq<Transaction>, j: int, n: int, sofar: Map<CoinID, CoinDataHeight>, c0: IMap<CoinID, CoinDataHeight>, acc: Map<CoinID, CoinDataHeight>) -> bool {
    &&& forall|id: CoinID| #[trigger] acc.contains_key(id) <==> ((spent_by(txx, j, id) || (0 <= j < txx.len() && spent_upto(txx[j], n, id))) && !sofar.contains_key(id))
    &&& forall|id: CoinID| #[trigger] acc.contains_key(id) ==> c0.contains_key(id) && acc[id] == c0[id]
}
pub proof fn lemma_map_of_pairs_functional<K, V>(s: Seq<(K, V)>, a: int, f: spec_fn(K) -> V)
    requires 0 <= a < s.len(), forall|i: int| 0 <= i < s.len() ==> (#[trigger] s[i]).1 == f(s[i].0)
    ensures map_of_pairs(s).contains_key(s[a].0), map_of_pairs(s)[s[a].0] == f(s[a].0)
    decreases s.len()
{
    if a < s.len() - 1 {
        lemma_map_of_pairs_functional(s.drop_last(), a, f);
        assert(s.drop_last()[a] == s[a]);
    }
}
pub proof fn lemma_loaded_step(txx: Seq<Transaction>, j: int, n: int, sofar: Map<CoinID, CoinDataHeight>, c0: IMap<CoinID, CoinDataHeight>, acc: Map<CoinID, CoinDataHeight>, acc2: Map<CoinID, CoinDataHeight>)
    requires loaded(txx, j, n, sofar, c0, acc), 0 <= j < txx.len(), 0 <= n < txx[j].inputs@.len(),
             acc2 == (if sofar.contains_key(txx[j].inputs@[n]) { acc } else { acc.insert(txx[j].inputs@[n], c0[txx[j].inputs@[n]]) }),
             !sofar.contains_key(txx[j].inputs@[n]) ==> c0.contains_key(txx[j].inputs@[n])
    ensures loaded(txx, j, n + 1, sofar, c0, acc2)
{
    assert forall|x: CoinID| true implies (#[trigger] spent_upto(txx[j], n + 1, x) <==> (spent_upto(txx[j], n, x) || x == txx[j].inputs@[n])) by { lemma_spent_upto_step(txx[j], n, x); }
}
pub proof fn lemma_loaded_next_tx(txx: Seq<Transaction>, j: int, sofar: Map<CoinID, CoinDataHeight>, c0: IMap<CoinID, CoinDataHeight>, acc: Map<CoinID, CoinDataHeight>)
    requires loaded(txx, j, txx[j].inputs@.len() as int, sofar, c0, acc), 0 <= j < txx.len()
    ensures loaded(txx, j + 1, 0, sofar, c0, acc)
{
    assert forall|x: CoinID| true implies (#[trigger] spent_by(txx, j + 1, x) <==> (spent_by(txx, j, x) || spent_upto(txx[j], txx[j].inputs@.len() as int, x))) by { lemma_spent_by_next(txx, j, x); }
    assert forall|x: CoinID| 0 <= j + 1 < txx.len() implies !#[trigger] spent_upto(txx[j + 1], 0, x) by {}
}

/// value of an output (named so that loop invariants can mention it)
pub open spec fn out_val() -> spec_fn(CoinData) -> int { |o: CoinData| o.value.0 as int }
// ---- the relevant-coins map (load_relevant_coins)
/// `id` is an output of one of txx[0..j) that is not sent to the destruction address
pub open spec fn kept_in(txx: Seq<Transaction>, j: int, id: CoinID) -> bool {
    exists|t: int, i: int| 0 <= t < j && 0 <= i < txx[t].outputs@.len() && id == #[trigger] cid(txx[t], i) && txx[t].outputs@[i].covhash != spec_coin_destroy()
}
/// accumulator after the creation pass over txx[0..j): exactly the kept outputs, each with its declared data at this height
pub open spec fn created_so_far(txx: Seq<Transaction>, j: int, height: BlockHeight, acc: Map<CoinID, CoinDataHeight>) -> bool {
    &&& forall|id: CoinID| #[trigger] acc.contains_key(id) <==> kept_in(txx, j, id)
    &&& forall|t: int, i: int| 0 <= t < j && 0 <= i < txx[t].outputs@.len() && txx[t].outputs@[i].covhash != spec_coin_destroy() ==> is_created_cdh(txx[t], i, height, acc[#[trigger] cid(txx[t], i)])
}
/// C02: the coins a batch may touch: every kept output of the batch (with the declared value, covenant hash, additional data,
/// this block's height, and its denomination) and every input; an input that the batch does not create is unspent in the prior state
pub open spec fn rel_of<C: ContentAddrStore>(s: UnsealedState<C>, txx: Seq<Transaction>, rel: Map<CoinID, CoinDataHeight>) -> bool {
    &&& forall|id: CoinID| #[trigger] rel.contains_key(id) <==> (kept_in(txx, txx.len() as int, id) || spent_by(txx, txx.len() as int, id))
    &&& forall|t: int, i: int| 0 <= t < txx.len() && 0 <= i < txx[t].outputs@.len() && txx[t].outputs@[i].covhash != spec_coin_destroy() ==> is_created_cdh(txx[t], i, s.height, rel[#[trigger] cid(txx[t], i)])
    &&& forall|id: CoinID| #[trigger] rel.contains_key(id) && !kept_in(txx, txx.len() as int, id) ==> s.coins@.coins.contains_key(id) && rel[id] == s.coins@.coins[id]
}
/// C02: no coin is consumed twice: the inputs of txx[0..j) and the first n inputs of txx[j] are pairwise different coins
pub open spec fn pos_before(t: int, k: int, j: int, n: int) -> bool { t < j || (t == j && k < n) }
pub open spec fn distinct_before(txx: Seq<Transaction>, j: int, n: int) -> bool {
    forall|t: int, k: int, t2: int, k2: int| 0 <= t < txx.len() && 0 <= k < txx[t].inputs@.len() && 0 <= t2 < txx.len() && 0 <= k2 < txx[t2].inputs@.len()
        && pos_before(t, k, j, n) && pos_before(t2, k2, j, n) && (t != t2 || k != k2) ==> #[trigger] txx[t].inputs@[k] != #[trigger] txx[t2].inputs@[k2]
}
pub open spec fn inputs_distinct(txx: Seq<Transaction>) -> bool { distinct_before(txx, txx.len() as int, 0) }
pub open spec fn visited(txx: Seq<Transaction>, j: int, n: int, id: CoinID) -> bool { spent_by(txx, j, id) || (0 <= j < txx.len() && spent_upto(txx[j], n, id)) }

pub proof fn lemma_kept_next(txx: Seq<Transaction>, j: int, id: CoinID)
    requires 0 <= j < txx.len()
    ensures kept_in(txx, j + 1, id) <==> (kept_in(txx, j, id) || exists|i: int| 0 <= i < txx[j].outputs@.len() && id == #[trigger] cid(txx[j], i) && txx[j].outputs@[i].covhash != spec_coin_destroy())
{
    if kept_in(txx, j + 1, id) {
        let (t, i) = choose|t: int, i: int| 0 <= t < j + 1 && 0 <= i < txx[t].outputs@.len() && id == #[trigger] cid(txx[t], i) && txx[t].outputs@[i].covhash != spec_coin_destroy();
        if t < j { assert(kept_in(txx, j, id)); }
    }
    if kept_in(txx, j, id) {
        let (t, i) = choose|t: int, i: int| 0 <= t < j && 0 <= i < txx[t].outputs@.len() && id == #[trigger] cid(txx[t], i) && txx[t].outputs@[i].covhash != spec_coin_destroy();
        assert(0 <= t < j + 1 && id == cid(txx[t], i));
    }
    if exists|i: int| 0 <= i < txx[j].outputs@.len() && id == #[trigger] cid(txx[j], i) && txx[j].outputs@[i].covhash != spec_coin_destroy() {
        let i = choose|i: int| 0 <= i < txx[j].outputs@.len() && id == #[trigger] cid(txx[j], i) && txx[j].outputs@[i].covhash != spec_coin_destroy();
        assert(0 <= j < j + 1 && id == cid(txx[j], i));
    }
}
/// adding the outputs of txx[j] (right-biased) to the accumulator
pub proof fn lemma_created_next(txx: Seq<Transaction>, j: int, height: BlockHeight, acc: Map<CoinID, CoinDataHeight>, add: Map<CoinID, CoinDataHeight>)
    requires created_so_far(txx, j, height, acc), 0 <= j < txx.len(), created_map(txx[j], height, add),
             forall|q: int| 0 <= q <= j ==> (#[trigger] txx[q]).outputs@.len() <= 255
    ensures created_so_far(txx, j + 1, height, acc.union_prefer_right(add))
{
    broadcast use axiom_txhash_inj;
    let acc2 = acc.union_prefer_right(add);
    assert forall|id: CoinID| #[trigger] acc2.contains_key(id) <==> kept_in(txx, j + 1, id) by { lemma_kept_next(txx, j, id); }
    assert forall|t: int, i: int| 0 <= t < j + 1 && 0 <= i < txx[t].outputs@.len() && txx[t].outputs@[i].covhash != spec_coin_destroy()
        implies is_created_cdh(txx[t], i, height, acc2[#[trigger] cid(txx[t], i)]) by {
        let id = cid(txx[t], i);
        if add.contains_key(id) {
            let i2 = choose|i2: int| 0 <= i2 < txx[j].outputs@.len() && id == #[trigger] cid(txx[j], i2) && txx[j].outputs@[i2].covhash != spec_coin_destroy();
            assert(spec_txhash(txx[t]) == spec_txhash(txx[j]));
            assert(i as u8 == i2 as u8); assert(i == i2);
            assert(is_created_cdh(txx[j], i2, height, add[cid(txx[j], i2)]));
        } else {
            if t == j { assert(0 <= i < txx[j].outputs@.len() && id == cid(txx[j], i)); assert(false); }
        }
    }
}
/// the final accumulator (created coins, then the inputs loaded from the state) is the relevant-coins map
pub proof fn lemma_rel_of<C: ContentAddrStore>(s: UnsealedState<C>, txx: Seq<Transaction>, acc: Map<CoinID, CoinDataHeight>, inp: Map<CoinID, CoinDataHeight>)
    requires created_so_far(txx, txx.len() as int, s.height, acc),
             forall|id: CoinID| #[trigger] inp.contains_key(id) <==> (spent_by(txx, txx.len() as int, id) && !acc.contains_key(id)),
             forall|id: CoinID| #[trigger] inp.contains_key(id) ==> s.coins@.coins.contains_key(id) && inp[id] == s.coins@.coins[id]
    ensures rel_of(s, txx, acc.union_prefer_right(inp))
{
    let rel = acc.union_prefer_right(inp);
    assert forall|t: int, i: int| 0 <= t < txx.len() && 0 <= i < txx[t].outputs@.len() && txx[t].outputs@[i].covhash != spec_coin_destroy()
        implies is_created_cdh(txx[t], i, s.height, rel[#[trigger] cid(txx[t], i)]) by {
        assert(kept_in(txx, txx.len() as int, cid(txx[t], i)));
        assert(acc.contains_key(cid(txx[t], i)));
    }
}
/// one more distinct input
pub proof fn lemma_distinct_step(txx: Seq<Transaction>, j: int, n: int)
    requires distinct_before(txx, j, n), 0 <= j < txx.len(), 0 <= n < txx[j].inputs@.len(), !visited(txx, j, n, txx[j].inputs@[n])
    ensures distinct_before(txx, j, n + 1)
{
    let x = txx[j].inputs@[n];
    assert forall|t: int, k: int, t2: int, k2: int| 0 <= t < txx.len() && 0 <= k < txx[t].inputs@.len() && 0 <= t2 < txx.len() && 0 <= k2 < txx[t2].inputs@.len()
        && pos_before(t, k, j, n + 1) && pos_before(t2, k2, j, n + 1) && (t != t2 || k != k2) implies #[trigger] txx[t].inputs@[k] != #[trigger] txx[t2].inputs@[k2] by {
        if t == j && k == n {
            if t2 < j { if txx[t2].inputs@[k2] == x { assert(spent_by(txx, j, x)); } } else { if txx[t2].inputs@[k2] == x { assert(spent_upto(txx[j], n, x)); } }
        } else if t2 == j && k2 == n {
            if t < j { if txx[t].inputs@[k] == x { assert(spent_by(txx, j, x)); } } else { if txx[t].inputs@[k] == x { assert(spent_upto(txx[j], n, x)); } }
        }
    }
}
pub proof fn lemma_distinct_next_tx(txx: Seq<Transaction>, j: int)
    requires distinct_before(txx, j, txx[j].inputs@.len() as int), 0 <= j < txx.len()
    ensures distinct_before(txx, j + 1, 0)
{
}
pub proof fn lemma_visited_step(txx: Seq<Transaction>, j: int, n: int)
    requires 0 <= j < txx.len(), 0 <= n < txx[j].inputs@.len()
    ensures forall|x: CoinID| #[trigger] visited(txx, j, n + 1, x) <==> (visited(txx, j, n, x) || x == txx[j].inputs@[n])
{
    assert forall|x: CoinID| #[trigger] visited(txx, j, n + 1, x) <==> (visited(txx, j, n, x) || x == txx[j].inputs@[n]) by { lemma_spent_upto_step(txx[j], n, x); }
}
pub proof fn lemma_visited_next_tx(txx: Seq<Transaction>, j: int)
    requires 0 <= j < txx.len()
    ensures forall|x: CoinID| #[trigger] visited(txx, j + 1, 0, x) <==> visited(txx, j, txx[j].inputs@.len() as int, x)
{
    assert forall|x: CoinID| #[trigger] visited(txx, j + 1, 0, x) <==> visited(txx, j, txx[j].inputs@.len() as int, x) by {
        lemma_spent_by_next(txx, j, x);
        if 0 <= j + 1 < txx.len() { assert(!spent_upto(txx[j + 1], 0, x)); }
    }
}
