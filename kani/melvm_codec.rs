// Kani harnesses for C12 on the REAL compiled OpCode::{decode, encode} (appended to a scratch copy of lib/melvm as
// `#[cfg(kani)] mod verif_codec;`).  Each harness is loop-free over its symbolic domain apart from loops bounded by the
// buffer length, unwound completely (unwinding assertions on): a complete proof for that domain, not a bounded stand-in.
use crate::opcode::OpCode;

const N: usize = 35;

fn decode_encode(first_lo: u8, first_hi: u8) {
    let buf: [u8; N] = kani::any();
    let len: usize = kani::any();
    kani::assume(len <= N);
    kani::assume(len == 0 || (buf[0] >= first_lo && buf[0] <= first_hi));
    let mut input: &[u8] = &buf[..len];
    match OpCode::decode(&mut input) {
        Ok(op) => {
            let consumed = len - input.len();
            assert!(consumed >= 1);
            let mut out: Vec<u8> = Vec::new();
            assert!(op.encode(&mut out).is_ok());
            assert!(out.len() == consumed);
            let mut i = 0;
            while i < consumed {
                assert!(out[i] == buf[i]);
                i += 1;
            }
        }
        Err(_) => {}
    }
}

macro_rules! part {
    ($name:ident, $lo:expr, $hi:expr) => {
        #[kani::proof]
        #[kani::unwind(40)]
        fn $name() { decode_encode($lo, $hi) }
    };
}
part!(dec_enc_00_2f, 0x00, 0x2f);
part!(dec_enc_30_6f, 0x30, 0x6f);
part!(dec_enc_70_af, 0x70, 0xaf);
part!(dec_enc_b0_ef, 0xb0, 0xef);
part!(dec_enc_f0, 0xf0, 0xf0);
part!(dec_enc_f1, 0xf1, 0xf1);
part!(dec_enc_f2, 0xf2, 0xf2);
part!(dec_enc_f3_ff, 0xf3, 0xff);
