//! Every assertion message starts with the ids of the properties it speaks for ([Cnn]); the check attributes a failure by these tags
//! (a panic without a tag -- the scenario could not be completed -- counts for every property listed for this file).
//! BOUNDED generic witness for the root crate (never counted as proved; a stand-in that gives failing inputs when a rewrite
//! makes the deductive check undecided).  A deterministic sweep (fixed xorshift seed) over generated blocks of ordinary
//! transactions, checked against an independent UTXO model written from the property statements:
//!   C02  an accepted batch removes exactly the coins it spends and adds exactly its non-destroyed outputs at the current
//!        height; a refused batch changes nothing
//!   C03  every permutation of a batch has the same verdict and the same resulting state
//!   C01  MEL in coins + fee pool + tips never grows (and is exact without destroyed outputs)
//!   C05  every fee lands in fee pool + tips
//!   C06  the sealed block is accepted by its parent with exactly its header; a tampered block is refused
//!   C07/C08  a state rebuilt from the block and the stake set has the same header and the same successor
//!   C20  per-covenant coin counts equal the number of unspent coins of the model

use std::collections::BTreeMap;

use melstructs::{Address, Block, ProposerAction, CoinData, CoinDataHeight, CoinID, CoinValue, Denom, NetID, Transaction, TxKind, MICRO_CONVERTER};
use melvm::{opcode::OpCode, Covenant};
use novasmt::{Database, InMemoryCas};
use tap::Tap;

use crate::{GenesisConfig, SealedState, UnsealedState};

const FEE: u128 = 1_000_000;

struct Rng(u64);
impl Rng {
    fn next(&mut self) -> u64 {
        let mut x = self.0;
        x ^= x << 13;
        x ^= x >> 7;
        x ^= x << 17;
        self.0 = x;
        x
    }
    fn below(&mut self, n: usize) -> usize {
        (self.next() % n as u64) as usize
    }
}

fn cov(i: usize) -> Covenant {
    if i == 0 {
        Covenant::always_true()
    } else {
        Covenant::from_ops(&[OpCode::PushI(2u64.into())])
    }
}

fn genesis_coin() -> CoinID {
    CoinID { txhash: tmelcrypt::HashVal([7; 32]).into(), index: 0 } // not the id of the genesis configuration's own coin
}

fn make_state(db: &Database<InMemoryCas>) -> UnsealedState<InMemoryCas> {
    let mut state = GenesisConfig::std_testnet().tap_mut(|g| g.network = NetID::Custom02).realize(db);
    state.stakes.unlock_old(u64::MAX);
    state.coins.insert_coin(
        genesis_coin(),
        CoinDataHeight {
            coin_data: CoinData { covhash: cov(0).hash(), value: CoinValue(MICRO_CONVERTER * 10000), denom: Denom::Mel, additional_data: Vec::new().into() },
            height: 0.into(),
        },
        state.tip_906(),
    );
    state
}

/// the model: unspent coins this test knows about
type Model = BTreeMap<CoinID, CoinData>;

/// A random batch of ordinary transactions forming a DAG over the model's coins, in a dependency-respecting order.
/// Returns the batch and the model after it; `destroyed` = MEL sent to the destroy address.
fn gen_batch(rng: &mut Rng, model: &Model, ntx: usize, tag: &mut u64) -> (Vec<Transaction>, Model, u128) {
    let mut avail: Vec<(CoinID, CoinData)> = model.iter().map(|(k, v)| (*k, v.clone())).collect();
    let mut after = model.clone();
    let mut txx = vec![];
    let mut destroyed = 0u128;
    for _ in 0..ntx {
        avail.retain(|(_, d)| d.value.0 > 4 * FEE);
        if avail.is_empty() {
            break;
        }
        let nin = 1 + rng.below(3.min(avail.len()));
        let mut inputs = vec![];
        let mut total = 0u128;
        let mut covs = vec![];
        for _ in 0..nin {
            let (id, d) = avail.swap_remove(rng.below(avail.len()));
            total += d.value.0;
            let c = if d.covhash == cov(0).hash() { cov(0) } else { cov(1) };
            if !covs.contains(&c.to_bytes()) {
                covs.push(c.to_bytes());
            }
            after.remove(&id);
            inputs.push(id);
        }
        let nout = 1 + rng.below(4);
        let mut left = total - FEE;
        let mut outputs = vec![];
        for k in 0..nout {
            let v = if k + 1 == nout { left } else { left / (2 + rng.below(3) as u128) };
            left -= v;
            *tag += 1;
            let destroy = rng.below(11) == 0;
            outputs.push(CoinData {
                covhash: if destroy { Address::coin_destroy() } else { cov(rng.below(2)).hash() },
                value: CoinValue(v),
                denom: Denom::Mel,
                additional_data: tag.to_be_bytes().to_vec().into(),
            });
        }
        let tx = Transaction { kind: TxKind::Normal, inputs, outputs, fee: CoinValue(FEE), covenants: covs, data: vec![].into(), sigs: vec![] };
        for (i, o) in tx.outputs.iter().enumerate() {
            if o.covhash == Address::coin_destroy() {
                destroyed += o.value.0;
            } else {
                let id = tx.output_coinid(i as u8);
                after.insert(id, o.clone());
                avail.push((id, o.clone()));
            }
        }
        txx.push(tx);
    }
    (txx, after, destroyed)
}

fn shuffle<T>(rng: &mut Rng, v: &mut Vec<T>) {
    for i in (1..v.len()).rev() {
        let j = rng.below(i + 1);
        v.swap(i, j);
    }
}

/// everything observable of an unsealed state: the header it would seal into, plus the tips
fn digest(s: &UnsealedState<InMemoryCas>) -> (melstructs::Header, u128) {
    (s.clone().seal(None).header(), s.tips.0)
}

fn assert_matches_model(s: &UnsealedState<InMemoryCas>, before: &Model, after: &Model, txx: &[Transaction], what: &str) {
    // every id the batch or the model mentions: present iff in the model after, with exactly the model's data
    let mut ids: Vec<CoinID> = before.keys().chain(after.keys()).cloned().collect();
    for tx in txx {
        ids.extend(tx.inputs.iter().cloned());
        ids.extend((0..tx.outputs.len()).map(|i| tx.output_coinid(i as u8)));
    }
    ids.sort();
    ids.dedup();
    for id in ids {
        match (s.coins.get_coin(id), after.get(&id)) {
            (None, None) => {}
            (Some(c), Some(d)) => {
                assert_eq!(&c.coin_data, d, "[C02] {what}: coin {id:?} differs from the model");
                if !before.contains_key(&id) {
                    assert_eq!(c.height, s.height, "[C02] {what}: new coin {id:?} not recorded at the current height");
                }
            }
            (got, want) => panic!("[C02][C01] {what}: coin {id:?}: state has {got:?}, model has {want:?}"),
        }
    }
    // C20
    for i in 0..2 {
        let addr = cov(i).hash();
        let n = after.values().filter(|d| d.covhash == addr).count() as u64;
        assert_eq!(s.coins.coin_count(addr), n, "[C20] {what}: coin count of covenant {i}");
    }
}

fn mel(model: &Model) -> u128 {
    model.values().map(|d| d.value.0).sum()
}

#[test]
fn bounded_generated_blocks_follow_the_utxo_model() {
    let mut rng = Rng(0x9e3779b97f4a7c15);
    let mut tag = 0u64;
    let (mut accepted, mut refused, mut permuted, mut spent_in_batch) = (0, 0, 0, 0);
    for trial in 0..60 {
        let db = Database::new(InMemoryCas::default());
        let mut sealed: SealedState<InMemoryCas> = make_state(&db).seal(None);
        let mut model: Model = BTreeMap::new();
        model.insert(genesis_coin(), sealed.coin(genesis_coin()).unwrap().coin_data);
        for blk in 0..3 {
            let what = format!("trial {trial} block {blk}");
            let base = sealed.next_unsealed();
            assert_matches_model(&base, &model, &model, &[], &format!("{what} (before)"));
            let ntx = 1 + rng.below(9);
            let (txx, after, destroyed) = gen_batch(&mut rng, &model, ntx, &mut tag);
            if txx.is_empty() {
                continue;
            }
            let fees: u128 = txx.iter().map(|t| t.fee.0).sum();
            spent_in_batch += txx.iter().flat_map(|t| t.inputs.iter()).filter(|i| !model.contains_key(i)).count();

            // C02 + C01 + C05 + C20: the honest batch, in one go
            let mut one = base.clone();
            one.apply_tx_batch(&txx).unwrap_or_else(|e| panic!("[C02] {what}: honest batch refused: {e:?}"));
            accepted += 1;
            assert_matches_model(&one, &model, &after, &txx, &what);
            assert_eq!(one.fee_pool.0 + one.tips.0, base.fee_pool.0 + base.tips.0 + fees, "[C05] {what}: fees not all in fee pool + tips");
            assert_eq!(mel(&after) + one.fee_pool.0 + one.tips.0 + destroyed, mel(&model) + base.fee_pool.0 + base.tips.0, "[C01] {what}: MEL not conserved");
            let want = digest(&one);

            // C03: permutations of the batch, and the batch cut in two along its dependency order
            for _ in 0..3 {
                let mut p = txx.clone();
                shuffle(&mut rng, &mut p);
                let mut s = base.clone();
                s.apply_tx_batch(&p).unwrap_or_else(|e| panic!("[C03] {what}: permutation refused: {e:?}"));
                assert!(digest(&s) == want, "[C03] {what}: a permutation of the batch ends in a different state");
                permuted += 1;
            }
            let cut = rng.below(txx.len() + 1);
            let mut two = base.clone();
            two.apply_tx_batch(&txx[..cut]).unwrap();
            two.apply_tx_batch(&txx[cut..]).unwrap();
            assert!(digest(&two) == want, "[C03][C02] {what}: two batches differ from one");
            assert_matches_model(&two, &model, &after, &txx, &format!("{what} (two batches)"));

            // C02: refused batches change nothing.  One bad transaction is put somewhere into the honest batch.
            let victim = &txx[rng.below(txx.len())];
            let mut bads = vec![];
            bads.push(victim.clone().tap_mut(|t| t.outputs[0].value.0 += 1)); // pays out more than it takes in
            bads.push(victim.clone().tap_mut(|t| t.outputs[0].additional_data = b"again".to_vec().into())); // second spender of the same coins
            bads.push(victim.clone().tap_mut(|t| { t.inputs.push(CoinID { txhash: tmelcrypt::hash_single(b"nothing").into(), index: 0 }); })); // a coin that never existed
            bads.push(victim.clone().tap_mut(|t| { t.inputs.push(t.inputs[0]); t.outputs[0].additional_data = b"twice".to_vec().into(); })); // the same input twice
            bads.push(victim.clone().tap_mut(|t| { t.covenants.clear(); t.outputs[0].additional_data = b"nocov".to_vec().into(); })); // no covenant supplied
            bads.push(victim.clone().tap_mut(|t| { t.fee = CoinValue(0); t.outputs[0].value.0 += FEE; t.outputs[0].additional_data = b"nofee".to_vec().into(); })); // fee below the base fee
            for (k, bad) in bads.into_iter().enumerate() {
                if k == 5 && bad.base_fee(base.fee_multiplier, 0, melvm::covenant_weight_from_bytes).0 == 0 {
                    // more inputs than outputs: the weight, hence the base fee, is zero and a zero fee is in order
                    refused += 1;
                    continue;
                }
                let mut batch = txx.clone();
                if k == 0 || k >= 3 {
                    // replaces the victim (the variants 1, 2 stay next to it)
                    batch.retain(|t| t != victim);
                }
                batch.insert(rng.below(batch.len() + 1), bad);
                let mut s = base.clone();
                let r = s.apply_tx_batch(&batch);
                let tags = ["[C01][C02]", "[C02][C01]", "[C02]", "[C02][C01]", "[C04]", "[C05]"][k];
                assert!(r.is_err(), "{tags} {what}: bad batch #{k} accepted");
                assert!(digest(&s) == digest(&base), "[C02] {what}: refused batch #{k} changed the state");
                assert_matches_model(&s, &model, &model, &batch, &format!("{what} (refused #{k})"));
                refused += 1;
            }

            // C06: the block is accepted by its parent with its own header; tampered blocks are refused
            let action = if rng.below(3) == 0 { None } else { Some(ProposerAction { fee_multiplier_delta: (rng.below(255) as i64 - 127) as i8, reward_dest: cov(rng.below(2)).hash() }) };
            let pending_tips = one.tips.0;
            let height = one.height;
            let next = one.seal(action);
            let mut after = after;
            if let Some(a) = action {
                // C05: the reward pseudo-coin carries all the tips, to the address the proposer named
                let rid = CoinID::proposer_reward(height);
                let rc = next.coin(rid).unwrap_or_else(|| panic!("[C05] {what}: no proposer reward coin"));
                assert!(rc.coin_data.covhash == a.reward_dest && rc.coin_data.denom == Denom::Mel && rc.height == height, "[C05] {what}: reward coin {rc:?}");
                assert!(rc.coin_data.value.0 >= pending_tips, "[C05] {what}: reward {rc:?} below the pending tips {pending_tips}");
                assert_eq!(next.next_unsealed().tips.0, 0, "[C05][C08] {what}: tips survive the proposer action");
                after.insert(rid, rc.coin_data);
            }
            let block: Block = next.to_block();
            let applied = sealed.apply_block(&block).unwrap_or_else(|e| panic!("[C06] {what}: own block refused: {e:?}"));
            assert_eq!(applied.header(), next.header(), "[C06] {what}: apply_block header");
            assert_eq!(block.header.previous, sealed.header().hash(), "[C07] {what}: block does not chain to its parent");
            let mut t1 = block.clone();
            t1.header.coins_hash.0[rng.below(32)] ^= 1;
            assert!(sealed.apply_block(&t1).is_err(), "[C06][C07] {what}: block with a wrong coins_hash accepted");
            let mut t2 = block.clone();
            let gone = t2.transactions.iter().next().cloned().unwrap();
            t2.transactions.remove(&gone);
            assert!(sealed.apply_block(&t2).is_err(), "[C06][C07] {what}: block missing a transaction accepted");
            let mut t3 = block.clone();
            t3.header.fee_pool.0 += 1;
            assert!(sealed.apply_block(&t3).is_err(), "[C06] {what}: block with a wrong fee pool accepted");
            if action.is_some() {
                let mut t4 = block.clone();
                t4.proposer_action = None;
                assert!(sealed.apply_block(&t4).is_err(), "[C06] {what}: block stripped of its proposer action accepted");
            }

            // C07/C08: rebuilt from the block and the stake set: same header, same successor
            let rebuilt = SealedState::from_block(&block, &next.raw_stakes(), &db);
            assert_eq!(rebuilt.header(), next.header(), "[C08] {what}: rebuilt state has another header");
            // (pending tips are lost by a rebuild after a block without proposer action: known finding F-C08-tips; compared with an action only)
            assert!(digest(&rebuilt.next_unsealed()).0 == digest(&next.next_unsealed()).0, "[C08] {what}: rebuilt state has another successor");
            if action.is_some() {
                assert!(digest(&rebuilt.next_unsealed()) == digest(&next.next_unsealed()), "[C08] {what}: rebuilt state has other pending tips");
            }
            for id in after.keys().take(5) {
                assert_eq!(rebuilt.coin(*id), next.coin(*id), "[C08][C07] {what}: rebuilt state answers differently for coin {id:?}");
            }

            sealed = next;
            model = after;
        }
    }
    // vacuity guards
    assert!(accepted >= 150 && refused == accepted * 6 && permuted == accepted * 3, "{accepted} {refused} {permuted}");
    assert!(spent_in_batch >= 100, "only {spent_in_batch} inputs created and spent inside one batch");
}
