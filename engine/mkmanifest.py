#!/usr/bin/env python3
"""writes /verif/MANIFEST.json from the table below (kept in one place so the manifest is always valid)"""
import json, os
VERIF = os.path.dirname(os.path.dirname(os.path.abspath(__file__)))
BASE = "cd /repo && cargo test --workspace --no-fail-fast --offline"
CLAIMED = {
 "C17": dict(level="proof", design="DESIGN.md 4/C17",
   text="Verus proves, for every multiplier 0..2^128 and every delta, that move_action_fee_multiplier (text extracted from /repo each run) moves the multiplier by exactly trunc(max(m/128,2)*d/128) clamped to the representable range, by at most max(m/128,2), with no overflow/underflow and no other field written; seal(None) frame via the seal unit.",
   note="Trusted: Verus/Z3, extraction rules R0-R8, i8::unsigned_abs spec, hand-mirrored ProposerAction/UnsealedState field types (UnsealedState struct text itself is extracted).",
   technique="Verus contract (requires/ensures) on the extracted real function + bit_vector/nonlinear lemmas"),
}
NA = {}
def main():
    props = [json.loads(l) for l in open(os.path.join(VERIF, "properties.jsonl"))]
    checks, na = [], []
    for p in props:
        pid = p["id"]
        if pid in CLAIMED:
            c = CLAIMED[pid]
            checks.append({
                "property_id": pid, "quick_cmd": f"./check {pid} --tier quick", "thorough_cmd": f"./check {pid} --tier thorough",
                "evidence_file": f"/verif/evidence/{pid}.json", "replay_cmd_template": "./check --replay {path}",
                "engine": "contracts", "level_claimed": {"category": c["level"], "text": c["text"], "design_ref": c["design"]},
                "level_note": c["note"], "technique": c["technique"]})
        else:
            na.append({"property_id": pid, "reason": NA.get(pid, "not yet covered by a discharged contract obligation in this build (work in progress; see DESIGN.md section 4 for the plan)")})
    m = {"version": 1,
         "setup_cmd": "python3 engine/selftest.py",
         "hooks": {"guard": "none", "enable": "no hooks: contracts and harnesses are injected into generated files / scratch copies at check time",
                   "baseline_off_cmd": BASE, "source_commits": SOURCE_COMMITS, "add_only": True},
         "engines": [{"name": "contracts", "path": "/verif/engine", "serves_properties": sorted(CLAIMED),
                      "kind_free_text": "mechanical extraction of /repo functions + injected contracts, discharged by Verus (Z3); Kani/CBMC for loop-free full-domain harnesses; frame scans"}],
         "checks": checks, "not_applicable": na,
         "notes": "exit 2 = undecided (never an alarm). known findings: /verif/known_findings.json"}
    json.dump(m, open(os.path.join(VERIF, "MANIFEST.json"), "w"), indent=1)
SOURCE_COMMITS = []
if __name__ == "__main__":
    main()
