// C12: the per-instruction wire format as DEFINED spec functions, and the two facts the whole-program lifting rests on (K1, K2)
// PROVED here from the definitions. `OpCode::decode` / `OpCode::encode` (unit codec) are proved against these definitions, so
// nothing about the per-instruction codec is handed over from another tool any more. The opcode numbers are the constants
// extracted from /repo/lib/melvm/src/consts.rs on every run (K2 needs them pairwise different: a collision fails lemma_k2).
pub open spec fn be16(x: u16) -> Seq<u8> { seq![(x / 256) as u8, (x % 256) as u8] }
pub open spec fn u16of(hi: u8, lo: u8) -> u16 { ((hi as u16) * 256 + (lo as u16)) as u16 }
/// number of leading zero bytes
pub open spec fn lead0(s: Seq<u8>) -> nat decreases s.len() { if s.len() == 0 || s[0] != 0 { 0 } else { 1 + lead0(s.skip(1)) } }
pub open spec fn zeros(n: nat) -> Seq<u8> { Seq::new(n, |i: int| 0u8) }
/// the Vec<u8> with these contents / the U256 with this value (A-VECEXT: a PushB literal is identified with its contents)
pub uninterp spec fn vec_of(s: Seq<u8>) -> Vec<u8>;
pub broadcast axiom fn axiom_vec_of(s: Seq<u8>) requires s.len() <= 0xffff ensures (#[trigger] vec_of(s))@ == s;
pub broadcast axiom fn axiom_vec_u8_ext(a: Vec<u8>, b: Vec<u8>) requires #[trigger] a@ == #[trigger] b@ ensures a == b;
pub uninterp spec fn u256_of(n: nat) -> U256;
pub broadcast axiom fn axiom_u256_of(n: nat) requires n < m256() ensures (#[trigger] u256_of(n))@ == n;
/// A-U256: the 32-byte big-endian encoding is a bijection between values below 2^256 and 32-byte strings
pub broadcast axiom fn axiom_be_inv(s: Seq<u8>) requires s.len() == 32 ensures (#[trigger] be_value(s)) < m256(), be_bytes(be_value(s)) == s;

pub open spec fn noarg(op: OpCode) -> Option<u8> {
    match op {
        OpCode::Noop => Some(OPCODE_NOOP),
        OpCode::Add => Some(OPCODE_ADD), OpCode::Sub => Some(OPCODE_SUB), OpCode::Mul => Some(OPCODE_MUL), OpCode::Div => Some(OPCODE_DIV), OpCode::Rem => Some(OPCODE_REM),
        OpCode::And => Some(OPCODE_AND), OpCode::Or => Some(OPCODE_OR), OpCode::Xor => Some(OPCODE_XOR), OpCode::Not => Some(OPCODE_NOT), OpCode::Eql => Some(OPCODE_EQL),
        OpCode::Lt => Some(OPCODE_LT), OpCode::Gt => Some(OPCODE_GT), OpCode::Shl => Some(OPCODE_SHL), OpCode::Shr => Some(OPCODE_SHR),
        OpCode::Load => Some(OPCODE_LOAD), OpCode::Store => Some(OPCODE_STORE),
        OpCode::VRef => Some(OPCODE_VREF), OpCode::VAppend => Some(OPCODE_VAPPEND), OpCode::VEmpty => Some(OPCODE_VEMPTY), OpCode::VLength => Some(OPCODE_VLENGTH),
        OpCode::VSlice => Some(OPCODE_VSLICE), OpCode::VSet => Some(OPCODE_VSET), OpCode::VPush => Some(OPCODE_VPUSH), OpCode::VCons => Some(OPCODE_VCONS),
        OpCode::BRef => Some(OPCODE_BREF), OpCode::BAppend => Some(OPCODE_BAPPEND), OpCode::BEmpty => Some(OPCODE_BEMPTY), OpCode::BLength => Some(OPCODE_BLENGTH),
        OpCode::BSlice => Some(OPCODE_BSLICE), OpCode::BSet => Some(OPCODE_BSET), OpCode::BPush => Some(OPCODE_BPUSH), OpCode::BCons => Some(OPCODE_BCONS),
        OpCode::ItoB => Some(OPCODE_ITOB), OpCode::BtoI => Some(OPCODE_BTOI), OpCode::TypeQ => Some(OPCODE_TYPEQ), OpCode::Dup => Some(OPCODE_DUP),
        _ => None,
    }
}
/// the instruction without operands that has this number
pub open spec fn noarg_of(c: u8) -> Option<OpCode> {
    if c == OPCODE_NOOP { Some(OpCode::Noop) }
    else if c == OPCODE_ADD { Some(OpCode::Add) } else if c == OPCODE_SUB { Some(OpCode::Sub) } else if c == OPCODE_MUL { Some(OpCode::Mul) }
    else if c == OPCODE_DIV { Some(OpCode::Div) } else if c == OPCODE_REM { Some(OpCode::Rem) }
    else if c == OPCODE_AND { Some(OpCode::And) } else if c == OPCODE_OR { Some(OpCode::Or) } else if c == OPCODE_XOR { Some(OpCode::Xor) }
    else if c == OPCODE_NOT { Some(OpCode::Not) } else if c == OPCODE_EQL { Some(OpCode::Eql) } else if c == OPCODE_LT { Some(OpCode::Lt) }
    else if c == OPCODE_GT { Some(OpCode::Gt) } else if c == OPCODE_SHL { Some(OpCode::Shl) } else if c == OPCODE_SHR { Some(OpCode::Shr) }
    else if c == OPCODE_LOAD { Some(OpCode::Load) } else if c == OPCODE_STORE { Some(OpCode::Store) }
    else if c == OPCODE_VREF { Some(OpCode::VRef) } else if c == OPCODE_VAPPEND { Some(OpCode::VAppend) } else if c == OPCODE_VEMPTY { Some(OpCode::VEmpty) }
    else if c == OPCODE_VLENGTH { Some(OpCode::VLength) } else if c == OPCODE_VSLICE { Some(OpCode::VSlice) } else if c == OPCODE_VSET { Some(OpCode::VSet) }
    else if c == OPCODE_VPUSH { Some(OpCode::VPush) } else if c == OPCODE_VCONS { Some(OpCode::VCons) }
    else if c == OPCODE_BREF { Some(OpCode::BRef) } else if c == OPCODE_BAPPEND { Some(OpCode::BAppend) } else if c == OPCODE_BEMPTY { Some(OpCode::BEmpty) }
    else if c == OPCODE_BLENGTH { Some(OpCode::BLength) } else if c == OPCODE_BSLICE { Some(OpCode::BSlice) } else if c == OPCODE_BSET { Some(OpCode::BSet) }
    else if c == OPCODE_BPUSH { Some(OpCode::BPush) } else if c == OPCODE_BCONS { Some(OpCode::BCons) }
    else if c == OPCODE_ITOB { Some(OpCode::ItoB) } else if c == OPCODE_BTOI { Some(OpCode::BtoI) } else if c == OPCODE_TYPEQ { Some(OpCode::TypeQ) }
    else if c == OPCODE_DUP { Some(OpCode::Dup) }
    else { None }
}
/// the instruction with one 16-bit operand that has this number
pub open spec fn arg16_of(c: u8, x: u16) -> Option<OpCode> {
    if c == OPCODE_HASH { Some(OpCode::Hash(x)) } else if c == OPCODE_SIGEOK { Some(OpCode::SigEOk(x)) }
    else if c == OPCODE_LOADIMM { Some(OpCode::LoadImm(x)) } else if c == OPCODE_STOREIMM { Some(OpCode::StoreImm(x)) }
    else if c == OPCODE_JMP { Some(OpCode::Jmp(x)) } else if c == OPCODE_BEZ { Some(OpCode::Bez(x)) } else if c == OPCODE_BNZ { Some(OpCode::Bnz(x)) }
    else { None }
}
pub open spec fn arg16(op: OpCode) -> Option<(u8, u16)> {
    match op {
        OpCode::Hash(x) => Some((OPCODE_HASH, x)), OpCode::SigEOk(x) => Some((OPCODE_SIGEOK, x)),
        OpCode::LoadImm(x) => Some((OPCODE_LOADIMM, x)), OpCode::StoreImm(x) => Some((OPCODE_STOREIMM, x)),
        OpCode::Jmp(x) => Some((OPCODE_JMP, x)), OpCode::Bez(x) => Some((OPCODE_BEZ, x)), OpCode::Bnz(x) => Some((OPCODE_BNZ, x)),
        _ => None,
    }
}
/// encode one instruction (None: PushB literal longer than 255 bytes)
pub open spec fn spec_encode1(op: OpCode) -> Option<Seq<u8>> {
    if noarg(op) is Some { Some(seq![noarg(op)->Some_0]) }
    else if arg16(op) is Some { Some(seq![arg16(op)->Some_0.0] + be16(arg16(op)->Some_0.1)) }
    else { match op {
        OpCode::Exp(k) => Some(seq![OPCODE_EXP, k]),
        OpCode::Loop(i, n) => Some(seq![OPCODE_LOOP] + be16(i) + be16(n)),
        OpCode::PushB(v) => if v@.len() > 255 { None } else { Some(seq![OPCODE_PUSHB, v@.len() as u8] + v@) },
        OpCode::PushI(i) => Some(seq![OPCODE_PUSHI] + be_bytes(i@)),
        OpCode::PushIC(i) => Some(seq![OPCODE_PUSHIC, (32 - lead0(be_bytes(i@))) as u8] + be_bytes(i@).skip(lead0(be_bytes(i@)) as int)),
        _ => None,
    } }
}
/// decode one instruction from the front of b: the instruction and the number of bytes consumed
pub open spec fn spec_decode1(b: Seq<u8>) -> Option<(OpCode, nat)> {
    if b.len() == 0 { None } else {
        let c = b[0];
        if noarg_of(c) is Some { Some((noarg_of(c)->Some_0, 1nat)) }
        else if arg16_of(c, 0) is Some { if b.len() >= 3 { Some((arg16_of(c, u16of(b[1], b[2]))->Some_0, 3nat)) } else { None } }
        else if c == OPCODE_EXP { if b.len() >= 2 { Some((OpCode::Exp(b[1]), 2nat)) } else { None } }
        else if c == OPCODE_LOOP { if b.len() >= 5 { Some((OpCode::Loop(u16of(b[1], b[2]), u16of(b[3], b[4])), 5nat)) } else { None } }
        else if c == OPCODE_PUSHB { if b.len() >= 2 && b.len() >= 2 + b[1] { Some((OpCode::PushB(vec_of(b.subrange(2, 2 + b[1]))), (2 + b[1]) as nat)) } else { None } }
        else if c == OPCODE_PUSHI { if b.len() >= 33 { Some((OpCode::PushI(u256_of(be_value(b.subrange(1, 33)))), 33nat)) } else { None } }
        else if c == OPCODE_PUSHIC {
            if b.len() >= 2 && b[1] <= 32 && b.len() >= 2 + b[1] && (b[1] == 0 || b[2] != 0) {
                Some((OpCode::PushIC(u256_of(be_value(zeros((32 - b[1]) as nat) + b.subrange(2, 2 + b[1])))), (2 + b[1]) as nat))
            } else { None }
        }
        else { None }
    }
}
pub broadcast proof fn lemma_skip_skip(s: Seq<u8>, a: int, b: int) requires 0 <= a, 0 <= b, a + b <= s.len() ensures #[trigger] s.skip(a).skip(b) == s.skip(a + b) { assert(s.skip(a).skip(b) =~= s.skip(a + b)); }
pub broadcast proof fn lemma_skip_take(s: Seq<u8>, a: int, n: int) requires 0 <= a, 0 <= n, a + n <= s.len() ensures #[trigger] s.skip(a).take(n) == s.subrange(a, a + n) { assert(s.skip(a).take(n) =~= s.subrange(a, a + n)); }
pub broadcast proof fn lemma_skip_index(s: Seq<u8>, a: int, i: int) requires 0 <= a, 0 <= i, a + i < s.len() ensures #[trigger] s.skip(a)[i] == s[a + i] { }
pub proof fn lemma_be16(x: u16) ensures be16(x).len() == 2, u16of(be16(x)[0], be16(x)[1]) == x {}
pub proof fn lemma_u16of(hi: u8, lo: u8) ensures be16(u16of(hi, lo)) =~= seq![hi, lo] {
    let x = u16of(hi, lo);
    assert(x == hi as int * 256 + lo as int);
    assert(x / 256 == hi as int && x % 256 == lo as int) by (nonlinear_arith) requires x == hi as int * 256 + lo as int, 0 <= lo < 256, 0 <= hi;
}
pub proof fn lemma_lead0_zeros(k: nat, p: Seq<u8>)
    ensures lead0(zeros(k) + p) == k + lead0(p)
    decreases k
{
    if k == 0 { assert(zeros(0) + p =~= p); } else {
        assert((zeros(k) + p).skip(1) =~= zeros((k - 1) as nat) + p);
        lemma_lead0_zeros((k - 1) as nat, p);
    }
}
pub proof fn lemma_lead0_bound(s: Seq<u8>)
    ensures lead0(s) <= s.len(), s.take(lead0(s) as int) =~= zeros(lead0(s)), lead0(s) < s.len() ==> s[lead0(s) as int] != 0
    decreases s.len()
{
    if s.len() == 0 || s[0] != 0 { } else {
        lemma_lead0_bound(s.skip(1));
        let k = lead0(s.skip(1));
        assert forall|i: int| 0 <= i < lead0(s) implies #[trigger] s.take(lead0(s) as int)[i] == 0u8 by {
            if i > 0 { assert(s.skip(1).take(k as int)[i - 1] == 0u8); }
        }
    }
}
/// K1: whatever decodes re-encodes to exactly the consumed bytes
//@LEMMA C12 lemma_k1 one instruction: whatever decodes re-encodes to exactly the consumed prefix (proved from the defined wire format)
pub broadcast proof fn lemma_k1(b: Seq<u8>)
    requires (#[trigger] spec_decode1(b)) is Some
    ensures 1 <= spec_decode1(b)->Some_0.1 <= b.len(), spec_encode1(spec_decode1(b)->Some_0.0) == Some(b.take(spec_decode1(b)->Some_0.1 as int))
{
    broadcast use axiom_vec_of, axiom_u256_of, axiom_be_inv, axiom_be;
    let c = b[0]; let (op, n) = spec_decode1(b)->Some_0;
    if noarg_of(c) is Some { assert(b.take(1) =~= seq![c]); }
    else if arg16_of(c, 0) is Some { lemma_u16of(b[1], b[2]); assert(b.take(3) =~= seq![c] + seq![b[1], b[2]]); }
    else if c == OPCODE_EXP { assert(b.take(2) =~= seq![c, b[1]]); }
    else if c == OPCODE_LOOP { lemma_u16of(b[1], b[2]); lemma_u16of(b[3], b[4]); assert(b.take(5) =~= seq![c] + seq![b[1], b[2]] + seq![b[3], b[4]]); }
    else if c == OPCODE_PUSHB { let p = b.subrange(2, 2 + b[1]); assert(vec_of(p)@ == p); assert(b.take(2 + b[1]) =~= seq![c, b[1]] + p); }
    else if c == OPCODE_PUSHI { let p = b.subrange(1, 33); assert(u256_of(be_value(p))@ == be_value(p)); assert(b.take(33) =~= seq![c] + p); }
    else if c == OPCODE_PUSHIC {
        let k = (32 - b[1]) as nat; let p = b.subrange(2, 2 + b[1]); let s = zeros(k) + p;
        assert(s.len() == 32);
        assert(u256_of(be_value(s))@ == be_value(s));
        lemma_lead0_zeros(k, p);
        assert(lead0(p) == 0);
        assert(s.skip(k as int) =~= p);
        assert(b.take(2 + b[1]) =~= seq![c, b[1]] + p);
    }
}
/// K2: an encoding decodes back to the instruction, consuming exactly the encoding, whatever follows it
//@LEMMA C12 lemma_k2 one instruction: its encoding, followed by anything, decodes back to it and consumes exactly the encoding
pub broadcast proof fn lemma_k2(op: OpCode, rest: Seq<u8>)
    requires spec_encode1(op) is Some
    ensures #[trigger] spec_decode1(spec_encode1(op)->Some_0 + rest) == Some((op, spec_encode1(op)->Some_0.len()))
{
    broadcast use axiom_vec_of, axiom_u256_of, axiom_be_inv, axiom_be, axiom_vec_u8_ext, axiom_u256_ext, axiom_u256_range;
    let e = spec_encode1(op)->Some_0; let b = e + rest;
    if noarg(op) is Some { }
    else if arg16(op) is Some { lemma_be16(arg16(op)->Some_0.1); assert(b[1] == be16(arg16(op)->Some_0.1)[0]); assert(b[2] == be16(arg16(op)->Some_0.1)[1]); }
    else { match op {
        OpCode::Exp(k) => { assert(b[1] == k); }
        OpCode::Loop(i, n) => { lemma_be16(i); lemma_be16(n); assert(b[1] == be16(i)[0] && b[2] == be16(i)[1] && b[3] == be16(n)[0] && b[4] == be16(n)[1]); }
        OpCode::PushB(v) => { assert(b[1] == v@.len() as u8); assert(b.subrange(2, 2 + b[1]) =~= v@); assert(vec_of(v@)@ == v@); }
        OpCode::PushI(i) => { assert(be_bytes(i@).len() == 32); assert(b.subrange(1, 33) =~= be_bytes(i@)); assert(u256_of(i@)@ == i@); }
        OpCode::PushIC(i) => {
            let s = be_bytes(i@); let z = lead0(s); let p = s.skip(z as int);
            assert(s.len() == 32);
            lemma_lead0_bound(s);
            assert(b[1] == (32 - z) as u8);
            assert(b.subrange(2, 2 + b[1]) =~= p);
            assert(zeros(z) + p =~= s) by { assert(s.take(z as int) + s.skip(z as int) =~= s); }
            if b[1] != 0 { assert(b[2] == p[0]); assert(p[0] == s[z as int]); }
            assert(u256_of(i@)@ == i@);
        }
        _ => {}
    } }
}
