// A-ITER: eager sequence semantics for iterator chains (hand-written ASSUMED contracts).
// An iterator is modelled by the `Vec` of the items it will yield: prelude stubs of `iter()/values()/keys()` return that
// Vec (so `for x in E.iter()` loops run through Verus' native Vec loop support) and the std adapter methods used by the
// repo (`map, filter, filter_map, cloned, copied, sum, fold, count, collect`) are methods of the extension trait below on
// that Vec, specified through the closure's own requires/ensures (injected at the call site, rule R6).  All closures
// involved are `Fn` and pure, so eager evaluation equals std's lazy evaluation.
/// `b` is the decision function the (pure) predicate closure `f` computed on the items; `out` is the filtered sequence
pub open spec fn filter_decided<T, F: Fn(&T) -> bool>(f: F, items: Seq<T>, out: Seq<T>, b: spec_fn(T) -> bool) -> bool {
    (forall|i: int| 0 <= i < items.len() ==> call_ensures(f, (&#[trigger] items[i],), b(items[i]))) && out == items.filter(b)
}
pub trait IterChain<T>: Sized {
    spec fn items(&self) -> Seq<T>;
    fn filter<F: Fn(&T) -> bool>(self, f: F) -> (r: Vec<T>)
        requires forall|i: int| 0 <= i < self.items().len() ==> call_requires(f, (&#[trigger] self.items()[i],)),
        ensures exists|b: spec_fn(T) -> bool| #[trigger] filter_decided(f, self.items(), r@, b);
    fn map<U, F: Fn(T) -> U>(self, f: F) -> (r: Vec<U>)
        requires forall|i: int| 0 <= i < self.items().len() ==> call_requires(f, (#[trigger] self.items()[i],)),
        ensures r@.len() == self.items().len(),
                forall|i: int| 0 <= i < self.items().len() ==> call_ensures(f, (self.items()[i],), #[trigger] r@[i]);
    fn count(self) -> (r: usize) ensures r == self.items().len();
}
impl<T> IterChain<T> for Vec<T> {
    open spec fn items(&self) -> Seq<T> { self@ }
    #[verifier::external_body] fn filter<F: Fn(&T) -> bool>(self, f: F) -> (r: Vec<T>) { unimplemented!() }
    #[verifier::external_body] fn map<U, F: Fn(T) -> U>(self, f: F) -> (r: Vec<U>) { unimplemented!() }
    #[verifier::external_body] fn count(self) -> (r: usize) { unimplemented!() }
}
pub trait IterChainRef<T>: Sized {
    spec fn ritems(&self) -> Seq<T>;
    fn cloned(self) -> (r: Vec<T>) ensures r@ == self.ritems();
    fn copied(self) -> (r: Vec<T>) ensures r@ == self.ritems();
}
impl<'a, T: Clone> IterChainRef<T> for Vec<&'a T> {
    open spec fn ritems(&self) -> Seq<T> { Seq::new(self@.len(), |i: int| *self@[i]) }
    #[verifier::external_body] fn cloned(self) -> (r: Vec<T>) { unimplemented!() }
    #[verifier::external_body] fn copied(self) -> (r: Vec<T>) { unimplemented!() }
}
pub trait IterSum: Sized {
    spec fn sitems(&self) -> Seq<u128>;
    /// Iterator::sum::<u128> uses `+`: overflow panics in debug builds and wraps in release builds; neither is acceptable
    /// in consensus code, so absence of overflow is the precondition.
    fn sum(self) -> (r: u128)
        requires fsum(self.sitems(), |x: u128| x as int) <= u128::MAX
        ensures r as int == fsum(self.sitems(), |x: u128| x as int);
}
impl IterSum for Vec<u128> {
    open spec fn sitems(&self) -> Seq<u128> { self@ }
    #[verifier::external_body] fn sum(self) -> (r: u128) { unimplemented!() }
}
