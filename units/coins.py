from spec import *
from _contracts import *

S = "src/state/coins.rs"
UNIT = Unit(
    name="coins", uses="group_raw_axioms",
    prelude=["core.rs", "raw.rs"],
    lemmas=["coinsview.rs", "coins_raw.rs"],
    items=[
        Raw("""#[verifier::external_body] pub exec const COIN_COUNT_STR_AS_BYTES: &'static [u8] ensures COIN_COUNT_STR_AS_BYTES@ == spec_coin_count_str() { "coin_count".as_bytes() }
#[verifier::external_body] pub exec const EMPTY_STR_AS_BYTES: &'static [u8] ensures EMPTY_STR_AS_BYTES@ == Seq::<u8>::empty() { "".as_bytes() }"""),
        TypeItem(S, "struct", "CoinMapping", subst=[("inner:", "pub inner:")]),
        Fn(S, "coin_count", impl="CoinMapping", home="C20", implicit_props=("C09", "C20"), **cm_coin_count(),
           injects=[Inject(("after_let", "v"), "proof { assert(v@ == self.inner@[k_count(covhash)]); }")]),
        Fn(S, "insert_coin_count", impl="CoinMapping", home="C20", implicit_props=("C09", "C20"), **cm_insert_coin_count(),
           injects=[Inject(("after_let", "count_key"), "proof { assert(count_key.0@ == k_count(covhash)); }"),
                    Inject("end", "proof { assert(self@.coins =~= old(self)@.coins); assert(self@.counts =~= (if count == 0 { old(self)@.counts.remove(covhash) } else { old(self)@.counts.insert(covhash, count as nat) })); }")]),
        Fn(S, "get_coin", impl="CoinMapping", home="C02", implicit_props=("C09", "C02"), **cm_get_coin(),
           injects=[Inject(("after_let", "bts"), "proof { assert(bts@ == self.inner@[k_coin(id)]); }")]),
        Fn(S, "insert_coin", impl="CoinMapping", home="C20", implicit_props=("C09", "C20", "C02"), **cm_insert_coin(),
           injects=[Inject("entry", "let ghost id0 = id; proof { axiom_tree_fits(&self.inner); if tip_906 { lemma_coins_of_finite(self@.coins, data.coin_data.covhash); } }"),
                    Inject(("after_let", "previous_count"), "proof { assert(self@.counts =~= old(self)@.counts); assert(count_of(old(self)@.counts, data.coin_data.covhash) == cnt(old(self)@.coins, data.coin_data.covhash)); }"),
                    Inject("end", """proof {
                        let v0 = old(self)@; let id = id0; let v2 = view_insert(v0, id, data, tip_906);
                        assert(self@.coins =~= v2.coins);
                        assert(self@.counts =~= v2.counts);
                        if tip_906 && (v0.coins.contains_key(id) ==> v0.coins[id].coin_data.covhash == data.coin_data.covhash) { lemma_counts_ok_insert(v0, id, data); }
                    }""")]),
        Fn(S, "remove_coin", impl="CoinMapping", home="C20", implicit_props=("C09", "C20", "C02"), **cm_remove_coin(),
           injects=[Inject("entry", "let ghost id0 = id; proof { axiom_tree_fits(&self.inner); if tip_906 && self@.coins.contains_key(id) { lemma_cnt_remove(self@.coins, id, self@.coins[id].coin_data.covhash); } }"),
                    Inject("end", """proof {
                        let v0 = old(self)@; let id = id0; let v2 = view_remove(v0, id, tip_906);
                        assert(self@.coins =~= v2.coins);
                        assert(self@.counts =~= v2.counts);
                        if tip_906 { lemma_counts_ok_remove(v0, id); }
                    }""")]),
        Fn(S, "root_hash", impl="CoinMapping", home="C07", implicit_props=("C09",),
           ensures=[C("root", "res == HashVal(novasmt::root_of(self.inner@))", "C07")]),
    ],
)
