from spec import *
from _contracts import *

M = "src/state/melmint.rs"
S = "src/state.rs"
C_ = "src/state/coins.rs"
T = "src/state/txset.rs"
SM = "src/smtmapping.rs"

def sel_proof(pred):
    return """proof {
        let ks = choose|ks: Seq<TxHash>| is_enum(state.transactions@, ks) && __c0@.len() == ks.len() && (forall|i: int| 0 <= i < ks.len() ==> *(#[trigger] __c0@[i]) == state.transactions@[ks[i]]);
        let items = Seq::new(ks.len(), |i: int| state.transactions@[ks[i]]);
        assert(__c1@ =~= items);
        let opts = choose|opts: Seq<Option<Transaction>>| #[trigger] filter_map_decided(__cl2, __c1@, __c2@, opts);
        let p = |tx: Transaction| %s(*state, tx);
        assert forall|i: int| 0 <= i < items.len() implies #[trigger] opts[i] == (if p(items[i]) { Some(items[i]) } else { None::<Transaction> }) by {
            assert(call_ensures(__cl2, (__c1@[i],), opts[i]));
        }
        lemma_flatten_filter(items, opts, p);
    }""" % pred

UNIT = Unit(
    name="mint", uses="group_core_axioms",
    prelude=["core.rs", "raw.rs", "iter.rs", "crypto.rs", "state_abs.rs", "num.rs", "melswap.rs"],
    lemmas=["sums.rs", "iterlem.rs", "coinsview.rs", "tips.rs", "apply.rs", "mint.rs"],
    items=[
        TypeItem(S, "struct", "UnsealedState"),
        Raw("use num::{BigInt, BigRational, rational::Ratio};"),
        Fn(C_, "get_coin", impl="CoinMapping", mode="assume", **cm_get_coin()),
        Fn(SM, "get", impl="SmtMapping", mode="assume", wrap=SMT_WRAP, **smt_get()),
        Fn(T, "iter", impl="TransactionSet", mode="assume", sig_subst=[("impl Iterator<Item = &Transaction>", "Vec<&Transaction>")], **ts_iter()),
        Fn(M, "multiply_frac", home="C15", implicit_props=("C09", "C15"),
           ensures=[C("floor", "res as int == spec_multiply_frac(x as int, frac@.n, frac@.d)", "C15", "C01")],
           uses="group_core_axioms, num::rational::axiom_ratio_den_pos, num::rational::axiom_reduced, num::rational::axiom_ratio_u128_nonneg",
           injects=[Inject("entry", "let ghost f0 = frac@; let ghost red = num::rational::reduced(frac);"),
                    Inject(("after_let", "result"), """proof { assert(result@.n == (x as int) * (red.0 as int)); assert(result@.d == 1 * (red.1 as int));
                        assert(red.0 as int * f0.d == f0.n * (red.1 as int));
                        lemma_floor_frac_eq(x as int, red.0 as int, red.1 as int, f0.n, f0.d); }""")]),
        Fn(M, "request_pool_key", home="C15", implicit_props=("C09", "C15"),
           ensures=[C("canonical", "res == spec_req_key(data@)", "C15", "C01")]),
        Fn(M, "get_swap_transactions", home="C15", implicit_props=("C09", "C15"),
           requires=[C("wf", "state.coins.wf()")],
           ensures=[C("selected", "selected(state.transactions@, res@, |tx: Transaction| is_swap_req(*state, tx))", "C15", "C01")],
           rewrites=[("ANF", "collect", 0, 4, {2: sel_proof("is_swap_req")})],
           closures=[Closure(0, "tx: Transaction", "(r: Option<Transaction>)", ensures=[C("pred", "r == (if is_swap_req(*state, tx) { Some(tx) } else { None::<Transaction> })", "C15")])]),
        Fn(M, "get_deposit_transactions", home="C15", implicit_props=("C09", "C15"),
           requires=[C("wf", "state.coins.wf()")],
           ensures=[C("selected", "selected(state.transactions@, res@, |tx: Transaction| is_deposit_req(*state, tx))", "C15", "C01")],
           rewrites=[("ANF", "collect", 0, 4, {2: sel_proof("is_deposit_req")})],
           closures=[Closure(0, "tx: Transaction", "(r: Option<Transaction>)", ensures=[C("pred", "r == (if is_deposit_req(*state, tx) { Some(tx) } else { None::<Transaction> })", "C15")])]),
        Fn(M, "get_withdrawal_transactions", home="C15", implicit_props=("C09", "C15"),
           requires=[C("wf", "state.coins.wf()")],
           ensures=[C("selected", "selected(state.transactions@, res@, |tx: Transaction| is_withdraw_req(*state, tx))", "C15", "C01")],
           rewrites=[("ANF", "collect", 0, 4, {2: sel_proof("is_withdraw_req")})],
           closures=[Closure(0, "tx: Transaction", "(r: Option<Transaction>)", ensures=[C("pred", "r == (if is_withdraw_req(*state, tx) { Some(tx) } else { None::<Transaction> })", "C15")])]),
    ],
)
