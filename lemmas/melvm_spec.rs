// C10: MelVM instruction semantics as spec functions (hand-written).  Clauses the property statement fixes: 256-bit wrapping
// + - x, failing division/remainder by zero, bit-bounded exponentiation, length-bounded Hash/SigEOk, failing out-of-range
// VRef/BRef/VSet/BSet, forward-only jumps, counted loops, failure on underflow / type error / bad nesting.  Everything
// else (operand order, shift amounts mod 256, empty result of out-of-range slices, byte truncation, TypeQ codes) is a
// CHARACTERISATION of the pinned code.
pub uninterp spec fn u256_of(n: nat) -> U256;
pub broadcast axiom fn axiom_u256_of(n: nat) requires n < m256() ensures (#[trigger] u256_of(n))@ == n;
pub uninterp spec fn catvec_of<T, const N: usize>(s: Seq<T>) -> CatVec<T, N>;
pub broadcast axiom fn axiom_catvec_of<T, const N: usize>(s: Seq<T>) ensures (#[trigger] catvec_of::<T, N>(s))@ == s;
pub open spec fn vint(n: nat) -> Value { Value::Int(u256_of(n)) }
pub open spec fn vbytes(s: Seq<u8>) -> Value { Value::Bytes(catvec_of(s)) }
pub open spec fn vvec(s: Seq<Value>) -> Value { Value::Vector(catvec_of(s)) }
pub open spec fn as_int(v: Value) -> Option<nat> { match v { Value::Int(a) => Some(a@), _ => None } }
pub open spec fn as_u16(v: Value) -> Option<nat> { match v { Value::Int(a) => if a@ <= 65535 { Some(a@) } else { None }, _ => None } }
pub open spec fn as_bytes(v: Value) -> Option<Seq<u8>> { match v { Value::Bytes(b) => Some(b@), _ => None } }
pub open spec fn as_vec(v: Value) -> Option<Seq<Value>> { match v { Value::Vector(b) => Some(b@), _ => None } }
pub open spec fn truthy(v: Value) -> bool { match v { Value::Int(a) => a@ != 0, _ => true } }
pub open spec fn b2n(b: bool) -> nat { if b { 1 } else { 0 } }

/// integer instructions with two operands: a = top of the stack, b = the value below it
pub open spec fn int_bin(op: OpCode, a: nat, b: nat) -> Option<nat> {
    match op {
        OpCode::Add => Some((a + b) % m256()),
        OpCode::Sub => Some(((a + m256() - b) as nat) % m256()),
        OpCode::Mul => Some((a * b) % m256()),
        OpCode::Div => if b == 0 { None } else { Some(a / b) },
        OpCode::Rem => if b == 0 { None } else { Some(a % b) },
        OpCode::And => Some(u256_and(a, b)),
        OpCode::Or => Some(u256_or(a, b)),
        OpCode::Xor => Some(u256_xor(a, b)),
        OpCode::Eql => Some(b2n(a == b)),
        OpCode::Lt => Some(b2n(a < b)),
        OpCode::Gt => Some(b2n(a > b)),
        OpCode::Shl => Some((a * pow2n(((b % 0x1_0000_0000) % 256) as nat)) % m256()),
        OpCode::Shr => Some(a / pow2n(((b % 0x1_0000_0000) % 256) as nat)),
        _ => None,
    }
}
pub open spec fn sem_bin(op: OpCode, x: Value, y: Value) -> Option<Value> {
    match op {
        OpCode::Add | OpCode::Sub | OpCode::Mul | OpCode::Div | OpCode::Rem | OpCode::And | OpCode::Or | OpCode::Xor | OpCode::Eql | OpCode::Lt | OpCode::Gt | OpCode::Shl | OpCode::Shr =>
            match (x, y) { (Value::Int(a), Value::Int(b)) => match int_bin(op, a@, b@) { Some(n) => Some(vint(n)), None => None }, _ => None },
        // bit-bounded exponentiation: x = base (top), y = exponent; fails when the exponent needs more than k + 1 bits
        OpCode::Exp(k) => match (x, y) { (Value::Int(b), Value::Int(e)) => match exp_sem(b@, e@, k as nat) { Some(n) => Some(vint(n)), None => None }, _ => None },
        // vectors: x = top
        OpCode::VRef => match (as_vec(x), as_u16(y)) { (Some(v), Some(i)) => if i < v.len() { Some(v[i as int]) } else { None }, _ => None },
        OpCode::VAppend => match (as_vec(x), as_vec(y)) { (Some(a), Some(b)) => Some(vvec(a + b)), _ => None },
        OpCode::VPush => match as_vec(x) { Some(v) => Some(vvec(v.push(y))), None => None },
        OpCode::VCons => match as_vec(y) { Some(v) => Some(vvec(v.insert(0, x))), None => None },
        // bytes
        OpCode::BRef => match (as_bytes(x), as_u16(y)) { (Some(v), Some(i)) => if i < v.len() { Some(vint(v[i as int] as nat)) } else { None }, _ => None },
        OpCode::BAppend => match (as_bytes(x), as_bytes(y)) { (Some(a), Some(b)) => Some(vbytes(a + b)), _ => None },
        OpCode::BPush => match (as_bytes(x), as_int(y)) { (Some(v), Some(n)) => Some(vbytes(v.push((n % 256) as u8))), _ => None },
        OpCode::BCons => match (as_int(x), as_bytes(y)) { (Some(n), Some(v)) => Some(vbytes(v.insert(0, (n % 256) as u8))), _ => None },
        _ => None,
    }
}
pub open spec fn sem_mon(op: OpCode, x: Value) -> Option<Value> {
    match op {
        OpCode::Not => match x { Value::Int(a) => Some(vint((m256() - 1 - a@) as nat)), _ => None },
        OpCode::VLength => match as_vec(x) { Some(v) => Some(vint(v.len())), None => None },
        OpCode::BLength => match as_bytes(x) { Some(v) => Some(vint(v.len())), None => None },
        OpCode::TypeQ => Some(vint(match x { Value::Int(_) => 0nat, Value::Bytes(_) => 1nat, Value::Vector(_) => 2nat })),
        OpCode::ItoB => match x { Value::Int(a) => Some(vbytes(be_bytes(a@))), _ => None },
        OpCode::BtoI => match as_bytes(x) { Some(b) => if b.len() == 32 { Some(vint(be_value(b))) } else { None }, None => None },
        OpCode::Hash(n) => match as_bytes(x) { Some(b) => if b.len() > n { None } else { Some(vbytes(h1(b).0@)) }, None => None },
        _ => None,
    }
}
pub open spec fn sem_tri(op: OpCode, x: Value, y: Value, z: Value) -> Option<Value> {
    match op {
        OpCode::VSet => match (as_vec(x), as_u16(y)) { (Some(v), Some(i)) => if i < v.len() { Some(vvec(v.update(i as int, z))) } else { None }, _ => None },
        OpCode::BSet => match (as_bytes(x), as_u16(y), as_int(z)) { (Some(v), Some(i), Some(n)) => if i < v.len() { Some(vbytes(v.update(i as int, (n % 256) as u8))) } else { None }, _ => None },
        OpCode::VSlice => match (as_u16(y), as_u16(z), x) { (Some(b), Some(e), Value::Vector(v)) => if e > v@.len() || e < b { Some(vvec(Seq::empty())) } else { Some(vvec(v@.subrange(b as int, e as int))) }, _ => None },
        OpCode::BSlice => match (as_u16(y), as_u16(z), x) { (Some(b), Some(e), Value::Bytes(v)) => if e > v@.len() || e < b { Some(vbytes(Seq::empty())) } else { Some(vbytes(v@.subrange(b as int, e as int))) }, _ => None },
        // x = message (top), y = public key, z = signature
        OpCode::SigEOk(n) => match as_bytes(y) {
            None => None,
            Some(pk) => if pk.len() > 32 { Some(vint(0)) } else if pk.len() != 32 { None } else { match as_bytes(x) {
                None => None,
                Some(msg) => if msg.len() > n { None } else { match as_bytes(z) {
                    None => None,
                    Some(sig) => if sig.len() > 64 { Some(vint(0)) } else { Some(vint(b2n(sig_ok(pk_of(pk), msg, sig)))) } } } } } },
        _ => None,
    }
}

/// machine state (the instruction list is fixed)
pub struct VM { pub stack: Seq<Value>, pub heap: Map<u16, Value>, pub pc: int, pub loops: Seq<LoopState> }
pub open spec fn pop1(s: Seq<Value>) -> Seq<Value> { s.take(s.len() - 1) }
pub open spec fn top(s: Seq<Value>, k: int) -> Value { s[s.len() - 1 - k] }
/// one instruction, BEFORE the loop bookkeeping of update_pc_state; `m.pc` already points past the instruction
pub open spec fn sem_inner(op: OpCode, m: VM) -> Option<VM> {
    let n = m.stack.len();
    match op {
        OpCode::Noop => Some(m),
        OpCode::Add | OpCode::Sub | OpCode::Mul | OpCode::Div | OpCode::Rem | OpCode::And | OpCode::Or | OpCode::Xor | OpCode::Eql | OpCode::Lt | OpCode::Gt | OpCode::Shl | OpCode::Shr
        | OpCode::VRef | OpCode::VAppend | OpCode::VPush | OpCode::VCons | OpCode::BRef | OpCode::BAppend | OpCode::BPush | OpCode::BCons | OpCode::Exp(_) =>
            if n < 2 { None } else { match sem_bin(op, top(m.stack, 0), top(m.stack, 1)) { Some(v) => Some(VM { stack: m.stack.take(n - 2).push(v), ..m }), None => None } },
        OpCode::Not | OpCode::VLength | OpCode::BLength | OpCode::TypeQ | OpCode::ItoB | OpCode::BtoI | OpCode::Hash(_) =>
            if n < 1 { None } else { match sem_mon(op, top(m.stack, 0)) { Some(v) => Some(VM { stack: m.stack.take(n - 1).push(v), ..m }), None => None } },
        OpCode::VSet | OpCode::BSet | OpCode::VSlice | OpCode::BSlice | OpCode::SigEOk(_) =>
            if n < 3 { None } else { match sem_tri(op, top(m.stack, 0), top(m.stack, 1), top(m.stack, 2)) { Some(v) => Some(VM { stack: m.stack.take(n - 3).push(v), ..m }), None => None } },
        OpCode::Store => if n < 2 { None } else { match as_u16(top(m.stack, 0)) { Some(a) => Some(VM { stack: m.stack.take(n - 2), heap: m.heap.insert(a as u16, top(m.stack, 1)), ..m }), None => None } },
        OpCode::Load => if n < 1 { None } else { match as_u16(top(m.stack, 0)) { Some(a) => if m.heap.contains_key(a as u16) { Some(VM { stack: m.stack.take(n - 1).push(m.heap[a as u16]), ..m }) } else { None }, None => None } },
        OpCode::StoreImm(idx) => if n < 1 { None } else { Some(VM { stack: m.stack.take(n - 1), heap: m.heap.insert(idx, top(m.stack, 0)), ..m }) },
        OpCode::LoadImm(idx) => if m.heap.contains_key(idx) { Some(VM { stack: m.stack.push(m.heap[idx]), ..m }) } else { None },
        OpCode::VEmpty => Some(VM { stack: m.stack.push(vvec(Seq::empty())), ..m }),
        OpCode::BEmpty => Some(VM { stack: m.stack.push(vbytes(Seq::empty())), ..m }),
        OpCode::PushB(b) => Some(VM { stack: m.stack.push(vbytes(b@)), ..m }),
        OpCode::PushI(x) => Some(VM { stack: m.stack.push(Value::Int(x)), ..m }),
        OpCode::PushIC(x) => Some(VM { stack: m.stack.push(Value::Int(x)), ..m }),
        OpCode::Dup => if n < 1 { None } else { Some(VM { stack: m.stack.push(top(m.stack, 0)), ..m }) },
        // forward-only relative jumps
        OpCode::Jmp(gap) => Some(VM { pc: m.pc + gap, ..m }),
        OpCode::Bez(gap) => if n < 1 { None } else { Some(VM { stack: m.stack.take(n - 1), pc: if as_int(top(m.stack, 0)) == Some(0nat) { m.pc + gap } else { m.pc }, ..m }) },
        OpCode::Bnz(gap) => if n < 1 { None } else { Some(VM { stack: m.stack.take(n - 1), pc: if as_int(top(m.stack, 0)) != Some(0nat) { m.pc + gap } else { m.pc }, ..m }) },
        // counted loop over the next `len` instructions; must nest inside the enclosing loop
        OpCode::Loop(iters, len) => if iters == 0 { Some(VM { pc: m.pc + len, ..m }) } else {
            if m.loops.len() > 0 && m.pc + len - 1 > m.loops.last().end { None }
            else { Some(VM { loops: m.loops.push(LoopState { begin: m.pc as usize, end: (m.pc + len - 1) as usize, iterations_left: (iters - 1) as u16 }), ..m }) } },
        _ => None,
    }
}
/// instructions whose arm of `step` is under contract in this build
pub open spec fn covered(op: OpCode) -> bool {
    true
}
/// loop bookkeeping after every instruction: leave every loop whose end has been passed and which is exhausted or was jumped
/// out of; if the innermost remaining loop has just finished an iteration and has iterations left, go back to its start
pub open spec fn sem_update(m: VM) -> VM decreases m.loops.len() {
    if m.loops.len() == 0 { m } else {
        let st = m.loops.last();
        if m.pc > st.end {
            if st.iterations_left > 0 && m.pc - st.end == 1 {
                VM { pc: st.begin as int, loops: m.loops.drop_last().push(LoopState { iterations_left: (st.iterations_left - 1) as u16, ..st }), ..m }
            } else { sem_update(VM { loops: m.loops.drop_last(), ..m }) }
        } else { m }
    }
}
/// one full step: the instruction, then the loop bookkeeping
pub open spec fn sem_step(op: OpCode, m: VM) -> Option<VM> {
    match sem_inner(op, VM { pc: m.pc + 1, ..m }) { Some(m2) => Some(sem_update(m2)), None => None }
}

/// low 128 bits truncated to a byte = the value modulo 256
pub proof fn lemma_low_byte(n: nat)
    ensures ((n % vstd::arithmetic::power2::pow2(128)) as u128) as u8 == (n % 256) as u8, n % vstd::arithmetic::power2::pow2(128) <= u128::MAX
{
    vstd::arithmetic::power2::lemma2_to64(); vstd::arithmetic::power2::lemma_pow2_adds(64, 64); vstd::arithmetic::power2::lemma_pow2_adds(8, 120);
    vstd::arithmetic::power2::lemma_pow2_pos(120);
    let p120 = vstd::arithmetic::power2::pow2(120) as int; assert(256 * p120 == vstd::arithmetic::power2::pow2(128) as int);
    vstd::arithmetic::div_mod::lemma_mod_mod(n as int, 256, p120);
    assert(forall|lo: u128| #[trigger] (lo as u8) == lo % 256) by (bit_vector);
}

// ---- whole runs (Executor::run_to_end): partial correctness over the one-step semantics
/// the machine after n successful steps from m (None: some step failed, ran off the end of the program, or was not covered by sem_step)
pub open spec fn run_n(instrs: Seq<OpCode>, m: VM, n: nat) -> Option<VM> decreases n {
    if n == 0 { Some(m) } else {
        match run_n(instrs, m, (n - 1) as nat) {
            Some(m1) => if 0 <= m1.pc < instrs.len() && covered(instrs[m1.pc]) { sem_step(instrs[m1.pc], m1) } else { None },
            None => None,
        }
    }
}
/// C10: `res` is the outcome of running `instrs` from machine m0: after some number of successful steps the program counter is at
/// or past the end and res is the value on top of the stack (None on an empty stack), or the next step fails and res is None.
/// (Instructions outside `covered` -- Exp -- are not constrained.)
pub open spec fn run_result(instrs: Seq<OpCode>, m0: VM, res: Option<Value>) -> bool {
    exists|n: nat| match #[trigger] run_n(instrs, m0, n) {
        Some(m) => (m.pc >= instrs.len() && res == (if m.stack.len() > 0 { Some(m.stack[m.stack.len() - 1]) } else { None::<Value> }))
                   || (0 <= m.pc < instrs.len() && !covered(instrs[m.pc]))
                   || (0 <= m.pc < instrs.len() && covered(instrs[m.pc]) && sem_step(instrs[m.pc], m) is None && res is None),
        None => false,
    }
}
pub open spec fn hits_uncovered(instrs: Seq<OpCode>, m0: VM) -> bool {
    exists|k: nat| match #[trigger] run_n(instrs, m0, k) { Some(m) => 0 <= m.pc < instrs.len() && !covered(instrs[m.pc]), None => false }
}
pub proof fn lemma_uncovered_any(instrs: Seq<OpCode>, m0: VM, res: Option<Value>)
    requires hits_uncovered(instrs, m0) ensures run_result(instrs, m0, res)
{
    let k = choose|k: nat| match #[trigger] run_n(instrs, m0, k) { Some(m) => 0 <= m.pc < instrs.len() && !covered(instrs[m.pc]), None => false };
    assert(match run_n(instrs, m0, k) { Some(m) => (0 <= m.pc < instrs.len() && !covered(instrs[m.pc])), None => false });
}

// ---- the covenant environment on the heap (Executor::new_from_env; C04: a covenant is run against its own coin's environment)
/// heap address -> value: 0 spending transaction, 1 its hash; with an environment: 2/3 the coin's id (creating transaction hash, index), 4 its covenant hash,
/// 5 value, 6 denomination, 7 additional data, 8 creation height, 9 position among the inputs, 10 previous block's header
pub open spec fn env_heap(tx: Transaction, env: Option<CovenantEnv>) -> Map<u16, Value> {
    let base = Map::<u16, Value>::empty().insert(1u16, vbytes(spec_txhash(tx).0.0@)).insert(0u16, val_of_tx(tx));
    match env {
        None => base,
        Some(e) => base.insert(2u16, vbytes(e.parent_coinid.txhash.0.0@)).insert(3u16, vint(e.parent_coinid.index as nat))
            .insert(4u16, vbytes(e.parent_cdh.coin_data.covhash.0.0@)).insert(5u16, vint(e.parent_cdh.coin_data.value.0 as nat)).insert(6u16, val_of_denom(e.parent_cdh.coin_data.denom))
            .insert(7u16, vbytes(e.parent_cdh.coin_data.additional_data@)).insert(8u16, vint(e.parent_cdh.height.0 as nat)).insert(10u16, val_of_header(e.last_header))
            .insert(9u16, vint(e.spender_index as nat)),
    }
}

// ---- Exp: square-and-multiply computes b^e mod 2^256 within a bit budget
pub open spec fn exp_sem(b: nat, e: nat, k: nat) -> Option<nat> { if e < vstd::arithmetic::power2::pow2((k + 1) as nat) { Some((vstd::arithmetic::power::pow(b as int, e) % (m256() as int)) as nat) } else { None } }
/// one round: (res, b, e) -> (res * b^(e mod 2), b^2, e / 2), all modulo m, keeps res * b^e modulo m
pub proof fn lemma_exp_step(res: int, b: int, e: nat, m: int)
    requires e > 0, m > 0, res >= 0, b >= 0
    ensures ({ let res2 = if e % 2 == 1 { (res * b) % m } else { res }; let b2 = (b * b) % m; (res2 * vstd::arithmetic::power::pow(b2, e / 2)) % m == (res * vstd::arithmetic::power::pow(b, e)) % m })
{
    let h = e / 2; let b2 = (b * b) % m; let res2 = if e % 2 == 1 { (res * b) % m } else { res };
    // vstd::arithmetic::power::pow(b, 2h) == vstd::arithmetic::power::pow(b*b, h)
    vstd::arithmetic::power::lemma_pow_multiplies(b, 2, h);
    assert(vstd::arithmetic::power::pow(b, 2) == b * b) by { vstd::arithmetic::power::lemma_pow1(b); reveal_with_fuel(vstd::arithmetic::power::pow, 3); }
    assert(vstd::arithmetic::power::pow(b, (2 * h) as nat) == vstd::arithmetic::power::pow(b * b, h));
    // vstd::arithmetic::power::pow(b2, h) % m == vstd::arithmetic::power::pow(b*b, h) % m
    vstd::arithmetic::power::lemma_pow_mod_noop(b * b, h, m);
    let p = vstd::arithmetic::power::pow(b * b, h); let p2 = vstd::arithmetic::power::pow(b2, h);
    assert(p2 % m == p % m);
    if e % 2 == 1 {
        assert(e == 2 * h + 1);
        vstd::arithmetic::power::lemma_pow_adds(b, (2 * h) as nat, 1); vstd::arithmetic::power::lemma_pow1(b);
        assert(vstd::arithmetic::power::pow(b, e) == p * b);
        // ((res*b)%m * p2) % m == (res*b*p) % m
        vstd::arithmetic::div_mod::lemma_mul_mod_noop_general(res * b, p2, m);
        vstd::arithmetic::div_mod::lemma_mul_mod_noop_general(res * b, p, m);
        assert((res * b) * p == res * (p * b)) by (nonlinear_arith);
    } else {
        assert(e == 2 * h);
        vstd::arithmetic::div_mod::lemma_mul_mod_noop_general(res, p2, m);
        vstd::arithmetic::div_mod::lemma_mul_mod_noop_general(res, p, m);
    }
}
/// the loop ended with e0 / 2^it == 0 after it <= k + 1 rounds: the exponent fits the bit budget
pub proof fn lemma_exp_budget_ok(e0: nat, it: nat, kk: nat)
    requires e0 / vstd::arithmetic::power2::pow2(it) == 0, it <= kk + 1
    ensures e0 < vstd::arithmetic::power2::pow2((kk + 1) as nat)
{
    vstd::arithmetic::power2::lemma_pow2_pos(it);
    let p = vstd::arithmetic::power2::pow2(it) as int;
    vstd::arithmetic::div_mod::lemma_fundamental_div_mod(e0 as int, p); vstd::arithmetic::div_mod::lemma_mod_bound(e0 as int, p);
    assert(e0 < p) by (nonlinear_arith) requires e0 as int == p * ((e0 as int) / p) + (e0 as int) % p, (e0 as int) / p == 0, (e0 as int) % p < p;
    if it < kk + 1 { vstd::arithmetic::power2::lemma_pow2_strictly_increases(it, (kk + 1) as nat); }
}
/// the budget ran out (k + 1 rounds done) with e0 / 2^(k+1) > 0: the exponent does not fit
pub proof fn lemma_exp_budget_fail(e0: nat, kk: nat)
    requires e0 / vstd::arithmetic::power2::pow2((kk + 1) as nat) > 0
    ensures e0 >= vstd::arithmetic::power2::pow2((kk + 1) as nat)
{
    vstd::arithmetic::power2::lemma_pow2_pos((kk + 1) as nat);
    let p = vstd::arithmetic::power2::pow2((kk + 1) as nat) as int;
    if (e0 as int) < p { vstd::arithmetic::div_mod::lemma_basic_div(e0 as int, p); }
}

// ---- C04: the standard signature covenants (lib/melvm/src/lib.rs std_ed25519_pk_legacy / std_ed25519_pk_new)
pub open spec fn is_push_int(op: OpCode, n: nat) -> bool { match op { OpCode::PushI(x) => x@ == n, _ => false } }
pub open spec fn is_push_bytes(op: OpCode, b: Seq<u8>) -> bool { match op { OpCode::PushB(v) => v@ == b, _ => false } }
/// the eight instructions of a standard signature covenant; `first` is PushI(0) (legacy: always the first signature) or LoadImm(9) (new: the
/// signature at the spender's own input position)
pub open spec fn is_std_sig(ops: Seq<OpCode>, pk: Seq<u8>, legacy: bool) -> bool {
    &&& ops.len() == 8 && (if legacy { is_push_int(ops[0], 0) } else { ops[0] == OpCode::LoadImm(9) })
    &&& is_push_int(ops[1], 6) && ops[2] == OpCode::LoadImm(0) && ops[3] == OpCode::VRef && ops[4] == OpCode::VRef
    &&& is_push_bytes(ops[5], pk) && ops[6] == OpCode::LoadImm(1) && ops[7] == OpCode::SigEOk(32)
}
pub open spec fn truthy_res(res: Option<Value>) -> bool { res is Some && truthy(res->Some_0) }
/// which signature slot a standard covenant reads
pub open spec fn std_slot(legacy: bool, env: Option<CovenantEnv>) -> Option<nat> { if legacy { Some(0nat) } else { match env { Some(e) => Some(e.spender_index as nat), None => None::<nat> } } }
pub open spec fn std_m0(tx: Transaction, env: Option<CovenantEnv>) -> VM { VM { stack: Seq::<Value>::empty(), heap: env_heap(tx, env), pc: 0, loops: Seq::<LoopState>::empty() } }
pub open spec fn std_sigs(tx: Transaction) -> Seq<Value> { Seq::new(tx.sigs@.len(), |j: int| vbytes(tx.sigs@[j]@)) }
pub open spec fn std_out(pk: Seq<u8>, tx: Transaction, i: nat) -> Value { let sg = tx.sigs@[i as int]@; if sg.len() > 64 { vint(0) } else { vint(b2n(sig_ok(pk_of(pk), spec_txhash(tx).0.0@, sg))) } }
pub proof fn lemma_run_n_step(ops: Seq<OpCode>, m0: VM, k: nat, mk: VM)
    requires run_n(ops, m0, k) == Some(mk), 0 <= mk.pc < ops.len()
    ensures run_n(ops, m0, k + 1) == sem_step(ops[mk.pc], mk)
{ reveal_with_fuel(run_n, 2); assert(covered(ops[mk.pc])); }
/// instructions 0..4: load the slot index, the transaction's signature vector and the signature in that slot
pub proof fn lemma_std_prefix(ops: Seq<OpCode>, pk: Seq<u8>, legacy: bool, tx: Transaction, env: Option<CovenantEnv>)
    requires is_std_sig(ops, pk, legacy)
    ensures match std_slot(legacy, env) {
        None => run_n(ops, std_m0(tx, env), 1) is None,
        Some(i) => (forall|k: nat| k <= 4 ==> (#[trigger] run_n(ops, std_m0(tx, env), k)) is Some && run_n(ops, std_m0(tx, env), k)->Some_0.pc == k)
                   && (if i >= tx.sigs@.len() { run_n(ops, std_m0(tx, env), 5) is None } else { run_n(ops, std_m0(tx, env), 5) == Some(VM { stack: seq![vbytes(tx.sigs@[i as int]@)], pc: 5, ..std_m0(tx, env) }) }) },
            run_n(ops, std_m0(tx, env), 0) == Some(std_m0(tx, env))
{
    broadcast use axiom_u256_of, axiom_catvec_of, axiom_u256_range, axiom_u256_ext;
    vstd::arithmetic::power2::lemma2_to64(); vstd::arithmetic::power2::lemma_pow2_adds(64, 64); vstd::arithmetic::power2::lemma_pow2_adds(128, 128);
    let m0 = std_m0(tx, env); let heap = env_heap(tx, env);
    assert(run_n(ops, m0, 0) == Some(m0)) by { reveal_with_fuel(run_n, 1); }
    assert(heap.contains_key(0u16) && heap[0u16] == val_of_tx(tx));
    let slot = std_slot(legacy, env);
    if slot is None {
        assert(!heap.contains_key(9u16));
        assert(sem_step(ops[0], m0) is None);
        lemma_run_n_step(ops, m0, 0, m0);
    } else {
        let i = slot->Some_0;
        let m1 = VM { stack: seq![vint(i)], pc: 1, ..m0 };
        assert(sem_step(ops[0], m0) == Some(m1)) by { if legacy { let x = ops[0]->PushI_0; assert(Value::Int(x) == vint(0)); assert(m0.stack.push(Value::Int(x)) =~= m1.stack); }
            else { assert(heap.contains_key(9u16) && heap[9u16] == vint(i)); assert(m0.stack.push(heap[9u16]) =~= m1.stack); } }
        lemma_run_n_step(ops, m0, 0, m0);
        let m2 = VM { stack: seq![vint(i), vint(6)], pc: 2, ..m0 };
        assert(sem_step(ops[1], m1) == Some(m2)) by { let x = ops[1]->PushI_0; assert(Value::Int(x) == vint(6)); assert(m1.stack.push(Value::Int(x)) =~= m2.stack); }
        lemma_run_n_step(ops, m0, 1, m1);
        let m3 = VM { stack: seq![vint(i), vint(6), val_of_tx(tx)], pc: 3, ..m0 };
        assert(sem_step(ops[2], m2) == Some(m3)) by { assert(m2.stack.push(heap[0u16]) =~= m3.stack); }
        lemma_run_n_step(ops, m0, 2, m2);
        let sigsv = val_vec(tx.sigs@, |b: Bytes| vbytes(b@));
        let m4 = VM { stack: seq![vint(i), sigsv], pc: 4, ..m0 };
        assert(sem_step(ops[3], m3) == Some(m4)) by {
            let fields = seq![vint((tx.kind as u8) as nat), val_vec(tx.inputs@, |c: CoinID| val_of_coinid(c)), val_vec(tx.outputs@, |c: CoinData| val_of_coindata(c)), vint(tx.fee.0 as nat),
                              val_vec(tx.covenants@, |b: Bytes| vbytes(b@)), vbytes(tx.data@), sigsv];
            assert(val_of_tx(tx) == vvec(fields));
            assert(as_vec(val_of_tx(tx)) == Some(fields)); assert(as_u16(vint(6)) == Some(6nat)); assert(fields[6] == sigsv);
            assert(top(m3.stack, 0) == val_of_tx(tx) && top(m3.stack, 1) == vint(6));
            assert(m3.stack.take(1).push(sigsv) =~= m4.stack);
        }
        lemma_run_n_step(ops, m0, 3, m3);
        let sigs = Seq::new(tx.sigs@.len(), |j: int| vbytes(tx.sigs@[j]@));
        assert(as_vec(sigsv) == Some(sigs));
        if legacy { assert(i == 0); } else { assert(env is Some); assert(i == env->Some_0.spender_index as nat); }
        vstd::arithmetic::power2::lemma_pow2_strictly_increases(8, 256); assert(vstd::arithmetic::power2::pow2(8) == 256);
        assert(i < 256 && i < m256());
        assert(u256_of(i)@ == i);
        assert(as_u16(vint(i)) == Some(i));
        assert(top(m4.stack, 0) == sigsv && top(m4.stack, 1) == vint(i));
        lemma_run_n_step(ops, m0, 4, m4);
        if i >= tx.sigs@.len() { assert(sem_step(ops[4], m4) is None); }
        else { let sg = tx.sigs@[i as int]@; let m5 = VM { stack: seq![vbytes(sg)], pc: 5, ..m0 };
            assert(sem_step(ops[4], m4) == Some(m5)) by { assert(sigs[i as int] == vbytes(sg)); assert(m4.stack.take(0).push(vbytes(sg)) =~= m5.stack); } }
        assert forall|k: nat| k <= 4 implies (#[trigger] run_n(ops, m0, k)) is Some && run_n(ops, m0, k)->Some_0.pc == k by {
            if k == 0 { } else if k == 1 { assert(run_n(ops, m0, 1) == Some(m1)); } else if k == 2 { assert(run_n(ops, m0, 2) == Some(m2)); } else if k == 3 { assert(run_n(ops, m0, 3) == Some(m3)); } else { assert(run_n(ops, m0, 4) == Some(m4)); } }
    }
}
/// instructions 5..7: push the key and the signature-free hash, check the signature; then the program has ended
pub proof fn lemma_std_suffix(ops: Seq<OpCode>, pk: Seq<u8>, legacy: bool, tx: Transaction, env: Option<CovenantEnv>, i: nat)
    requires is_std_sig(ops, pk, legacy), pk.len() == 32, i < tx.sigs@.len(), run_n(ops, std_m0(tx, env), 5) == Some(VM { stack: seq![vbytes(tx.sigs@[i as int]@)], pc: 5, ..std_m0(tx, env) })
    ensures run_n(ops, std_m0(tx, env), 8) == Some(VM { stack: seq![std_out(pk, tx, i)], pc: 8, ..std_m0(tx, env) }), run_n(ops, std_m0(tx, env), 9) is None
{
    broadcast use axiom_u256_of, axiom_catvec_of, axiom_u256_range;
    let m0 = std_m0(tx, env); let heap = env_heap(tx, env); let sg = tx.sigs@[i as int]@; let th = spec_txhash(tx).0.0@;
    assert(heap.contains_key(1u16) && heap[1u16] == vbytes(th));
    let m5 = VM { stack: seq![vbytes(sg)], pc: 5, ..m0 };
    let m6 = VM { stack: seq![vbytes(sg), vbytes(pk)], pc: 6, ..m0 };
    assert(sem_step(ops[5], m5) == Some(m6)) by { assert(m5.stack.push(vbytes(pk)) =~= m6.stack); }
    lemma_run_n_step(ops, m0, 5, m5);
    let m7 = VM { stack: seq![vbytes(sg), vbytes(pk), vbytes(th)], pc: 7, ..m0 };
    assert(sem_step(ops[6], m6) == Some(m7)) by { assert(m6.stack.push(heap[1u16]) =~= m7.stack); }
    lemma_run_n_step(ops, m0, 6, m6);
    assert(th.len() == 32);
    let out = std_out(pk, tx, i);
    let m8 = VM { stack: seq![out], pc: 8, ..m0 };
    assert(sem_step(ops[7], m7) == Some(m8)) by {
        assert(top(m7.stack, 0) == vbytes(th) && top(m7.stack, 1) == vbytes(pk) && top(m7.stack, 2) == vbytes(sg));
        assert(as_bytes(vbytes(pk)) == Some(pk) && as_bytes(vbytes(th)) == Some(th) && as_bytes(vbytes(sg)) == Some(sg));
        assert(sem_tri(OpCode::SigEOk(32), vbytes(th), vbytes(pk), vbytes(sg)) == Some(out));
        assert(m7.stack.take(0).push(out) =~= m8.stack);
    }
    lemma_run_n_step(ops, m0, 7, m7);
    assert(run_n(ops, m0, 9) is None) by { reveal_with_fuel(run_n, 2); }
}
/// a run of n steps exists only if every shorter run exists
pub proof fn lemma_run_n_prefix(ops: Seq<OpCode>, m0: VM, k: nat, n: nat)
    requires run_n(ops, m0, n) is Some, k <= n ensures run_n(ops, m0, k) is Some decreases n
{ reveal_with_fuel(run_n, 2); if n > k { lemma_run_n_prefix(ops, m0, k, (n - 1) as nat); } }
//@LEMMA C04 lemma_std_sig_covenant a standard signature covenant evaluates to a true value exactly when the transaction carries, in the expected signature slot, a valid Ed25519 signature by the named key over the signature-free transaction hash
pub proof fn lemma_std_sig_covenant(ops: Seq<OpCode>, pk: Seq<u8>, legacy: bool, tx: Transaction, env: Option<CovenantEnv>, res: Option<Value>)
    requires is_std_sig(ops, pk, legacy), pk.len() == 32, run_result(ops, std_m0(tx, env), res)
    ensures truthy_res(res) <==> (match std_slot(legacy, env) { Some(i) => i < tx.sigs@.len() && tx.sigs@[i as int]@.len() <= 64 && sig_ok(pk_of(pk), spec_txhash(tx).0.0@, tx.sigs@[i as int]@), None => false })
{
    broadcast use axiom_u256_of, axiom_u256_range;
    vstd::arithmetic::power2::lemma2_to64(); vstd::arithmetic::power2::lemma_pow2_adds(64, 64); vstd::arithmetic::power2::lemma_pow2_adds(128, 128);
    let m0 = std_m0(tx, env);
    let n = choose|n: nat| match #[trigger] run_n(ops, m0, n) {
        Some(m) => (m.pc >= ops.len() && res == (if m.stack.len() > 0 { Some(m.stack[m.stack.len() - 1]) } else { None::<Value> }))
                   || (0 <= m.pc < ops.len() && !covered(ops[m.pc]))
                   || (0 <= m.pc < ops.len() && covered(ops[m.pc]) && sem_step(ops[m.pc], m) is None && res is None),
        None => false };
    let mn = run_n(ops, m0, n)->Some_0;
    lemma_std_prefix(ops, pk, legacy, tx, env);
    // in every case: either the run stops with a failing step (res is None) or it reaches pc 8 after exactly 8 steps
    let slot = std_slot(legacy, env);
    if slot is None {
        if n >= 1 { lemma_run_n_none(ops, m0, 1, n); }
        assert(n == 0); assert(mn == m0) by { reveal_with_fuel(run_n, 1); }
        assert(res is None);
    } else {
        let i = slot->Some_0;
        if i >= tx.sigs@.len() {
            if n >= 5 { lemma_run_n_none(ops, m0, 5, n); }
            assert(n <= 4 && mn.pc == n);
            assert(res is None);
        } else {
            lemma_std_suffix(ops, pk, legacy, tx, env, i);
            if n >= 9 { lemma_run_n_none(ops, m0, 9, n); }
            let m8 = VM { stack: seq![std_out(pk, tx, i)], pc: 8, ..m0 };
            if n < 8 { lemma_run_n_prefix(ops, m0, (n + 1) as nat, 8); lemma_run_n_step(ops, m0, n, mn); assert(false); }
            assert(n == 8 && mn == m8);
            assert(res == Some(std_out(pk, tx, i)));
            let sg = tx.sigs@[i as int]@;
            assert(truthy(std_out(pk, tx, i)) <==> (sg.len() <= 64 && sig_ok(pk_of(pk), spec_txhash(tx).0.0@, sg)));
        }
    }
}
/// once a run has stopped it stays stopped
pub proof fn lemma_run_n_none(ops: Seq<OpCode>, m0: VM, k: nat, n: nat)
    requires run_n(ops, m0, k) is None, k <= n ensures run_n(ops, m0, n) is None decreases n
{ reveal_with_fuel(run_n, 2); if n > k { lemma_run_n_none(ops, m0, k, (n - 1) as nat); } }
