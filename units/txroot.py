from spec import *
from _contracts import *

S = "src/state.rs"
SM = "src/smtmapping.rs"
T = "src/state/txset.rs"
UNIT = Unit(
    name="txroot", uses="group_core_axioms",
    prelude=["core.rs", "raw.rs", "iter.rs", "crypto.rs", "state_abs.rs"],
    lemmas=["sums.rs", "iterlem.rs", "coinsview.rs", "tips.rs", "apply.rs", "header.rs", "seal_opaque.rs", "txroot_def.rs"],
    items=[
        TypeItem(S, "struct", "UnsealedState"),
        Fn(S, "tip_908", impl="UnsealedState", home="C07", implicit_props=("C09",), ensures=[C("rule", "res == spec_tip908(*self)", "C07", char=True)]),
        Fn(S, "tip_condition", impl="UnsealedState", mode="assume", **st_tip_condition()),
        TypeItem("src/tip_heights.rs", "const", "TIP_908_HEIGHT"),
        Fn(T, "iter", impl="TransactionSet", mode="assume", sig_subst=[("impl Iterator<Item = &Transaction>", "Vec<&Transaction>")], **ts_iter()),
        Fn(SM, "new", impl="SmtMapping", mode="assume", wrap=SMT_WRAP, **smt_new()),
        Fn(SM, "insert", impl="SmtMapping", mode="assume", wrap=SMT_WRAP, **smt_insert()),
        Fn(SM, "root_hash", impl="SmtMapping", mode="assume", wrap=SMT_WRAP, **smt_root_hash()),
        Fn(S, "tip908_transactions", impl="UnsealedState", home="C07", implicit_props=("C09", "C07", "C03"), **st_tip908_transactions(),
           rewrites=[("PIPE",), ("SUB", "vv.sort_unstable();", "sort_unstable_bytes(&mut vv);"),
                     ("SUBRE", r"for tx in self\.transactions\.iter\(\)([^{]*?)\s*\{", """let __txs = self.transactions.iter()${1}; let ghost m = self.transactions@;
        let ghost ks = choose|ks: Seq<TxHash>| is_enum(m, ks) && __txs@.len() == ks.len() && (forall|i: int| 0 <= i < ks.len() ==> *(#[trigger] __txs@[i]) == m[ks[i]]);
        for tx in __txs {""")],
           injects=[Inject(("before", "vv.push(complex);"), "let ghost lf = complex@; proof { assert(lf =~= leaf_of(*tx)); }"),
                    Inject(("before", "sort_unstable_bytes(&mut vv);"), """let ghost lv = vecs_view(vv@);
                        proof { lemma_leaves(m, ks, lv); }"""),
                    Inject(("after_stmt", "sort_unstable_bytes(&mut vv);"), "proof { assert(seq_iset(vecs_view(vv@)) == leaf_iset(m)); }")],
           loops=[Loop(0, binder="it", body_entry="let ghost vv0 = vv@; proof { assert(*tx == m[ks[it.index@ as int]]); assert(vecs_view(vv0).len() == it.index@); assert(vv0.len() == it.index@); }",
                       body_exit="proof { let n = it.index@ as int; assert(vv@.len() == n + 1); assert(vecs_view(vv@)[n] == lf); assert forall|j: int| 0 <= j < n implies vecs_view(vv@)[j] == leaf_of(m[ks[j]]) by { assert(vecs_view(vv@)[j] == vv@[j]@); assert(vv@[j] == vv0[j]); assert(vecs_view(vv0)[j] == vv0[j]@); } assert(vecs_view(vv@) =~= Seq::new((n + 1) as nat, |j: int| leaf_of(m[ks[j]]))); }",
                       invariants=[C("enum", "is_enum(m, ks) && m == self.transactions@ && it.seq().len() == ks.len() && (forall|i: int| 0 <= i < ks.len() ==> *(#[trigger] it.seq()[i]) == m[ks[i]])", "C07"),
                                   C("leaves", "vecs_view(vv@) == Seq::new(it.index@ as nat, |j: int| leaf_of(m[ks[j]]))", "C07")])]),
        Fn(S, "transactions_root_hash", impl="UnsealedState", home="C07", implicit_props=("C09", "C07", "C03"),
           **st_txroot(),
           rewrites=[("SUB", "db.get_tree(Default::default())", "db.get_tree(zero_root())"),
                     ("SUBRE", r"for txn in self\.transactions\.iter\(\)([^{]*?)\s*\{", """let __txs = self.transactions.iter()${1};
                let ghost ks = choose|ks: Seq<TxHash>| is_enum(self.transactions@, ks) && __txs@.len() == ks.len() && (forall|i: int| 0 <= i < ks.len() ==> *(#[trigger] __txs@[i]) == self.transactions@[ks[i]]);
                for txn in __txs {""")],
           loops=[Loop(0, binder="it", body_entry="proof { assert(*txn == self.transactions@[ks[it.index@ as int]]); assert(ks.contains(ks[it.index@ as int])); }", invariants=[
               C("built", """is_enum(self.transactions@, ks) && it.seq().len() == ks.len() && (forall|i: int| 0 <= i < ks.len() ==> *(#[trigger] it.seq()[i]) == self.transactions@[ks[i]])
                     && (forall|h: TxHash| #[trigger] smt@.contains_key(h) <==> exists|i: int| 0 <= i < it.index@ && ks[i] == h)
                     && (forall|h: TxHash| #[trigger] smt@.contains_key(h) ==> smt@[h] == self.transactions@[h])""", "C07"),
               C("keyed", "txs_keyed(self.transactions@)", "C07")])],
           injects=[Inject(("before", "smt.root_hash()"), """proof { assert forall|h: TxHash| smt@.contains_key(h) <==> self.transactions@.contains_key(h) by {
                   if self.transactions@.contains_key(h) { assert(ks.contains(h)); let i = choose|i: int| 0 <= i < ks.len() && ks[i] == h; }
                   if smt@.contains_key(h) { let i = choose|i: int| 0 <= i < ks.len() && ks[i] == h; assert(ks.contains(ks[i])); } }
               assert(smt@ =~= self.transactions@); }""")]),
    ],
)
