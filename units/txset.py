from spec import *
from _contracts import *

T = "src/state/txset.rs"
UNIT = Unit(
    name="txset", uses="group_core_axioms",
    prelude=["core.rs", "iter.rs", "imbl.rs"],
    lemmas=["sums.rs"],
    items=[
        TypeItem(T, "struct", "TransactionSet", subst=[("inner:", "pub inner:")]),
        Raw("impl View for TransactionSet { type V = Map<TxHash, Transaction>; open spec fn view(&self) -> Map<TxHash, Transaction> { self.inner@ } }"),
        Fn(T, "insert", impl="TransactionSet", home="C02", implicit_props=("C09", "C02"), **ts_insert()),
        Fn(T, "iter", impl="TransactionSet", home="C07", implicit_props=("C09", "C07"), sig_subst=[("impl Iterator<Item = &Transaction>", "Vec<&Transaction>")], **ts_iter(),
           rewrites=[("SUB", "self.inner.values()", """{ let r = self.inner.values(); proof { let ks = choose|ks: Seq<TxHash>| is_enum(self.inner@, ks) && r@.len() == ks.len() && (forall|i: int| 0 <= i < ks.len() ==> *(#[trigger] r@[i]) == self.inner@[ks[i]]); assert(is_enum(self@, ks)); } r }""")]),
        Fn(T, "iter_hashes", impl="TransactionSet", home="C07", implicit_props=("C09", "C07"), sig_subst=[("impl Iterator<Item = TxHash> + '_", "Vec<TxHash>")],
           ensures=[C("keys", "is_enum(self@, res@)", "C07", "C03")]),
        Fn(T, "is_empty", impl="TransactionSet", home="C07", implicit_props=("C09", "C07"), ensures=[C("empty", "res == (self@.len() == 0)", "C07")]),
    ],
)
