// C15/C16 spec functions (hand-written from the property statements)
/// C15 request selection (genuine requests only: right kind, unspent outputs, canonical pool name, non-zero amounts)
pub open spec fn is_swap_req<C: ContentAddrStore>(s: UnsealedState<C>, tx: Transaction) -> bool {
    &&& tx.kind == TxKind::Swap && tx.outputs@.len() > 0 && s.coins@.coins.contains_key(cid(tx, 0))
    &&& spec_req_key(tx.data@) is Some && s.pools@.contains_key(spec_req_key(tx.data@)->Some_0) && pool_live(s.pools@[spec_req_key(tx.data@)->Some_0])
    &&& (tx.outputs@[0].denom == spec_req_key(tx.data@)->Some_0.left || tx.outputs@[0].denom == spec_req_key(tx.data@)->Some_0.right)
    &&& tx.outputs@[0].value.0 > 0
}
pub open spec fn is_deposit_req<C: ContentAddrStore>(s: UnsealedState<C>, tx: Transaction) -> bool {
    &&& tx.kind == TxKind::LiqDeposit && tx.outputs@.len() >= 2 && s.coins@.coins.contains_key(cid(tx, 0)) && s.coins@.coins.contains_key(cid(tx, 1))
    &&& spec_req_key(tx.data@) is Some && tx.outputs@[0].value.0 > 0 && tx.outputs@[1].value.0 > 0
    &&& tx.outputs@[0].denom == spec_req_key(tx.data@)->Some_0.left && tx.outputs@[1].denom == spec_req_key(tx.data@)->Some_0.right
}
pub open spec fn is_withdraw_req<C: ContentAddrStore>(s: UnsealedState<C>, tx: Transaction) -> bool {
    &&& tx.kind == TxKind::LiqWithdraw && tx.outputs@.len() == 1 && s.coins@.coins.contains_key(cid(tx, 0))
    &&& spec_req_key(tx.data@) is Some && s.pools@.contains_key(spec_req_key(tx.data@)->Some_0) && tx.outputs@[0].value.0 > 0
    &&& tx.outputs@[0].denom == spec_liq_denom(spec_req_key(tx.data@)->Some_0)
}
/// the selected requests are exactly the block's transactions satisfying the predicate (in the set's iteration order)
pub open spec fn selected(txs: Map<TxHash, Transaction>, res: Seq<Transaction>, p: spec_fn(Transaction) -> bool) -> bool {
    exists|ks: Seq<TxHash>| #[trigger] is_enum(txs, ks) && res == Seq::new(ks.len(), |i: int| txs[ks[i]]).filter(p)
}
pub open spec fn spec_multiply_frac(x: int, n: int, d: int) -> int { sat128((x * n) / d) }
/// equal fractions have equal floors of any non-negative multiple: floor(x*n1/d1) == floor(x*n2/d2) when n1/d1 == n2/d2
pub proof fn lemma_floor_frac_eq(x: int, n1: int, d1: int, n2: int, d2: int)
    requires x >= 0, n1 >= 0, n2 >= 0, d1 > 0, d2 > 0, n1 * d2 == n2 * d1
    ensures (x * n1) / d1 == (x * n2) / d2
{
    let a = x * n1; let c = x * n2;
    assert(a * d2 == c * d1) by (nonlinear_arith) requires a == x * n1, c == x * n2, n1 * d2 == n2 * d1;
    assert(a >= 0) by (nonlinear_arith) requires a == x * n1, x >= 0, n1 >= 0;
    assert(c >= 0) by (nonlinear_arith) requires c == x * n2, x >= 0, n2 >= 0;
    let q = a / d1;
    vstd::arithmetic::div_mod::lemma_fundamental_div_mod(a, d1);
    vstd::arithmetic::div_mod::lemma_mod_bound(a, d1);
    let r1 = a % d1;
    assert(a == d1 * q + r1 && 0 <= r1 < d1);
    // c*d1 == a*d2 == (d1*q + r1)*d2  =>  d1*(c - q*d2) == r1*d2, with 0 <= r1*d2 < d1*d2  =>  0 <= c - q*d2 < d2
    let r2 = c - q * d2;
    assert(d1 * r2 == r1 * d2) by (nonlinear_arith) requires a * d2 == c * d1, a == d1 * q + r1, r2 == c - q * d2;
    assert(0 <= r2 < d2) by (nonlinear_arith) requires d1 * r2 == r1 * d2, 0 <= r1 < d1, d1 > 0, d2 > 0;
    vstd::arithmetic::div_mod::lemma_fundamental_div_mod_converse(c, d2, q, r2);
}

// ---- settlement of the swap requests of one pool (C15)
pub open spec fn req_value(tx: Transaction, d: Denom) -> int { if tx.outputs@[0].denom == d { tx.outputs@[0].value.0 as int } else { 0 } }
/// saturating total of the requests paying in denomination `d` (first n requests, in order)
pub open spec fn side_total(swaps: Seq<Transaction>, d: Denom, n: int) -> int decreases n {
    if n <= 0 { 0 } else { sat128(side_total(swaps, d, n - 1) + req_value(swaps[n - 1], d)) }
}
pub open spec fn imin2(a: int, b: int) -> int { if a <= b { a } else { b } }
/// what a swap request's coin becomes: the other side's denomination, its pro-rata share (rounded down, capped at the maximum
/// coin value) of what the pool paid out for that side; covenant hash and additional data unchanged; height = this block
pub open spec fn swapped_coin(t: Transaction, k: PoolKey, lw: int, rw: int, tl: int, tr: int, height: BlockHeight, c: CoinDataHeight) -> bool {
    let o = t.outputs@[0];
    &&& c.height == height && c.coin_data.covhash == o.covhash && c.coin_data.additional_data == o.additional_data
    &&& (o.denom == k.left ==> c.coin_data.denom == k.right && c.coin_data.value.0 as int == imin2(spec_multiply_frac(rw, o.value.0 as int, tl), MAX_COINVAL.0 as int))
    &&& (o.denom != k.left ==> c.coin_data.denom == k.left && c.coin_data.value.0 as int == imin2(spec_multiply_frac(lw, o.value.0 as int, tr), MAX_COINVAL.0 as int))
}
pub open spec fn swaps_pre(swaps: Seq<Transaction>, k: PoolKey) -> bool {
    &&& forall|i: int| 0 <= i < swaps.len() ==> 0 < (#[trigger] swaps[i]).outputs@.len() <= 255 && swaps[i].outputs@[0].value.0 > 0 && (swaps[i].outputs@[0].denom == k.left || swaps[i].outputs@[0].denom == k.right)
    &&& forall|i: int, j: int| 0 <= i < j < swaps.len() ==> spec_txhash(#[trigger] swaps[i]) != spec_txhash(#[trigger] swaps[j])
    &&& k.left != k.right
}
/// coins after settling the first n requests: each request's first output replaced as above, nothing else touched
pub open spec fn swaps_settled(c0: IMap<CoinID, CoinDataHeight>, c: IMap<CoinID, CoinDataHeight>, swaps: Seq<Transaction>, n: int, k: PoolKey, lw: int, rw: int, tl: int, tr: int, height: BlockHeight) -> bool {
    &&& forall|id: CoinID| #[trigger] c.contains_key(id) <==> (c0.contains_key(id) || exists|i: int| 0 <= i < n && id == cid(#[trigger] swaps[i], 0))
    &&& forall|i: int| 0 <= i < n ==> swapped_coin(swaps[i], k, lw, rw, tl, tr, height, #[trigger] c[cid(swaps[i], 0)])
    &&& forall|id: CoinID| c.contains_key(id) && !(exists|i: int| 0 <= i < n && id == cid(#[trigger] swaps[i], 0)) ==> #[trigger] c[id] == c0[id]
}
pub proof fn lemma_side_total_ge(swaps: Seq<Transaction>, d: Denom, n: int, i: int)
    requires 0 <= i < n <= swaps.len()
    ensures side_total(swaps, d, n) >= imin2(req_value(swaps[i], d), u128::MAX as int), side_total(swaps, d, n) >= 0
    decreases n
{
    lemma_side_total_nonneg(swaps, d, n - 1);
    if i < n - 1 { lemma_side_total_ge(swaps, d, n - 1, i); }
}
pub proof fn lemma_side_total_nonneg(swaps: Seq<Transaction>, d: Denom, n: int)
    ensures 0 <= side_total(swaps, d, n) <= u128::MAX decreases n
{ if n > 0 { lemma_side_total_nonneg(swaps, d, n - 1); } }
pub proof fn lemma_swaps_settled_step(c0: IMap<CoinID, CoinDataHeight>, c: IMap<CoinID, CoinDataHeight>, swaps: Seq<Transaction>, n: int, k: PoolKey, lw: int, rw: int, tl: int, tr: int, height: BlockHeight, d: CoinDataHeight)
    requires swaps_settled(c0, c, swaps, n, k, lw, rw, tl, tr, height), 0 <= n < swaps.len(), swapped_coin(swaps[n], k, lw, rw, tl, tr, height, d),
             forall|i: int, j: int| 0 <= i < j < swaps.len() ==> spec_txhash(#[trigger] swaps[i]) != spec_txhash(#[trigger] swaps[j])
    ensures swaps_settled(c0, c.insert(cid(swaps[n], 0), d), swaps, n + 1, k, lw, rw, tl, tr, height)
{
    let c2 = c.insert(cid(swaps[n], 0), d);
    assert forall|id: CoinID| #[trigger] c2.contains_key(id) <==> (c0.contains_key(id) || exists|i: int| 0 <= i < n + 1 && id == cid(#[trigger] swaps[i], 0)) by {
        if c2.contains_key(id) { if id == cid(swaps[n], 0) { assert(0 <= n < n + 1 && id == cid(swaps[n], 0)); } else { assert(c.contains_key(id));
            if !c0.contains_key(id) { let i = choose|i: int| 0 <= i < n && id == cid(#[trigger] swaps[i], 0); assert(0 <= i < n + 1 && id == cid(swaps[i], 0)); } } }
        if exists|i: int| 0 <= i < n + 1 && id == cid(#[trigger] swaps[i], 0) { let i = choose|i: int| 0 <= i < n + 1 && id == cid(#[trigger] swaps[i], 0);
            if i < n { assert(c.contains_key(id)); } }
    }
    assert forall|i: int| 0 <= i < n + 1 implies swapped_coin(swaps[i], k, lw, rw, tl, tr, height, #[trigger] c2[cid(swaps[i], 0)]) by {
        if i < n { assert(spec_txhash(swaps[i]) != spec_txhash(swaps[n])); assert(cid(swaps[i], 0) != cid(swaps[n], 0)); }
    }
    assert forall|id: CoinID| c2.contains_key(id) && !(exists|i: int| 0 <= i < n + 1 && id == cid(#[trigger] swaps[i], 0)) implies #[trigger] c2[id] == c0[id] by {
        assert(id != cid(swaps[n], 0)) by { if id == cid(swaps[n], 0) { assert(0 <= n < n + 1 && id == cid(swaps[n], 0)); } }
        assert(!(exists|i: int| 0 <= i < n && id == cid(#[trigger] swaps[i], 0))) by {
            if exists|i: int| 0 <= i < n && id == cid(#[trigger] swaps[i], 0) { let i = choose|i: int| 0 <= i < n && id == cid(#[trigger] swaps[i], 0); assert(0 <= i < n + 1 && id == cid(swaps[i], 0)); } }
    }
}
/// the saturating fold over the mapped request values is side_total
pub proof fn lemma_fold_side(swaps: Seq<Transaction>, d: Denom, mapped: Seq<CoinValue>, accs: Seq<u128>, n: int)
    requires mapped.len() == n, n == swaps.len(), accs.len() == n + 1, accs[0] == 0,
             forall|i: int| 0 <= i < n ==> (#[trigger] mapped[i]).0 as int == req_value(swaps[i], d),
             forall|i: int| 0 <= i < n ==> (#[trigger] accs[i + 1]) as int == sat128(accs[i] + mapped[i].0)
    ensures accs[n] as int == side_total(swaps, d, n)
{
    lemma_fold_side_prefix(swaps, d, mapped, accs, n, n);
}
pub proof fn lemma_fold_side_prefix(swaps: Seq<Transaction>, d: Denom, mapped: Seq<CoinValue>, accs: Seq<u128>, n: int, k: int)
    requires mapped.len() == n, n == swaps.len(), accs.len() == n + 1, accs[0] == 0, 0 <= k <= n,
             forall|i: int| 0 <= i < n ==> (#[trigger] mapped[i]).0 as int == req_value(swaps[i], d),
             forall|i: int| 0 <= i < n ==> (#[trigger] accs[i + 1]) as int == sat128(accs[i] + mapped[i].0)
    ensures accs[k] as int == side_total(swaps, d, k)
    decreases k
{
    if k > 0 { lemma_fold_side_prefix(swaps, d, mapped, accs, n, k - 1); assert(accs[(k - 1) + 1] as int == sat128(accs[k - 1] + mapped[k - 1].0)); }
}

// ---- pool keys mentioned by a request list (extract_pool_keys_sorted / transactions_for_pool)
pub open spec fn mentions(txs: Seq<Transaction>, k: PoolKey) -> bool { exists|i: int| 0 <= i < txs.len() && spec_req_key((#[trigger] txs[i]).data@) == Some(k) }
/// dedup of a sorted sequence: same elements, still sorted, no duplicates
pub proof fn lemma_dedup_sorted(s: Seq<PoolKey>)
    requires pk_sorted(s)
    ensures pk_sorted(dedup_seq(s)), dedup_seq(s).no_duplicates(), forall|k: PoolKey| #[trigger] dedup_seq(s).contains(k) <==> s.contains(k),
            s.len() > 0 ==> dedup_seq(s).len() > 0 && dedup_seq(s).last() == s.last()
    decreases s.len()
{
    broadcast use axiom_pk_le_antisym;
    if s.len() > 1 {
        let t = s.drop_last(); let l = s[s.len() - 1];
        assert(pk_sorted(t)) by { assert forall|i: int, j: int| 0 <= i <= j < t.len() implies pk_le(#[trigger] t[i], #[trigger] t[j]) by { assert(t[i] == s[i] && t[j] == s[j]); } }
        lemma_dedup_sorted(t);
        let d = dedup_seq(t);
        assert(t.last() == s[s.len() - 2]);
        assert forall|k: PoolKey| #[trigger] dedup_seq(s).contains(k) <==> s.contains(k) by {
            if s.contains(k) { let i = choose|i: int| 0 <= i < s.len() && s[i] == k; if i < s.len() - 1 { assert(t[i] == k); assert(t.contains(k)); } }
            if t.contains(k) { let i = choose|i: int| 0 <= i < t.len() && t[i] == k; assert(s[i] == k); }
            if l == s[s.len() - 2] { assert(t.contains(l)); } else {
                if d.push(l).contains(k) { let i = choose|i: int| 0 <= i < d.push(l).len() && d.push(l)[i] == k; if i < d.len() { assert(d[i] == k); assert(d.contains(k)); } else { assert(s[s.len() - 1] == k); } }
                if d.contains(k) { let i = choose|i: int| 0 <= i < d.len() && d[i] == k; assert(d.push(l)[i] == k); }
                assert(d.push(l)[d.len() as int] == l);
            }
        }
        if l != s[s.len() - 2] {
            let e = d.push(l);
            assert forall|i: int, j: int| 0 <= i <= j < e.len() implies pk_le(#[trigger] e[i], #[trigger] e[j]) by {
                if j == d.len() { if i < d.len() { assert(d.contains(d[i])); assert(t.contains(d[i])); let q = choose|q: int| 0 <= q < t.len() && t[q] == d[i]; assert(pk_le(s[q], s[s.len() - 1])); } else { assert(pk_le(s[s.len() - 1], s[s.len() - 1])); } }
            }
            assert forall|i: int, j: int| 0 <= i < e.len() && 0 <= j < e.len() && i != j implies e[i] != e[j] by {
                if i == d.len() || j == d.len() {
                    let o = if i == d.len() { j } else { i };
                    // d[o] <= t.last() <= l and d[o] == l would give t.last() == l by antisymmetry
                    if d[o] == l { assert(d.contains(d[o])); assert(t.contains(l)); let q = choose|q: int| 0 <= q < t.len() && t[q] == l;
                        assert(pk_le(s[q], s[s.len() - 2])); assert(pk_le(s[s.len() - 2], s[s.len() - 1])); }
                }
            }
        }
    } else if s.len() == 1 { assert(s.contains(s[0])); }
}
/// filtering a sequence of references, then dereferencing, is filtering the referents
pub proof fn lemma_filter_refs<T>(items: Seq<&T>, txs: Seq<T>, b: spec_fn(&T) -> bool, p: spec_fn(T) -> bool)
    requires refs_of(items, txs), forall|i: int| 0 <= i < items.len() ==> b(#[trigger] items[i]) == p(txs[i])
    ensures refs_of(items.filter(b), txs.filter(p))
    decreases items.len()
{
    reveal_with_fuel(Seq::filter, 2);
    if items.len() > 0 {
        let it = items.drop_last(); let tt = txs.drop_last();
        assert(refs_of(it, tt)) by { assert forall|q: int| 0 <= q < tt.len() implies *(#[trigger] it[q]) == tt[q] by { assert(it[q] == items[q]); } }
        assert forall|i: int| 0 <= i < it.len() implies b(#[trigger] it[i]) == p(tt[i]) by { assert(it[i] == items[i]); }
        lemma_filter_refs(it, tt, b, p);
        assert(b(items[items.len() - 1]) == p(txs[txs.len() - 1]));
        assert(*items[items.len() - 1] == txs[txs.len() - 1]);
    }
}
pub open spec fn for_pool(k: PoolKey) -> spec_fn(Transaction) -> bool { |tx: Transaction| spec_req_key(tx.data@) == Some(k) }
