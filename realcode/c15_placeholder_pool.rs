// Witness of the defect repaired by the fix "the placeholder denomination names no pool" (C15, C01): `PoolKey::from_bytes(b"")` is the pair
// (NewCustom, MEL) -- `Denom::from_bytes(b"")` is the placeholder under which EVERY transaction declares its own new token. Requests with
// empty `data` therefore created and used a pool whose left side conflated the different tokens of different transactions: a token the
// swapping transaction minted for itself, for free, was exchanged for the MEL another party had deposited (994005 of 1000000 uMEL here).
// The test asserts the property (no such exchange) and PASSES on the repaired tree.
use crate::*;
use melstructs::*;
use melvm::Covenant;
use novasmt::{Database, InMemoryCas};

#[test]
fn c15_placeholder_denomination_names_no_pool() {
    assert!(PoolKey::from_bytes(b"").is_some(), "sanity: melstructs parses the empty key");
    let db = Database::new(InMemoryCas::default());
    let mut state = GenesisConfig::std_testnet().realize(&db);
    state.network = NetID::Custom02;
    state.fee_multiplier = 0;
    let cov = Covenant::always_true();
    let mut put = |n: u8, value: u128, denom: Denom| {
        let id = CoinID { txhash: tmelcrypt::HashVal([n; 32]).into(), index: 0 };
        let t = state.tip_906();
        state.coins.insert_coin(id, CoinDataHeight { coin_data: CoinData { covhash: cov.hash(), value: CoinValue(value), denom, additional_data: vec![].into() }, height: 0.into() }, t);
        id
    };
    let m1 = put(1, 1_000_000, Denom::Mel);
    let m2 = put(2, 1_000, Denom::Mel);
    let mut state = state.seal(None).next_unsealed();
    // victim: deposits 1_000_000 MEL together with 1_000_000 units of a token it mints in the same transaction, naming the pool ""
    let dep = Transaction { kind: TxKind::LiqDeposit, inputs: vec![m1],
        outputs: vec![CoinData { covhash: cov.hash(), value: CoinValue(1_000_000), denom: Denom::NewCustom, additional_data: vec![].into() },
                      CoinData { covhash: cov.hash(), value: CoinValue(1_000_000), denom: Denom::Mel, additional_data: vec![].into() }],
        fee: CoinValue(0), covenants: vec![cov.to_bytes()], data: vec![].into(), sigs: vec![] };
    state.apply_tx(&dep).expect("deposit accepted");
    let sealed = state.seal(None);
    let key = PoolKey::from_bytes(b"").unwrap();
    println!("pool after deposit: {:?}", sealed.pool(key));
    let mut state = sealed.next_unsealed();
    // attacker: mints 1_000_000_000 units of ITS OWN new token for free and swaps them against the pool
    let swap = Transaction { kind: TxKind::Swap, inputs: vec![m2],
        outputs: vec![CoinData { covhash: cov.hash(), value: CoinValue(1_000_000_000), denom: Denom::NewCustom, additional_data: vec![].into() }],
        fee: CoinValue(1_000), covenants: vec![cov.to_bytes()], data: vec![].into(), sigs: vec![] };
    state.apply_tx(&swap).expect("swap accepted");
    let sealed = state.seal(None);
    let got = sealed.coin(swap.output_coinid(0)).unwrap().coin_data;
    println!("attacker's output after settlement: {:?} {:?}; pool {:?}", got.denom, got.value, sealed.pool(key));
    assert!(!(got.denom == Denom::Mel && got.value.0 > 1_000), "a token minted for free by the swapping transaction itself was exchanged for {} MEL out of the pool", got.value.0);
}
