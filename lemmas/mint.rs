// C15/C16 spec functions (hand-written from the property statements)
/// C15 request selection (genuine requests only: right kind, unspent outputs, canonical pool name, non-zero amounts)
pub open spec fn is_swap_req<C: ContentAddrStore>(s: UnsealedState<C>, tx: Transaction) -> bool {
    &&& tx.kind == TxKind::Swap && tx.outputs@.len() > 0 && s.coins@.coins.contains_key(cid(tx, 0))
    &&& spec_req_key(tx.data@) is Some && s.pools@.contains_key(spec_req_key(tx.data@)->Some_0) && pool_live(s.pools@[spec_req_key(tx.data@)->Some_0])
    &&& (tx.outputs@[0].denom == spec_req_key(tx.data@)->Some_0.left || tx.outputs@[0].denom == spec_req_key(tx.data@)->Some_0.right)
    &&& tx.outputs@[0].value.0 > 0
}
pub open spec fn is_deposit_req<C: ContentAddrStore>(s: UnsealedState<C>, tx: Transaction) -> bool {
    &&& tx.kind == TxKind::LiqDeposit && tx.outputs@.len() >= 2 && s.coins@.coins.contains_key(cid(tx, 0)) && s.coins@.coins.contains_key(cid(tx, 1))
    &&& spec_req_key(tx.data@) is Some && tx.outputs@[0].value.0 > 0 && tx.outputs@[1].value.0 > 0
    &&& tx.outputs@[0].denom == spec_req_key(tx.data@)->Some_0.left && tx.outputs@[1].denom == spec_req_key(tx.data@)->Some_0.right
}
pub open spec fn is_withdraw_req<C: ContentAddrStore>(s: UnsealedState<C>, tx: Transaction) -> bool {
    &&& tx.kind == TxKind::LiqWithdraw && tx.outputs@.len() == 1 && s.coins@.coins.contains_key(cid(tx, 0))
    &&& spec_req_key(tx.data@) is Some && s.pools@.contains_key(spec_req_key(tx.data@)->Some_0) && tx.outputs@[0].value.0 > 0
    &&& tx.outputs@[0].denom == spec_liq_denom(spec_req_key(tx.data@)->Some_0)
}
/// the selected requests are exactly the block's transactions satisfying the predicate (in the set's iteration order)
pub open spec fn selected(txs: Map<TxHash, Transaction>, res: Seq<Transaction>, p: spec_fn(Transaction) -> bool) -> bool {
    exists|ks: Seq<TxHash>| #[trigger] is_enum(txs, ks) && res == Seq::new(ks.len(), |i: int| txs[ks[i]]).filter(p)
}
pub open spec fn spec_multiply_frac(x: int, n: int, d: int) -> int { sat128((x * n) / d) }
/// equal fractions have equal floors of any non-negative multiple: floor(x*n1/d1) == floor(x*n2/d2) when n1/d1 == n2/d2
pub proof fn lemma_floor_frac_eq(x: int, n1: int, d1: int, n2: int, d2: int)
    requires x >= 0, n1 >= 0, n2 >= 0, d1 > 0, d2 > 0, n1 * d2 == n2 * d1
    ensures (x * n1) / d1 == (x * n2) / d2
{
    let a = x * n1; let c = x * n2;
    assert(a * d2 == c * d1) by (nonlinear_arith) requires a == x * n1, c == x * n2, n1 * d2 == n2 * d1;
    assert(a >= 0) by (nonlinear_arith) requires a == x * n1, x >= 0, n1 >= 0;
    assert(c >= 0) by (nonlinear_arith) requires c == x * n2, x >= 0, n2 >= 0;
    let q = a / d1;
    vstd::arithmetic::div_mod::lemma_fundamental_div_mod(a, d1);
    vstd::arithmetic::div_mod::lemma_mod_bound(a, d1);
    let r1 = a % d1;
    assert(a == d1 * q + r1 && 0 <= r1 < d1);
    // c*d1 == a*d2 == (d1*q + r1)*d2  =>  d1*(c - q*d2) == r1*d2, with 0 <= r1*d2 < d1*d2  =>  0 <= c - q*d2 < d2
    let r2 = c - q * d2;
    assert(d1 * r2 == r1 * d2) by (nonlinear_arith) requires a * d2 == c * d1, a == d1 * q + r1, r2 == c - q * d2;
    assert(0 <= r2 < d2) by (nonlinear_arith) requires d1 * r2 == r1 * d2, 0 <= r1 < d1, d1 > 0, d2 > 0;
    vstd::arithmetic::div_mod::lemma_fundamental_div_mod_converse(c, d2, q, r2);
}

// ---- settlement of the swap requests of one pool (C15)
pub open spec fn req_value(tx: Transaction, d: Denom) -> int { if tx.outputs@[0].denom == d { tx.outputs@[0].value.0 as int } else { 0 } }
/// saturating total of the requests paying in denomination `d` (first n requests, in order)
pub open spec fn side_total(swaps: Seq<Transaction>, d: Denom, n: int) -> int decreases n {
    if n <= 0 { 0 } else { sat128(side_total(swaps, d, n - 1) + req_value(swaps[n - 1], d)) }
}
pub open spec fn imin2(a: int, b: int) -> int { if a <= b { a } else { b } }
/// what a swap request's coin becomes: the other side's denomination, its pro-rata share (rounded down, capped at the maximum
/// coin value) of what the pool paid out for that side; covenant hash and additional data unchanged; height = this block
pub open spec fn swapped_coin(t: Transaction, k: PoolKey, lw: int, rw: int, tl: int, tr: int, height: BlockHeight, c: CoinDataHeight) -> bool {
    let o = t.outputs@[0];
    &&& c.height == height && c.coin_data.covhash == o.covhash && c.coin_data.additional_data == o.additional_data
    &&& (o.denom == k.left ==> c.coin_data.denom == k.right && c.coin_data.value.0 as int == imin2(spec_multiply_frac(rw, o.value.0 as int, tl), MAX_COINVAL.0 as int))
    &&& (o.denom != k.left ==> c.coin_data.denom == k.left && c.coin_data.value.0 as int == imin2(spec_multiply_frac(lw, o.value.0 as int, tr), MAX_COINVAL.0 as int))
}
pub open spec fn swaps_pre(swaps: Seq<Transaction>, k: PoolKey) -> bool {
    &&& forall|i: int| 0 <= i < swaps.len() ==> 0 < (#[trigger] swaps[i]).outputs@.len() && swaps[i].outputs@[0].value.0 > 0 && (swaps[i].outputs@[0].denom == k.left || swaps[i].outputs@[0].denom == k.right)
    &&& forall|i: int, j: int| 0 <= i < j < swaps.len() ==> spec_txhash(#[trigger] swaps[i]) != spec_txhash(#[trigger] swaps[j])
    &&& k.left != k.right
}
/// coins after settling the first n requests: each request's first output replaced as above, nothing else touched
pub open spec fn swaps_settled(c0: IMap<CoinID, CoinDataHeight>, c: IMap<CoinID, CoinDataHeight>, swaps: Seq<Transaction>, n: int, k: PoolKey, lw: int, rw: int, tl: int, tr: int, height: BlockHeight) -> bool {
    &&& forall|id: CoinID| #[trigger] c.contains_key(id) <==> (c0.contains_key(id) || exists|i: int| 0 <= i < n && id == cid(#[trigger] swaps[i], 0))
    &&& forall|i: int| 0 <= i < n ==> swapped_coin(swaps[i], k, lw, rw, tl, tr, height, #[trigger] c[cid(swaps[i], 0)])
    &&& forall|id: CoinID| c.contains_key(id) && !(exists|i: int| 0 <= i < n && id == cid(#[trigger] swaps[i], 0)) ==> #[trigger] c[id] == c0[id]
}
pub proof fn lemma_side_total_ge(swaps: Seq<Transaction>, d: Denom, n: int, i: int)
    requires 0 <= i < n <= swaps.len()
    ensures side_total(swaps, d, n) >= imin2(req_value(swaps[i], d), u128::MAX as int), side_total(swaps, d, n) >= 0
    decreases n
{
    lemma_side_total_nonneg(swaps, d, n - 1);
    if i < n - 1 { lemma_side_total_ge(swaps, d, n - 1, i); }
}
pub proof fn lemma_side_total_nonneg(swaps: Seq<Transaction>, d: Denom, n: int)
    ensures 0 <= side_total(swaps, d, n) <= u128::MAX decreases n
{ if n > 0 { lemma_side_total_nonneg(swaps, d, n - 1); } }
pub proof fn lemma_swaps_settled_step(c0: IMap<CoinID, CoinDataHeight>, c: IMap<CoinID, CoinDataHeight>, swaps: Seq<Transaction>, n: int, k: PoolKey, lw: int, rw: int, tl: int, tr: int, height: BlockHeight, d: CoinDataHeight)
    requires swaps_settled(c0, c, swaps, n, k, lw, rw, tl, tr, height), 0 <= n < swaps.len(), swapped_coin(swaps[n], k, lw, rw, tl, tr, height, d),
             forall|i: int, j: int| 0 <= i < j < swaps.len() ==> spec_txhash(#[trigger] swaps[i]) != spec_txhash(#[trigger] swaps[j])
    ensures swaps_settled(c0, c.insert(cid(swaps[n], 0), d), swaps, n + 1, k, lw, rw, tl, tr, height)
{
    let c2 = c.insert(cid(swaps[n], 0), d);
    assert forall|id: CoinID| #[trigger] c2.contains_key(id) <==> (c0.contains_key(id) || exists|i: int| 0 <= i < n + 1 && id == cid(#[trigger] swaps[i], 0)) by {
        if c2.contains_key(id) { if id == cid(swaps[n], 0) { assert(0 <= n < n + 1 && id == cid(swaps[n], 0)); } else { assert(c.contains_key(id));
            if !c0.contains_key(id) { let i = choose|i: int| 0 <= i < n && id == cid(#[trigger] swaps[i], 0); assert(0 <= i < n + 1 && id == cid(swaps[i], 0)); } } }
        if exists|i: int| 0 <= i < n + 1 && id == cid(#[trigger] swaps[i], 0) { let i = choose|i: int| 0 <= i < n + 1 && id == cid(#[trigger] swaps[i], 0);
            if i < n { assert(c.contains_key(id)); } }
    }
    assert forall|i: int| 0 <= i < n + 1 implies swapped_coin(swaps[i], k, lw, rw, tl, tr, height, #[trigger] c2[cid(swaps[i], 0)]) by {
        if i < n { assert(spec_txhash(swaps[i]) != spec_txhash(swaps[n])); assert(cid(swaps[i], 0) != cid(swaps[n], 0)); }
    }
    assert forall|id: CoinID| c2.contains_key(id) && !(exists|i: int| 0 <= i < n + 1 && id == cid(#[trigger] swaps[i], 0)) implies #[trigger] c2[id] == c0[id] by {
        assert(id != cid(swaps[n], 0)) by { if id == cid(swaps[n], 0) { assert(0 <= n < n + 1 && id == cid(swaps[n], 0)); } }
        assert(!(exists|i: int| 0 <= i < n && id == cid(#[trigger] swaps[i], 0))) by {
            if exists|i: int| 0 <= i < n && id == cid(#[trigger] swaps[i], 0) { let i = choose|i: int| 0 <= i < n && id == cid(#[trigger] swaps[i], 0); assert(0 <= i < n + 1 && id == cid(swaps[i], 0)); } }
    }
}
/// the saturating fold over the mapped request values is side_total
pub proof fn lemma_fold_side(swaps: Seq<Transaction>, d: Denom, mapped: Seq<CoinValue>, accs: Seq<u128>, n: int)
    requires mapped.len() == n, n == swaps.len(), accs.len() == n + 1, accs[0] == 0,
             forall|i: int| 0 <= i < n ==> (#[trigger] mapped[i]).0 as int == req_value(swaps[i], d),
             forall|i: int| 0 <= i < n ==> (#[trigger] accs[i + 1]) as int == sat128(accs[i] + mapped[i].0)
    ensures accs[n] as int == side_total(swaps, d, n)
{
    lemma_fold_side_prefix(swaps, d, mapped, accs, n, n);
}
pub proof fn lemma_fold_side_prefix(swaps: Seq<Transaction>, d: Denom, mapped: Seq<CoinValue>, accs: Seq<u128>, n: int, k: int)
    requires mapped.len() == n, n == swaps.len(), accs.len() == n + 1, accs[0] == 0, 0 <= k <= n,
             forall|i: int| 0 <= i < n ==> (#[trigger] mapped[i]).0 as int == req_value(swaps[i], d),
             forall|i: int| 0 <= i < n ==> (#[trigger] accs[i + 1]) as int == sat128(accs[i] + mapped[i].0)
    ensures accs[k] as int == side_total(swaps, d, k)
    decreases k
{
    if k > 0 { lemma_fold_side_prefix(swaps, d, mapped, accs, n, k - 1); assert(accs[(k - 1) + 1] as int == sat128(accs[k - 1] + mapped[k - 1].0)); }
}

// ---- pool keys mentioned by a request list (extract_pool_keys_sorted / transactions_for_pool)
pub open spec fn mentions(txs: Seq<Transaction>, k: PoolKey) -> bool { exists|i: int| 0 <= i < txs.len() && spec_req_key((#[trigger] txs[i]).data@) == Some(k) }
/// dedup of a sorted sequence: same elements, still sorted, no duplicates
pub proof fn lemma_dedup_sorted(s: Seq<PoolKey>)
    requires pk_sorted(s)
    ensures pk_sorted(dedup_seq(s)), dedup_seq(s).no_duplicates(), forall|k: PoolKey| #[trigger] dedup_seq(s).contains(k) <==> s.contains(k),
            s.len() > 0 ==> dedup_seq(s).len() > 0 && dedup_seq(s).last() == s.last()
    decreases s.len()
{
    broadcast use axiom_pk_le_antisym;
    if s.len() > 1 {
        let t = s.drop_last(); let l = s[s.len() - 1];
        assert(pk_sorted(t)) by { assert forall|i: int, j: int| 0 <= i <= j < t.len() implies pk_le(#[trigger] t[i], #[trigger] t[j]) by { assert(t[i] == s[i] && t[j] == s[j]); } }
        lemma_dedup_sorted(t);
        let d = dedup_seq(t);
        assert(t.last() == s[s.len() - 2]);
        assert forall|k: PoolKey| #[trigger] dedup_seq(s).contains(k) <==> s.contains(k) by {
            if s.contains(k) { let i = choose|i: int| 0 <= i < s.len() && s[i] == k; if i < s.len() - 1 { assert(t[i] == k); assert(t.contains(k)); } }
            if t.contains(k) { let i = choose|i: int| 0 <= i < t.len() && t[i] == k; assert(s[i] == k); }
            if l == s[s.len() - 2] { assert(t.contains(l)); } else {
                if d.push(l).contains(k) { let i = choose|i: int| 0 <= i < d.push(l).len() && d.push(l)[i] == k; if i < d.len() { assert(d[i] == k); assert(d.contains(k)); } else { assert(s[s.len() - 1] == k); } }
                if d.contains(k) { let i = choose|i: int| 0 <= i < d.len() && d[i] == k; assert(d.push(l)[i] == k); }
                assert(d.push(l)[d.len() as int] == l);
            }
        }
        if l != s[s.len() - 2] {
            let e = d.push(l);
            assert forall|i: int, j: int| 0 <= i <= j < e.len() implies pk_le(#[trigger] e[i], #[trigger] e[j]) by {
                if j == d.len() { if i < d.len() { assert(d.contains(d[i])); assert(t.contains(d[i])); let q = choose|q: int| 0 <= q < t.len() && t[q] == d[i]; assert(pk_le(s[q], s[s.len() - 1])); } else { assert(pk_le(s[s.len() - 1], s[s.len() - 1])); } }
            }
            assert forall|i: int, j: int| 0 <= i < e.len() && 0 <= j < e.len() && i != j implies e[i] != e[j] by {
                if i == d.len() || j == d.len() {
                    let o = if i == d.len() { j } else { i };
                    // d[o] <= t.last() <= l and d[o] == l would give t.last() == l by antisymmetry
                    if d[o] == l { assert(d.contains(d[o])); assert(t.contains(l)); let q = choose|q: int| 0 <= q < t.len() && t[q] == l;
                        assert(pk_le(s[q], s[s.len() - 2])); assert(pk_le(s[s.len() - 2], s[s.len() - 1])); }
                }
            }
        }
    } else if s.len() == 1 { assert(s.contains(s[0])); }
}
/// filtering a sequence of references, then dereferencing, is filtering the referents
pub proof fn lemma_filter_refs<T>(items: Seq<&T>, txs: Seq<T>, b: spec_fn(&T) -> bool, p: spec_fn(T) -> bool)
    requires refs_of(items, txs), forall|i: int| 0 <= i < items.len() ==> b(#[trigger] items[i]) == p(txs[i])
    ensures refs_of(items.filter(b), txs.filter(p))
    decreases items.len()
{
    reveal_with_fuel(Seq::filter, 2);
    if items.len() > 0 {
        let it = items.drop_last(); let tt = txs.drop_last();
        assert(refs_of(it, tt)) by { assert forall|q: int| 0 <= q < tt.len() implies *(#[trigger] it[q]) == tt[q] by { assert(it[q] == items[q]); } }
        assert forall|i: int| 0 <= i < it.len() implies b(#[trigger] it[i]) == p(tt[i]) by { assert(it[i] == items[i]); }
        lemma_filter_refs(it, tt, b, p);
        assert(b(items[items.len() - 1]) == p(txs[txs.len() - 1]));
        assert(*items[items.len() - 1] == txs[txs.len() - 1]);
    }
}
pub open spec fn for_pool(k: PoolKey) -> spec_fn(Transaction) -> bool { |tx: Transaction| spec_req_key(tx.data@) == Some(k) }

// ---- the swap phase over all pools named by the block's requests (process_swaps)
pub open spec fn swap_key(tx: Transaction) -> PoolKey { spec_req_key(tx.data@)->Some_0 }
pub open spec fn pool_reqs(reqs: Seq<Transaction>, k: PoolKey) -> Seq<Transaction> { reqs.filter(for_pool(k)) }
pub open spec fn swap_tl(reqs: Seq<Transaction>, k: PoolKey) -> int { side_total(pool_reqs(reqs, k), k.left, pool_reqs(reqs, k).len() as int) }
pub open spec fn swap_tr(reqs: Seq<Transaction>, k: PoolKey) -> int { side_total(pool_reqs(reqs, k), k.right, pool_reqs(reqs, k).len() as int) }
pub open spec fn swap_lw(p0: PoolState, tl: int, tr: int) -> int { swap_out(tr, sat128(p0.rights + tr), sat128(p0.lefts + tl)) }
pub open spec fn swap_rw(p0: PoolState, tl: int, tr: int) -> int { swap_out(tl, sat128(p0.lefts + tl), sat128(p0.rights + tr)) }
/// C15: one pool after its batch of swaps: both sides' totals go in, each side's payout at the single post-deposit price comes out
pub open spec fn pool_swapped(p0: PoolState, p1: PoolState, tl: int, tr: int) -> bool {
    p1.lefts as int == sat128(p0.lefts + tl) - swap_lw(p0, tl, tr) && p1.rights as int == sat128(p0.rights + tr) - swap_rw(p0, tl, tr) && p1.liqs == p0.liqs && pool_live(p1)
}
pub open spec fn reqs_distinct(reqs: Seq<Transaction>) -> bool { forall|i: int, j: int| 0 <= i < j < reqs.len() ==> spec_txhash(#[trigger] reqs[i]) != spec_txhash(#[trigger] reqs[j]) }
/// every request is a genuine swap request of state s0 (pools0/c0 are s0's pools and coins)
pub open spec fn swap_reqs_ok(pools0: Map<PoolKey, PoolState>, c0: IMap<CoinID, CoinDataHeight>, reqs: Seq<Transaction>) -> bool {
    &&& reqs_distinct(reqs)
    &&& forall|j: int| 0 <= j < reqs.len() ==> ({ let tx = #[trigger] reqs[j];
            tx.outputs@.len() > 0 && c0.contains_key(cid(tx, 0)) && spec_req_key(tx.data@) is Some && pools0.contains_key(swap_key(tx)) && pool_live(pools0[swap_key(tx)])
            && (tx.outputs@[0].denom == swap_key(tx).left || tx.outputs@[0].denom == swap_key(tx).right) && tx.outputs@[0].value.0 > 0 })
}
/// the pools in `done` have been settled: their reserves moved as above, each of their requests' first output replaced by its
/// pro-rata share; every other pool and every other coin is untouched
pub open spec fn swaps_done(pools0: Map<PoolKey, PoolState>, c0: IMap<CoinID, CoinDataHeight>, height: BlockHeight, reqs: Seq<Transaction>, done: ISet<PoolKey>,
                            pools1: Map<PoolKey, PoolState>, c1: IMap<CoinID, CoinDataHeight>) -> bool {
    &&& pools1.dom() == pools0.dom()
    &&& forall|k: PoolKey| #[trigger] pools0.contains_key(k) ==> (if done.contains(k) { pool_swapped(pools0[k], pools1[k], swap_tl(reqs, k), swap_tr(reqs, k)) } else { pools1[k] == pools0[k] })
    &&& forall|id: CoinID| #[trigger] c1.contains_key(id) <==> c0.contains_key(id)
    &&& forall|j: int| 0 <= j < reqs.len() ==> ({ let tx = #[trigger] reqs[j]; let k = swap_key(tx); let tl = swap_tl(reqs, k); let tr = swap_tr(reqs, k);
            if done.contains(k) { swapped_coin(tx, k, swap_lw(pools0[k], tl, tr), swap_rw(pools0[k], tl, tr), tl, tr, height, c1[cid(tx, 0)]) } else { c1[cid(tx, 0)] == c0[cid(tx, 0)] } })
    &&& forall|id: CoinID| c1.contains_key(id) && !(exists|j: int| 0 <= j < reqs.len() && id == cid(#[trigger] reqs[j], 0)) ==> #[trigger] c1[id] == c0[id]
}
pub proof fn lemma_filter_distinct(reqs: Seq<Transaction>, p: spec_fn(Transaction) -> bool)
    requires reqs_distinct(reqs) ensures reqs_distinct(reqs.filter(p))
    decreases reqs.len()
{
    reveal_with_fuel(Seq::filter, 2);
    if reqs.len() > 0 {
        let t = reqs.drop_last(); let l = reqs[reqs.len() - 1];
        assert(reqs_distinct(t)) by { assert forall|i: int, j: int| 0 <= i < j < t.len() implies spec_txhash(#[trigger] t[i]) != spec_txhash(#[trigger] t[j]) by { assert(t[i] == reqs[i] && t[j] == reqs[j]); } }
        lemma_filter_distinct(t, p);
        lemma_filter_mem(t, p);
        let f = t.filter(p);
        if p(l) {
            let e = f.push(l);
            assert forall|i: int, j: int| 0 <= i < j < e.len() implies spec_txhash(#[trigger] e[i]) != spec_txhash(#[trigger] e[j]) by {
                if j == f.len() { assert(f.contains(f[i])); assert(t.contains(f[i])); let q = choose|q: int| 0 <= q < t.len() && t[q] == f[i]; assert(reqs[q] == f[i]); assert(spec_txhash(reqs[q]) != spec_txhash(reqs[reqs.len() - 1])); }
            }
        }
    }
}
/// the requests of pool k satisfy the single-pool precondition
pub proof fn lemma_pool_reqs_pre(pools0: Map<PoolKey, PoolState>, c0: IMap<CoinID, CoinDataHeight>, reqs: Seq<Transaction>, k: PoolKey)
    requires swap_reqs_ok(pools0, c0, reqs), mentions(reqs, k)
    ensures swaps_pre(pool_reqs(reqs, k), k), pools0.contains_key(k) && pool_live(pools0[k])
{
    broadcast use axiom_bytes_lt;
    let rk = pool_reqs(reqs, k);
    lemma_filter_mem(reqs, for_pool(k));
    lemma_filter_distinct(reqs, for_pool(k));
    assert forall|i: int| 0 <= i < rk.len() implies 0 < (#[trigger] rk[i]).outputs@.len() && rk[i].outputs@[0].value.0 > 0 && (rk[i].outputs@[0].denom == k.left || rk[i].outputs@[0].denom == k.right) by {
        assert(rk.contains(rk[i])); let j = choose|j: int| 0 <= j < reqs.len() && reqs[j] == rk[i]; assert(for_pool(k)(reqs[j]));
    }
    let j0 = choose|j: int| 0 <= j < reqs.len() && spec_req_key((#[trigger] reqs[j]).data@) == Some(k);
    assert(swap_key(reqs[j0]) == k);
    assert(pk_canonical(k));
}
/// settling one more pool
pub proof fn lemma_swaps_done_step(pools0: Map<PoolKey, PoolState>, c0: IMap<CoinID, CoinDataHeight>, height: BlockHeight, reqs: Seq<Transaction>, done: ISet<PoolKey>,
        pb: Map<PoolKey, PoolState>, cb: IMap<CoinID, CoinDataHeight>, k: PoolKey, p1: Map<PoolKey, PoolState>, c1: IMap<CoinID, CoinDataHeight>)
    requires swap_reqs_ok(pools0, c0, reqs), swaps_done(pools0, c0, height, reqs, done, pb, cb), !done.contains(k), mentions(reqs, k),
             p1.dom() == pb.dom().insert(k), forall|k2: PoolKey| k2 != k && pb.contains_key(k2) ==> #[trigger] p1[k2] == pb[k2],
             pool_swapped(pb[k], p1[k], swap_tl(reqs, k), swap_tr(reqs, k)),
             swaps_settled(cb, c1, pool_reqs(reqs, k), pool_reqs(reqs, k).len() as int, k, swap_lw(pb[k], swap_tl(reqs, k), swap_tr(reqs, k)), swap_rw(pb[k], swap_tl(reqs, k), swap_tr(reqs, k)), swap_tl(reqs, k), swap_tr(reqs, k), height)
    ensures swaps_done(pools0, c0, height, reqs, done.insert(k), p1, c1)
{
    broadcast use axiom_txhash_inj;
    let rk = pool_reqs(reqs, k); let d2 = done.insert(k);
    lemma_filter_mem(reqs, for_pool(k));
    lemma_pool_reqs_pre(pools0, c0, reqs, k);
    assert(pb[k] == pools0[k]);
    assert(p1.dom() =~= pools0.dom());
    // a coin id is the first output of a request of pool k iff that request is in rk
    assert forall|j: int, i: int| 0 <= j < reqs.len() && 0 <= i < rk.len() && cid(#[trigger] reqs[j], 0) == cid(#[trigger] rk[i], 0) implies reqs[j] == rk[i] by {
        assert(rk.contains(rk[i])); let q = choose|q: int| 0 <= q < reqs.len() && reqs[q] == rk[i];
        assert(spec_txhash(reqs[j]) == spec_txhash(reqs[q]));
        if j != q { if j < q { assert(spec_txhash(reqs[j]) != spec_txhash(reqs[q])); } else { assert(spec_txhash(reqs[q]) != spec_txhash(reqs[j])); } }
    }
    assert forall|id: CoinID| #[trigger] c1.contains_key(id) <==> c0.contains_key(id) by {
        if exists|i: int| 0 <= i < rk.len() && id == cid(#[trigger] rk[i], 0) {
            let i = choose|i: int| 0 <= i < rk.len() && id == cid(#[trigger] rk[i], 0);
            assert(rk.contains(rk[i])); let q = choose|q: int| 0 <= q < reqs.len() && reqs[q] == rk[i]; assert(c0.contains_key(cid(reqs[q], 0)));
        }
        assert(cb.contains_key(id) <==> c0.contains_key(id));
    }
    assert forall|j: int| 0 <= j < reqs.len() implies ({ let tx = #[trigger] reqs[j]; let kk = swap_key(tx); let tl = swap_tl(reqs, kk); let tr = swap_tr(reqs, kk);
            if d2.contains(kk) { swapped_coin(tx, kk, swap_lw(pools0[kk], tl, tr), swap_rw(pools0[kk], tl, tr), tl, tr, height, c1[cid(tx, 0)]) } else { c1[cid(tx, 0)] == c0[cid(tx, 0)] } }) by {
        let tx = reqs[j]; let kk = swap_key(tx);
        if kk == k {
            assert(for_pool(k)(tx)); assert(reqs.contains(tx)); assert(rk.contains(tx));
            let i = choose|i: int| 0 <= i < rk.len() && rk[i] == tx;
            assert(swapped_coin(rk[i], k, swap_lw(pb[k], swap_tl(reqs, k), swap_tr(reqs, k)), swap_rw(pb[k], swap_tl(reqs, k), swap_tr(reqs, k)), swap_tl(reqs, k), swap_tr(reqs, k), height, c1[cid(rk[i], 0)]));
        } else {
            // not a request of pool k: its coin is not touched by this step
            assert(!(exists|i: int| 0 <= i < rk.len() && cid(tx, 0) == cid(#[trigger] rk[i], 0))) by {
                if exists|i: int| 0 <= i < rk.len() && cid(tx, 0) == cid(#[trigger] rk[i], 0) {
                    let i = choose|i: int| 0 <= i < rk.len() && cid(tx, 0) == cid(#[trigger] rk[i], 0);
                    assert(reqs[j] == rk[i]); assert(rk.contains(rk[i])); assert(for_pool(k)(rk[i]));
                }
            }
            assert(cb.contains_key(cid(tx, 0)));
            assert(c1.contains_key(cid(tx, 0)));
            assert(c1[cid(tx, 0)] == cb[cid(tx, 0)]);
        }
    }
    assert forall|id: CoinID| c1.contains_key(id) && !(exists|j: int| 0 <= j < reqs.len() && id == cid(#[trigger] reqs[j], 0)) implies #[trigger] c1[id] == c0[id] by {
        assert(!(exists|i: int| 0 <= i < rk.len() && id == cid(#[trigger] rk[i], 0))) by {
            if exists|i: int| 0 <= i < rk.len() && id == cid(#[trigger] rk[i], 0) {
                let i = choose|i: int| 0 <= i < rk.len() && id == cid(#[trigger] rk[i], 0);
                assert(rk.contains(rk[i])); let q = choose|q: int| 0 <= q < reqs.len() && reqs[q] == rk[i]; assert(id == cid(reqs[q], 0));
            }
        }
        assert(c1[id] == cb[id]);
    }
}
pub open spec fn swap_pred<C: ContentAddrStore>(s: UnsealedState<C>) -> spec_fn(Transaction) -> bool { |tx: Transaction| is_swap_req(s, tx) }
pub open spec fn done_set(ks: Seq<PoolKey>, n: int) -> ISet<PoolKey> { ISet::new(|k: PoolKey| exists|j: int| 0 <= j < n && ks[j] == k) }
/// the selected swap requests are genuine and pairwise distinct transactions
pub proof fn lemma_selected_swaps<C: ContentAddrStore>(s: UnsealedState<C>, reqs: Seq<Transaction>)
    requires selected(s.transactions@, reqs, swap_pred(s)), txs_keyed(s.transactions@)
    ensures swap_reqs_ok(s.pools@, s.coins@.coins, reqs)
{
    let txs = s.transactions@;
    let ks = choose|ks: Seq<TxHash>| #[trigger] is_enum(txs, ks) && reqs == Seq::new(ks.len(), |i: int| txs[ks[i]]).filter(swap_pred(s));
    let items = Seq::new(ks.len(), |i: int| txs[ks[i]]);
    assert(reqs_distinct(items)) by {
        assert forall|i: int, j: int| 0 <= i < j < items.len() implies spec_txhash(#[trigger] items[i]) != spec_txhash(#[trigger] items[j]) by {
            assert(ks.contains(ks[i]) && ks.contains(ks[j])); assert(txs.contains_key(ks[i]) && txs.contains_key(ks[j]));
            assert(spec_txhash(txs[ks[i]]) == ks[i] && spec_txhash(txs[ks[j]]) == ks[j]);
        }
    }
    lemma_filter_distinct(items, swap_pred(s));
    lemma_filter_mem(items, swap_pred(s));
    assert forall|j: int| 0 <= j < reqs.len() implies is_swap_req(s, #[trigger] reqs[j]) by { assert(reqs.contains(reqs[j])); assert(swap_pred(s)(reqs[j])); }
}

// ---- settlement of the liquidity deposits of one pool (C15/C16)
/// saturating sum of the first n entries
pub open spec fn sat_sum(s: Seq<int>, n: int) -> int decreases n { if n <= 0 { 0 } else { sat128(sat_sum(s, n - 1) + s[n - 1]) } }
pub open spec fn true_sum(s: Seq<int>, n: int) -> int decreases n { if n <= 0 { 0 } else { true_sum(s, n - 1) + s[n - 1] } }
pub open spec fn out_vals(txs: Seq<Transaction>, w: int) -> Seq<int> { Seq::new(txs.len(), |i: int| txs[i].outputs@[w].value.0 as int) }
pub open spec fn dep_weight(tx: Transaction) -> int { sat128(spec_isqrt(tx.outputs@[0].value.0 as int) * spec_isqrt(tx.outputs@[1].value.0 as int)) }
pub open spec fn dep_weights(txs: Seq<Transaction>) -> Seq<int> { Seq::new(txs.len(), |i: int| dep_weight(txs[i])) }
pub open spec fn imax2(a: int, b: int) -> int { if a >= b { a } else { b } }
/// the divisor of the pro-rata split: the weight of the block's total, or the sum of the deposits' weights if that is larger
pub open spec fn dep_divisor(deps: Seq<Transaction>) -> int {
    let n = deps.len() as int;
    imax2(sat128(spec_isqrt(sat_sum(out_vals(deps, 0), n)) * spec_isqrt(sat_sum(out_vals(deps, 1), n))), sat_sum(dep_weights(deps), n))
}
pub open spec fn deposits_pre(deps: Seq<Transaction>, k: PoolKey) -> bool {
    &&& forall|i: int| 0 <= i < deps.len() ==> (#[trigger] deps[i]).outputs@.len() >= 2 && deps[i].outputs@[0].value.0 > 0 && deps[i].outputs@[1].value.0 > 0
    &&& forall|i: int, j: int| 0 <= i < j < deps.len() ==> spec_txhash(#[trigger] deps[i]) != spec_txhash(#[trigger] deps[j])
}
/// the pool after the combined deposit (PoolState::deposit): a fresh or emptied pool starts at the deposited amounts
pub open spec fn pool_deposited(p0: PoolState, p1: PoolState, tl: int, tr: int, minted: int) -> bool {
    &&& p1.price_accum == p0.price_accum
    &&& p0.liqs == 0 ==> minted == tl && p1.lefts as int == tl && p1.rights as int == tr && p1.liqs as int == tl
    &&& p0.liqs != 0 ==> p1.liqs as int == sat128(p0.liqs + minted) && p1.lefts as int == sat128(p0.lefts + tl) && p1.rights as int == sat128(p0.rights + tr)
}
/// what a deposit request's first output becomes: the pool's liquidity token, its pro-rata share of what was minted
pub open spec fn dep_coin(t: Transaction, k: PoolKey, minted: int, div: int, height: BlockHeight, c: CoinDataHeight) -> bool {
    let o = t.outputs@[0];
    c.height == height && c.coin_data.covhash == o.covhash && c.coin_data.additional_data == o.additional_data
    && c.coin_data.denom == spec_liq_denom(k) && c.coin_data.value.0 as int == spec_multiply_frac(minted, dep_weight(t), div)
}
/// coins after settling the first n deposit requests: first output replaced as above, second output consumed, nothing else touched
pub open spec fn deps_settled(c0: IMap<CoinID, CoinDataHeight>, c: IMap<CoinID, CoinDataHeight>, deps: Seq<Transaction>, n: int, k: PoolKey, minted: int, div: int, height: BlockHeight) -> bool {
    &&& forall|id: CoinID| #[trigger] c.contains_key(id) <==> ((c0.contains_key(id) || exists|i: int| 0 <= i < n && id == cid(#[trigger] deps[i], 0)) && !(exists|i: int| 0 <= i < n && id == cid(#[trigger] deps[i], 1)))
    &&& forall|i: int| 0 <= i < n ==> dep_coin(deps[i], k, minted, div, height, #[trigger] c[cid(deps[i], 0)])
    &&& forall|id: CoinID| c.contains_key(id) && !(exists|i: int| 0 <= i < n && id == cid(#[trigger] deps[i], 0)) ==> #[trigger] c[id] == c0[id]
}
pub proof fn lemma_fold_sat(mapped: Seq<u128>, vals: Seq<int>, accs: Seq<u128>, k: int)
    requires mapped.len() == vals.len(), accs.len() == mapped.len() + 1, accs[0] == 0, 0 <= k <= mapped.len(),
             forall|i: int| 0 <= i < mapped.len() ==> (#[trigger] mapped[i]) as int == vals[i],
             forall|i: int| 0 <= i < mapped.len() ==> (#[trigger] accs[i + 1]) as int == sat128(accs[i] + mapped[i])
    ensures accs[k] as int == sat_sum(vals, k)
    decreases k
{
    if k > 0 { lemma_fold_sat(mapped, vals, accs, k - 1); assert(accs[(k - 1) + 1] as int == sat128(accs[k - 1] + mapped[k - 1])); }
}
pub proof fn lemma_sat_sum_bounds(s: Seq<int>, n: int)
    requires 0 <= n <= s.len(), forall|i: int| 0 <= i < s.len() ==> #[trigger] s[i] >= 0
    ensures 0 <= sat_sum(s, n) <= u128::MAX, sat_sum(s, n) <= true_sum(s, n), true_sum(s, n) <= u128::MAX ==> sat_sum(s, n) == true_sum(s, n),
            forall|i: int| 0 <= i < n ==> imin2(#[trigger] s[i], u128::MAX as int) <= sat_sum(s, n), true_sum(s, n) >= 0
    decreases n
{
    if n > 0 { lemma_sat_sum_bounds(s, n - 1); }
}
pub open spec fn share_sum(t: int, ms: Seq<int>, d: int, n: int) -> int decreases n { if n <= 0 { 0 } else { share_sum(t, ms, d, n - 1) + spec_multiply_frac(t, ms[n - 1], d) } }
/// C16: floor shares of t by weights whose sum does not exceed the divisor add up to at most t
pub proof fn lemma_shares_le(t: int, ms: Seq<int>, d: int, n: int)
    requires t >= 0, d > 0, 0 <= n <= ms.len(), forall|i: int| 0 <= i < ms.len() ==> #[trigger] ms[i] >= 0, true_sum(ms, n) <= d
    ensures share_sum(t, ms, d, n) * d <= t * true_sum(ms, n), share_sum(t, ms, d, n) <= t, share_sum(t, ms, d, n) >= 0
    decreases n
{
    if n > 0 {
        let m = ms[n - 1];
        assert(true_sum(ms, n - 1) >= 0) by { lemma_true_sum_nonneg(ms, n - 1); }
        lemma_shares_le(t, ms, d, n - 1);
        let q = (t * m) / d;
        assert(t * m >= 0) by (nonlinear_arith) requires t >= 0, m >= 0;
        vstd::arithmetic::div_mod::lemma_fundamental_div_mod(t * m, d);
        vstd::arithmetic::div_mod::lemma_mod_bound(t * m, d);
        assert(q * d <= t * m) by (nonlinear_arith) requires t * m == d * q + (t * m) % d, 0 <= (t * m) % d;
        assert(q >= 0) by (nonlinear_arith) requires t * m == d * q + (t * m) % d, (t * m) % d < d, t * m >= 0, d > 0;
        let sh = spec_multiply_frac(t, m, d);
        assert(0 <= sh <= q);
        assert(sh * d <= q * d) by (nonlinear_arith) requires sh <= q, d > 0;
        let s0 = share_sum(t, ms, d, n - 1); let ts0 = true_sum(ms, n - 1);
        assert((s0 + sh) * d <= t * (ts0 + m)) by (nonlinear_arith) requires s0 * d <= t * ts0, sh * d <= t * m;
        assert(t * true_sum(ms, n) <= t * d) by (nonlinear_arith) requires true_sum(ms, n) <= d, t >= 0;
        assert(share_sum(t, ms, d, n) <= t) by (nonlinear_arith) requires share_sum(t, ms, d, n) * d <= t * d, d > 0;
    }
}
pub proof fn lemma_true_sum_nonneg(s: Seq<int>, n: int)
    requires 0 <= n <= s.len(), forall|i: int| 0 <= i < s.len() ==> #[trigger] s[i] >= 0 ensures true_sum(s, n) >= 0 decreases n
{ if n > 0 { lemma_true_sum_nonneg(s, n - 1); } }
pub proof fn lemma_deps_settled_step(c0: IMap<CoinID, CoinDataHeight>, c: IMap<CoinID, CoinDataHeight>, deps: Seq<Transaction>, n: int, k: PoolKey, minted: int, div: int, height: BlockHeight, d: CoinDataHeight)
    requires deps_settled(c0, c, deps, n, k, minted, div, height), 0 <= n < deps.len(), dep_coin(deps[n], k, minted, div, height, d),
             forall|i: int, j: int| 0 <= i < j < deps.len() ==> spec_txhash(#[trigger] deps[i]) != spec_txhash(#[trigger] deps[j])
    ensures deps_settled(c0, c.insert(cid(deps[n], 0), d).remove(cid(deps[n], 1)), deps, n + 1, k, minted, div, height)
{
    let a = cid(deps[n], 0); let b = cid(deps[n], 1);
    let c2 = c.insert(a, d).remove(b);
    assert(a != b);
    assert forall|i: int, j: int| 0 <= i < deps.len() && 0 <= j < deps.len() implies cid(#[trigger] deps[i], 0) != cid(#[trigger] deps[j], 1) by {}
    assert forall|i: int| 0 <= i < deps.len() && i != n implies cid(#[trigger] deps[i], 0) != a && cid(deps[i], 1) != b by {
        if i < n { assert(spec_txhash(deps[i]) != spec_txhash(deps[n])); } else { assert(spec_txhash(deps[n]) != spec_txhash(deps[i])); }
    }
    assert forall|id: CoinID| #[trigger] c2.contains_key(id) <==> ((c0.contains_key(id) || exists|i: int| 0 <= i < n + 1 && id == cid(#[trigger] deps[i], 0)) && !(exists|i: int| 0 <= i < n + 1 && id == cid(#[trigger] deps[i], 1))) by {
        if exists|i: int| 0 <= i < n + 1 && id == cid(#[trigger] deps[i], 0) { let i = choose|i: int| 0 <= i < n + 1 && id == cid(#[trigger] deps[i], 0); if i < n { assert(0 <= i < n && id == cid(deps[i], 0)); } }
        if exists|i: int| 0 <= i < n && id == cid(#[trigger] deps[i], 0) { let i = choose|i: int| 0 <= i < n && id == cid(#[trigger] deps[i], 0); assert(0 <= i < n + 1 && id == cid(deps[i], 0)); }
        if exists|i: int| 0 <= i < n + 1 && id == cid(#[trigger] deps[i], 1) { let i = choose|i: int| 0 <= i < n + 1 && id == cid(#[trigger] deps[i], 1); if i < n { assert(0 <= i < n && id == cid(deps[i], 1)); } }
        if exists|i: int| 0 <= i < n && id == cid(#[trigger] deps[i], 1) { let i = choose|i: int| 0 <= i < n && id == cid(#[trigger] deps[i], 1); assert(0 <= i < n + 1 && id == cid(deps[i], 1)); }
        if id == a { assert(0 <= n < n + 1 && id == cid(deps[n], 0)); }
        if id == b { assert(0 <= n < n + 1 && id == cid(deps[n], 1)); }
    }
    assert forall|i: int| 0 <= i < n + 1 implies dep_coin(deps[i], k, minted, div, height, #[trigger] c2[cid(deps[i], 0)]) by {
        if i < n { assert(cid(deps[i], 0) != a); }
    }
    assert forall|id: CoinID| c2.contains_key(id) && !(exists|i: int| 0 <= i < n + 1 && id == cid(#[trigger] deps[i], 0)) implies #[trigger] c2[id] == c0[id] by {
        assert(id != a) by { if id == a { assert(0 <= n < n + 1 && id == cid(deps[n], 0)); } }
        assert(!(exists|i: int| 0 <= i < n && id == cid(#[trigger] deps[i], 0))) by {
            if exists|i: int| 0 <= i < n && id == cid(#[trigger] deps[i], 0) { let i = choose|i: int| 0 <= i < n && id == cid(#[trigger] deps[i], 0); assert(0 <= i < n + 1 && id == cid(deps[i], 0)); } }
    }
}
pub open spec fn empty_pool() -> PoolState { PoolState { lefts: 0, rights: 0, price_accum: 0, liqs: 0 } }
pub open spec fn pool_or_empty(pools: Map<PoolKey, PoolState>, k: PoolKey) -> PoolState { if pools.contains_key(k) { pools[k] } else { empty_pool() } }
/// C15/C16: the deposits of one pool settled: reserves take the (saturating) totals of both sides, `minted` liquidity is recorded,
/// every request's first output becomes its pro-rata share of `minted` and its second output is consumed; the shares add up to at most `minted`
pub open spec fn deposits_result(pools0: Map<PoolKey, PoolState>, c0: IMap<CoinID, CoinDataHeight>, deps: Seq<Transaction>, k: PoolKey, height: BlockHeight, legacy: bool,
                                 pools1: Map<PoolKey, PoolState>, c1: IMap<CoinID, CoinDataHeight>, minted: int) -> bool {
    let n = deps.len() as int;
    &&& 0 <= minted <= u128::MAX
    &&& pools1.dom() == pools0.dom().insert(k) && (forall|k2: PoolKey| k2 != k && pools0.contains_key(k2) ==> #[trigger] pools1[k2] == pools0[k2])
    &&& pool_deposited(pool_or_empty(pools0, k), pools1[k], sat_sum(out_vals(deps, 0), n), sat_sum(out_vals(deps, 1), n), minted)
    &&& !legacy ==> deps_settled(c0, c1, deps, n, k, minted, dep_divisor(deps), height)
    &&& share_sum(minted, dep_weights(deps), dep_divisor(deps), n) <= minted
}

// ---- settlement of the liquidity withdrawals of one pool (C15/C16)
pub open spec fn withdrawals_pre(reqs: Seq<Transaction>, k: PoolKey) -> bool {
    &&& reqs.len() > 0
    &&& forall|i: int| 0 <= i < reqs.len() ==> (#[trigger] reqs[i]).outputs@.len() == 1 && reqs[i].outputs@[0].value.0 > 0
    &&& forall|i: int, j: int| 0 <= i < j < reqs.len() ==> spec_txhash(#[trigger] reqs[i]) != spec_txhash(#[trigger] reqs[j])
}
/// PoolState::withdraw(q): q liquidity retired; the proportional (rounded down) part of both reserves paid out, everything when the pool is emptied
pub open spec fn pool_withdrawn(p0: PoolState, p1: PoolState, q: int, wl: int, wr: int) -> bool {
    &&& p1.liqs as int == p0.liqs - q
    &&& p1.liqs == 0 ==> wl == p0.lefts && wr == p0.rights && p1.lefts == 0 && p1.rights == 0
    &&& p1.liqs != 0 ==> wl == (p0.lefts * q) / (p0.liqs as int) && wr == (p0.rights * q) / (p0.liqs as int) && p1.lefts as int == p0.lefts - wl && p1.rights as int == p0.rights - wr
}
/// a withdrawal request's output becomes its pro-rata share of the left payout; a second coin with the share of the right payout appears next to it
pub open spec fn wd_coins(t: Transaction, k: PoolKey, wl: int, wr: int, q: int, height: BlockHeight, a: CoinDataHeight, b: CoinDataHeight) -> bool {
    let o = t.outputs@[0];
    &&& a.height == height && a.coin_data.covhash == o.covhash && a.coin_data.additional_data == o.additional_data && a.coin_data.denom == k.left
        && a.coin_data.value.0 as int == spec_multiply_frac(wl, o.value.0 as int, q)
    &&& b.height == height && b.coin_data.covhash == o.covhash && b.coin_data.additional_data == o.additional_data && b.coin_data.denom == k.right
        && b.coin_data.value.0 as int == spec_multiply_frac(wr, o.value.0 as int, q)
}
pub open spec fn wd_id(reqs: Seq<Transaction>, n: int, id: CoinID) -> bool { exists|i: int| 0 <= i < n && (id == cid(#[trigger] reqs[i], 0) || id == cid(reqs[i], 1)) }
pub open spec fn wds_settled(c0: IMap<CoinID, CoinDataHeight>, c: IMap<CoinID, CoinDataHeight>, reqs: Seq<Transaction>, n: int, k: PoolKey, wl: int, wr: int, q: int, height: BlockHeight) -> bool {
    &&& forall|id: CoinID| #[trigger] c.contains_key(id) <==> (c0.contains_key(id) || wd_id(reqs, n, id))
    &&& forall|i: int| 0 <= i < n ==> wd_coins(#[trigger] reqs[i], k, wl, wr, q, height, c[cid(reqs[i], 0)], c[cid(reqs[i], 1)])
    &&& forall|id: CoinID| c.contains_key(id) && !wd_id(reqs, n, id) ==> #[trigger] c[id] == c0[id]
}
/// C15/C16: the withdrawals of one pool settled: exactly the redeemed liquidity is retired, the payouts leave the reserves,
/// every request receives its rounded-down share of both payouts (the shares add up to at most the payouts)
pub open spec fn withdrawals_result(pools0: Map<PoolKey, PoolState>, c0: IMap<CoinID, CoinDataHeight>, reqs: Seq<Transaction>, k: PoolKey, height: BlockHeight,
                                    pools1: Map<PoolKey, PoolState>, c1: IMap<CoinID, CoinDataHeight>, wl: int, wr: int) -> bool {
    let n = reqs.len() as int; let q = true_sum(out_vals(reqs, 0), n);
    &&& 0 <= wl <= u128::MAX && 0 <= wr <= u128::MAX
    &&& pools1.dom() == pools0.dom() && (forall|k2: PoolKey| k2 != k && pools0.contains_key(k2) ==> #[trigger] pools1[k2] == pools0[k2])
    &&& pool_withdrawn(pools0[k], pools1[k], q, wl, wr)
    &&& wds_settled(c0, c1, reqs, n, k, wl, wr, q, height)
    &&& share_sum(wl, out_vals(reqs, 0), q, n) <= wl && share_sum(wr, out_vals(reqs, 0), q, n) <= wr
}
pub proof fn lemma_wd_id_step(reqs: Seq<Transaction>, n: int, id: CoinID)
    requires 0 <= n < reqs.len()
    ensures wd_id(reqs, n + 1, id) <==> (wd_id(reqs, n, id) || id == cid(reqs[n], 0) || id == cid(reqs[n], 1))
{
    if wd_id(reqs, n + 1, id) { let i = choose|i: int| 0 <= i < n + 1 && (id == cid(#[trigger] reqs[i], 0) || id == cid(reqs[i], 1)); if i < n { assert(wd_id(reqs, n, id)); } }
    if wd_id(reqs, n, id) { let i = choose|i: int| 0 <= i < n && (id == cid(#[trigger] reqs[i], 0) || id == cid(reqs[i], 1)); assert(0 <= i < n + 1 && (id == cid(reqs[i], 0) || id == cid(reqs[i], 1))); }
    if id == cid(reqs[n], 0) || id == cid(reqs[n], 1) { assert(0 <= n < n + 1 && (id == cid(reqs[n], 0) || id == cid(reqs[n], 1))); }
}
pub proof fn lemma_wds_settled_step(c0: IMap<CoinID, CoinDataHeight>, c: IMap<CoinID, CoinDataHeight>, reqs: Seq<Transaction>, n: int, k: PoolKey, wl: int, wr: int, q: int, height: BlockHeight, a: CoinDataHeight, b: CoinDataHeight)
    requires wds_settled(c0, c, reqs, n, k, wl, wr, q, height), 0 <= n < reqs.len(), wd_coins(reqs[n], k, wl, wr, q, height, a, b),
             forall|i: int, j: int| 0 <= i < j < reqs.len() ==> spec_txhash(#[trigger] reqs[i]) != spec_txhash(#[trigger] reqs[j])
    ensures wds_settled(c0, c.insert(cid(reqs[n], 0), a).insert(cid(reqs[n], 1), b), reqs, n + 1, k, wl, wr, q, height)
{
    let ia = cid(reqs[n], 0); let ib = cid(reqs[n], 1);
    let c2 = c.insert(ia, a).insert(ib, b);
    assert(ia != ib);
    assert forall|id: CoinID| true implies (#[trigger] wd_id(reqs, n + 1, id) <==> (wd_id(reqs, n, id) || id == ia || id == ib)) by { lemma_wd_id_step(reqs, n, id); }
    assert forall|i: int| 0 <= i < n implies cid(#[trigger] reqs[i], 0) != ia && cid(reqs[i], 0) != ib && cid(reqs[i], 1) != ia && cid(reqs[i], 1) != ib by { assert(spec_txhash(reqs[i]) != spec_txhash(reqs[n])); }
    assert forall|i: int| 0 <= i < n + 1 implies wd_coins(#[trigger] reqs[i], k, wl, wr, q, height, c2[cid(reqs[i], 0)], c2[cid(reqs[i], 1)]) by {}
}
/// inserting a coin under an id (hash(tx), i) beyond tx's outputs cannot break the origin invariant
pub proof fn lemma_origin_insert_extra(c: IMap<CoinID, CoinDataHeight>, tx: Transaction, i: int, d: CoinDataHeight)
    requires origin_ok(c), tx.outputs@.len() <= i <= 255
    ensures origin_ok(c.insert(cid(tx, i), d))
{
    broadcast use axiom_txhash_inj;
    let c2 = c.insert(cid(tx, i), d);
    assert forall|tx2: Transaction, i2: int| 0 <= i2 < tx2.outputs@.len() && i2 <= 255 && c2.contains_key(#[trigger] cid(tx2, i2))
        implies c2[cid(tx2, i2)].coin_data.covhash == tx2.outputs@[i2].covhash by {
        if cid(tx2, i2) == cid(tx, i) { assert(spec_txhash(tx2) == spec_txhash(tx)); assert(i2 as u8 == i as u8); assert(i2 == i); assert(tx2.outputs@ == tx.outputs@); assert(false); }
    }
}

// ---- the deposit phase over all pools named by the block's deposit requests (process_deposits)
pub open spec fn deposit_pred<C: ContentAddrStore>(s: UnsealedState<C>) -> spec_fn(Transaction) -> bool { |tx: Transaction| is_deposit_req(s, tx) }
pub open spec fn dep_reqs_ok(c0: IMap<CoinID, CoinDataHeight>, reqs: Seq<Transaction>) -> bool {
    &&& reqs_distinct(reqs)
    &&& forall|j: int| 0 <= j < reqs.len() ==> ({ let tx = #[trigger] reqs[j];
            tx.outputs@.len() >= 2 && c0.contains_key(cid(tx, 0)) && c0.contains_key(cid(tx, 1)) && spec_req_key(tx.data@) is Some && tx.outputs@[0].value.0 > 0 && tx.outputs@[1].value.0 > 0 })
}
pub open spec fn dep_tl(reqs: Seq<Transaction>, k: PoolKey) -> int { sat_sum(out_vals(pool_reqs(reqs, k), 0), pool_reqs(reqs, k).len() as int) }
pub open spec fn dep_tr(reqs: Seq<Transaction>, k: PoolKey) -> int { sat_sum(out_vals(pool_reqs(reqs, k), 1), pool_reqs(reqs, k).len() as int) }
pub open spec fn dep_shares_ok(reqs: Seq<Transaction>, k: PoolKey, minted: int) -> bool {
    0 <= minted <= u128::MAX && share_sum(minted, dep_weights(pool_reqs(reqs, k)), dep_divisor(pool_reqs(reqs, k)), pool_reqs(reqs, k).len() as int) <= minted
}
/// the pools in `done` have had their deposits settled (mint(k) = liquidity recorded for pool k's deposits of this block)
pub open spec fn deps_done(pools0: Map<PoolKey, PoolState>, c0: IMap<CoinID, CoinDataHeight>, height: BlockHeight, legacy: bool, reqs: Seq<Transaction>, done: ISet<PoolKey>,
                           mint: spec_fn(PoolKey) -> int, pools1: Map<PoolKey, PoolState>, c1: IMap<CoinID, CoinDataHeight>) -> bool {
    &&& forall|k: PoolKey| #[trigger] pools1.contains_key(k) <==> (pools0.contains_key(k) || done.contains(k))
    &&& forall|k: PoolKey| #[trigger] pools1.contains_key(k) ==> (if done.contains(k) { pool_deposited(pool_or_empty(pools0, k), pools1[k], dep_tl(reqs, k), dep_tr(reqs, k), mint(k)) && dep_shares_ok(reqs, k, mint(k)) }
                                                                 else { pools1[k] == pools0[k] })
    &&& !legacy ==> deps_coins_done(c0, height, reqs, done, mint, c1)
}
pub open spec fn dep_gone(reqs: Seq<Transaction>, done: ISet<PoolKey>, id: CoinID) -> bool { exists|j: int| 0 <= j < reqs.len() && done.contains(swap_key(#[trigger] reqs[j])) && id == cid(reqs[j], 1) }
pub open spec fn deps_coins_done(c0: IMap<CoinID, CoinDataHeight>, height: BlockHeight, reqs: Seq<Transaction>, done: ISet<PoolKey>, mint: spec_fn(PoolKey) -> int, c1: IMap<CoinID, CoinDataHeight>) -> bool {
    &&& forall|id: CoinID| #[trigger] c1.contains_key(id) <==> (c0.contains_key(id) && !dep_gone(reqs, done, id))
    &&& forall|j: int| 0 <= j < reqs.len() ==> ({ let tx = #[trigger] reqs[j]; let k = swap_key(tx);
            if done.contains(k) { dep_coin(tx, k, mint(k), dep_divisor(pool_reqs(reqs, k)), height, c1[cid(tx, 0)]) } else { c1[cid(tx, 0)] == c0[cid(tx, 0)] } })
    &&& forall|id: CoinID| c1.contains_key(id) && !(exists|j: int| 0 <= j < reqs.len() && id == cid(#[trigger] reqs[j], 0)) ==> #[trigger] c1[id] == c0[id]
}
pub proof fn lemma_selected_deposits<C: ContentAddrStore>(s: UnsealedState<C>, reqs: Seq<Transaction>)
    requires selected(s.transactions@, reqs, deposit_pred(s)), txs_keyed(s.transactions@)
    ensures dep_reqs_ok(s.coins@.coins, reqs), forall|j: int| 0 <= j < reqs.len() ==> is_deposit_req(s, #[trigger] reqs[j])
{
    let txs = s.transactions@;
    let ks = choose|ks: Seq<TxHash>| #[trigger] is_enum(txs, ks) && reqs == Seq::new(ks.len(), |i: int| txs[ks[i]]).filter(deposit_pred(s));
    let items = Seq::new(ks.len(), |i: int| txs[ks[i]]);
    assert(reqs_distinct(items)) by {
        assert forall|i: int, j: int| 0 <= i < j < items.len() implies spec_txhash(#[trigger] items[i]) != spec_txhash(#[trigger] items[j]) by {
            assert(ks.contains(ks[i]) && ks.contains(ks[j])); assert(txs.contains_key(ks[i]) && txs.contains_key(ks[j]));
            assert(spec_txhash(txs[ks[i]]) == ks[i] && spec_txhash(txs[ks[j]]) == ks[j]);
        }
    }
    lemma_filter_distinct(items, deposit_pred(s));
    lemma_filter_mem(items, deposit_pred(s));
    assert forall|j: int| 0 <= j < reqs.len() implies is_deposit_req(s, #[trigger] reqs[j]) by { assert(reqs.contains(reqs[j])); assert(deposit_pred(s)(reqs[j])); }
}
pub proof fn lemma_pool_deps_pre(c0: IMap<CoinID, CoinDataHeight>, reqs: Seq<Transaction>, k: PoolKey)
    requires dep_reqs_ok(c0, reqs)
    ensures deposits_pre(pool_reqs(reqs, k), k)
{
    let rk = pool_reqs(reqs, k);
    lemma_filter_mem(reqs, for_pool(k));
    lemma_filter_distinct(reqs, for_pool(k));
    assert forall|i: int| 0 <= i < rk.len() implies (#[trigger] rk[i]).outputs@.len() >= 2 && rk[i].outputs@[0].value.0 > 0 && rk[i].outputs@[1].value.0 > 0 by {
        assert(rk.contains(rk[i])); let j = choose|j: int| 0 <= j < reqs.len() && reqs[j] == rk[i];
    }
}
pub proof fn lemma_deps_done_step(pools0: Map<PoolKey, PoolState>, c0: IMap<CoinID, CoinDataHeight>, height: BlockHeight, legacy: bool, reqs: Seq<Transaction>, done: ISet<PoolKey>,
        mint: spec_fn(PoolKey) -> int, pb: Map<PoolKey, PoolState>, cb: IMap<CoinID, CoinDataHeight>, k: PoolKey, p1: Map<PoolKey, PoolState>, c1: IMap<CoinID, CoinDataHeight>, minted: int)
    requires dep_reqs_ok(c0, reqs), deps_done(pools0, c0, height, legacy, reqs, done, mint, pb, cb), !done.contains(k), mentions(reqs, k),
             deposits_result(pb, cb, pool_reqs(reqs, k), k, height, legacy, p1, c1, minted)
    ensures deps_done(pools0, c0, height, legacy, reqs, done.insert(k), |k2: PoolKey| if k2 == k { minted } else { mint(k2) }, p1, c1)
{
    broadcast use axiom_txhash_inj;
    let rk = pool_reqs(reqs, k); let d2 = done.insert(k); let m2 = |k2: PoolKey| if k2 == k { minted } else { mint(k2) };
    lemma_filter_mem(reqs, for_pool(k));
    assert(pool_or_empty(pb, k) == pool_or_empty(pools0, k));
    assert forall|k2: PoolKey| #[trigger] p1.contains_key(k2) <==> (pools0.contains_key(k2) || d2.contains(k2)) by {}
    if !legacy {
        let n = rk.len() as int; let div = dep_divisor(rk);
        // a first/second output id of a request of pool k belongs to a request in rk
        assert forall|j: int, i: int, w: int, w2: int| 0 <= j < reqs.len() && 0 <= i < rk.len() && (w == 0 || w == 1) && (w2 == 0 || w2 == 1) && #[trigger] cid(reqs[j], w) == #[trigger] cid(rk[i], w2) implies reqs[j] == rk[i] && w == w2 by {
            assert(rk.contains(rk[i])); let q = choose|q: int| 0 <= q < reqs.len() && reqs[q] == rk[i];
            assert(spec_txhash(reqs[j]) == spec_txhash(reqs[q]));
            if j != q { if j < q { assert(spec_txhash(reqs[j]) != spec_txhash(reqs[q])); } else { assert(spec_txhash(reqs[q]) != spec_txhash(reqs[j])); } }
        }
        assert forall|id: CoinID| true implies (#[trigger] dep_gone(reqs, d2, id) <==> (dep_gone(reqs, done, id) || exists|i: int| 0 <= i < n && id == cid(#[trigger] rk[i], 1))) by {
            if dep_gone(reqs, d2, id) { let j = choose|j: int| 0 <= j < reqs.len() && d2.contains(swap_key(#[trigger] reqs[j])) && id == cid(reqs[j], 1);
                if swap_key(reqs[j]) == k { assert(for_pool(k)(reqs[j])); assert(reqs.contains(reqs[j])); assert(rk.contains(reqs[j])); let i = choose|i: int| 0 <= i < rk.len() && rk[i] == reqs[j]; assert(id == cid(rk[i], 1)); }
                else { assert(done.contains(swap_key(reqs[j]))); assert(dep_gone(reqs, done, id)); } }
            if dep_gone(reqs, done, id) { let j = choose|j: int| 0 <= j < reqs.len() && done.contains(swap_key(#[trigger] reqs[j])) && id == cid(reqs[j], 1); assert(d2.contains(swap_key(reqs[j]))); }
            if exists|i: int| 0 <= i < n && id == cid(#[trigger] rk[i], 1) { let i = choose|i: int| 0 <= i < n && id == cid(#[trigger] rk[i], 1);
                assert(rk.contains(rk[i])); let q = choose|q: int| 0 <= q < reqs.len() && reqs[q] == rk[i]; assert(for_pool(k)(reqs[q])); assert(d2.contains(swap_key(reqs[q])) && id == cid(reqs[q], 1)); }
        }
        assert forall|id: CoinID| #[trigger] c1.contains_key(id) <==> (c0.contains_key(id) && !dep_gone(reqs, d2, id)) by {
            if exists|i: int| 0 <= i < n && id == cid(#[trigger] rk[i], 0) { let i = choose|i: int| 0 <= i < n && id == cid(#[trigger] rk[i], 0);
                assert(rk.contains(rk[i])); let q = choose|q: int| 0 <= q < reqs.len() && reqs[q] == rk[i]; assert(c0.contains_key(cid(reqs[q], 0)));
                // an id of a first output is never the id of a second output that was consumed
                if dep_gone(reqs, done, id) { let j = choose|j: int| 0 <= j < reqs.len() && done.contains(swap_key(#[trigger] reqs[j])) && id == cid(reqs[j], 1); assert(cid(reqs[j], 1) == cid(rk[i], 0)); }
                assert(cb.contains_key(id));
            }
            assert(cb.contains_key(id) <==> (c0.contains_key(id) && !dep_gone(reqs, done, id)));
        }
        assert forall|j: int| 0 <= j < reqs.len() implies ({ let tx = #[trigger] reqs[j]; let kk = swap_key(tx);
                if d2.contains(kk) { dep_coin(tx, kk, m2(kk), dep_divisor(pool_reqs(reqs, kk)), height, c1[cid(tx, 0)]) } else { c1[cid(tx, 0)] == c0[cid(tx, 0)] } }) by {
            let tx = reqs[j]; let kk = swap_key(tx);
            if kk == k {
                assert(for_pool(k)(tx)); assert(reqs.contains(tx)); assert(rk.contains(tx));
                let i = choose|i: int| 0 <= i < rk.len() && rk[i] == tx;
                assert(dep_coin(rk[i], k, minted, div, height, c1[cid(rk[i], 0)]));
            } else {
                assert(!(exists|i: int| 0 <= i < n && cid(tx, 0) == cid(#[trigger] rk[i], 0))) by {
                    if exists|i: int| 0 <= i < n && cid(tx, 0) == cid(#[trigger] rk[i], 0) { let i = choose|i: int| 0 <= i < n && cid(tx, 0) == cid(#[trigger] rk[i], 0);
                        assert(cid(reqs[j], 0) == cid(rk[i], 0)); assert(reqs[j] == rk[i]); assert(rk.contains(rk[i])); assert(for_pool(k)(rk[i])); } }
                assert(!(exists|i: int| 0 <= i < n && cid(tx, 0) == cid(#[trigger] rk[i], 1))) by {
                    if exists|i: int| 0 <= i < n && cid(tx, 0) == cid(#[trigger] rk[i], 1) { let i = choose|i: int| 0 <= i < n && cid(tx, 0) == cid(#[trigger] rk[i], 1); assert(cid(reqs[j], 0) == cid(rk[i], 1)); } }
                assert(c0.contains_key(cid(tx, 0)));
                assert(!dep_gone(reqs, done, cid(tx, 0))) by { if dep_gone(reqs, done, cid(tx, 0)) { let j2 = choose|j2: int| 0 <= j2 < reqs.len() && done.contains(swap_key(#[trigger] reqs[j2])) && cid(tx, 0) == cid(reqs[j2], 1); assert(cid(reqs[j], 0) == cid(reqs[j2], 1)); assert((0 as u8) == (1 as u8)); } }
                assert(cb.contains_key(cid(tx, 0)));
                assert(c1.contains_key(cid(tx, 0)));
                assert(c1[cid(tx, 0)] == cb[cid(tx, 0)]);
            }
        }
        assert forall|id: CoinID| c1.contains_key(id) && !(exists|j: int| 0 <= j < reqs.len() && id == cid(#[trigger] reqs[j], 0)) implies #[trigger] c1[id] == c0[id] by {
            assert(!(exists|i: int| 0 <= i < n && id == cid(#[trigger] rk[i], 0))) by {
                if exists|i: int| 0 <= i < n && id == cid(#[trigger] rk[i], 0) { let i = choose|i: int| 0 <= i < n && id == cid(#[trigger] rk[i], 0);
                    assert(rk.contains(rk[i])); let q = choose|q: int| 0 <= q < reqs.len() && reqs[q] == rk[i]; assert(id == cid(reqs[q], 0)); } }
            assert(c1[id] == cb[id]);
        }
    }
}
/// `reqs` are pairwise different transactions of the block
pub open spec fn reqs_from(txs: Map<TxHash, Transaction>, reqs: Seq<Transaction>) -> bool {
    reqs_distinct(reqs) && forall|i: int| 0 <= i < reqs.len() ==> txs.contains_key(spec_txhash(#[trigger] reqs[i])) && txs[spec_txhash(reqs[i])] == reqs[i]
}
/// C09 envelope of the deposit phase: the weights isqrt(l)*isqrt(r) of any set of the block's transactions (each below 2^120) add up to less than 2^128
pub open spec fn deposit_weights_fit(txs: Map<TxHash, Transaction>) -> bool {
    forall|reqs: Seq<Transaction>| #[trigger] reqs_from(txs, reqs) && (forall|i: int| 0 <= i < reqs.len() ==> (#[trigger] reqs[i]).outputs@.len() >= 2) ==> true_sum(dep_weights(reqs), reqs.len() as int) <= u128::MAX
}
pub proof fn lemma_selected_from<C: ContentAddrStore>(s: UnsealedState<C>, reqs: Seq<Transaction>, p: spec_fn(Transaction) -> bool, k: PoolKey)
    requires selected(s.transactions@, reqs, p), txs_keyed(s.transactions@)
    ensures reqs_from(s.transactions@, reqs), reqs_from(s.transactions@, pool_reqs(reqs, k))
{
    let txs = s.transactions@;
    let ks = choose|ks: Seq<TxHash>| #[trigger] is_enum(txs, ks) && reqs == Seq::new(ks.len(), |i: int| txs[ks[i]]).filter(p);
    let items = Seq::new(ks.len(), |i: int| txs[ks[i]]);
    assert(reqs_distinct(items)) by {
        assert forall|i: int, j: int| 0 <= i < j < items.len() implies spec_txhash(#[trigger] items[i]) != spec_txhash(#[trigger] items[j]) by {
            assert(ks.contains(ks[i]) && ks.contains(ks[j])); assert(txs.contains_key(ks[i]) && txs.contains_key(ks[j]));
            assert(spec_txhash(txs[ks[i]]) == ks[i] && spec_txhash(txs[ks[j]]) == ks[j]);
        }
    }
    lemma_filter_distinct(items, p); lemma_filter_mem(items, p);
    lemma_filter_distinct(reqs, for_pool(k)); lemma_filter_mem(reqs, for_pool(k));
    assert forall|i: int| 0 <= i < reqs.len() implies txs.contains_key(spec_txhash(#[trigger] reqs[i])) && txs[spec_txhash(reqs[i])] == reqs[i] by {
        assert(reqs.contains(reqs[i])); let q = choose|q: int| 0 <= q < items.len() && items[q] == reqs[i]; assert(ks.contains(ks[q])); assert(txs.contains_key(ks[q])); assert(spec_txhash(txs[ks[q]]) == ks[q]);
    }
    let rk = pool_reqs(reqs, k);
    assert forall|i: int| 0 <= i < rk.len() implies txs.contains_key(spec_txhash(#[trigger] rk[i])) && txs[spec_txhash(rk[i])] == rk[i] by {
        assert(rk.contains(rk[i])); let q = choose|q: int| 0 <= q < reqs.len() && reqs[q] == rk[i];
    }
}
/// a pool that took a deposit is live with non-zero liquidity (pools_ok is kept)
pub proof fn lemma_deposit_keeps_ok(pools0: Map<PoolKey, PoolState>, reqs: Seq<Transaction>, k: PoolKey, p1: PoolState, minted: int, c0: IMap<CoinID, CoinDataHeight>)
    requires pools_ok(pools0), mentions(reqs, k), dep_reqs_ok(c0, reqs), pool_deposited(pool_or_empty(pools0, k), p1, dep_tl(reqs, k), dep_tr(reqs, k), minted), 0 <= minted
    ensures pool_live(p1) && p1.liqs > 0
{
    let rk = pool_reqs(reqs, k);
    lemma_filter_mem(reqs, for_pool(k));
    let j = choose|j: int| 0 <= j < reqs.len() && spec_req_key((#[trigger] reqs[j]).data@) == Some(k);
    assert(for_pool(k)(reqs[j])); assert(reqs.contains(reqs[j])); assert(rk.contains(reqs[j]));
    let i = choose|i: int| 0 <= i < rk.len() && rk[i] == reqs[j];
    lemma_pool_deps_pre(c0, reqs, k);
    lemma_sat_sum_bounds(out_vals(rk, 0), rk.len() as int); lemma_sat_sum_bounds(out_vals(rk, 1), rk.len() as int);
    assert(out_vals(rk, 0)[i] >= 1 && out_vals(rk, 1)[i] >= 1);
    assert(dep_tl(reqs, k) >= 1 && dep_tr(reqs, k) >= 1);
    let p0 = pool_or_empty(pools0, k);
    if pools0.contains_key(k) { assert((pool_live(p0) && p0.liqs > 0) || (p0.lefts == 0 && p0.rights == 0 && p0.liqs == 0)); }
}
pub open spec fn mentioned_set(reqs: Seq<Transaction>) -> ISet<PoolKey> { ISet::new(|k: PoolKey| mentions(reqs, k)) }
/// the envelopes of the pool-settlement phases (declared uninterpreted in lemmas/sealenv_opaque.rs for the sealing unit)
pub open spec fn seal_env<C: ContentAddrStore>(s: UnsealedState<C>) -> bool { microergs_fit(s.height.0 as nat) && deposit_weights_fit(s.transactions@) && wd_env(s.transactions@, s.pools@, s.coins@.coins, spec_tip(s.network, s.height, 180000)) }

// ---- the withdrawal phase (process_withdrawals)
pub open spec fn withdraw_pred<C: ContentAddrStore>(s: UnsealedState<C>) -> spec_fn(Transaction) -> bool { |tx: Transaction| is_withdraw_req(s, tx) }
pub open spec fn is_builtin_key(k: PoolKey, t902: bool) -> bool { k == pk_mel_sym() || k == pk_mel_erg() || (t902 && k == pk_erg_sym()) }
/// liquidity of pool k that can be redeemed: everything for an ordinary pool, all but one unit for a built-in pool (whose first 10^9 belong to nobody)
pub open spec fn liq_avail(pools: Map<PoolKey, PoolState>, k: PoolKey, t902: bool) -> int { if pools.contains_key(k) { pools[k].liqs - (if is_builtin_key(k, t902) { 1int } else { 0int }) } else { 0 } }
/// envelope of the withdrawal phase (a predicate of the block's transaction set and the coin ids in use): whichever of the block's one-output
/// transactions name pool k, their first-output values fit in u128 together; no such transaction has a coin under index 1 yet.
/// (It used to contain the C16 backing invariant -- requests never exceed the pool's liquidity -- which the code now checks itself.)
pub open spec fn wd_env(txs: Map<TxHash, Transaction>, pools: Map<PoolKey, PoolState>, c: IMap<CoinID, CoinDataHeight>, t902: bool) -> bool {
    &&& forall|reqs: Seq<Transaction>, k: PoolKey| #[trigger] reqs_from(txs, reqs) && (forall|i: int| 0 <= i < reqs.len() ==> (#[trigger] reqs[i]).outputs@.len() == 1 && spec_req_key(reqs[i].data@) == Some(k) && reqs[i].kind == TxKind::LiqWithdraw)
            ==> #[trigger] wd_fit(reqs, k)
    &&& forall|h: TxHash| #[trigger] txs.contains_key(h) && txs[h].outputs@.len() == 1 ==> !c.contains_key(cid(txs[h], 1))
}
/// u128 envelope: the liquidity named by the block's withdrawal requests for one pool adds up to less than 2^128 (the named pool is a tag)
pub open spec fn wd_fit(reqs: Seq<Transaction>, k: PoolKey) -> bool { true_sum(out_vals(reqs, 0), reqs.len() as int) <= u128::MAX }
/// the guard of process_withdrawals_for_single_pool (fix: over-redeeming requests are left unsettled): the requests of a block name more
/// liquidity than the pool records, or all the liquidity of a built-in pool
pub open spec fn wd_refused(p: PoolState, q: int, builtin: bool) -> bool { q > p.liqs || (builtin && q == p.liqs) }
pub open spec fn wd_settles(pools0: Map<PoolKey, PoolState>, reqs: Seq<Transaction>, k: PoolKey, t902: bool) -> bool { pools0.contains_key(k) && !wd_refused(pools0[k], wd_q(reqs, k), is_builtin_key(k, t902)) }
/// the pools whose withdrawal requests of this block are settled
pub open spec fn wd_settled_set(reqs: Seq<Transaction>, pools0: Map<PoolKey, PoolState>, t902: bool) -> ISet<PoolKey> { ISet::new(|k: PoolKey| mentions(reqs, k) && wd_settles(pools0, reqs, k, t902)) }
pub open spec fn wdone_set(pools: Seq<PoolKey>, i: int, reqs: Seq<Transaction>, pools0: Map<PoolKey, PoolState>, t902: bool) -> ISet<PoolKey> { ISet::new(|k: PoolKey| (exists|j: int| 0 <= j < i && pools[j] == k) && wd_settles(pools0, reqs, k, t902)) }
/// pools only gain liquidity and never disappear; coin ids only disappear
pub open spec fn liqs_mono(pools0: Map<PoolKey, PoolState>, pools1: Map<PoolKey, PoolState>) -> bool { forall|k: PoolKey| #[trigger] pools0.contains_key(k) ==> pools1.contains_key(k) && pools1[k].liqs >= pools0[k].liqs }
pub open spec fn ids_sub(c0: IMap<CoinID, CoinDataHeight>, c1: IMap<CoinID, CoinDataHeight>) -> bool { forall|id: CoinID| #[trigger] c1.contains_key(id) ==> c0.contains_key(id) }
pub proof fn lemma_wd_env_mono(txs: Map<TxHash, Transaction>, pools0: Map<PoolKey, PoolState>, c0: IMap<CoinID, CoinDataHeight>, pools1: Map<PoolKey, PoolState>, c1: IMap<CoinID, CoinDataHeight>, t902: bool)
    requires wd_env(txs, pools0, c0, t902), ids_sub(c0, c1)
    ensures wd_env(txs, pools1, c1, t902)
{
    assert forall|reqs: Seq<Transaction>, k: PoolKey| #[trigger] reqs_from(txs, reqs) && (forall|i: int| 0 <= i < reqs.len() ==> (#[trigger] reqs[i]).outputs@.len() == 1 && spec_req_key(reqs[i].data@) == Some(k) && reqs[i].kind == TxKind::LiqWithdraw)
            implies #[trigger] wd_fit(reqs, k) by { }
}
pub open spec fn wd_reqs_ok(pools0: Map<PoolKey, PoolState>, c0: IMap<CoinID, CoinDataHeight>, reqs: Seq<Transaction>) -> bool {
    &&& reqs_distinct(reqs)
    &&& forall|j: int| 0 <= j < reqs.len() ==> ({ let tx = #[trigger] reqs[j];
            tx.kind == TxKind::LiqWithdraw && tx.outputs@.len() == 1 && c0.contains_key(cid(tx, 0)) && spec_req_key(tx.data@) is Some && pools0.contains_key(swap_key(tx)) && tx.outputs@[0].value.0 > 0 })
}
pub open spec fn wd_q(reqs: Seq<Transaction>, k: PoolKey) -> int { true_sum(out_vals(pool_reqs(reqs, k), 0), pool_reqs(reqs, k).len() as int) }
pub open spec fn wd_new(reqs: Seq<Transaction>, done: ISet<PoolKey>, id: CoinID) -> bool { exists|j: int| 0 <= j < reqs.len() && done.contains(swap_key(#[trigger] reqs[j])) && id == cid(reqs[j], 1) }
/// the pools in `done` have had their withdrawals settled (wl(k), wr(k): what pool k paid out)
pub open spec fn wds_done(pools0: Map<PoolKey, PoolState>, c0: IMap<CoinID, CoinDataHeight>, height: BlockHeight, reqs: Seq<Transaction>, done: ISet<PoolKey>,
                          wl: spec_fn(PoolKey) -> int, wr: spec_fn(PoolKey) -> int, pools1: Map<PoolKey, PoolState>, c1: IMap<CoinID, CoinDataHeight>) -> bool {
    &&& pools1.dom() == pools0.dom()
    &&& forall|k: PoolKey| #[trigger] pools0.contains_key(k) ==> (if done.contains(k) { pool_withdrawn(pools0[k], pools1[k], wd_q(reqs, k), wl(k), wr(k)) && 0 <= wl(k) <= u128::MAX && 0 <= wr(k) <= u128::MAX
                && share_sum(wl(k), out_vals(pool_reqs(reqs, k), 0), wd_q(reqs, k), pool_reqs(reqs, k).len() as int) <= wl(k)
                && share_sum(wr(k), out_vals(pool_reqs(reqs, k), 0), wd_q(reqs, k), pool_reqs(reqs, k).len() as int) <= wr(k) } else { pools1[k] == pools0[k] })
    &&& forall|id: CoinID| #[trigger] c1.contains_key(id) <==> (c0.contains_key(id) || wd_new(reqs, done, id))
    &&& forall|j: int| 0 <= j < reqs.len() ==> ({ let tx = #[trigger] reqs[j]; let k = swap_key(tx);
            if done.contains(k) { wd_coins(tx, k, wl(k), wr(k), wd_q(reqs, k), height, c1[cid(tx, 0)], c1[cid(tx, 1)]) } else { c1[cid(tx, 0)] == c0[cid(tx, 0)] } })
    &&& forall|id: CoinID| c1.contains_key(id) && !(exists|j: int| 0 <= j < reqs.len() && (id == cid(#[trigger] reqs[j], 0) || id == cid(reqs[j], 1))) ==> #[trigger] c1[id] == c0[id]
}
pub proof fn lemma_selected_withdrawals<C: ContentAddrStore>(s: UnsealedState<C>, reqs: Seq<Transaction>)
    requires selected(s.transactions@, reqs, withdraw_pred(s)), txs_keyed(s.transactions@)
    ensures wd_reqs_ok(s.pools@, s.coins@.coins, reqs), forall|j: int| 0 <= j < reqs.len() ==> is_withdraw_req(s, #[trigger] reqs[j])
{
    let txs = s.transactions@;
    let ks = choose|ks: Seq<TxHash>| #[trigger] is_enum(txs, ks) && reqs == Seq::new(ks.len(), |i: int| txs[ks[i]]).filter(withdraw_pred(s));
    let items = Seq::new(ks.len(), |i: int| txs[ks[i]]);
    assert(reqs_distinct(items)) by {
        assert forall|i: int, j: int| 0 <= i < j < items.len() implies spec_txhash(#[trigger] items[i]) != spec_txhash(#[trigger] items[j]) by {
            assert(ks.contains(ks[i]) && ks.contains(ks[j])); assert(txs.contains_key(ks[i]) && txs.contains_key(ks[j]));
            assert(spec_txhash(txs[ks[i]]) == ks[i] && spec_txhash(txs[ks[j]]) == ks[j]);
        }
    }
    lemma_filter_distinct(items, withdraw_pred(s));
    lemma_filter_mem(items, withdraw_pred(s));
    assert forall|j: int| 0 <= j < reqs.len() implies is_withdraw_req(s, #[trigger] reqs[j]) by { assert(reqs.contains(reqs[j])); assert(withdraw_pred(s)(reqs[j])); }
}
/// the requests of pool k satisfy the single-pool preconditions (under the phase envelope)
pub proof fn lemma_pool_wds_pre(txs: Map<TxHash, Transaction>, pools0: Map<PoolKey, PoolState>, c0: IMap<CoinID, CoinDataHeight>, reqs: Seq<Transaction>, k: PoolKey, t902: bool)
    requires wd_reqs_ok(pools0, c0, reqs), mentions(reqs, k), wd_env(txs, pools0, c0, t902), reqs_from(txs, pool_reqs(reqs, k))
    ensures withdrawals_pre(pool_reqs(reqs, k), k), pools0.contains_key(k), wd_q(reqs, k) <= u128::MAX,
            forall|i: int| 0 <= i < pool_reqs(reqs, k).len() ==> !c0.contains_key(cid(#[trigger] pool_reqs(reqs, k)[i], 1))
{
    let rk = pool_reqs(reqs, k);
    lemma_filter_mem(reqs, for_pool(k));
    lemma_filter_distinct(reqs, for_pool(k));
    assert forall|i: int| 0 <= i < rk.len() implies (#[trigger] rk[i]).outputs@.len() == 1 && rk[i].outputs@[0].value.0 > 0 && spec_req_key(rk[i].data@) == Some(k) && rk[i].kind == TxKind::LiqWithdraw
        && !c0.contains_key(cid(rk[i], 1)) by {
        assert(rk.contains(rk[i])); let j = choose|j: int| 0 <= j < reqs.len() && reqs[j] == rk[i]; assert(for_pool(k)(reqs[j]));
        assert(txs.contains_key(spec_txhash(rk[i])) && txs[spec_txhash(rk[i])] == rk[i]);
    }
    let j0 = choose|j: int| 0 <= j < reqs.len() && spec_req_key((#[trigger] reqs[j]).data@) == Some(k);
    assert(swap_key(reqs[j0]) == k); assert(for_pool(k)(reqs[j0])); assert(reqs.contains(reqs[j0])); assert(rk.contains(reqs[j0]));
    assert(wd_fit(rk, k));
}
pub proof fn lemma_wds_done_step(pools0: Map<PoolKey, PoolState>, c0: IMap<CoinID, CoinDataHeight>, height: BlockHeight, reqs: Seq<Transaction>, done: ISet<PoolKey>,
        wl: spec_fn(PoolKey) -> int, wr: spec_fn(PoolKey) -> int, pb: Map<PoolKey, PoolState>, cb: IMap<CoinID, CoinDataHeight>, k: PoolKey, p1: Map<PoolKey, PoolState>, c1: IMap<CoinID, CoinDataHeight>, l: int, r: int)
    requires wd_reqs_ok(pools0, c0, reqs), wds_done(pools0, c0, height, reqs, done, wl, wr, pb, cb), !done.contains(k), mentions(reqs, k), pools0.contains_key(k),
             withdrawals_result(pb, cb, pool_reqs(reqs, k), k, height, p1, c1, l, r)
    ensures wds_done(pools0, c0, height, reqs, done.insert(k), |k2: PoolKey| if k2 == k { l } else { wl(k2) }, |k2: PoolKey| if k2 == k { r } else { wr(k2) }, p1, c1)
{
    broadcast use axiom_txhash_inj;
    let rk = pool_reqs(reqs, k); let d2 = done.insert(k); let n = rk.len() as int; let q = wd_q(reqs, k);
    let wl2 = |k2: PoolKey| if k2 == k { l } else { wl(k2) }; let wr2 = |k2: PoolKey| if k2 == k { r } else { wr(k2) };
    lemma_filter_mem(reqs, for_pool(k));
    assert(pb[k] == pools0[k]);
    assert(p1.dom() =~= pools0.dom());
    assert forall|j: int, i: int, w: int, w2: int| 0 <= j < reqs.len() && 0 <= i < rk.len() && (w == 0 || w == 1) && (w2 == 0 || w2 == 1) && #[trigger] cid(reqs[j], w) == #[trigger] cid(rk[i], w2) implies reqs[j] == rk[i] && w == w2 by {
        assert(rk.contains(rk[i])); let qq = choose|qq: int| 0 <= qq < reqs.len() && reqs[qq] == rk[i];
        assert(spec_txhash(reqs[j]) == spec_txhash(reqs[qq]));
        if j != qq { if j < qq { assert(spec_txhash(reqs[j]) != spec_txhash(reqs[qq])); } else { assert(spec_txhash(reqs[qq]) != spec_txhash(reqs[j])); } }
    }
    // ids touched by this step: first and second output ids of the requests of pool k
    assert forall|id: CoinID| true implies (#[trigger] wd_id(rk, n, id) <==> exists|j: int| 0 <= j < reqs.len() && swap_key(#[trigger] reqs[j]) == k && (id == cid(reqs[j], 0) || id == cid(reqs[j], 1))) by {
        if wd_id(rk, n, id) { let i = choose|i: int| 0 <= i < n && (id == cid(#[trigger] rk[i], 0) || id == cid(rk[i], 1)); assert(rk.contains(rk[i])); let j = choose|j: int| 0 <= j < reqs.len() && reqs[j] == rk[i]; assert(for_pool(k)(reqs[j])); assert(swap_key(reqs[j]) == k); }
        if exists|j: int| 0 <= j < reqs.len() && swap_key(#[trigger] reqs[j]) == k && (id == cid(reqs[j], 0) || id == cid(reqs[j], 1)) {
            let j = choose|j: int| 0 <= j < reqs.len() && swap_key(#[trigger] reqs[j]) == k && (id == cid(reqs[j], 0) || id == cid(reqs[j], 1));
            assert(for_pool(k)(reqs[j])); assert(reqs.contains(reqs[j])); assert(rk.contains(reqs[j])); let i = choose|i: int| 0 <= i < rk.len() && rk[i] == reqs[j]; assert(0 <= i < n && (id == cid(rk[i], 0) || id == cid(rk[i], 1))); }
    }
    assert forall|id: CoinID| true implies (#[trigger] wd_new(reqs, d2, id) <==> (wd_new(reqs, done, id) || exists|j: int| 0 <= j < reqs.len() && swap_key(#[trigger] reqs[j]) == k && id == cid(reqs[j], 1))) by {
        if wd_new(reqs, d2, id) { let j = choose|j: int| 0 <= j < reqs.len() && d2.contains(swap_key(#[trigger] reqs[j])) && id == cid(reqs[j], 1); if swap_key(reqs[j]) != k { assert(done.contains(swap_key(reqs[j]))); assert(wd_new(reqs, done, id)); } }
        if wd_new(reqs, done, id) { let j = choose|j: int| 0 <= j < reqs.len() && done.contains(swap_key(#[trigger] reqs[j])) && id == cid(reqs[j], 1); assert(d2.contains(swap_key(reqs[j]))); }
        if exists|j: int| 0 <= j < reqs.len() && swap_key(#[trigger] reqs[j]) == k && id == cid(reqs[j], 1) { let j = choose|j: int| 0 <= j < reqs.len() && swap_key(#[trigger] reqs[j]) == k && id == cid(reqs[j], 1); assert(d2.contains(swap_key(reqs[j]))); }
    }
    assert forall|id: CoinID| #[trigger] c1.contains_key(id) <==> (c0.contains_key(id) || wd_new(reqs, d2, id)) by {
        if wd_id(rk, n, id) {
            let j = choose|j: int| 0 <= j < reqs.len() && swap_key(#[trigger] reqs[j]) == k && (id == cid(reqs[j], 0) || id == cid(reqs[j], 1));
            if id == cid(reqs[j], 0) { assert(c0.contains_key(id)); } else { assert(d2.contains(swap_key(reqs[j])) && id == cid(reqs[j], 1)); assert(wd_new(reqs, d2, id)); }
        }
        assert(cb.contains_key(id) <==> (c0.contains_key(id) || wd_new(reqs, done, id)));
    }
    assert forall|j: int| 0 <= j < reqs.len() implies ({ let tx = #[trigger] reqs[j]; let kk = swap_key(tx);
            if d2.contains(kk) { wd_coins(tx, kk, wl2(kk), wr2(kk), wd_q(reqs, kk), height, c1[cid(tx, 0)], c1[cid(tx, 1)]) } else { c1[cid(tx, 0)] == c0[cid(tx, 0)] } }) by {
        let tx = reqs[j]; let kk = swap_key(tx);
        if kk == k {
            assert(for_pool(k)(tx)); assert(reqs.contains(tx)); assert(rk.contains(tx));
            let i = choose|i: int| 0 <= i < rk.len() && rk[i] == tx;
            assert(wd_coins(rk[i], k, l, r, q, height, c1[cid(rk[i], 0)], c1[cid(rk[i], 1)]));
        } else {
            assert(!wd_id(rk, n, cid(tx, 0))) by { if wd_id(rk, n, cid(tx, 0)) { let j2 = choose|j2: int| 0 <= j2 < reqs.len() && swap_key(#[trigger] reqs[j2]) == k && (cid(tx, 0) == cid(reqs[j2], 0) || cid(tx, 0) == cid(reqs[j2], 1));
                if j != j2 { if j < j2 { assert(spec_txhash(reqs[j]) != spec_txhash(reqs[j2])); } else { assert(spec_txhash(reqs[j2]) != spec_txhash(reqs[j])); } } } }
            assert(!wd_id(rk, n, cid(tx, 1))) by { if wd_id(rk, n, cid(tx, 1)) { let j2 = choose|j2: int| 0 <= j2 < reqs.len() && swap_key(#[trigger] reqs[j2]) == k && (cid(tx, 1) == cid(reqs[j2], 0) || cid(tx, 1) == cid(reqs[j2], 1));
                if j != j2 { if j < j2 { assert(spec_txhash(reqs[j]) != spec_txhash(reqs[j2])); } else { assert(spec_txhash(reqs[j2]) != spec_txhash(reqs[j])); } } } }
            assert(c0.contains_key(cid(tx, 0))); assert(cb.contains_key(cid(tx, 0))); assert(c1.contains_key(cid(tx, 0)));
            assert(c1[cid(tx, 0)] == cb[cid(tx, 0)]);
            if done.contains(kk) { assert(wd_new(reqs, done, cid(tx, 1))); assert(cb.contains_key(cid(tx, 1))); assert(c1.contains_key(cid(tx, 1))); assert(c1[cid(tx, 1)] == cb[cid(tx, 1)]); }
        }
    }
    assert forall|id: CoinID| c1.contains_key(id) && !(exists|j: int| 0 <= j < reqs.len() && (id == cid(#[trigger] reqs[j], 0) || id == cid(reqs[j], 1))) implies #[trigger] c1[id] == c0[id] by {
        assert(!wd_id(rk, n, id));
        assert(c1[id] == cb[id]);
    }
}
/// a pool that paid out a withdrawal within its redeemable liquidity keeps pools_ok; a built-in pool stays live
pub proof fn lemma_withdraw_keeps_ok(p0: PoolState, p1: PoolState, q: int, wl: int, wr: int, builtin: bool)
    requires (pool_live(p0) && p0.liqs > 0) || (p0.lefts == 0 && p0.rights == 0 && p0.liqs == 0), pool_withdrawn(p0, p1, q, wl, wr), 1 <= q <= p0.liqs - (if builtin { 1int } else { 0int })
    ensures (pool_live(p1) && p1.liqs > 0) || (p1.lefts == 0 && p1.rights == 0 && p1.liqs == 0), builtin ==> pool_live(p1)
{
    if p1.liqs != 0 {
        let lq = p0.liqs as int; let a = p0.lefts as int; let b = p0.rights as int;
        assert((a * q) / lq < a) by { vstd::arithmetic::div_mod::lemma_fundamental_div_mod(a * q, lq); vstd::arithmetic::div_mod::lemma_mod_bound(a * q, lq);
            assert(a * q < a * lq) by (nonlinear_arith) requires a > 0, q < lq;
            let d = (a * q) / lq; assert(d < a) by (nonlinear_arith) requires a * q == lq * d + (a * q) % lq, 0 <= (a * q) % lq, a * q < a * lq, lq > 0; }
        assert((b * q) / lq < b) by { vstd::arithmetic::div_mod::lemma_fundamental_div_mod(b * q, lq); vstd::arithmetic::div_mod::lemma_mod_bound(b * q, lq);
            assert(b * q < b * lq) by (nonlinear_arith) requires b > 0, q < lq;
            let d = (b * q) / lq; assert(d < b) by (nonlinear_arith) requires b * q == lq * d + (b * q) % lq, 0 <= (b * q) % lq, b * q < b * lq, lq > 0; }
    }
}
pub proof fn lemma_wd_q_pos(reqs: Seq<Transaction>, k: PoolKey)
    requires withdrawals_pre(pool_reqs(reqs, k), k) ensures wd_q(reqs, k) >= 1
{
    let rk = pool_reqs(reqs, k); let v = out_vals(rk, 0);
    lemma_true_sum_ge(v, rk.len() as int, 0);
}
pub proof fn lemma_true_sum_ge(s: Seq<int>, n: int, i: int)
    requires 0 <= i < n <= s.len(), forall|q: int| 0 <= q < s.len() ==> #[trigger] s[q] >= 0 ensures true_sum(s, n) >= s[i] decreases n
{ lemma_true_sum_nonneg(s, n - 1); if i < n - 1 { lemma_true_sum_ge(s, n - 1, i); } }
/// live built-in pools have at least one unit of liquidity (pools_ok)
pub proof fn lemma_builtin_liqs<C: ContentAddrStore>(s: UnsealedState<C>)
    requires pools_ok(s.pools@), builtins_live(s)
    ensures forall|k: PoolKey| #[trigger] s.pools@.contains_key(k) ==> s.pools@[k].liqs >= (if is_builtin_key(k, spec_tip(s.network, s.height, 180000)) { 1int } else { 0int })
{
}

// ---- C19: the settlement phases never touch a faucet's dedup marker (they write and remove coins only under ids of transaction outputs)
pub proof fn lemma_marker_not_req(reqs: Seq<Transaction>, h: TxHash)
    ensures forall|j: int, i: int| 0 <= j < reqs.len() ==> #[trigger] cid(reqs[j], i) != spec_marker(h)
{
    broadcast use axiom_marker_not_output;
    assert forall|j: int, i: int| 0 <= j < reqs.len() implies #[trigger] cid(reqs[j], i) != spec_marker(h) by { assert(spec_txhash(reqs[j]).0 != spec_fdp_hash(h)); }
}
pub proof fn lemma_swaps_markers(pools0: Map<PoolKey, PoolState>, c0: IMap<CoinID, CoinDataHeight>, height: BlockHeight, reqs: Seq<Transaction>, done: ISet<PoolKey>, pools1: Map<PoolKey, PoolState>, c1: IMap<CoinID, CoinDataHeight>)
    requires swaps_done(pools0, c0, height, reqs, done, pools1, c1) ensures markers_kept(c0, c1)
{
    assert forall|h: TxHash| c0.contains_key(#[trigger] spec_marker(h)) implies c1.contains_key(spec_marker(h)) && c1[spec_marker(h)] == c0[spec_marker(h)] by { lemma_marker_not_req(reqs, h); }
}
pub proof fn lemma_deps_markers(pools0: Map<PoolKey, PoolState>, c0: IMap<CoinID, CoinDataHeight>, height: BlockHeight, reqs: Seq<Transaction>, done: ISet<PoolKey>, mint: spec_fn(PoolKey) -> int, pools1: Map<PoolKey, PoolState>, c1: IMap<CoinID, CoinDataHeight>)
    requires deps_done(pools0, c0, height, false, reqs, done, mint, pools1, c1) ensures markers_kept(c0, c1)
{
    assert forall|h: TxHash| c0.contains_key(#[trigger] spec_marker(h)) implies c1.contains_key(spec_marker(h)) && c1[spec_marker(h)] == c0[spec_marker(h)] by {
        lemma_marker_not_req(reqs, h); assert(!dep_gone(reqs, done, spec_marker(h))); }
}
pub proof fn lemma_wds_markers(pools0: Map<PoolKey, PoolState>, c0: IMap<CoinID, CoinDataHeight>, height: BlockHeight, reqs: Seq<Transaction>, done: ISet<PoolKey>, wl: spec_fn(PoolKey) -> int, wr: spec_fn(PoolKey) -> int, pools1: Map<PoolKey, PoolState>, c1: IMap<CoinID, CoinDataHeight>)
    requires wds_done(pools0, c0, height, reqs, done, wl, wr, pools1, c1) ensures markers_kept(c0, c1)
{
    assert forall|h: TxHash| c0.contains_key(#[trigger] spec_marker(h)) implies c1.contains_key(spec_marker(h)) && c1[spec_marker(h)] == c0[spec_marker(h)] by { lemma_marker_not_req(reqs, h); }
}
// ---- ages of the coins a settlement phase writes (chain invariant coin_heights_ok): every coin a phase leaves behind is either
// untouched or was written at this block's height
pub proof fn lemma_swaps_young(pools0: Map<PoolKey, PoolState>, c0: IMap<CoinID, CoinDataHeight>, height: BlockHeight, reqs: Seq<Transaction>, done: ISet<PoolKey>, pools1: Map<PoolKey, PoolState>, c1: IMap<CoinID, CoinDataHeight>)
    requires swaps_done(pools0, c0, height, reqs, done, pools1, c1) ensures young(c0, c1, height)
{
    assert forall|id: CoinID| #[trigger] c1.contains_key(id) implies (c0.contains_key(id) && c1[id] == c0[id]) || c1[id].height == height by {
        if exists|j: int| 0 <= j < reqs.len() && id == cid(#[trigger] reqs[j], 0) { let j = choose|j: int| 0 <= j < reqs.len() && id == cid(#[trigger] reqs[j], 0); let tx = reqs[j]; }
    }
}
pub proof fn lemma_wds_young(pools0: Map<PoolKey, PoolState>, c0: IMap<CoinID, CoinDataHeight>, height: BlockHeight, reqs: Seq<Transaction>, done: ISet<PoolKey>, wl: spec_fn(PoolKey) -> int, wr: spec_fn(PoolKey) -> int, pools1: Map<PoolKey, PoolState>, c1: IMap<CoinID, CoinDataHeight>)
    requires wds_done(pools0, c0, height, reqs, done, wl, wr, pools1, c1), forall|j: int| 0 <= j < reqs.len() ==> done.contains(swap_key(#[trigger] reqs[j])) || !c0.contains_key(cid(reqs[j], 1))
    ensures young(c0, c1, height)
{
    assert forall|id: CoinID| #[trigger] c1.contains_key(id) implies (c0.contains_key(id) && c1[id] == c0[id]) || c1[id].height == height by {
        if exists|j: int| 0 <= j < reqs.len() && (id == cid(#[trigger] reqs[j], 0) || id == cid(reqs[j], 1)) {
            let j = choose|j: int| 0 <= j < reqs.len() && (id == cid(#[trigger] reqs[j], 0) || id == cid(reqs[j], 1)); let tx = reqs[j];
            if !done.contains(swap_key(tx)) { if id == cid(tx, 1) { assert(!c0.contains_key(id)); assert(wd_new(reqs, done, id));
                let j2 = choose|j2: int| 0 <= j2 < reqs.len() && done.contains(swap_key(#[trigger] reqs[j2])) && id == cid(reqs[j2], 1);
                broadcast use axiom_txhash_inj; assert(spec_txhash(reqs[j2]) == spec_txhash(tx)); assert(reqs[j2] == tx); } }
        } else if !c0.contains_key(id) { assert(wd_new(reqs, done, id)); let j = choose|j: int| 0 <= j < reqs.len() && done.contains(swap_key(#[trigger] reqs[j])) && id == cid(reqs[j], 1); assert(false); }
    }
}
