// C07: the header a sealed state commits to, as a function of the abstract state (hand-written)
pub uninterp spec fn spec_header<C: ContentAddrStore>(s: UnsealedState<C>) -> Header;
/// the state a sealing produces (melmint settlement, TIP-909 subsidy, proposer action); defined in the seal unit, opaque elsewhere
pub uninterp spec fn spec_seal<C: ContentAddrStore>(s: UnsealedState<C>, a: Option<ProposerAction>) -> UnsealedState<C>;
/// "the previous block's header" as a covenant sees it: the header stored at height-1, or (only at height 0) the header this
/// very state would seal to without a proposer action
pub open spec fn spec_last_header<C: ContentAddrStore>(s: UnsealedState<C>) -> Header {
    let h = BlockHeight(if s.height.0 == 0 { 0u64 } else { (s.height.0 - 1) as u64 });
    if s.history@.contains_key(h) { s.history@[h] } else { spec_header(spec_seal(s, None)) }
}
