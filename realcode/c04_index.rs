// F-C04-index on the real code: asserts the property (the environment tells each input its true position); FAILS on the
// pinned tree. Covenant: approve iff the spender index is 0.  257 inputs: input number 256 is told it is number 0.
use crate::*;
use melstructs::*;
use melvm::{opcode::OpCode, Covenant};
use novasmt::{Database, InMemoryCas};

#[test]
fn c04_index_wraps_after_256_inputs() {
    let db = Database::new(InMemoryCas::default());
    let mut state = GenesisConfig::std_testnet().realize(&db);
    state.network = NetID::Custom02;
    state.fee_multiplier = 0;
    let first_only = Covenant::from_ops(&[OpCode::LoadImm(9), OpCode::PushI(0u32.into()), OpCode::Eql]);
    let any = Covenant::always_true();
    let mut inputs = vec![];
    for n in 0..257u32 {
        let mut h = [0u8; 32];
        h[0] = 7; h[1] = (n >> 8) as u8; h[2] = n as u8;
        let id = CoinID { txhash: tmelcrypt::HashVal(h).into(), index: 0 };
        let cov = if n == 256 { first_only.hash() } else { any.hash() };
        state.coins.insert_coin(id, CoinDataHeight { coin_data: CoinData { covhash: cov, value: CoinValue(1), denom: Denom::Mel, additional_data: vec![].into() }, height: 0.into() }, state.tip_906());
        inputs.push(id);
    }
    let tx = Transaction { kind: TxKind::Normal, inputs, outputs: vec![CoinData { covhash: any.hash(), value: CoinValue(257), denom: Denom::Mel, additional_data: vec![].into() }],
        fee: CoinValue(0), covenants: vec![any.to_bytes(), first_only.to_bytes()], data: vec![].into(), sigs: vec![] };
    assert!(state.clone().apply_tx(&tx).is_err(), "input number 256 is not the first input, its `index == 0` covenant must refuse");
}
