use vstd::prelude::*;
verus! {

pub enum OpCode { Noop, Add, PushB(Vec<u8>) }
pub struct DecodeError;

pub uninterp spec fn enc(op: OpCode) -> Seq<u8>;

impl OpCode {
    #[verifier::external_body]
    pub fn decode(input: &mut &[u8]) -> (r: Result<OpCode, DecodeError>)
        ensures
            r is Ok ==> old(input)@ == enc(r->Ok_0) + final(input)@ && enc(r->Ok_0).len() > 0,
    { unimplemented!() }

    #[verifier::external_body]
    pub fn encode(&self, output: &mut Vec<u8>) -> (r: Result<(), ()>)
        ensures r is Ok ==> final(output)@ == old(output)@ + enc(*self),
    { unimplemented!() }
}

pub open spec fn enc_all(ops: Seq<OpCode>) -> Seq<u8>
    decreases ops.len()
{
    if ops.len() == 0 { Seq::empty() } else { enc_all(ops.drop_last()) + enc(ops.last()) }
}

pub fn from_bytes(mut b: &[u8]) -> (r: Result<Vec<OpCode>, DecodeError>)
    ensures r is Ok ==> enc_all(r->Ok_0@) == b@
{
    let ghost orig = b@;
    let mut opcodes: Vec<OpCode> = Vec::with_capacity(128);
    while !b.is_empty()
        invariant enc_all(opcodes@) + b@ == orig
        decreases b@.len()
    {
        let ghost prev = opcodes@;
        opcodes.push(OpCode::decode(&mut b)?);
        proof {
            assert(opcodes@.drop_last() == prev);
            assert(enc_all(opcodes@) == enc_all(prev) + enc(opcodes@.last()));
            assert(enc_all(prev) + (enc(opcodes@.last()) + b@) == enc_all(opcodes@) + b@);
        }
    }
    proof { assert(b@ == Seq::<u8>::empty()); assert(enc_all(opcodes@) + b@ == enc_all(opcodes@)); }
    Ok(opcodes)
}
}
fn main() {}
