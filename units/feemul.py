from spec import *

UNIT = Unit(
    name="feemul", lemma_obs=['lemma_step_bounded'],
    prelude=["core.rs", "raw.rs", "iter.rs", "crypto.rs", "state_abs.rs"],
    lemmas=["sums.rs", "coinsview.rs", "feemul.rs"],
    items=[
        TypeItem("src/state.rs", "struct", "UnsealedState"),
        Fn("src/state.rs", "move_action_fee_multiplier", impl=r"UnsealedState", home="C17",
           implicit_props=("C09", "C17"),
           ensures=[
               C("step", """2 <= old(self).fee_multiplier <= 0x40_0000_0000_0000_0000u128 ==>
                      final(self).fee_multiplier as int == old(self).fee_multiplier as int
                      + spec_fee_step(old(self).fee_multiplier, after_tip_901, action.fee_multiplier_delta as int)""", "C17",
                 note="the property's exact step on its stated domain (multiplier up to 2^70; below 2 the step cannot be exact because the multiplier is unsigned)"),
               C("total", """({ let t = old(self).fee_multiplier as int + spec_fee_step(old(self).fee_multiplier, after_tip_901, action.fee_multiplier_delta as int);
                      final(self).fee_multiplier as int == (if t < 0 { 0 } else if t > u128::MAX { u128::MAX as int } else { t }) })""", "C17", "C09",
                 note="all multipliers 0..2^128: the exact step, clamped to the representable range; never wraps"),
               C("bounded", """({ let d = final(self).fee_multiplier as int - old(self).fee_multiplier as int;
                      -spec_max_movement(old(self).fee_multiplier, after_tip_901) <= d <= spec_max_movement(old(self).fee_multiplier, after_tip_901) })""", "C17"),
               C("frame", """final(self).network == old(self).network && final(self).height == old(self).height
                      && final(self).history == old(self).history && final(self).coins == old(self).coins
                      && final(self).transactions == old(self).transactions && final(self).fee_pool == old(self).fee_pool
                      && final(self).tips == old(self).tips && final(self).dosc_speed == old(self).dosc_speed
                      && final(self).pools == old(self).pools && final(self).stakes == old(self).stakes""", "C17"),
           ],
           injects=[
               Inject("entry", "proof { lemma_shr7(self.fee_multiplier); lemma_step_bounded(self.fee_multiplier, after_tip_901, action.fee_multiplier_delta as int); }"),
               Inject(("after_let", "max_movement"), """proof {
                   let mm = max_movement as int; let d = action.fee_multiplier_delta as int; let ab = if d >= 0 { d } else { -d };
                   assert(mm == spec_max_movement(self.fee_multiplier, after_tip_901));
                   assert(0 <= mm * ab <= mm * 128) by (nonlinear_arith) requires 0 <= mm, 0 <= ab <= 128;
                   assert(mm * d == (if d >= 0 { mm * ab } else { -(mm * ab) })) by (nonlinear_arith) requires ab == (if d >= 0 { d } else { -d });
               }"""),
           ]),
    ],
)
