import os
from spec import *
from _contracts import *

L = "lib/melvm/src/lib.rs"
O = "lib/melvm/src/opcode.rs"
K = "lib/melvm/src/consts.rs"
import re as _re
OPCONSTS = [n for n in _re.findall(r"const (OPCODE_[A-Z0-9_]+): u8", open(os.path.join(REPO, K)).read()) if n != "OPCODE_PRINT"]
UNIT = Unit(
    name="codec", lemma_obs=['lemma_roundtrip', 'lemma_dec_then_enc', 'lemma_k1', 'lemma_k2'], uses=None,
    prelude=["core.rs", "raw.rs", "melvm_types.rs", "melvm_exec.rs", "codec_io.rs"],
    lemmas=["sums.rs", "weight.rs", "codec_def.rs", "codec.rs"],
    items=[
        TypeItem(O, "enum", "OpCode", derive="#[derive(Clone)]"),
        Raw("use std::sync::Arc; use std::io::Read; use std::io::Write;"),
        *[TypeItem(K, "const", n) for n in OPCONSTS],
        TypeItem(O, "enum", "DecodeError", subst=[("#[from] ", "")]),
        TypeItem(O, "enum", "EncodeError"),
        Raw("""impl core::fmt::Debug for EncodeError { #[verifier::external_body] fn fmt(&self, f: &mut core::fmt::Formatter<'_>) -> core::fmt::Result { unimplemented!() } }
// thiserror's `#[from]` on DecodeError::IoError: the generated conversion wraps the error
impl vstd::std_specs::convert::FromSpecImpl<std::io::Error> for DecodeError { open spec fn obeys_from_spec() -> bool { false } uninterp spec fn from_spec(v: std::io::Error) -> DecodeError; }
impl From<std::io::Error> for DecodeError { #[verifier::external_body] fn from(e: std::io::Error) -> (r: DecodeError) ensures r is IoError { DecodeError::IoError(e) } }"""),
        TypeItem(L, "struct", "Covenant", subst=[("(Arc<Vec<OpCode>>)", "(pub Arc<Vec<OpCode>>)")]),
        Raw("impl View for Covenant { type V = Seq<OpCode>; open spec fn view(&self) -> Seq<OpCode> { (*self.0)@ } }"),
        Fn(O, "read_byte", home="C12", implicit_props=("C09", "C12"), sig_subst=[("read_byte<T: std::io::Read>(input: &mut T)", "read_byte(input: &mut &[u8])")],
           ensures=[C("byte", "old(input)@.len() >= 1 ==> res is Ok && res->Ok_0 == old(input)@[0] && final(input)@ == old(input)@.skip(1)", "C12", "C04", "C05"),
                    C("short", "old(input)@.len() == 0 ==> res is Err", "C12", "C04", "C05")]),
        Fn(O, "decode", impl="OpCode", home="C12", implicit_props=("C09", "C12"), sig_subst=[("decode<T: std::io::Read>(input: &mut T)", "decode(input: &mut &[u8])")],
           rewrites=[("SUBALL", r"\|input: &mut T\|", "|input: &mut &[u8]|"), ("SUBALL", r"\bu16::from_be_bytes\(", "u16_from_be_bytes("), ("SUBALL", r"\bu8::from_be_bytes\(", "u8_from_be_bytes("),
                     ("SUBALL", r"\bu16::from_le_bytes\(", "u16_from_le_bytes("), ("SUBALL", r"\bu16::from_ne_bytes\(", "u16_from_ne_bytes(")],
           closures=[Closure(0, "input: &mut &[u8]", "(r: Result<u16, DecodeError>)", ensures=[
                         C("u16arg", "old(input)@.len() >= 2 ==> r is Ok && r->Ok_0 == u16of(old(input)@[0], old(input)@[1]) && final(input)@ == old(input)@.skip(2)", "C12"),
                         C("u16short", "old(input)@.len() < 2 ==> r is Err", "C12")]),
                     Closure(1, "input: &mut &[u8]", "(r: Result<u8, DecodeError>)", ensures=[
                         C("u8arg", "old(input)@.len() >= 1 ==> r is Ok && r->Ok_0 == old(input)@[0] && final(input)@ == old(input)@.skip(1)", "C12"),
                         C("u8short", "old(input)@.len() < 1 ==> r is Err", "C12")])],
           injects=[Inject("entry", "proof { broadcast use axiom_vec_u8_ext, axiom_vec_of, axiom_u256_ext, axiom_u256_of, axiom_be_inv, axiom_be, lemma_skip_skip, lemma_skip_take, lemma_skip_index; }"),
                    Inject(("after_let", "integ"), """proof { let b0 = old(input)@; let n = b0[1] as nat; let p = b0.subrange(2, (2 + n) as int); let s = zeros((32 - n) as nat) + p;
                        assert(b0.skip(1).skip(1) =~= b0.skip(2)); assert(b0.skip(2).take(n as int) =~= p); assert(b0.skip(2).skip(n as int) =~= b0.skip((2 + n) as int));
                        assert(buf@.reverse() =~= s); assert(s.len() == 32); lemma_lead0_zeros((32 - n) as nat, p);
                        assert(be_bytes(integ@) == s); assert(lead0(p) == 0 <==> (n == 0 || p[0] != 0)); assert(n > 0 ==> p[0] == b0[2]); }""")],
           ensures=[C("k", "match spec_decode1(old(input)@) { Some((op, n)) => res == Ok::<OpCode, DecodeError>(op) && n <= old(input)@.len() && final(input)@ == old(input)@.skip(n as int), None => res is Err }", "C12", "C04", "C05",
                      note="the decoder computes the defined wire format: Ok exactly on the strings that start with one well-formed instruction (canonical PushIC only), consuming exactly that instruction")]),
        Fn(O, "encode", impl="OpCode", home="C12", implicit_props=("C09", "C12"),
           rewrites=[("SUBALL", r"\.to_be_bytes\(\)", ".to_be_bytes_v()"), ("SUBALL", r"\.to_le_bytes\(\)", ".to_le_bytes_v()"), ("SUBALL", r"bytes_repr\.iter\(\)\.take_while\(\|i\| \*\*i == 0\)\.count\(\)", "count_leading_zero_bytes(&bytes_repr)")],
           injects=[Inject(("after_let", "leading_zeros"), "proof { broadcast use axiom_u256_range, axiom_be; assert(bytes_repr@.len() == 32); lemma_lead0_bound(bytes_repr@); }")],
           ensures=[C("k", "match spec_encode1(*self) { Some(e) => res is Ok && final(output)@ == old(output)@ + e, None => res is Err && final(output)@ == old(output)@ }", "C12", "C04",
                      note="the encoder appends exactly the defined encoding; the only failure is a PushB literal longer than 255 bytes, which writes nothing")]),
        Fn(O, "opcodes_weight", mode="assume", ensures=[C("value", "res as int == spec_weight(opcodes@)", "C11")]),
        Fn(L, "from_bytes", impl="Covenant", home="C12", implicit_props=("C09", "C12"),
           ensures=[C("whole", "match dec_all(b@) { Some(ops) => res is Ok && res->Ok_0@ == ops, None => res is Err }", "C12", "C04", "C05",
                      note="C04/C05: validate_tx_scripts rejects a coin whose covenant bytes do not decode, and the weight charged for them is 0 -- both rest on from_bytes failing on EVERY string that is not a whole program (seed C04h)"),
                    C("reencodes", "res is Ok ==> enc_all(res->Ok_0@) == Some(b@)", "C12", "C04")],
           rewrites=[("MUTPARAM", "b", "cur"), ("SUB", "Ok(Self(opcodes.into()))", "Ok(Self(Arc::new(opcodes)))")],
           injects=[Inject("before_tail", "proof { if dec_all(b@) is Some { lemma_dec_then_enc(b@); } }")],
           loops=[Loop(0, decreases="cur@.len()",
               body_entry="let ghost bb = cur@; let ghost ops0 = opcodes@; proof { broadcast use lemma_k1; assert(bb.len() > 0); if spec_decode1(bb) is None { assert(dec_all(bb) is None); } }",
               body_exit="""proof { broadcast use lemma_k1; let op = spec_decode1(bb)->Some_0.0; let n = spec_decode1(bb)->Some_0.1;
                   assert(1 <= n <= bb.len()); assert(cur@ == bb.skip(n as int)); assert(opcodes@ == ops0.push(op));
                   if dec_all(cur@) is Some { let r = dec_all(cur@)->Some_0; assert(dec_all(bb) == Some(seq![op] + r)); assert(ops0 + (seq![op] + r) =~= ops0.push(op) + r); }
                   else { assert(dec_all(bb) is None); } }""",
               invariants=[
               C("progress", """(dec_all(b@) is Some <==> dec_all(cur@) is Some) && (dec_all(b@) is Some ==> dec_all(b@)->Some_0 == opcodes@ + dec_all(cur@)->Some_0)""", "C12", "C04", "C05"),
           ])]),
        Fn(L, "to_bytes", impl="Covenant", home="C12", implicit_props=("C09", "C12"), uses="group_core_axioms",
           requires=[C("encodable", "enc_all(self@) is Some", note="every PushB literal has at most 255 bytes (true of every covenant obtained from from_bytes)")],
           ensures=[C("bytes", "Some(res@) == enc_all(self@)", "C12", "C04")],
           loops=[Loop(0, binder="it", invariants=[
               C("prefix", "refs_of(it.seq(), self@) && enc_all(self@) is Some && enc_all(self@.take(it.index@ as int)) == Some(out@)", "C12"),
           ], body_entry="proof { let j = it.index@ as int; lemma_enc_take(self@, j + 1); assert(self@.take(j + 1).last() == self@[j]); assert(*op == self@[j]); assert(self@.take(j + 1).drop_last() =~= self@.take(j)); }",
              body_exit="proof { let j = it.index@ as int; assert(self@.take(j + 1) =~= self@.take(j).push(self@[j])); lemma_enc_all_push(self@.take(j), self@[j]); lemma_enc_take(self@, j + 1); }")],
           injects=[Inject(("before", "for op in"), "proof { assert(self@.take(0) =~= Seq::<OpCode>::empty()); }"),
                    Inject("before_tail", "proof { assert(self@.take(self@.len() as int) =~= self@); }")]),
        Fn(L, "weight", impl="Covenant", home="C11", implicit_props=("C09", "C11"), ensures=[C("value", "res as int == spec_weight(self@)", "C11", "C05")]),
        Fn(L, "hash", impl="Covenant", home="C12", implicit_props=("C09", "C12"),
           requires=[C("encodable", "enc_all(self@) is Some")],
           ensures=[C("hash", "res == Address(h1(enc_all(self@)->Some_0))", "C12", "C04")]),
        Fn(L, "covenant_weight_from_bytes", home="C05", implicit_props=("C09", "C05", "C11"),
           ensures=[C("weight", "res as int == (match dec_all(b@) { Some(ops) => spec_weight(ops), None => 0 })", "C05", "C11",
                      note="the weight a transaction is charged for a covenant: the weight of the decoded program, 0 for bytes that do not decode"),
                    C("named", "res as nat == spec_cov_weight_b(b@)", "C05", note="the name under which the other units (apply, batch, deptx) use this result")],
           injects=[Inject("entry", "proof { axiom_cov_weight_def(b@); }")],
           closures=[Closure(0, "b: Covenant", "(r: u128)", ensures=[C("w", "r as int == spec_weight(b@)", "C05")])]),
    ],
)
