// F-C04-cache on the real code: asserts the property (every input is checked against its own environment); FAILS on the
// pinned tree. Covenant: approve iff the parent coin's value is 5.
use crate::*;
use melstructs::*;
use melvm::{opcode::OpCode, Covenant};
use novasmt::{Database, InMemoryCas};

#[test]
fn c04_cache_second_input_not_checked() {
    let db = Database::new(InMemoryCas::default());
    let mut state = GenesisConfig::std_testnet().realize(&db);
    state.network = NetID::Custom02;
    state.fee_multiplier = 0;
    let cov = Covenant::from_ops(&[OpCode::LoadImm(5), OpCode::PushI(5u32.into()), OpCode::Eql]);
    let mk = |n: u8, v: u128| {
        let id = CoinID { txhash: tmelcrypt::HashVal([n; 32]).into(), index: 0 };
        (id, CoinDataHeight { coin_data: CoinData { covhash: cov.hash(), value: CoinValue(v), denom: Denom::Mel, additional_data: vec![].into() }, height: 0.into() })
    };
    let (id5, c5) = mk(1, 5);
    let (id10, c10) = mk(2, 10);
    state.coins.insert_coin(id5, c5, state.tip_906());
    state.coins.insert_coin(id10, c10, state.tip_906());
    let out = |v: u128| CoinData { covhash: Covenant::always_true().hash(), value: CoinValue(v), denom: Denom::Mel, additional_data: vec![].into() };
    let alone = Transaction { kind: TxKind::Normal, inputs: vec![id10], outputs: vec![out(10)], fee: CoinValue(0), covenants: vec![cov.to_bytes()], data: vec![].into(), sigs: vec![] };
    assert!(state.clone().apply_tx(&alone).is_err(), "the value-10 coin alone must be refused by its covenant");
    let both = Transaction { kind: TxKind::Normal, inputs: vec![id5, id10], outputs: vec![out(15)], fee: CoinValue(0), covenants: vec![cov.to_bytes()], data: vec![].into(), sigs: vec![] };
    assert!(state.clone().apply_tx(&both).is_err(), "the value-10 coin must also be refused when listed after the value-5 coin");
}
