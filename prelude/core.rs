// A-STRUCTS / A-HASH / A-SER (part): data types of tmelcrypt + melstructs 0.3.3 mirrored field by field, with the
// operator semantics the repo relies on.  Hand-written; every `external_body` / `uninterp` here is an ASSUMPTION.
use vstd::std_specs::convert::*;
use vstd::std_specs::ops::*;
use vstd::std_specs::cmp::*;
use std::collections::HashMap;
use std::collections::HashSet;
use vstd::std_specs::hash::*;
//@broadcast vstd::std_specs::hash::group_hash_axioms, keymodels::group_key_models

pub trait ContentAddrStore {}

// ---- tmelcrypt
#[derive(Clone, Copy, PartialEq, Eq, Hash, Structural)] pub struct HashVal(pub [u8; 32]);
impl core::ops::Deref for HashVal { type Target = [u8]; #[verifier::external_body] fn deref(&self) -> (r: &[u8]) ensures r@ == self.0@ { unimplemented!() } }
pub uninterp spec fn spec_zero_hash() -> HashVal;
/// HashVal::default() is the all-zero hash; A-HASH (preimage resistance for this one constant): no transaction hashes to it
pub broadcast axiom fn axiom_zero_hash() ensures #[trigger] spec_zero_hash().0@ == Seq::new(32, |i: int| 0u8);
impl HashVal {
    #[verifier::external_body] pub fn default() -> (r: HashVal) ensures r == spec_zero_hash() { unimplemented!() }
}
pub uninterp spec fn h1(b: Seq<u8>) -> HashVal;                 // tmelcrypt::hash_single
pub uninterp spec fn hk(key: Seq<u8>, b: Seq<u8>) -> HashVal;  // tmelcrypt::hash_keyed

// A-ED: Ed25519 verification is an uninterpreted, deterministic, total predicate
pub uninterp spec fn sig_ok(pk: Ed25519PK, msg: Seq<u8>, sig: Seq<u8>) -> bool;
// ---- melstructs newtypes
#[derive(Clone, Copy, PartialEq, Eq, Hash, Structural)] pub struct TxHash(pub HashVal);
#[derive(Clone, Copy, PartialEq, Eq, Hash, Structural)] pub struct Address(pub HashVal);
#[derive(Clone, Copy, PartialEq, Eq, Hash, Structural)] pub struct CoinID { pub txhash: TxHash, pub index: u8 }
#[derive(Clone, Copy, PartialEq, Eq, Hash, Structural)] pub enum TxKind { DoscMint = 0x50, Faucet = 0xff, LiqDeposit = 0x52, LiqWithdraw = 0x53, Normal = 0x00, Stake = 0x10, Swap = 0x51 }
#[derive(Clone, Copy, PartialEq, Eq, Hash, Structural)] pub enum Denom { Mel, Sym, Erg, NewCustom, Custom(TxHash) }
#[derive(Clone, Copy, PartialEq, Eq, Hash, Structural)] pub struct CoinValue(pub u128);
#[derive(Clone, Copy, PartialEq, Eq, Hash, Structural)] pub struct BlockHeight(pub u64);
#[derive(Clone, Copy, PartialEq, Eq, Hash, Structural)] pub enum NetID { Testnet = 0x01, Custom02 = 0x02, Custom03 = 0x03, Custom04 = 0x04, Custom05 = 0x05, Custom06 = 0x06, Custom07 = 0x07, Custom08 = 0x08, Mainnet = 0xff }
#[derive(Clone, Copy, PartialEq, Eq, Hash, Structural, PartialOrd, Ord)] pub struct Ed25519PK(pub [u8; 32]);

impl FromSpecImpl<HashVal> for TxHash { open spec fn obeys_from_spec() -> bool { true } open spec fn from_spec(v: HashVal) -> TxHash { TxHash(v) } }
impl From<HashVal> for TxHash { fn from(v: HashVal) -> (r: TxHash) { TxHash(v) } }
impl FromSpecImpl<HashVal> for Address { open spec fn obeys_from_spec() -> bool { true } open spec fn from_spec(v: HashVal) -> Address { Address(v) } }
impl From<HashVal> for Address { fn from(v: HashVal) -> (r: Address) { Address(v) } }
impl FromSpecImpl<u128> for CoinValue { open spec fn obeys_from_spec() -> bool { true } open spec fn from_spec(v: u128) -> CoinValue { CoinValue(v) } }
impl From<u128> for CoinValue { fn from(v: u128) -> (r: CoinValue) { CoinValue(v) } }
impl FromSpecImpl<u64> for BlockHeight { open spec fn obeys_from_spec() -> bool { true } open spec fn from_spec(v: u64) -> BlockHeight { BlockHeight(v) } }
impl From<u64> for BlockHeight { fn from(v: u64) -> (r: BlockHeight) { BlockHeight(v) } }

pub open spec fn spec_coin_destroy() -> Address { Address(spec_zero_hash()) }
impl Address {
    pub fn coin_destroy() -> (r: Address) ensures r == spec_coin_destroy() { Address(HashVal::default()) }
}

// CoinValue arithmetic: melstructs derives Add/Sub/AddAssign/SubAssign on the inner u128 (derive_more): plain
// `+`/`-`, i.e. panics on overflow in debug builds.  The panic condition is the operator's precondition.
impl AddSpecImpl<CoinValue> for CoinValue {
    open spec fn obeys_add_spec() -> bool { true }
    open spec fn add_req(self, rhs: CoinValue) -> bool { self.0 + rhs.0 <= u128::MAX }
    open spec fn add_spec(self, rhs: CoinValue) -> CoinValue { CoinValue((self.0 + rhs.0) as u128) }
}
impl core::ops::Add<CoinValue> for CoinValue { type Output = CoinValue; fn add(self, rhs: CoinValue) -> (r: CoinValue) { CoinValue(self.0 + rhs.0) } }
impl SubSpecImpl<CoinValue> for CoinValue {
    open spec fn obeys_sub_spec() -> bool { true }
    open spec fn sub_req(self, rhs: CoinValue) -> bool { self.0 >= rhs.0 }
    open spec fn sub_spec(self, rhs: CoinValue) -> CoinValue { CoinValue((self.0 - rhs.0) as u128) }
}
impl core::ops::Sub<CoinValue> for CoinValue { type Output = CoinValue; fn sub(self, rhs: CoinValue) -> (r: CoinValue) { CoinValue(self.0 - rhs.0) } }
impl AddAssignSpecImpl<CoinValue> for CoinValue {
    open spec fn obeys_add_assign_spec() -> bool { true }
    open spec fn add_assign_req(&self, rhs: CoinValue) -> bool { self.0 + rhs.0 <= u128::MAX }
    open spec fn add_assign_spec(&self, rhs: CoinValue) -> &CoinValue { &CoinValue((self.0 + rhs.0) as u128) }
}
impl core::ops::AddAssign<CoinValue> for CoinValue { fn add_assign(&mut self, rhs: CoinValue) { self.0 = self.0 + rhs.0; } }
impl SubAssignSpecImpl<CoinValue> for CoinValue {
    open spec fn obeys_sub_assign_spec() -> bool { true }
    open spec fn sub_assign_req(&self, rhs: CoinValue) -> bool { self.0 >= rhs.0 }
    open spec fn sub_assign_spec(&self, rhs: CoinValue) -> &CoinValue { &CoinValue((self.0 - rhs.0) as u128) }
}
impl core::ops::SubAssign<CoinValue> for CoinValue { fn sub_assign(&mut self, rhs: CoinValue) { self.0 = self.0 - rhs.0; } }
impl PartialOrdSpecImpl<CoinValue> for CoinValue {
    open spec fn obeys_partial_cmp_spec() -> bool { true }
    open spec fn partial_cmp_spec(&self, other: &CoinValue) -> Option<core::cmp::Ordering> {
        if self.0 < other.0 { Some(core::cmp::Ordering::Less) } else if self.0 == other.0 { Some(core::cmp::Ordering::Equal) } else { Some(core::cmp::Ordering::Greater) } }
}
impl PartialOrd for CoinValue { #[verifier::external_body] fn partial_cmp(&self, other: &CoinValue) -> (r: Option<core::cmp::Ordering>) { unimplemented!() } }
impl Default for CoinValue { fn default() -> (r: CoinValue) ensures r.0 == 0 { CoinValue(0) } }
impl CoinValue {
    pub fn min(self, other: CoinValue) -> (r: CoinValue) ensures r.0 == (if self.0 <= other.0 { self.0 } else { other.0 }) { if self.0 <= other.0 { self } else { other } }
}
pub const MAX_COINVAL: CoinValue = CoinValue(0x1_0000_0000_0000_0000_0000_0000_0000_00u128);   // 1 << 120
pub const MICRO_CONVERTER: u128 = 1_000_000;
pub const STAKE_EPOCH: u64 = 200000;

// BlockHeight arithmetic (derive_more Add/Sub/Div/AddAssign on u64) and ordering
impl PartialOrdSpecImpl<BlockHeight> for BlockHeight {
    open spec fn obeys_partial_cmp_spec() -> bool { true }
    open spec fn partial_cmp_spec(&self, other: &BlockHeight) -> Option<core::cmp::Ordering> {
        if self.0 < other.0 { Some(core::cmp::Ordering::Less) } else if self.0 == other.0 { Some(core::cmp::Ordering::Equal) } else { Some(core::cmp::Ordering::Greater) } }
}
impl PartialOrd for BlockHeight { #[verifier::external_body] fn partial_cmp(&self, other: &BlockHeight) -> (r: Option<core::cmp::Ordering>) { unimplemented!() } }
impl SubSpecImpl<BlockHeight> for BlockHeight {
    open spec fn obeys_sub_spec() -> bool { true }
    open spec fn sub_req(self, rhs: BlockHeight) -> bool { self.0 >= rhs.0 }
    open spec fn sub_spec(self, rhs: BlockHeight) -> BlockHeight { BlockHeight((self.0 - rhs.0) as u64) }
}
impl core::ops::Sub<BlockHeight> for BlockHeight { type Output = BlockHeight; fn sub(self, rhs: BlockHeight) -> (r: BlockHeight) { BlockHeight(self.0 - rhs.0) } }
impl AddSpecImpl<BlockHeight> for BlockHeight {
    open spec fn obeys_add_spec() -> bool { true }
    open spec fn add_req(self, rhs: BlockHeight) -> bool { self.0 + rhs.0 <= u64::MAX }
    open spec fn add_spec(self, rhs: BlockHeight) -> BlockHeight { BlockHeight((self.0 + rhs.0) as u64) }
}
impl core::ops::Add<BlockHeight> for BlockHeight { type Output = BlockHeight; fn add(self, rhs: BlockHeight) -> (r: BlockHeight) { BlockHeight(self.0 + rhs.0) } }
impl AddAssignSpecImpl<BlockHeight> for BlockHeight {
    open spec fn obeys_add_assign_spec() -> bool { true }
    open spec fn add_assign_req(&self, rhs: BlockHeight) -> bool { self.0 + rhs.0 <= u64::MAX }
    open spec fn add_assign_spec(&self, rhs: BlockHeight) -> &BlockHeight { &BlockHeight((self.0 + rhs.0) as u64) }
}
impl core::ops::AddAssign<BlockHeight> for BlockHeight { fn add_assign(&mut self, rhs: BlockHeight) { self.0 = self.0 + rhs.0; } }
impl DivSpecImpl<u64> for BlockHeight {
    open spec fn obeys_div_spec() -> bool { true }
    open spec fn div_req(self, rhs: u64) -> bool { rhs != 0 }
    open spec fn div_spec(self, rhs: u64) -> BlockHeight { BlockHeight(self.0 / rhs) }
}
impl core::ops::Div<u64> for BlockHeight { type Output = BlockHeight; fn div(self, rhs: u64) -> (r: BlockHeight) { BlockHeight(self.0 / rhs) } }
impl BlockHeight {
    pub fn epoch(&self) -> (r: u64) ensures r == self.0 / 200000 { self.0 / STAKE_EPOCH }
}

// ---- bytes::Bytes (opaque, view Seq<u8>)
#[verifier::external_body] pub struct Bytes { _p: u8 }
impl View for Bytes { type V = Seq<u8>; uninterp spec fn view(&self) -> Seq<u8>; }
impl Clone for Bytes { #[verifier::external_body] fn clone(&self) -> (r: Self) ensures r == *self { unimplemented!() } }
impl Default for Bytes { #[verifier::external_body] fn default() -> (r: Bytes) ensures r@ == Seq::<u8>::empty() { unimplemented!() } }
impl core::ops::Deref for Bytes { type Target = [u8]; #[verifier::external_body] fn deref(&self) -> (r: &[u8]) ensures r@ == self@ { unimplemented!() } }
pub broadcast axiom fn axiom_bytes_ext(a: Bytes, b: Bytes) requires #[trigger] a@ == #[trigger] b@ ensures a == b;

pub struct CoinData { pub covhash: Address, pub value: CoinValue, pub denom: Denom, pub additional_data: Bytes }
impl Clone for CoinData { #[verifier::external_body] fn clone(&self) -> (r: Self) ensures r == *self { unimplemented!() } }
pub struct CoinDataHeight { pub coin_data: CoinData, pub height: BlockHeight }
impl Clone for CoinDataHeight { #[verifier::external_body] fn clone(&self) -> (r: Self) ensures r == *self { unimplemented!() } }
pub struct Transaction { pub kind: TxKind, pub inputs: Vec<CoinID>, pub outputs: Vec<CoinData>, pub fee: CoinValue,
    pub covenants: Vec<Bytes>, pub data: Bytes, pub sigs: Vec<Bytes> }
impl Clone for Transaction { #[verifier::external_body] fn clone(&self) -> (r: Self) ensures r == *self { unimplemented!() } }

#[derive(Clone, Copy, PartialEq, Eq, Structural)]
pub struct Header { pub network: NetID, pub previous: HashVal, pub height: BlockHeight, pub history_hash: HashVal,
    pub coins_hash: HashVal, pub transactions_hash: HashVal, pub fee_pool: CoinValue, pub fee_multiplier: u128,
    pub dosc_speed: u128, pub pools_hash: HashVal, pub stakes_hash: HashVal }
pub uninterp spec fn spec_header_hash(h: Header) -> HashVal;     // Hashable for stdcode(Header); injective (A-HASH+A-SER)
pub broadcast axiom fn axiom_header_hash_inj(a: Header, b: Header)
    requires #[trigger] spec_header_hash(a) == #[trigger] spec_header_hash(b) ensures a == b;
impl Header { #[verifier::external_body] pub fn hash(&self) -> (r: HashVal) ensures r == spec_header_hash(*self) { unimplemented!() } }

#[derive(Clone, Copy, PartialEq, Eq, Structural)]
pub struct ProposerAction { pub fee_multiplier_delta: i8, pub reward_dest: Address }
#[derive(Clone, Copy, PartialEq, Eq, Structural)]
pub struct StakeDoc { pub pubkey: Ed25519PK, pub e_start: u64, pub e_post_end: u64, pub syms_staked: CoinValue }

// ---- Transaction methods (A-STRUCTS)
pub uninterp spec fn spec_txhash(tx: Transaction) -> TxHash;      // hash_nosigs: hash of tx with sigs cleared
pub broadcast axiom fn axiom_txhash_nosigs(a: Transaction, b: Transaction)
    requires a.kind == b.kind, a.inputs@ == b.inputs@, a.outputs@ == b.outputs@, a.fee == b.fee, a.covenants@ == b.covenants@, a.data == b.data
    ensures #[trigger] spec_txhash(a) == #[trigger] spec_txhash(b);
pub open spec fn spec_well_formed(tx: Transaction) -> bool {
    &&& forall|i: int| 0 <= i < tx.outputs@.len() ==> (#[trigger] tx.outputs@[i]).value.0 <= MAX_COINVAL.0
    &&& tx.fee.0 <= MAX_COINVAL.0
    &&& tx.outputs@.len() <= 255
}
/// weight a transaction is charged for one covenant, given as bytes (melvm::covenant_weight_from_bytes: the weight of the decoded program,
/// 0 when the bytes do not decode -- proved in unit codec); a u128
pub uninterp spec fn spec_cov_weight_b(b: Seq<u8>) -> nat;
pub broadcast axiom fn axiom_cov_weight_bound(b: Seq<u8>) ensures #[trigger] spec_cov_weight_b(b) <= u128::MAX;
/// total weight of the first n covenants of a transaction (unsaturated)
pub open spec fn cov_sum(covs: Seq<Bytes>, n: int) -> nat decreases n { if n <= 0 { 0 } else { cov_sum(covs, n - 1) + spec_cov_weight_b(covs[n - 1]@) } }
/// what load_relevant_coins checks (fix: covenant weights that overflow u128): `Transaction::weight` adds the covenants' weights with an
/// unchecked `Iterator::sum`
pub open spec fn cov_weights_fit(tx: Transaction) -> bool { cov_sum(tx.covenants@, tx.covenants@.len() as int) <= u128::MAX }
/// length of the stdcode encoding of a transaction
pub uninterp spec fn spec_ser_len(tx: Transaction) -> nat;
pub broadcast axiom fn axiom_ser_len_bound(tx: Transaction) ensures #[trigger] spec_ser_len(tx) <= usize::MAX;
pub open spec fn sat_u128(x: int) -> nat { if x > u128::MAX { u128::MAX as nat } else if x < 0 { 0 } else { x as nat } }
/// C05: weight = serialized size + the weight of the covenants + 1000 per output - 1000 per input, each step saturating, never below zero
/// (Transaction::weight with the covenant weigher, proved from the registry source in unit deptx for transactions with cov_weights_fit)
pub open spec fn spec_tx_weight(tx: Transaction) -> nat {
    let a = sat_u128(spec_ser_len(tx) as int + cov_sum(tx.covenants@, tx.covenants@.len() as int) as int);
    let b = sat_u128(a as int + 1000 * (tx.outputs@.len() as int));
    sat_u128(b as int - 1000 * (tx.inputs@.len() as int))
}
pub broadcast proof fn axiom_weight_bound(tx: Transaction) ensures #[trigger] spec_tx_weight(tx) <= u128::MAX {}
pub open spec fn spec_base_fee(tx: Transaction, mult: u128) -> nat {
    let p = spec_tx_weight(tx) * (mult as nat);
    (if p > u128::MAX { u128::MAX as nat } else { p }) / 65536
}
pub open spec fn spec_output_coinid(tx: Transaction, i: u8) -> CoinID { CoinID { txhash: spec_txhash(tx), index: i } }
impl Transaction {
    #[verifier::external_body] pub fn hash_nosigs(&self) -> (r: TxHash) ensures r == spec_txhash(*self) { unimplemented!() }
    #[verifier::external_body] pub fn output_coinid(&self, index: u8) -> (r: CoinID) ensures r == spec_output_coinid(*self, index) { unimplemented!() }
}
impl CoinID {
    pub fn new(txhash: TxHash, index: u8) -> (r: CoinID) ensures r == (CoinID { txhash, index }) { CoinID { txhash, index } }
    #[verifier::external_body] pub fn zero_zero() -> (r: CoinID) ensures r == (CoinID { txhash: TxHash(spec_zero_hash()), index: 0 }) { unimplemented!() }
    #[verifier::external_body] pub fn proposer_reward(height: BlockHeight) -> (r: CoinID) ensures r == spec_proposer_reward(height) { unimplemented!() }
}
pub uninterp spec fn spec_reward_hash(height: BlockHeight) -> HashVal;   // hash_keyed(b"reward_coin_pseudoid", height.to_be_bytes())
pub open spec fn spec_proposer_reward(height: BlockHeight) -> CoinID { CoinID { txhash: TxHash(spec_reward_hash(height)), index: 0 } }

// ---- melswap
#[derive(Clone, Copy)]
pub struct PoolState { pub lefts: u128, pub rights: u128, pub price_accum: u128, pub liqs: u128 }
#[derive(Clone, Copy, PartialEq, Eq, Hash, Structural)]
pub struct PoolKey { pub left: Denom, pub right: Denom }

pub type FxHashMap<K, V> = HashMap<K, V>;
pub type FxHashSet<K> = HashSet<K>;

// ---- Bytes / Vec conversions, hash-map key models (derived Hash + Eq agree: A-ITER)
pub uninterp spec fn bytes_of(s: Seq<u8>) -> Bytes;
pub broadcast axiom fn axiom_bytes_of(s: Seq<u8>) ensures (#[trigger] bytes_of(s))@ == s;
impl FromSpecImpl<Vec<u8>> for Bytes { open spec fn obeys_from_spec() -> bool { true } open spec fn from_spec(v: Vec<u8>) -> Bytes { bytes_of(v@) } }
impl From<Vec<u8>> for Bytes { #[verifier::external_body] fn from(v: Vec<u8>) -> (r: Bytes) { unimplemented!() } }
pub mod keymodels {
    use super::*;
    pub broadcast axiom fn axiom_key_model_coinid() ensures #[trigger] obeys_key_model::<CoinID>();
    pub broadcast axiom fn axiom_key_model_denom() ensures #[trigger] obeys_key_model::<Denom>();
    pub broadcast axiom fn axiom_key_model_address() ensures #[trigger] obeys_key_model::<Address>();
    pub broadcast axiom fn axiom_key_model_txhash() ensures #[trigger] obeys_key_model::<TxHash>();
    /// a reference hashes and compares like its referent (std's blanket impls of Hash / Eq for &T)
    pub broadcast axiom fn axiom_key_model_coinid_ref<'a>() ensures #[trigger] obeys_key_model::<&'a CoinID>();
    pub broadcast group group_key_models { axiom_key_model_coinid, axiom_key_model_denom, axiom_key_model_address, axiom_key_model_txhash, axiom_key_model_coinid_ref }
}
pub broadcast group group_core_axioms { axiom_bytes_ext, axiom_bytes_of, axiom_weight_bound, axiom_header_hash_inj }

// ---- TxHash::to_string() == "<hex literal>": modelled as an opaque comparison (Verus has no str reasoning)
#[verifier::external_body] pub struct HexString { _p: u8 }
impl HexString { pub uninterp spec fn src(&self) -> TxHash; }
pub struct StrLit {}
pub uninterp spec fn is_grandfathered(h: TxHash) -> bool;   // hex(h) == INFLATION_BUG_TX_HASH
impl TxHash { #[verifier::external_body] pub fn to_string(&self) -> (r: HexString) ensures r.src() == *self { unimplemented!() } }
impl PartialEqSpecImpl<StrLit> for HexString {
    open spec fn obeys_eq_spec() -> bool { true }
    open spec fn eq_spec(&self, other: &StrLit) -> bool { is_grandfathered(self.src()) }
}
impl PartialEq<StrLit> for HexString { #[verifier::external_body] fn eq(&self, other: &StrLit) -> (r: bool) { unimplemented!() } }

// std methods vstd does not specify
pub assume_specification<T, E> [std::result::Result::<T, E>::unwrap_or] (r: std::result::Result<T, E>, d: T) -> (v: T)
    ensures v == (match r { Ok(x) => x, Err(_) => d });

// ---- canonical pool keys of the built-in pools (PoolKey::new orders the two denominations by their byte encodings:
// ERG "d" < MEL "m" < SYM "s")
pub open spec fn pk_mel_sym() -> PoolKey { PoolKey { left: Denom::Mel, right: Denom::Sym } }
pub open spec fn pk_mel_erg() -> PoolKey { PoolKey { left: Denom::Erg, right: Denom::Mel } }
pub open spec fn pk_erg_sym() -> PoolKey { PoolKey { left: Denom::Erg, right: Denom::Sym } }
pub assume_specification<'a, T: Copy> [std::option::Option::<&'a T>::copied] (o: std::option::Option<&'a T>) -> (r: std::option::Option<T>)
    ensures r == (match o { Some(x) => Some(*x), None => None::<T> });

pub assume_specification<T> [core::slice::from_ref::<T>] (s: &T) -> (r: &[T]) ensures r@ == seq![*s];

/// std BTreeMap (GenesisConfig::stakes): only consumed by value into its entries
#[verifier::external_body] #[verifier::accept_recursive_types(K)] #[verifier::accept_recursive_types(V)]
pub struct BTreeMap<K, V> { _p: core::marker::PhantomData<(K, V)> }
impl<K, V> View for BTreeMap<K, V> { type V = Map<K, V>; uninterp spec fn view(&self) -> Map<K, V>; }
/// `m.into_iter()` (declared substitution): the entries, each key once
#[verifier::external_body]
pub fn btree_into_vec<K, V>(m: BTreeMap<K, V>) -> (r: Vec<(K, V)>)
    ensures forall|i: int| 0 <= i < r@.len() ==> m@.contains_key((#[trigger] r@[i]).0) && m@[r@[i].0] == r@[i].1,
            forall|k: K| m@.contains_key(k) ==> exists|i: int| 0 <= i < r@.len() && (#[trigger] r@[i]).0 == k,
            forall|i: int, j: int| 0 <= i < j < r@.len() ==> (#[trigger] r@[i]).0 != (#[trigger] r@[j]).0
{ unimplemented!() }
pub assume_specification<T: Clone> [<[T]>::to_vec] (s: &[T]) -> (r: Vec<T>) ensures r@ == s@;
