"""Contracts shared between the unit that PROVES a repo function and the units that ASSUME it at call sites
(one clause text, two uses -- so the assumed contract cannot drift from the proved one)."""
from spec import C

def cm_insert_coin():
    return dict(
        requires=[C("wf", "old(self).wf()"), C("inv", "tip_906 ==> counts_ok(old(self)@)")],
        ensures=[C("wf", "final(self).wf()", "C20", "C02"),
                 C("exact", "final(self)@ == view_insert(old(self)@, id, data, tip_906)", "C02", "C20", "C01"),
                 C("counts_ok", "tip_906 && (old(self)@.coins.contains_key(id) ==> old(self)@.coins[id].coin_data.covhash == data.coin_data.covhash) ==> counts_ok(final(self)@)", "C20")])

def cm_remove_coin():
    return dict(
        requires=[C("wf", "old(self).wf()"), C("inv", "tip_906 ==> counts_ok(old(self)@)")],
        ensures=[C("wf", "final(self).wf()", "C20", "C02"),
                 C("exact", "final(self)@ == view_remove(old(self)@, id, tip_906)", "C02", "C20", "C01"),
                 C("counts_ok", "tip_906 ==> counts_ok(final(self)@)", "C20")])

def cm_get_coin():
    return dict(
        requires=[C("wf", "self.wf()")],
        ensures=[C("exact", "res == (if self@.coins.contains_key(id) { Some(self@.coins[id]) } else { None::<CoinDataHeight> })", "C02", "C19")])

def cm_coin_count():
    return dict(
        requires=[C("wf", "self.wf()")],
        ensures=[C("exact", "res as nat == count_of(self@.counts, covhash)", "C20")])

def cm_insert_coin_count():
    return dict(
        requires=[C("wf", "old(self).wf()")],
        ensures=[C("wf", "final(self).wf()", "C20"),
                 C("coins", "final(self)@.coins == old(self)@.coins", "C20", "C02"),
                 C("counts", "final(self)@.counts == (if count == 0 { old(self)@.counts.remove(covhash) } else { old(self)@.counts.insert(covhash, count as nat) })", "C20")])


# ---- tip911-stakeset
def ss_add_stake():
    return dict(ensures=[C("exact", "final(self)@ == old(self)@.insert(txhash, stake)", "C13")])

def ss_get_stake():
    return dict(ensures=[C("exact", "res == (if self@.contains_key(txhash) { Some(self@[txhash]) } else { None::<StakeDoc> })", "C13")])

def ss_votes():
    return dict(requires=[C("fits", "spec_staked_total(self@) <= u128::MAX", note="C09 envelope: total staked SYM fits in u128 (supply <= 2^127)")],
                ensures=[C("sum", "res as int == spec_votes(self@, epoch, Some(key))", "C13", "C14")])

def ss_total_votes():
    return dict(requires=[C("fits", "spec_staked_total(self@) <= u128::MAX")],
                ensures=[C("sum", "res as int == spec_votes(self@, epoch, None)", "C13", "C14")])

def ss_unlock_old():
    return dict(ensures=[C("keeps", "forall|k: TxHash| #[trigger] final(self)@.contains_key(k) <==> (old(self)@.contains_key(k) && old(self)@[k].e_post_end >= epoch)", "C13"),
                         C("same", "forall|k: TxHash| final(self)@.contains_key(k) ==> #[trigger] final(self)@[k] == old(self)@[k]", "C13")])

# ---- state.rs
def st_header():
    return dict(ensures=[C("is", "res == spec_header(self.0)", "C07", "C06")])

def st_tip_condition():
    return dict(ensures=[C("rule", "res == spec_tip(self.network, self.height, activation.0)", "C20", "C17", char=True)])

def st_tip(n):
    return dict(ensures=[C("rule", f"res == spec_tip(self.network, self.height, {n})", "C20", "C17", char=True)])

def ts_insert():
    return dict(ensures=[C("exact", "final(self)@ == old(self)@.insert(spec_txhash(txn), txn)", "C02")])

def ap_faucet_pseudocoin():
    return dict(ensures=[C("id", "res == spec_marker(txhash)", "C19")])

def ap_handle_faucet():
    return dict(
        requires=[C("wf", "old(state).coins.wf()"), C("inv", "spec_tip906(*old(state)) ==> counts_ok(old(state).coins@)")],
        ensures=[
            C("wf", "final(state).coins.wf() && (spec_tip906(*old(state)) ==> counts_ok(final(state).coins@))", "C20"),
            C("frame", "same_but_coins(*final(state), *old(state))", "C19", "C05", "C17"),
            C("not_faucet", "tx.kind != TxKind::Faucet ==> res is Ok && final(state).coins@ == old(state).coins@", "C19"),
            C("mainnet", "tx.kind == TxKind::Faucet && old(state).network == NetID::Mainnet && !is_grandfathered(spec_txhash(*tx)) ==> res is Err && res->Err_0 is MalformedTx", "C19"),
            C("duplicate", """tx.kind == TxKind::Faucet && !(old(state).network == NetID::Mainnet && !is_grandfathered(spec_txhash(*tx)))
                   && old(state).coins@.coins.contains_key(spec_marker(spec_txhash(*tx))) ==> res is Err && res->Err_0 is DuplicateTx""", "C19"),
            C("err_noop", "res is Err ==> final(state).coins@ == old(state).coins@", "C19", "C02"),
            C("err_kinds", "res is Err ==> res->Err_0 is MalformedTx || res->Err_0 is DuplicateTx", "C19", char=True),
            C("marker", """res is Ok && tx.kind == TxKind::Faucet && !is_grandfathered(spec_txhash(*tx)) ==>
                   !old(state).coins@.coins.contains_key(spec_marker(spec_txhash(*tx)))
                   && exists|m: CoinDataHeight| is_marker_cdh(m) && #[trigger] view_insert(old(state).coins@, spec_marker(spec_txhash(*tx)), m, spec_tip906(*old(state))) == final(state).coins@""", "C19"),
            C("grandfathered", "res is Ok && tx.kind == TxKind::Faucet && is_grandfathered(spec_txhash(*tx)) ==> final(state).coins@ == old(state).coins@", "C19", char=True),
        ])
