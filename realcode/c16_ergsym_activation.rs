// Witness of the defect repaired by the fix "an emptied ERG/SYM pool is seeded at TIP-902" (C09, C16): before TIP-902 activates (testnet:
// height 500, mainnet: 180000) ERG/SYM is an ordinary pool. If somebody creates it and then redeems all of its liquidity it stays in the
// pool tree as an all-zero pool; create_builtins at activation did not seed it ("it exists"), and from the activation block on
// process_pegging divided by its zero reserve: every seal panicked, the chain could not pass the activation height.
// The test asserts the property (the chain seals past height 500) and PASSES on the repaired tree.
use crate::*;
use melstructs::*;
use melvm::Covenant;
use novasmt::{Database, InMemoryCas};

#[test]
fn c16_emptied_erg_sym_pool_does_not_stop_the_chain_at_tip902_activation() {
    let db = Database::new(InMemoryCas::default());
    let mut state = GenesisConfig::std_testnet().realize(&db);
    assert_eq!(state.network, NetID::Testnet);
    state.fee_multiplier = 0;
    let cov = Covenant::always_true();
    let mut state = state.seal(None).next_unsealed();
    let key = PoolKey::new(Denom::Erg, Denom::Sym);
    let mk = |d: Denom, v: u128| CoinData { covhash: cov.hash(), value: CoinValue(v), denom: d, additional_data: vec![].into() };
    let faucet = Transaction { kind: TxKind::Faucet, inputs: vec![],
        outputs: vec![mk(key.left(), 1000), mk(key.right(), 1000), mk(Denom::Mel, 10)], fee: CoinValue(0), covenants: vec![], data: vec![7u8].into(), sigs: vec![] };
    state.apply_tx(&faucet).expect("testnet faucet");
    let mut state = state.seal(None).next_unsealed();
    let dep = Transaction { kind: TxKind::LiqDeposit, inputs: vec![faucet.output_coinid(0), faucet.output_coinid(1), faucet.output_coinid(2)],
        outputs: vec![mk(key.left(), 1000), mk(key.right(), 1000)], fee: CoinValue(10), covenants: vec![cov.to_bytes()], data: key.to_bytes().to_vec().into(), sigs: vec![] };
    state.apply_tx(&dep).expect("deposit");
    let sealed = state.seal(None);
    let liq = sealed.coin(dep.output_coinid(0)).unwrap().coin_data;
    assert_eq!(liq.denom, key.liq_token_denom());
    let mut state = sealed.next_unsealed();
    let faucet2 = Transaction { kind: TxKind::Faucet, inputs: vec![], outputs: vec![mk(Denom::Mel, 10)], fee: CoinValue(0), covenants: vec![], data: vec![8u8].into(), sigs: vec![] };
    state.apply_tx(&faucet2).unwrap();
    let mut state = state.seal(None).next_unsealed();
    let wd = Transaction { kind: TxKind::LiqWithdraw, inputs: vec![dep.output_coinid(0), faucet2.output_coinid(0)],
        outputs: vec![CoinData { covhash: cov.hash(), value: liq.value, denom: liq.denom, additional_data: vec![].into() }],
        fee: CoinValue(10), covenants: vec![cov.to_bytes()], data: key.to_bytes().to_vec().into(), sigs: vec![] };
    state.apply_tx(&wd).expect("withdraw");
    let sealed = state.seal(None);
    println!("pool after full withdrawal at height {}: {:?}", sealed.header().height, sealed.pool(key));
    let mut sealed = sealed;
    let r = std::panic::catch_unwind(std::panic::AssertUnwindSafe(|| {
        while sealed.header().height.0 < 505 { sealed = sealed.next_unsealed().seal(None); }
        sealed.header().height.0 }));
    assert!(r.is_ok(), "sealing panicked while crossing the TIP-902 activation height with an emptied ERG/SYM pool in the tree");
}
