// Abstract (contract-only) face of melvm as seen from the state-transition crate.  Covenant::{from_bytes, execute, weight}
// and Value::into_bool are repo functions of lib/melvm: their contracts are proved in the melvm units (C10/C12) and
// assumed here.
#[verifier::external_body] pub struct Covenant { _p: u8 }
#[verifier::external_body] pub struct Value { _p: u8 }
#[verifier::external_body] pub struct DecodeError { _p: u8 }
impl core::fmt::Debug for DecodeError { #[verifier::external_body] fn fmt(&self, f: &mut core::fmt::Formatter<'_>) -> core::fmt::Result { unimplemented!() } }
/// the program a byte string decodes to, if any
pub uninterp spec fn spec_cov_decode(b: Seq<u8>) -> Option<Covenant>;
/// result of running a covenant against a spending transaction and environment (deterministic: C10)
pub uninterp spec fn spec_exec(c: Covenant, tx: Transaction, env: Option<CovenantEnv>) -> Option<Value>;
pub uninterp spec fn spec_truthy(v: Value) -> bool;
pub uninterp spec fn spec_cov_weight(b: Seq<u8>) -> u128;
