from spec import *
from _contracts import *

E_ = "lib/melvm/src/executor.rs"
V = "lib/melvm/src/value.rs"
O = "lib/melvm/src/opcode.rs"
FRAME1 = "final(self).heap == old(self).heap && final(self).instrs == old(self).instrs && final(self).pc == old(self).pc && final(self).loop_state == old(self).loop_state"

def bin_closure(i, op):
    return Closure(i, "x: Value, y: Value", "(r: Option<Value>)", ensures=[C(f"sem_{i}", f"r == sem_bin({op}, x, y)", "C10")])
def mon_closure(i, op, var="x"):
    return Closure(i, f"{var}: Value", "(r: Option<Value>)", ensures=[C(f"sem_{i}", f"r == sem_mon({op}, {var})", "C10")])

ARM_SEM = """match sem_inner(%s, vm_of(*old(self))) { Some(m2) => res is Some && vm_of(*final(self)) == m2, None => res is None }"""
ARM_REQ = [lambda: C("pc", "1 <= old(self).pc <= 0x8000_0000_0000", note="A-PHYS: program counter below 2^47 (a program has fewer than 2^47 instructions)")]
ARM_HINT = """proof { let m0 = vm_of(*old(self)); match sem_inner(%s, m0) { Some(m2) => { assert(self.stack@ =~= m2.stack); assert(self.heap@ =~= m2.heap); assert(self.loop_state@ =~= m2.loops); } None => {} } }"""
STD_ARMS = ("PushI", "PushB", "LoadImm", "VRef", "SigEOk", "Hash", "Eql", "Bez", "Bnz", "Jmp", "Load", "BLength", "VLength")   # instructions the standard signature covenants (and typical hash/time locks) are made of
COST_ARMS = ("Hash", "SigEOk", "Exp")
def arm(variant, opexpr, closures=(), rewrites=(), covered=True, loops=(), injects=()):
    ens = [C("frame", "final(self).instrs == old(self).instrs", "C10")]
    if covered and not closures:
        injects = list(injects) + [Inject("before_tail", ARM_HINT % opexpr)]
    if covered:
        ens.insert(0, C("sem", ARM_SEM % opexpr, "C10", "C11", *(("C04",) if variant in STD_ARMS else ())))
    if variant in COST_ARMS:   # the operand-length / bit-budget guards of these instructions are what bounds the work ONE instruction does by what its weight pays for (seed C11g)
        for cl in closures:
            for c in cl.ensures:
                c.props = tuple(c.props) + ("C11",)
    if variant in STD_ARMS:
        for cl in closures:
            for c in cl.ensures:
                c.props = tuple(c.props) + ("C04",)
    return Fn(E_, "step", impl="Executor", key=E_ + "::Executor::step#arm_" + variant, home="C10", implicit_props=("C09", "C10", "C11") + (("C04",) if variant in STD_ARMS else ()),
              rewrites=[("ARM", variant)] + list(rewrites), closures=list(closures), loops=list(loops), injects=list(injects),
              requires=[r() for r in ARM_REQ], ensures=ens)
def cl2(op, a="x", b="y"):
    return [Closure(0, f"{a}: Value, {b}: Value", "(r: Option<Value>)", ensures=[C("op", f"r == sem_bin({op}, {a}, {b})", "C10")])]
def cl1(op, a="x"):
    return [Closure(0, f"{a}: Value", "(r: Option<Value>)", ensures=[C("op", f"r == sem_mon({op}, {a})", "C10")])]
def cl3(op, a, b, c):
    return [Closure(0, f"{a}: Value, {b}: Value, {c}: Value", "(r: Option<Value>)", ensures=[C("op", f"r == sem_tri({op}, {a}, {b}, {c})", "C10")])]
ARMS = [
    arm("Noop", "OpCode::Noop"),
    arm("Add", "OpCode::Add", cl2("OpCode::Add")), arm("Sub", "OpCode::Sub", cl2("OpCode::Sub")), arm("Mul", "OpCode::Mul", cl2("OpCode::Mul")),
    arm("Div", "OpCode::Div", cl2("OpCode::Div")), arm("Rem", "OpCode::Rem", cl2("OpCode::Rem")),
    arm("Exp", "OpCode::Exp(k)", [Closure(0, "pb: Value, pe: Value", "(r: Option<Value>)", first_stmt="let b = pb; let e = pe;", ensures=[C("op", "r == sem_bin(OpCode::Exp(gk), pb, pe)", "C10")])],
        rewrites=[("SUB", "let mut k: u16 = (k as u16)+1;", "let ghost kk = k as nat; let ghost b0 = b@; let ghost e0 = e@; let ghost mut it: nat = 0; let mut k: u16 = (k as u16)+1; proof { vstd::arithmetic::power2::lemma2_to64(); assert(e0 / vstd::arithmetic::power2::pow2(0) == e0); vstd::arithmetic::power::lemma_pow0(b0 as int); assert(1 * vstd::arithmetic::power::pow(b0 as int, e0) == vstd::arithmetic::power::pow(b0 as int, e0)); }"),
                  ],
        injects=[Inject("entry", "let ghost gk = k;"), Inject("before_tail", ARM_HINT % "OpCode::Exp(k)"), Inject(("before", "Some(Value::Int(res))"), """proof { let m = m256() as int; let n = (vstd::arithmetic::power::pow(b0 as int, e0) % m) as nat;
            vstd::arithmetic::power2::lemma_pow2_pos(256); vstd::arithmetic::power::lemma_pow0(b@ as int); vstd::arithmetic::power2::lemma_pow2_pos(it); lemma_exp_budget_ok(e0, it, kk);
            assert(e@ == 0); assert(vstd::arithmetic::power::pow(b@ as int, 0) == 1); assert(res@ * 1 == res@);
            assert(res@ < m256()); vstd::arithmetic::div_mod::lemma_small_mod(res@, m256()); assert(res@ == n);
            assert(exp_sem(b0, e0, kk) == Some(n)); assert(n < m256()); assert(u256_of(n)@ == n); assert(res == u256_of(n));
            assert(sem_bin(OpCode::Exp(gk), pb, pe) == Some(vint(n))); }""")],
        loops=[Loop(0, decreases="e@",
            body_entry="let ghost ee = e@; let ghost bb = b@; let ghost rr = res@; proof { vstd::arithmetic::power2::lemma_pow2_pos(256); if k == 0 { lemma_exp_budget_fail(e0, kk); assert(exp_sem(b0, e0, kk) is None); } }",
            body_exit="proof { lemma_exp_step(rr as int, bb as int, ee, m256() as int); vstd::arithmetic::power2::lemma_pow2_unfold((it + 1) as nat); vstd::arithmetic::power2::lemma_pow2_pos(it); vstd::arithmetic::div_mod::lemma_div_denominator(e0 as int, vstd::arithmetic::power2::pow2(it) as int, 2); it = it + 1; }",
            invariants=[C("consts", "U256::ONE@ == 1 && U256::ZERO@ == 0", "C10"),
                        C("bits", "e@ == e0 / vstd::arithmetic::power2::pow2(it) && k as nat + it == kk + 1 && it <= kk + 1 && kk <= 255 && gk as nat == kk && as_int(pb) == Some(b0) && as_int(pe) == Some(e0)", "C10"),
                        C("acc", "(res@ * vstd::arithmetic::power::pow(b@ as int, e@)) % (m256() as int) == vstd::arithmetic::power::pow(b0 as int, e0) % (m256() as int)", "C10")])]),
    arm("And", "OpCode::And", cl2("OpCode::And")), arm("Or", "OpCode::Or", cl2("OpCode::Or")), arm("Xor", "OpCode::Xor", cl2("OpCode::Xor")),
    arm("Not", "OpCode::Not", cl1("OpCode::Not")), arm("Eql", "OpCode::Eql", cl2("OpCode::Eql")), arm("Lt", "OpCode::Lt", cl2("OpCode::Lt")), arm("Gt", "OpCode::Gt", cl2("OpCode::Gt")),
    arm("Shl", "OpCode::Shl", cl2("OpCode::Shl", "x", "offset")), arm("Shr", "OpCode::Shr", cl2("OpCode::Shr", "x", "offset")),
    arm("Hash", "OpCode::Hash(n)", cl1("OpCode::Hash(n)", "to_hash")),
    arm("SigEOk", "OpCode::SigEOk(n)", cl3("OpCode::SigEOk(n)", "message", "public_key", "signature")),
    arm("Store", "OpCode::Store"), arm("Load", "OpCode::Load"), arm("StoreImm", "OpCode::StoreImm(idx)"), arm("LoadImm", "OpCode::LoadImm(idx)"),
    arm("VRef", "OpCode::VRef", cl2("OpCode::VRef", "vec", "idx")),
    arm("VSet", "OpCode::VSet", cl3("OpCode::VSet", "vec", "idx", "value"), rewrites=[("SUB", "*vec.get_mut(idx)? = value;", "vec.set_checked(idx, value)?;")]),
    arm("VAppend", "OpCode::VAppend", cl2("OpCode::VAppend", "v1", "v2")),
    arm("VSlice", "OpCode::VSlice", cl3("OpCode::VSlice", "vec", "beginning_value", "end_value"),
        rewrites=[("SUB", "Some(Value::Vector(vec.tap_mut(|vec| vec.slice_into(beginning..end))))", "{ let mut vec = vec; vec.slice_into(beginning..end); Some(Value::Vector(vec)) }")]),
    arm("VLength", "OpCode::VLength", cl1("OpCode::VLength", "vec")), arm("VEmpty", "OpCode::VEmpty"),
    arm("VPush", "OpCode::VPush", cl2("OpCode::VPush", "vec", "item")), arm("VCons", "OpCode::VCons", cl2("OpCode::VCons", "item", "vec")),
    arm("BEmpty", "OpCode::BEmpty"), arm("BPush", "OpCode::BPush", cl2("OpCode::BPush", "vec", "val"), injects=[Inject(("after_let", "val"), "proof { lemma_low_byte(val@); }")]), arm("BCons", "OpCode::BCons", cl2("OpCode::BCons", "item", "vec")),
    arm("BRef", "OpCode::BRef", cl2("OpCode::BRef", "vec", "idx")),
    arm("BSet", "OpCode::BSet", cl3("OpCode::BSet", "vec", "idx", "value"), rewrites=[("SUB", "*vec.get_mut(idx)? = value.into_truncated_u8()?;", "vec.set_checked(idx, value.into_truncated_u8()?)?;")]),
    arm("BAppend", "OpCode::BAppend", cl2("OpCode::BAppend", "v1", "v2")),
    arm("BSlice", "OpCode::BSlice", cl3("OpCode::BSlice", "vec", "beginning_value", "end_value")),
    arm("BLength", "OpCode::BLength", cl1("OpCode::BLength", "vec")),
    arm("Bez", "OpCode::Bez(jgap)"), arm("Bnz", "OpCode::Bnz(jgap)"), arm("Jmp", "OpCode::Jmp(jgap)"), arm("Loop", "OpCode::Loop(iterations, op_count)"),
    arm("BtoI", "OpCode::BtoI", cl1("OpCode::BtoI", "input_byte_vector"), rewrites=[("SUB", "bytes_vector.try_into().ok()", "vec_to_array32(bytes_vector)")]),
    arm("ItoB", "OpCode::ItoB", cl1("OpCode::ItoB", "input_integer")),
    arm("PushB", "OpCode::PushB(bts)"), arm("PushI", "OpCode::PushI(num)"), arm("PushIC", "OpCode::PushIC(number)"),
    arm("TypeQ", "OpCode::TypeQ", cl1("OpCode::TypeQ", "input")), arm("Dup", "OpCode::Dup"),
]
UNIT = Unit(
    name="exec", lemma_obs=['lemma_std_sig_covenant', 'lemma_step_phi', 'lemma_steps_le_weight'], uses="group_melvm_axioms",
    prelude=["core.rs", "raw.rs", "crypto.rs", "melvm_types.rs", "melvm_exec.rs", "melvm_conv.rs"],
    lemmas=["sums.rs", "melvm_spec.rs", "weight.rs", "cost.rs"],
    items=[
        TypeItem(O, "enum", "OpCode"),
        TypeItem(V, "enum", "Value"),
        Raw("""impl Clone for OpCode { #[verifier::external_body] fn clone(&self) -> (r: Self) ensures r == *self { unimplemented!() } }
impl Clone for Value { #[verifier::external_body] fn clone(&self) -> (r: Self) ensures r == *self { unimplemented!() } }"""),
        TypeItem(E_, "struct", "LoopState", subst=[("struct LoopState", "pub struct LoopState"), ("begin:", "pub begin:"), ("end:", "pub end:"), ("iterations_left:", "pub iterations_left:")]),
        TypeItem(E_, "type", "ProgramCounter", subst=[("type ProgramCounter", "pub type ProgramCounter")]),
        TypeItem(E_, "struct", "Executor", subst=[("instrs:", "pub instrs:"), ("    pc:", "    pub pc:"), ("loop_state:", "pub loop_state:")]),
        Raw("""pub open spec fn vm_of(e: Executor) -> VM { VM { stack: e.stack@, heap: e.heap@, pc: e.pc as int, loops: e.loop_state@ } }
pub broadcast group group_melvm_axioms { axiom_u256_range, axiom_u256_ext, axiom_u256_consts, axiom_u256_of, axiom_catvec_of, axiom_catvec_ext, axiom_be }"""),
        Fn(V, "into_int", impl="Value", home="C10", implicit_props=("C09", "C10"), ensures=[C("v", "res == (match self { Value::Int(a) => Some(a), _ => None::<U256> })", "C10")]),
        Fn(V, "into_bool", impl="Value", home="C10", implicit_props=("C09", "C10", "C04"), ensures=[C("v", "res == truthy(self)", "C10", "C04")]),
        Fn(V, "into_u16", impl="Value", home="C10", implicit_props=("C09", "C10"), ensures=[C("v", "match as_u16(self) { Some(n) => res == Some(n as u16), None => res is None }", "C10")],
           injects=[Inject("entry", "proof { vstd::arithmetic::power2::lemma2_to64(); vstd::arithmetic::power2::lemma_pow2_adds(64, 64); }")]),
        Fn(V, "into_truncated_u8", impl="Value", home="C10", implicit_props=("C09", "C10"), ensures=[C("v", "match as_int(self) { Some(n) => res == Some((n % 256) as u8), None => res is None }", "C10")],
           injects=[Inject(("after_let", "num"), """proof { vstd::arithmetic::power2::lemma2_to64(); vstd::arithmetic::power2::lemma_pow2_adds(64, 64); vstd::arithmetic::power2::lemma_pow2_adds(8, 120);
               vstd::arithmetic::power2::lemma_pow2_pos(120);
               let p120 = vstd::arithmetic::power2::pow2(120) as int; assert(256 * p120 == vstd::arithmetic::power2::pow2(128) as int);
               vstd::arithmetic::div_mod::lemma_mod_mod(num@ as int, 256, p120);
               assert(forall|lo: u128| #[trigger] (lo as u8) == lo % 256) by (bit_vector);
               }""")]),
        Fn(V, "into_bytes", impl="Value", home="C10", implicit_props=("C09", "C10"), ensures=[C("v", "res == (match self { Value::Bytes(b) => Some(b), _ => None::<CatVec<u8, 256>> })", "C10")]),
        Fn(V, "into_vector", impl="Value", home="C10", implicit_props=("C09", "C10"), ensures=[C("v", "res == (match self { Value::Vector(b) => Some(b), _ => None::<CatVec<Value, 32>> })", "C10")]),
        Fn(V, "from_bytes", impl="Value", home="C10", implicit_props=("C09", "C10"), ensures=[C("v", "res == vbytes(bts@)", "C10")]),
        Fn(V, "from_bool", impl="Value", home="C10", implicit_props=("C09", "C10"), ensures=[C("v", "res == vint(b2n(b))", "C10")]),
        Fn(E_, "do_binop", impl="Executor", home="C10", implicit_props=("C09", "C10"),
           requires=[C("total", "forall|x: Value, y: Value| call_requires(op, (x, y))")],
           ensures=[C("ok", "res is Some ==> old(self).stack@.len() >= 2 && exists|v: Value| call_ensures(op, (top(old(self).stack@, 0), top(old(self).stack@, 1)), Some(v)) && #[trigger] final(self).stack@ == old(self).stack@.take(old(self).stack@.len() - 2).push(v)", "C10"),
                    C("fail", "res is None ==> old(self).stack@.len() < 2 || call_ensures(op, (top(old(self).stack@, 0), top(old(self).stack@, 1)), None::<Value>)", "C10"),
                    C("frame", FRAME1, "C10")]),
        Fn(E_, "do_monop", impl="Executor", home="C10", implicit_props=("C09", "C10"),
           requires=[C("total", "forall|x: Value| call_requires(op, (x,))")],
           ensures=[C("ok", "res is Some ==> old(self).stack@.len() >= 1 && exists|v: Value| call_ensures(op, (top(old(self).stack@, 0),), Some(v)) && #[trigger] final(self).stack@ == old(self).stack@.take(old(self).stack@.len() - 1).push(v)", "C10"),
                    C("fail", "res is None ==> old(self).stack@.len() < 1 || call_ensures(op, (top(old(self).stack@, 0),), None::<Value>)", "C10"),
                    C("frame", FRAME1, "C10")]),
        Fn(E_, "do_triop", impl="Executor", home="C10", implicit_props=("C09", "C10"),
           requires=[C("total", "forall|x: Value, y: Value, z: Value| call_requires(op, (x, y, z))")],
           ensures=[C("ok", "res is Some ==> old(self).stack@.len() >= 3 && exists|v: Value| call_ensures(op, (top(old(self).stack@, 0), top(old(self).stack@, 1), top(old(self).stack@, 2)), Some(v)) && #[trigger] final(self).stack@ == old(self).stack@.take(old(self).stack@.len() - 3).push(v)", "C10"),
                    C("fail", "res is None ==> old(self).stack@.len() < 3 || call_ensures(op, (top(old(self).stack@, 0), top(old(self).stack@, 1), top(old(self).stack@, 2)), None::<Value>)", "C10"),
                    C("frame", FRAME1, "C10")]),
        Fn(E_, "update_pc_state", impl="Executor", home="C10", implicit_props=("C09", "C10", "C11", "C04"),
           ensures=[C("bookkeeping", "vm_of(*final(self)) == sem_update(vm_of(*old(self)))", "C10", "C11", "C04"),
                    C("frame", "final(self).instrs == old(self).instrs && final(self).stack == old(self).stack && final(self).heap == old(self).heap", "C10")],
           rewrites=[("R16",)],
           injects=[Inject(("after_let", "__wl"), "proof { if __wl is Some { assert(m_head.loops.drop_last() =~= self.loop_state@); assert(m_head.loops.last() == __wl->Some_0); } }"),
                    Inject(("before", "break;", 0), "proof { assert(self.loop_state@ =~= m_head.loops.drop_last().push(state)); }"),
                    Inject(("before", "break;", 1), "proof { assert(self.loop_state@ =~= m_head.loops); }")],
           loops=[Loop(0, decreases="self.loop_state@.len()",
               body_entry="let ghost m_head = vm_of(*self);",
               invariant_except_break=[C("same", "sem_update(vm_of(*self)) == sem_update(vm_of(*old(self))) && self.instrs == old(self).instrs && self.stack == old(self).stack && self.heap == old(self).heap", "C10")],
               ensures=[C("done", "vm_of(*self) == sem_update(vm_of(*old(self))) && self.instrs == old(self).instrs && self.stack == old(self).stack && self.heap == old(self).heap", "C10", "C11")])]),
    ] + ARMS + [
        Fn(E_, "step", impl="Executor", key=E_ + "::Executor::step_inner", home="C10", implicit_props=("C09", "C10", "C11", "C04"),
           rewrites=[("DISPATCH",)],
           requires=[C("small", "old(self).instrs@.len() <= 0x7fff_ffff_ffff", note="A-PHYS: a program has fewer than 2^47 instructions")],
           ensures=[C("end", "old(self).pc >= old(self).instrs@.len() ==> res is None", "C10"),
                    C("sem", """old(self).pc < old(self).instrs@.len() && covered(old(self).instrs@[old(self).pc as int]) ==>
                          (match sem_inner(old(self).instrs@[old(self).pc as int], VM { pc: old(self).pc + 1, ..vm_of(*old(self)) }) {
                              Some(m2) => res is Some && vm_of(*final(self)) == m2, None => res is None })""", "C10", "C11", "C04"),
                    C("frame", "final(self).instrs == old(self).instrs", "C10")]),
        Fn(E_, "step", impl="Executor", home="C10", implicit_props=("C09", "C10", "C11", "C04"),
           rewrites=[("R5_OUTER",)],
           requires=[C("small", "old(self).instrs@.len() <= 0x7fff_ffff_ffff")],
           ensures=[C("sem", """old(self).pc < old(self).instrs@.len() && covered(old(self).instrs@[old(self).pc as int]) ==>
                          (match sem_step(old(self).instrs@[old(self).pc as int], vm_of(*old(self))) {
                              Some(m2) => res is Some && vm_of(*final(self)) == m2, None => res is None })""", "C10", "C11", "C04"),
                    C("end", "old(self).pc >= old(self).instrs@.len() ==> res is None", "C10"),
                    C("frame", "final(self).instrs == old(self).instrs", "C10")]),
        Fn(E_, "run_to_end", impl="Executor", home="C10", implicit_props=("C09", "C10", "C04", "C11"),
           requires=[C("small", "old(self).instrs@.len() <= 0x7fff_ffff_ffff", note="A-PHYS: a program has fewer than 2^47 instructions"),
                     C("pc", "old(self).pc <= old(self).instrs@.len()")],
           ensures=[C("runs", "run_result(old(self).instrs@, vm_of(*old(self)), res)", "C10", "C04",
                      note="total correctness: the loop carries the decreases measure phi (lemmas/cost.rs), so run_to_end is proved to terminate")],
           injects=[Inject("entry", "let ghost m0 = vm_of(*self); let ghost prog = self.instrs@; let ghost mut n: nat = 0; proof { assert(run_n(prog, m0, 0) == Some(m0)); }"),
                    Inject("before_tail", "let ghost last = self.stack@; proof { if hits_uncovered(prog, m0) { lemma_uncovered_any(prog, m0, if last.len() > 0 { Some(last[last.len() - 1]) } else { None::<Value> }); } }")],
           loops=[Loop(0, body_entry="""let ghost m1 = vm_of(*self); let ghost unc = hits_uncovered(prog, m0);
                           proof { if !unc && !covered(prog[m1.pc]) { assert(match run_n(prog, m0, n) { Some(m) => 0 <= m.pc < prog.len() && !covered(prog[m.pc]), None => false }); }
                               if hits_uncovered(prog, m0) { lemma_uncovered_any(prog, m0, None::<Value>); } }""",
                       body_exit="proof { if !hits_uncovered(prog, m0) { n = n + 1; assert(run_n(prog, m0, n) == Some(vm_of(*self))); } lemma_step_phi(prog, m1, vm_of(*self)); }",
                       decreases="phi(self.instrs@, self.pc as int, self.loop_state@)",
                       invariants=[C("frame", "self.instrs@ == prog && prog.len() <= 0x7fff_ffff_ffff && prog == old(self).instrs@ && m0 == vm_of(*old(self))", "C10"),
                                   C("reach", "hits_uncovered(prog, m0) || run_n(prog, m0, n) == Some(vm_of(*self))", "C10")]),],
           ),
        Fn(E_, "new", impl="Executor", home="C10", implicit_props=("C09", "C10"),
           ensures=[C("init", "res.instrs == instrs && vm_of(res) == (VM { stack: Seq::<Value>::empty(), heap: heap_init@, pc: 0, loops: Seq::<LoopState>::empty() })", "C10", "C04")]),
        Fn(V, "from", impl=r"From<u128> for Value", wrap="impl From<u128> for Value", key=V + "::From<u128>::from", home="C10", implicit_props=("C09", "C10")),
        Fn(V, "from", impl=r"From<u64> for Value", wrap="impl From<u64> for Value", key=V + "::From<u64>::from", home="C10", implicit_props=("C09", "C10")),
        Fn(V, "from", impl=r"From<\[u8; 32\]> for Value", wrap="impl From<[u8; 32]> for Value", key=V + "::From<[u8; 32]>::from", home="C10", implicit_props=("C09", "C10")),
        Fn(V, "from", impl=r"From<HashVal> for Value", wrap="impl From<HashVal> for Value", key=V + "::From<HashVal>::from", home="C10", implicit_props=("C09", "C10")),
        Fn(V, "from", impl=r"From<Bytes> for Value", wrap="impl From<Bytes> for Value", key=V + "::From<Bytes>::from", home="C10", implicit_props=("C09", "C10")),
        Fn(V, "from", impl=r"From<CoinID> for Value", wrap="impl From<CoinID> for Value", key=V + "::From<CoinID>::from", home="C10", implicit_props=("C09", "C10")),
        Fn(V, "from", impl=r"From<CoinData> for Value", wrap="impl From<CoinData> for Value", key=V + "::From<CoinData>::from", home="C10", implicit_props=("C09", "C10")),
        Fn(V, "from", impl=r"From<CoinDataHeight> for Value", wrap="impl From<CoinDataHeight> for Value", key=V + "::From<CoinDataHeight>::from", home="C10", implicit_props=("C09", "C10")),
        Fn(V, "from", impl=r"From<Header> for Value", wrap="impl From<Header> for Value", key=V + "::From<Header>::from", home="C10", implicit_props=("C09", "C10", "C04")),
        Fn(V, "from", impl=r"From<Transaction> for Value", wrap="impl From<Transaction> for Value", key=V + "::From<Transaction>::from", home="C10", implicit_props=("C09", "C10", "C04")),
        TypeItem("lib/melvm/src/lib.rs", "struct", "CovenantEnv"),
        TypeItem("lib/melvm/src/consts.rs", "const", "HADDR_SPENDER_TX"),
        TypeItem("lib/melvm/src/consts.rs", "const", "HADDR_SPENDER_TXHASH"),
        TypeItem("lib/melvm/src/consts.rs", "const", "HADDR_PARENT_TXHASH"),
        TypeItem("lib/melvm/src/consts.rs", "const", "HADDR_PARENT_INDEX"),
        TypeItem("lib/melvm/src/consts.rs", "const", "HADDR_SELF_HASH"),
        TypeItem("lib/melvm/src/consts.rs", "const", "HADDR_PARENT_VALUE"),
        TypeItem("lib/melvm/src/consts.rs", "const", "HADDR_PARENT_DENOM"),
        TypeItem("lib/melvm/src/consts.rs", "const", "HADDR_PARENT_ADDITIONAL_DATA"),
        TypeItem("lib/melvm/src/consts.rs", "const", "HADDR_PARENT_HEIGHT"),
        TypeItem("lib/melvm/src/consts.rs", "const", "HADDR_SPENDER_INDEX"),
        TypeItem("lib/melvm/src/consts.rs", "const", "HADDR_LAST_HEADER"),
        Fn(E_, "new_from_env", impl="Executor", home="C04", implicit_props=("C09", "C04", "C10"),
           ensures=[C("heap", "res.instrs == instrs && vm_of(res) == (VM { stack: Seq::<Value>::empty(), heap: env_heap(tx, env), pc: 0, loops: Seq::<LoopState>::empty() })", "C04", "C10",
                      note="every field of the covenant environment is placed at its specified heap address; the value conversions themselves are A-VALCONV")]),
        Raw("use std::sync::Arc;"),
        TypeItem("lib/melvm/src/lib.rs", "struct", "Covenant", subst=[("(Arc<Vec<OpCode>>)", "(pub Arc<Vec<OpCode>>)")]),
        Raw("""impl View for Covenant { type V = Seq<OpCode>; open spec fn view(&self) -> Seq<OpCode> { (*self.0)@ } }
/// A-PHYS: a program has fewer than 2^47 instructions (each OpCode value occupies at least 40 bytes)
pub broadcast axiom fn axiom_program_len(v: Vec<OpCode>) ensures #[trigger] v@.len() <= 0x7fff_ffff_ffff;
/// <[T]>::to_vec through Arc<Vec<OpCode>>: a copy of the instruction sequence
#[verifier::external_body] pub fn arc_to_vec(a: &Arc<Vec<OpCode>>) -> (r: Vec<OpCode>) ensures r@ == (**a)@ { unimplemented!() }"""),
        Fn("lib/melvm/src/lib.rs", "execute", impl="Covenant", home="C04", implicit_props=("C09", "C04", "C10"), uses="group_melvm_axioms, axiom_program_len",
           rewrites=[("SUB", "self.0.to_vec()", "arc_to_vec(&self.0)")],
           ensures=mv_execute()["ensures"] + [C("sem", "run_result(self@, VM { stack: Seq::<Value>::empty(), heap: env_heap(*tx, env), pc: 0, loops: Seq::<LoopState>::empty() }, res)", "C04", "C10",
                      note="Covenant::execute = the MelVM run (run_result) of this covenant's instructions from the empty stack and the heap holding exactly this spend's environment")]),
        Fn("lib/melvm/src/lib.rs", "from_ops", impl="Covenant", home="C12", implicit_props=("C09", "C12"), ensures=[C("ops", "res@ == ops@", "C12", "C04")]),
        Fn("lib/melvm/src/lib.rs", "std_ed25519_pk_legacy", impl="Covenant", home="C04", implicit_props=("C09", "C04"),
           ensures=[C("program", "is_std_sig(res@, pk.0@, true)", "C04", note="with lemma_std_sig_covenant: spendable exactly by a valid signature of this key over the signature-free hash in slot 0")]),
        Fn("lib/melvm/src/lib.rs", "std_ed25519_pk_new", impl="Covenant", home="C04", implicit_props=("C09", "C04"),
           ensures=[C("program", "is_std_sig(res@, pk.0@, false)", "C04", note="with lemma_std_sig_covenant: spendable exactly by a valid signature of this key in the slot of the spender's own input position")]),
        Fn("lib/melvm/src/lib.rs", "always_true", impl="Covenant", home="C04", implicit_props=("C09",), ensures=[C("program", "res@.len() == 1 && is_push_int(res@[0], 1)", "C04")]),
    ],
)
