#!/bin/sh
# usage: kani_run.sh <crate-subdir> <harness-file> <modname> <harness-name> [timeout-seconds]
# scratch copy of /repo, append `#[cfg(kani)] mod <modname>;` to the crate root, run one harness
sub=$1; hf=$2; mod=$3; h=$4; to=${5:-900}
d=${KANI_SCRATCH:-$(mktemp -d /tmp/kani.XXXXXX)}
if [ ! -f $d/.ready ]; then
  rsync -a --exclude target --exclude .git /repo/ $d/
  cp $hf $d/$sub/src/$mod.rs
  printf '\n#[cfg(kani)]\nmod %s;\n' $mod >> $d/$sub/src/lib.rs
  touch $d/.ready
fi
cd $d/$sub && CARGO_NET_OFFLINE=true timeout $to cargo kani -Z function-contracts -Z stubbing --harness $h 2>&1 | tail -25
