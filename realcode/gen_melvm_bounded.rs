// Every assertion message starts with the ids of the properties it speaks for ([Cnn]); the check attributes a failure by these tags.
// BOUNDED stand-in (never counted as proof; DESIGN 8.5): a deterministic sweep over pseudo-random covenants that asserts C12 (decode/encode
// bijection, hash and weight agree between bytes and instructions) and C11/C10 (a run executes at most weight-many instructions; running twice
// gives the same result) on the REAL melvm crate.  It exists for one purpose: when a rewrite of these functions makes the deductive check
// UNDECIDED (contract anchors lost), a failure here is a concrete failing input.  Bound: 4000 programs of at most 12 instructions drawn
// from a fixed xorshift stream, 4000 byte strings of at most 48 bytes, runs capped at 200000 steps.  Passing says nothing beyond that bound.
use crate::opcode::{opcodes_weight, OpCode};
use crate::executor::Executor;
use crate::{covenant_weight_from_bytes, Covenant};
use ethnum::U256;

struct Rng(u64);
impl Rng {
    fn next(&mut self) -> u64 { let mut x = self.0; x ^= x << 13; x ^= x >> 7; x ^= x << 17; self.0 = x; x }
    fn below(&mut self, n: u64) -> u64 { self.next() % n }
}
fn small_u256(r: &mut Rng) -> U256 {
    match r.below(4) { 0 => U256::from(r.below(4) as u32), 1 => U256::from(r.next()), 2 => U256::MAX - U256::from(r.below(3) as u32),
        _ => (U256::from(r.next()) << 192) | U256::from(r.next()) }
}
fn op(r: &mut Rng, remaining: u16) -> OpCode {
    match r.below(44) {
        0 => OpCode::Noop, 1 => OpCode::Add, 2 => OpCode::Sub, 3 => OpCode::Mul, 4 => OpCode::Div, 5 => OpCode::Rem, 6 => OpCode::Exp(r.below(256) as u8),
        7 => OpCode::And, 8 => OpCode::Or, 9 => OpCode::Xor, 10 => OpCode::Not, 11 => OpCode::Eql, 12 => OpCode::Lt, 13 => OpCode::Gt, 14 => OpCode::Shl, 15 => OpCode::Shr,
        16 => OpCode::Hash(r.below(70) as u16), 17 => OpCode::Store, 18 => OpCode::Load, 19 => OpCode::StoreImm(r.below(20) as u16), 20 => OpCode::LoadImm(r.below(20) as u16),
        21 => OpCode::VRef, 22 => OpCode::VAppend, 23 => OpCode::VEmpty, 24 => OpCode::VLength, 25 => OpCode::VSlice, 26 => OpCode::VSet, 27 => OpCode::VPush, 28 => OpCode::VCons,
        29 => OpCode::BRef, 30 => OpCode::BAppend, 31 => OpCode::BEmpty, 32 => OpCode::BLength, 33 => OpCode::BSlice, 34 => OpCode::BSet, 35 => OpCode::BPush, 36 => OpCode::BCons,
        37 => OpCode::Bez(r.below(4) as u16), 38 => OpCode::Bnz(r.below(4) as u16), 39 => OpCode::Jmp(r.below(4) as u16),
        40 => OpCode::Loop(r.below(6) as u16, r.below(remaining as u64 + 3) as u16),
        41 => OpCode::PushB((0..r.below(6)).map(|_| r.next() as u8).collect()), 42 => OpCode::PushI(small_u256(r)),
        _ => if r.below(2) == 0 { OpCode::Dup } else if r.below(2) == 0 { OpCode::ItoB } else if r.below(2) == 0 { OpCode::BtoI } else { OpCode::TypeQ },
    }
}
fn program(r: &mut Rng) -> Vec<OpCode> {
    let n = 1 + r.below(12) as u16;
    let pushes = r.below(5) as u16;   // a few literals first, so that a good share of the programs gets past its first instructions
    (0..n).map(|i| if i < pushes { if r.below(4) == 0 { OpCode::PushB((0..r.below(6)).map(|_| r.next() as u8).collect()) } else { OpCode::PushI(small_u256(r)) } } else { op(r, n - i - 1) }).collect()
}

#[test]
fn bounded_c12_programs_round_trip_through_bytes() {
    let mut r = Rng(0x9E3779B97F4A7C15);
    for case in 0..4000 {
        let ops = program(&mut r);
        let cov = Covenant::from_ops(&ops);
        let bytes = cov.to_bytes();
        let back = Covenant::from_bytes(&bytes).unwrap_or_else(|e| panic!("[C12] case {case}: encoding of {ops:?} does not decode: {e:?}"));
        assert_eq!(back.to_ops(), ops, "[C12] case {case}: encode-then-decode changed the program");
        assert_eq!(back.to_bytes(), bytes, "[C12] case {case}: decode-then-encode changed the bytes");
        assert_eq!(back.hash(), cov.hash(), "[C12] case {case}: hash differs between bytes and instructions");
        assert_eq!(back.weight(), opcodes_weight(&ops), "[C12][C05] case {case}: weight differs between bytes and instructions");
        assert_eq!(covenant_weight_from_bytes(&bytes), opcodes_weight(&ops), "[C12][C05] case {case}: covenant_weight_from_bytes differs from the weight of the instructions");
    }
}

#[test]
fn bounded_c12_byte_strings_decode_faithfully_or_fail() {
    let mut r = Rng(0xD1B54A32D192ED03);
    let firsts: [u8; 24] = [0x09, 0x10, 0x11, 0x16, 0x20, 0x30, 0x32, 0x40, 0x42, 0x43, 0x50, 0x54, 0x70, 0x77, 0xa0, 0xa1, 0xa2, 0xb0, 0xc0, 0xc2, 0xf0, 0xf1, 0xf2, 0xff];
    for case in 0..4000 {
        let n = r.below(48) as usize;
        let mut b: Vec<u8> = (0..n).map(|_| r.next() as u8).collect();
        // bias towards real opcodes so that a good share decodes
        let mut i = 0; while i < b.len() { if r.below(3) != 0 { b[i] = firsts[r.below(24) as usize]; } i += 1 + r.below(4) as usize; }
        if let Ok(c) = Covenant::from_bytes(&b) {
            assert_eq!(&c.to_bytes()[..], &b[..], "[C12] case {case}: {b:?} decodes to a program that re-encodes differently");
            assert_eq!(covenant_weight_from_bytes(&b), c.weight(), "[C12][C05] case {case}: weight from bytes differs from the weight of the decoded program");
        } else {
            assert_eq!(covenant_weight_from_bytes(&b), 0, "[C12][C05] case {case}: undecodable bytes must weigh 0");
        }
    }
}

/// programs that keep an integer on top of the stack most of the time, so that runs get long: snippets of literal + binary operation,
/// counted loops around such snippets, forward jumps, heap round trips, conversions
fn running_program(r: &mut Rng) -> Vec<OpCode> {
    fn binop(r: &mut Rng) -> OpCode { match r.below(11) { 0 => OpCode::Add, 1 => OpCode::Sub, 2 => OpCode::Mul, 3 => OpCode::And, 4 => OpCode::Or, 5 => OpCode::Xor,
        6 => OpCode::Lt, 7 => OpCode::Gt, 8 => OpCode::Eql, 9 => OpCode::Shl, _ => OpCode::Rem } }
    let mut p = vec![OpCode::PushI(small_u256(r))];
    let snippets = 1 + r.below(8);
    for _ in 0..snippets {
        match r.below(9) {
            0 | 1 | 2 => { p.push(OpCode::PushI(small_u256(r))); p.push(binop(r)); }
            3 => p.push(OpCode::Not),
            4 => { p.push(OpCode::Dup); p.push(OpCode::Mul); }
            5 => { let k = r.below(5) as u16; let body = 1 + r.below(3) as u16; let slack = r.below(3) as u16;   // slack > 0: the declared body overruns / is cut by what follows
                   p.push(OpCode::Loop(k, 2 * body + slack)); for _ in 0..body { p.push(OpCode::PushI(small_u256(r))); p.push(binop(r)); } }
            6 => { p.push(OpCode::PushI(U256::from(r.below(2) as u32))); p.push(if r.below(2) == 0 { OpCode::Bez(r.below(4) as u16) } else { OpCode::Bnz(r.below(4) as u16) }); }
            7 => { let a = r.below(8) as u16; p.push(OpCode::StoreImm(a)); p.push(OpCode::LoadImm(a)); }
            _ => { p.push(OpCode::ItoB); p.push(OpCode::Hash(40)); p.push(OpCode::BtoI); }
        }
        if r.below(6) == 0 { p.push(OpCode::Jmp(r.below(3) as u16)); }
    }
    p
}

#[test]
fn bounded_c11_runs_stay_within_weight_and_are_deterministic() {
    let mut r = Rng(0xA0761D6478BD642F);
    let mut long_runs = 0;
    for case in 0..4000 {
        let ops = if case % 2 == 0 { running_program(&mut r) } else { program(&mut r) };
        let w = opcodes_weight(&ops);
        let run = |ops: &Vec<OpCode>| {
            let mut ex = Executor::new(ops.clone(), Default::default());
            let mut steps: u128 = 0;
            while ex.pc() < ops.len() {
                if ex.step().is_none() { return (steps, None); }
                steps += 1;
                if steps > 200_000 { break; }
            }
            (steps, Some(ex.stack.last().cloned()))
        };
        let (s1, r1) = run(&ops);
        let (s2, r2) = run(&ops);
        assert!(s1 <= w, "[C11] case {case}: {ops:?} executed {s1} instructions but weighs {w}");
        assert_eq!((s1, format!("{r1:?}")), (s2, format!("{r2:?}")), "[C10][C03] case {case}: two runs of {ops:?} differ");
        if s1 >= 5 { long_runs += 1; }
    }
    assert!(long_runs >= 1000, "vacuity guard: only {long_runs} of 4000 generated programs ran for five steps or more");
}
