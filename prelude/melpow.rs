// A-POW: melpow 0.1.2 (hand-written ASSUMED contracts).  `pow_ok` is uninterpreted: that a verifying proof is evidence of
// sequential work is melpow's business.  Proof::verify is NOT total: it computes `64 - difficulty`, shifts by it, indexes
// the proof map at the zero node and at sibling nodes -- `pow_total` is the domain on which it returns instead of panicking.
pub mod melpow {
    use super::*;
    #[verifier::external_body] pub struct Proof { _p: u8 }
    pub trait HashFunction { spec fn tip910() -> bool; }
    pub uninterp spec fn proof_of_bytes(b: Seq<u8>) -> Option<Proof>;
    pub uninterp spec fn pow_total(p: Proof, puzzle: Seq<u8>, difficulty: nat) -> bool;
    pub uninterp spec fn pow_ok(p: Proof, puzzle: Seq<u8>, difficulty: nat, tip910: bool) -> bool;
    /// read from melpow 0.1.2: verify returns false for difficulty > 100
    pub broadcast axiom fn axiom_pow_difficulty(p: Proof, puzzle: Seq<u8>, difficulty: nat, tip910: bool)
        requires #[trigger] pow_ok(p, puzzle, difficulty, tip910) ensures difficulty <= 100;
    impl Proof {
        #[verifier::external_body]
        pub fn from_bytes<B: BytesLike>(b: &B) -> (r: Option<Proof>) ensures r == proof_of_bytes(b.bytes()) { unimplemented!() }
        #[verifier::external_body]
        pub fn verify<P: BytesLike, H: HashFunction>(&self, puzzle: &P, difficulty: usize, h: H) -> (r: bool)
            requires pow_total(*self, puzzle.bytes(), difficulty as nat)
            ensures r == pow_ok(*self, puzzle.bytes(), difficulty as nat, H::tip910())
        { unimplemented!() }
    }
}
pub use melpow::Proof;
