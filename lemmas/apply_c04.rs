// C04 spec functions (hand-written from the property statement)
/// C04: the covenant carried for `covhash` decodes and evaluates to a true value on (tx, env)
pub open spec fn script_approves(scripts: Map<Address, Bytes>, covhash: Address, tx: Transaction, env: CovenantEnv) -> bool {
    scripts.contains_key(covhash) && spec_cov_decode(scripts[covhash]@) is Some
    && (match spec_exec(spec_cov_decode(scripts[covhash]@)->Some_0, tx, Some(env)) { Some(v) => spec_truthy(v), None => false })
}
pub open spec fn env_of(tx: Transaction, rel: Map<CoinID, CoinDataHeight>, i: int, last_header: Header) -> CovenantEnv {
    CovenantEnv { parent_coinid: tx.inputs@[i], parent_cdh: rel[tx.inputs@[i]], spender_index: i as u8, last_header: last_header }
}
