// Witness of the defect repaired by the fix "withdrawal requests that over-redeem a pool are not settled" (C09, C16): liquidity tokens are
// ordinary coins, so an off-mainnet faucet (or a genesis coin) can carry a pool's liquidity-token denomination without the pool ever
// having issued it. Before the fix, (a) redeeming MORE than the pool records hit `assert!(self.liqs >= liqs)` inside
// melstructs' PoolState::withdraw and (b) redeeming EXACTLY all of a built-in pool emptied it and the pegging step then divided by
// its zero reserve: either way `seal` panicked - two transactions any user can submit stop every validator of a test network.
// Both tests assert the property (sealing completes, built-in pools keep their reserves) and PASS on the repaired tree.
use crate::*;
use melstructs::*;
use melvm::Covenant;
use novasmt::{Database, InMemoryCas};

#[test]
fn c16_faucet_minted_liquidity_tokens_cannot_stop_sealing() {
    let db = Database::new(InMemoryCas::default());
    let mut state = GenesisConfig::std_testnet().realize(&db);
    state.network = NetID::Custom02;
    state.fee_multiplier = 0;
    let cov = Covenant::always_true();
    let mut state = state.seal(None).next_unsealed();   // block 0 creates the built-in pools
    let key = PoolKey::new(Denom::Mel, Denom::Sym);
    let liqs = state.clone().seal(None).pool(key).unwrap().liqs;
    // a faucet hands out liquidity tokens of the MEL/SYM pool: twice what the pool records
    let faucet = Transaction { kind: TxKind::Faucet, inputs: vec![],
        outputs: vec![CoinData { covhash: cov.hash(), value: CoinValue(liqs * 2), denom: key.liq_token_denom(), additional_data: vec![].into() },
                      CoinData { covhash: cov.hash(), value: CoinValue(1000), denom: Denom::Mel, additional_data: vec![].into() }],
        fee: CoinValue(0), covenants: vec![], data: vec![1u8].into(), sigs: vec![] };
    state.apply_tx(&faucet).expect("faucets are allowed off mainnet");
    let mut state = state.seal(None).next_unsealed();
    let wd = Transaction { kind: TxKind::LiqWithdraw, inputs: vec![faucet.output_coinid(0), faucet.output_coinid(1)],
        outputs: vec![CoinData { covhash: cov.hash(), value: CoinValue(liqs * 2), denom: key.liq_token_denom(), additional_data: vec![].into() }],
        fee: CoinValue(1000), covenants: vec![cov.to_bytes()], data: key.to_bytes().to_vec().into(), sigs: vec![] };
    let r = state.apply_tx(&wd);
    if let Err(e) = &r { panic!("withdraw request refused: {:?}", e); }
    let sealed = std::panic::catch_unwind(std::panic::AssertUnwindSafe(|| state.clone().seal(None)));
    assert!(sealed.is_ok(), "sealing a block with an over-redeeming withdrawal request panicked");
    let p = sealed.unwrap().pool(key).unwrap();
    assert!(p.lefts > 0 && p.rights > 0, "built-in pool emptied: {:?}", p);
}

#[test]
fn c16_builtin_pool_cannot_be_emptied_by_foreign_liquidity_tokens() {
    let db = Database::new(InMemoryCas::default());
    let mut state = GenesisConfig::std_testnet().realize(&db);
    state.network = NetID::Custom02;
    state.fee_multiplier = 0;
    let cov = Covenant::always_true();
    let mut state = state.seal(None).next_unsealed();   // block 0 creates the built-in pools
    let key = PoolKey::new(Denom::Mel, Denom::Sym);
    let liqs = state.clone().seal(None).pool(key).unwrap().liqs;
    // a faucet hands out liquidity tokens of the MEL/SYM pool: twice what the pool records
    let faucet = Transaction { kind: TxKind::Faucet, inputs: vec![],
        outputs: vec![CoinData { covhash: cov.hash(), value: CoinValue(liqs), denom: key.liq_token_denom(), additional_data: vec![].into() },
                      CoinData { covhash: cov.hash(), value: CoinValue(1000), denom: Denom::Mel, additional_data: vec![].into() }],
        fee: CoinValue(0), covenants: vec![], data: vec![1u8].into(), sigs: vec![] };
    state.apply_tx(&faucet).expect("faucets are allowed off mainnet");
    let mut state = state.seal(None).next_unsealed();
    let wd = Transaction { kind: TxKind::LiqWithdraw, inputs: vec![faucet.output_coinid(0), faucet.output_coinid(1)],
        outputs: vec![CoinData { covhash: cov.hash(), value: CoinValue(liqs), denom: key.liq_token_denom(), additional_data: vec![].into() }],
        fee: CoinValue(1000), covenants: vec![cov.to_bytes()], data: key.to_bytes().to_vec().into(), sigs: vec![] };
    let r = state.apply_tx(&wd);
    if let Err(e) = &r { panic!("withdraw request refused: {:?}", e); }
    let sealed = std::panic::catch_unwind(std::panic::AssertUnwindSafe(|| state.clone().seal(None)));
    assert!(sealed.is_ok(), "sealing a block with an over-redeeming withdrawal request panicked");
    let p = sealed.unwrap().pool(key).unwrap();
    assert!(p.lefts > 0 && p.rights > 0, "built-in pool emptied: {:?}", p);
}
