// lemmas over the chain invariants that need the settlement vocabulary of stateinv.rs (hand-written)
/// settlement adds no reward pseudo-coin: it writes under ids of transaction outputs only
pub proof fn lemma_ids_new_rewards(c0: IMap<CoinID, CoinDataHeight>, c1: IMap<CoinID, CoinDataHeight>, h: int)
    requires ids_new(c0, c1), rewards_below(c0, h) ensures rewards_below(c1, h)
{
    broadcast use axiom_reward_not_output;
    assert forall|hh: BlockHeight| c1.contains_key(#[trigger] spec_proposer_reward(hh)) implies hh.0 < h by {
        let id = spec_proposer_reward(hh);
        if tx_id(id) { let tx = choose|tx: Transaction| id.txhash == #[trigger] spec_txhash(tx); assert(spec_reward_hash(hh) != spec_txhash(tx).0); assert(false); }
        assert(c0.contains_key(id));
    }
}
