// C14 spec functions and the double-sum lemma (hand-written from the property statement)
/// voting power held together by a set of signing keys in an epoch
pub open spec fn w_present(epoch: u64, keys: Set<Ed25519PK>) -> spec_fn(StakeDoc) -> int {
    |d: StakeDoc| if keys.contains(d.pubkey) { stake_weight(d, epoch, None) } else { 0 }
}
pub open spec fn spec_present(m: Map<TxHash, StakeDoc>, epoch: u64, keys: Set<Ed25519PK>) -> int { map_fsum(m, w_present(epoch, keys)) }
pub open spec fn votes_of(m: Map<TxHash, StakeDoc>, epoch: u64) -> spec_fn(Ed25519PK) -> int { |k: Ed25519PK| spec_votes(m, epoch, Some(k)) }
//@LEMMA C14 lemma_present sum of per-key votes over distinct keys = joint voting power of the key set, at most the total
pub proof fn lemma_present(m: Map<TxHash, StakeDoc>, epoch: u64, ks: Seq<Ed25519PK>)
    requires ks.no_duplicates()
    ensures fsum(ks, votes_of(m, epoch)) == spec_present(m, epoch, ks.to_set()),
            0 <= spec_present(m, epoch, ks.to_set()) <= spec_votes(m, epoch, None),
            spec_votes(m, epoch, None) <= spec_staked_total(m),
    decreases ks.len()
{
    lemma_enum_exists(m);
    let e = choose|e: Seq<TxHash>| is_enum(m, e);
    let wa = w_stake(epoch, None);
    let pres = w_present(epoch, ks.to_set());
    lemma_map_fsum(m, e, wa); lemma_map_fsum(m, e, w_total()); lemma_map_fsum(m, e, pres);
    lemma_fsum_le(e, at(m, pres), at(m, wa));
    lemma_fsum_le(e, at(m, wa), at(m, w_total()));
    lemma_fsum_nonneg(e, at(m, pres));
    if ks.len() == 0 {
        assert(ks.to_set() =~= Set::<Ed25519PK>::empty());
        lemma_fsum_ext(e, at(m, pres), |k: TxHash| 0int);
        lemma_fsum_zero(e);
    } else {
        let k0 = ks.last(); let ks1 = ks.drop_last();
        lemma_present(m, epoch, ks1);
        let p1 = w_present(epoch, ks1.to_set());
        let wk = w_stake(epoch, Some(k0));
        lemma_map_fsum(m, e, p1); lemma_map_fsum(m, e, wk);
        lemma_fsum_add(e, at(m, p1), at(m, wk));
        assert(!ks1.contains(k0)) by { if ks1.contains(k0) { let i = choose|i: int| 0 <= i < ks1.len() && ks1[i] == k0; assert(ks[i] == ks[ks.len() - 1]); } }
        assert forall|x: Ed25519PK| ks.to_set().contains(x) <==> (ks1.to_set().contains(x) || x == k0) by {
            if ks.contains(x) { let i = choose|i: int| 0 <= i < ks.len() && ks[i] == x; if i < ks.len() - 1 { assert(ks1[i] == x); } }
            if ks1.contains(x) { let i = choose|i: int| 0 <= i < ks1.len() && ks1[i] == x; assert(ks[i] == x); }
            assert(ks[ks.len() - 1] == k0);
        }
        lemma_fsum_ext(e, |k: TxHash| at(m, p1)(k) + at(m, wk)(k), at(m, pres));
        assert(votes_of(m, epoch)(k0) == spec_votes(m, epoch, Some(k0)));
    }
}
pub proof fn lemma_fsum_zero<T>(s: Seq<T>) ensures fsum(s, |x: T| 0int) == 0 decreases s.len()
{ if s.len() > 0 { lemma_fsum_zero(s.drop_last()); } }
/// adding a signing key never decreases the signers' joint voting power (C14 monotonicity)
//@LEMMA C14 lemma_present_monotone adding a signing key never decreases the signers joint voting power
pub proof fn lemma_present_monotone(m: Map<TxHash, StakeDoc>, epoch: u64, a: Set<Ed25519PK>, b: Set<Ed25519PK>)
    requires a.subset_of(b)
    ensures spec_present(m, epoch, a) <= spec_present(m, epoch, b)
{
    lemma_enum_exists(m);
    let e = choose|e: Seq<TxHash>| is_enum(m, e);
    let pa = w_present(epoch, a); let pb = w_present(epoch, b);
    lemma_map_fsum(m, e, pa); lemma_map_fsum(m, e, pb);
    lemma_fsum_le(e, at(m, pa), at(m, pb));
}
/// 3S > 2T  <=>  S > floor(2T/3) as the repaired code computes it
//@LEMMA C14 lemma_two_thirds 3S > 2T iff S > floor(2T/3) as computed
pub proof fn lemma_two_thirds(s: int, t: int)
    requires 0 <= s, 0 <= t
    ensures (3 * s > 2 * t) <==> (s > t / 3 * 2 + (t % 3) * 2 / 3)
{
    assert(t == 3 * (t / 3) + t % 3);
    assert(0 <= t % 3 < 3);
    if t % 3 == 0 { assert((t % 3) * 2 / 3 == 0); } else if t % 3 == 1 { assert((t % 3) * 2 / 3 == 0); } else { assert((t % 3) * 2 / 3 == 1); }
}
