// C07: the header a sealed state commits to, as a function of the abstract state (hand-written from the property statement).
// Roots are uninterpreted functions of the CONTENTS (A-SMT: history independence) and injective (A-SMT/A-HASH: collision freedom).
pub uninterp spec fn spec_root_smt<K, V>(m: Map<K, V>) -> HashVal;
pub uninterp spec fn spec_root_coins(v: CoinsView) -> HashVal;
pub uninterp spec fn spec_root_stakes(m: Map<TxHash, StakeDoc>) -> HashVal;
pub broadcast axiom fn axiom_root_smt_inj<K, V>(a: Map<K, V>, b: Map<K, V>) requires #[trigger] spec_root_smt(a) == #[trigger] spec_root_smt(b) ensures a == b;
pub broadcast axiom fn axiom_root_coins_inj(a: CoinsView, b: CoinsView) requires #[trigger] spec_root_coins(a) == #[trigger] spec_root_coins(b) ensures a.coins == b.coins, a.counts == b.counts;
pub broadcast axiom fn axiom_root_stakes_inj(a: Map<TxHash, StakeDoc>, b: Map<TxHash, StakeDoc>) requires #[trigger] spec_root_stakes(a) == #[trigger] spec_root_stakes(b) ensures a == b;
pub open spec fn spec_tip908<C: ContentAddrStore>(s: UnsealedState<C>) -> bool { spec_tip(s.network, s.height, u64::MAX) || s.network == NetID::Custom08 }
pub open spec fn spec_header<C: ContentAddrStore>(s: UnsealedState<C>) -> Header {
    Header {
        network: s.network,
        previous: if s.height.0 == 0 { spec_zero_hash() } else { spec_header_hash(s.history@[BlockHeight((s.height.0 - 1) as u64)]) },
        height: s.height,
        history_hash: spec_root_smt(s.history@),
        coins_hash: spec_root_coins(s.coins@),
        transactions_hash: spec_root_txs(s.transactions@, spec_tip908(s)),
        fee_pool: s.fee_pool,
        fee_multiplier: s.fee_multiplier,
        dosc_speed: s.dosc_speed,
        pools_hash: spec_root_smt(s.pools@),
        stakes_hash: spec_root_stakes(s.stakes@),
    }
}
/// chain invariant: the history tree holds exactly the headers of the heights below the current one, each at its height,
/// each linked to its parent by hash, all on this network
pub open spec fn chain_ok<C: ContentAddrStore>(s: UnsealedState<C>) -> bool {
    &&& forall|h: BlockHeight| #[trigger] s.history@.contains_key(h) <==> h.0 < s.height.0
    &&& forall|h: BlockHeight| #[trigger] s.history@.contains_key(h) ==> s.history@[h].height == h && s.history@[h].network == s.network
            && (h.0 > 0 ==> s.history@[h].previous == spec_header_hash(s.history@[BlockHeight((h.0 - 1) as u64)]))
}
/// "the previous block's header" as a covenant sees it: the header stored at height-1, or (only at height 0) the header this
/// very state would seal to without a proposer action
pub open spec fn spec_last_header<C: ContentAddrStore>(s: UnsealedState<C>) -> Header {
    let h = BlockHeight(if s.height.0 == 0 { 0u64 } else { (s.height.0 - 1) as u64 });
    if s.history@.contains_key(h) { s.history@[h] } else { spec_header(spec_seal(s, None)) }
}
