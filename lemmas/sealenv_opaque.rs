// seal_env as seen by the units that do not look inside it (definition: lemmas/mint.rs, unit `mint`): the arithmetic envelopes of the
// pool-settlement phases of sealing, a predicate of the block's transaction set
pub uninterp spec fn seal_env<C: ContentAddrStore>(s: UnsealedState<C>) -> bool;
