#!/usr/bin/env python3
"""unit tests of rules R24 PUREHELPER / R25 INLINE / R25b (acceptance tests and the rewriting itself); run: python3 engine/test_rules.py"""
import os, sys, tempfile
HERE = os.path.dirname(os.path.abspath(__file__)); sys.path.insert(0, HERE)
d = tempfile.mkdtemp(prefix="rules.")
os.makedirs(os.path.join(d, "src"))
open(os.path.join(d, "src", "m.rs"), "w").write('''
fn pure1(len: usize, declared: u16) -> bool { len as u16 > declared }
fn pure_if(m: u128, after: bool) -> u128 { if after { (m >> 7).max(2) } else { m >> 7 } }
fn calls(state: &S, tx: &T) -> bool { !tx.outputs.is_empty() && state.coins.get_coin(tx.id(0)).is_some() }
fn block1(a: V, b: V) -> V { let total = a + b; total }
fn with_loop(n: u32) -> u32 { let mut s = 0; for i in 0..n { s += i; } s }
fn with_return(n: u32) -> u32 { if n == 0 { return 1; } n }
fn with_try(n: Option<u32>) -> Option<u32> { let k = n?; Some(k) }
fn with_closure(v: Vec<u32>) -> usize { v.iter().filter(|x| **x > 0).count() }
fn with_macro(n: u32) -> u32 { assert!(n > 0); n }
fn unit_tail(n: u32) { foo(n); }
struct X; impl X { fn meth(&self, k: u32) -> u32 { self.f.0 >> k } }
''')
os.environ["VERIF_REPO"] = d
import run as R, spec as S
from rsx import Undecided
def ok(c, what):
    print(("ok   " if c else "FAIL ") + what)
    return c
good = True
h = R.pure_helper("src/m.rs", "pure1")
good &= ok(h and not h["block"] and h["params"] == ["len", "declared"] and "ensures res == (len as u16 > declared)" in h["text"], "R24 contract for a one-expression helper")
h = R.pure_helper("src/m.rs", "pure_if"); good &= ok(h and not h["block"], "if/else body is one expression")
h = R.pure_helper("src/m.rs", "calls"); good &= ok(h and not h["block"] and h["params"] == ["state", "tx"], "helper calling exec functions: candidate for R25")
h = R.pure_helper("src/m.rs", "block1"); good &= ok(h and h["block"] and h["text"] is None and h["ptypes"] == ["V", "V"], "straight-line block: R25b only")
for n in ("with_loop", "with_return", "with_try", "with_closure", "with_macro", "unit_tail", "absent"):
    good &= ok(R.pure_helper("src/m.rs", n) is None, f"refused: {n}")
good &= ok(R.pure_helper("src/m.rs", "meth") is None and R.pure_helper("src/m.rs", "meth", method=True)["params"] == ["k"], "method helper found only as a method")
S.INLINE_HELPERS = {"calls": (["state", "tx"], "!tx.outputs.is_empty() && state.coins.get_coin(tx.id(0)).is_some()", False, ["&S", "&T"])}
t, n = S.inline_helpers("fn f() { if calls(state, &tx) { g() } }")
good &= ok(n == 1 and "(!(&tx).outputs.is_empty() && (state).coins.get_coin((&tx).id(0)).is_some())" in t, "R25 substitution")
t, n = S.inline_helpers("fn f() { calls(mk_state(), &tx) }")
good &= ok(n == 1 and "({ let state: &S = mk_state(); let tx: &T = &tx; !tx.outputs.is_empty()" in t, "non-place argument: evaluated once through the let-block form")
t, n = S.inline_helpers("fn f() { x.calls(1) ; S::calls ; }")
good &= ok(n == 0, "method / path occurrences of the name are not calls of the free helper")
S.INLINE_HELPERS = {"block1": (["a", "b"], "let total = a + b; total", True, ["V", "V"])}
t, n = S.inline_helpers("fn f() { let v = block1(x, self.tips); }")
good &= ok(n == 1 and "({ let a: V = x; let b: V = self.tips; let total = a + b; total })" in t, "R25b let-block")
S.INLINE_HELPERS = {".meth": (["self", "k"], "self.f.0 >> k", False, ["Self", "u32"])}
t, n = S.inline_helpers("fn f() { let v = self.inner.meth(n); }")
good &= ok(n == 1 and "((self.inner).f.0 >> (n))" in t, "R25 method with a place receiver")
try:
    S.inline_helpers("fn f() { let v = mk().meth(n); }"); good &= ok(False, "non-place receiver refused")
except Undecided:
    good &= ok(True, "non-place receiver refused (undecided)")
S.INLINE_HELPERS = {}
sys.exit(0 if good else 1)
