// Order-independent sums over enumerations (hand-written; used for votes, supply, counts).
pub open spec fn fsum<T>(s: Seq<T>, f: spec_fn(T) -> int) -> int decreases s.len() {
    if s.len() == 0 { 0 } else { fsum(s.drop_last(), f) + f(s.last()) }
}
pub proof fn lemma_fsum_remove<T>(s: Seq<T>, f: spec_fn(T) -> int, j: int)
    requires 0 <= j < s.len()
    ensures fsum(s, f) == f(s[j]) + fsum(s.remove(j), f)
    decreases s.len()
{
    if j == s.len() - 1 {
        assert(s.remove(j) =~= s.drop_last());
    } else {
        lemma_fsum_remove(s.drop_last(), f, j);
        assert(s.remove(j).drop_last() =~= s.drop_last().remove(j));
        assert(s.remove(j).last() == s.last());
    }
}
/// two duplicate-free sequences with the same elements have the same sum: the result of summing over a hash map
/// or hash set does not depend on its iteration order
//@LEMMA C03,C13,C14 lemma_fsum_perm a sum over a duplicate-free enumeration does not depend on the enumeration order
pub proof fn lemma_fsum_perm<T>(s1: Seq<T>, s2: Seq<T>, f: spec_fn(T) -> int)
    requires s1.no_duplicates(), s2.no_duplicates(),
             forall|x: T| s1.contains(x) <==> s2.contains(x)
    ensures fsum(s1, f) == fsum(s2, f)
    decreases s1.len()
{
    if s1.len() == 0 {
        if s2.len() > 0 { assert(s2.contains(s2[0])); assert(s1.contains(s2[0])); }
    } else {
        let e = s1.last();
        assert(s1.contains(e));
        assert(s2.contains(e));
        let j = choose|j: int| 0 <= j < s2.len() && s2[j] == e;
        let a = s1.drop_last();
        let b = s2.remove(j);
        lemma_fsum_remove(s2, f, j);
        assert(a.no_duplicates());
        assert(b.no_duplicates()) by {
            assert forall|p: int, q: int| 0 <= p < b.len() && 0 <= q < b.len() && p != q implies b[p] != b[q] by {
                let pp = if p < j { p } else { p + 1 }; let qq = if q < j { q } else { q + 1 };
                assert(b[p] == s2[pp] && b[q] == s2[qq]);
            }
        }
        assert forall|x: T| a.contains(x) <==> b.contains(x) by {
            if a.contains(x) {
                let i = choose|i: int| 0 <= i < a.len() && a[i] == x;
                assert(s1[i] == x); assert(x != e);
                assert(s1.contains(x));
                let k = choose|k: int| 0 <= k < s2.len() && s2[k] == x;
                assert(k != j);
                let kk = if k < j { k } else { k - 1 };
                assert(b[kk] == x);
            }
            if b.contains(x) {
                let k = choose|k: int| 0 <= k < b.len() && b[k] == x;
                let kk = if k < j { k } else { k + 1 };
                assert(s2[kk] == x); assert(x != e);
                assert(s2.contains(x)); assert(s1.contains(x));
                let i = choose|i: int| 0 <= i < s1.len() && s1[i] == x;
                assert(i != s1.len() - 1);
                assert(a[i] == x);
            }
        }
        lemma_fsum_perm(a, b, f);
    }
}
pub proof fn lemma_fsum_nonneg<T>(s: Seq<T>, f: spec_fn(T) -> int)
    requires forall|x: T| #[trigger] f(x) >= 0
    ensures fsum(s, f) >= 0
    decreases s.len()
{ if s.len() > 0 { lemma_fsum_nonneg(s.drop_last(), f); } }
pub proof fn lemma_fsum_le<T>(s: Seq<T>, f: spec_fn(T) -> int, g: spec_fn(T) -> int)
    requires forall|x: T| #[trigger] f(x) <= #[trigger] g(x)
    ensures fsum(s, f) <= fsum(s, g)
    decreases s.len()
{ if s.len() > 0 { lemma_fsum_le(s.drop_last(), f, g); } }
pub proof fn lemma_fsum_push<T>(s: Seq<T>, x: T, f: spec_fn(T) -> int)
    ensures fsum(s.push(x), f) == fsum(s, f) + f(x)
{ assert(s.push(x).drop_last() =~= s); }
pub proof fn lemma_fsum_map_eq<A, B>(s1: Seq<A>, s2: Seq<B>, f1: spec_fn(A) -> int, f2: spec_fn(B) -> int)
    requires s1.len() == s2.len(), forall|i: int| 0 <= i < s1.len() ==> f1(#[trigger] s1[i]) == f2(s2[i])
    ensures fsum(s1, f1) == fsum(s2, f2)
    decreases s1.len()
{
    if s1.len() > 0 {
        assert(f1(s1[s1.len() - 1]) == f2(s2[s1.len() - 1]));
        lemma_fsum_map_eq(s1.drop_last(), s2.drop_last(), f1, f2);
    }
}
/// summing g over the elements satisfying p  ==  summing the indicator-weighted g over all elements
pub proof fn lemma_fsum_filter<T>(s: Seq<T>, p: spec_fn(T) -> bool, g: spec_fn(T) -> int)
    ensures fsum(s.filter(p), g) == fsum(s, |x: T| if p(x) { g(x) } else { 0 })
    decreases s.len()
{
    reveal_with_fuel(Seq::filter, 2);
    let h = |x: T| if p(x) { g(x) } else { 0 };
    if s.len() > 0 {
        lemma_fsum_filter(s.drop_last(), p, g);
        if p(s.last()) {
            assert(s.filter(p) =~= s.drop_last().filter(p).push(s.last()));
            lemma_fsum_push(s.drop_last().filter(p), s.last(), g);
        } else {
            assert(s.filter(p) =~= s.drop_last().filter(p));
        }
    } else {
        assert(s.filter(p) =~= Seq::<T>::empty());
    }
}
/// enumeration of a finite map: every key exactly once
pub open spec fn is_enum<K, V>(m: Map<K, V>, ks: Seq<K>) -> bool {
    ks.no_duplicates() && (forall|k: K| #![trigger ks.contains(k)] #![trigger m.contains_key(k)] ks.contains(k) <==> m.contains_key(k))
}
/// order-independent sum of f over the values of a finite map
pub open spec fn at<K, V>(m: Map<K, V>, f: spec_fn(V) -> int) -> spec_fn(K) -> int { |k: K| f(m[k]) }
pub open spec fn map_fsum<K, V>(m: Map<K, V>, f: spec_fn(V) -> int) -> int {
    fsum(choose|ks: Seq<K>| is_enum(m, ks), at(m, f))
}
pub proof fn lemma_map_fsum<K, V>(m: Map<K, V>, ks: Seq<K>, f: spec_fn(V) -> int)
    requires is_enum(m, ks)
    ensures map_fsum(m, f) == fsum(ks, at(m, f))
{
    let ks0 = choose|ks: Seq<K>| is_enum(m, ks);
    lemma_fsum_perm(ks0, ks, at(m, f));
}
pub proof fn lemma_filter_agree<T>(s: Seq<T>, b: spec_fn(T) -> bool, p: spec_fn(T) -> bool)
    requires forall|i: int| 0 <= i < s.len() ==> b(#[trigger] s[i]) == p(s[i])
    ensures s.filter(b) == s.filter(p)
    decreases s.len()
{
    reveal_with_fuel(Seq::filter, 2);
    if s.len() > 0 {
        lemma_filter_agree(s.drop_last(), b, p);
        assert(b(s[s.len() - 1]) == p(s[s.len() - 1]));
    }
}
pub proof fn lemma_fsum_add<T>(s: Seq<T>, f: spec_fn(T) -> int, g: spec_fn(T) -> int)
    ensures fsum(s, f) + fsum(s, g) == fsum(s, |x: T| f(x) + g(x))
    decreases s.len()
{ if s.len() > 0 { lemma_fsum_add(s.drop_last(), f, g); } }
pub proof fn lemma_fsum_ext<T>(s: Seq<T>, f: spec_fn(T) -> int, g: spec_fn(T) -> int)
    requires forall|i: int| 0 <= i < s.len() ==> f(#[trigger] s[i]) == g(s[i])
    ensures fsum(s, f) == fsum(s, g)
{ lemma_fsum_map_eq(s, s, f, g); }
/// a finite map has an enumeration
pub proof fn lemma_enum_exists<K, V>(m: Map<K, V>) ensures exists|ks: Seq<K>| is_enum(m, ks)
{
    let ks = m.dom().to_seq();
    m.dom().lemma_to_seq_no_duplicates();
    m.dom().lemma_to_seq_to_set_id();
    assert forall|k: K| #[trigger] ks.contains(k) <==> m.contains_key(k) by {
        assert(ks.to_set() == m.dom());
        assert(ks.to_set().contains(k) <==> ks.contains(k));
    }
    assert(is_enum(m, ks));
}
/// a sequence of references denotes the sequence of their targets
pub open spec fn refs_of<T>(r: Seq<&T>, s: Seq<T>) -> bool { r.len() == s.len() && forall|q: int| 0 <= q < s.len() ==> *(#[trigger] r[q]) == s[q] }
pub proof fn lemma_fsum_take_next<T>(s: Seq<T>, f: spec_fn(T) -> int, j: int)
    requires 0 <= j < s.len()
    ensures fsum(s.take(j + 1), f) == fsum(s.take(j), f) + f(s[j])
{ assert(s.take(j + 1).drop_last() =~= s.take(j)); }
pub proof fn lemma_fsum_take_le<T>(s: Seq<T>, f: spec_fn(T) -> int, j: int)
    requires 0 <= j <= s.len(), forall|x: T| #[trigger] f(x) >= 0
    ensures 0 <= fsum(s.take(j), f) <= fsum(s, f)
    decreases s.len() - j
{
    lemma_fsum_nonneg(s.take(j), f);
    if j == s.len() { assert(s.take(j) =~= s); } else { lemma_fsum_take_next(s, f, j); lemma_fsum_take_le(s, f, j + 1); }
}
pub open spec fn derefseq<'a, T>(r: Seq<&'a T>) -> Seq<T> { Seq::new(r.len(), |i: int| *r[i]) }
