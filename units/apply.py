from spec import *
from _contracts import *

A = "src/state/applytx.rs"
S = "src/state.rs"
C_ = "src/state/coins.rs"
T = "src/state/txset.rs"


COMMON_INV = """next_state.coins.wf() && (is_tip_906 ==> counts_ok(next_state.coins@)) && is_tip_906 == spec_tip906(next_state)
                && origin_ok(next_state.coins@.coins) && (!is_tip_906 ==> next_state.coins@.counts == st0.coins@.counts)
                && next_state.network == st0.network && next_state.height == st0.height && next_state.history == st0.history
                && next_state.fee_multiplier == st0.fee_multiplier && next_state.dosc_speed == st0.dosc_speed
                && next_state.pools == st0.pools && next_state.stakes == st0.stakes
                && txx == transactions@ && rel == relevant_coins@ && rel_consistent(txx, rel) && c0 == st0.coins@.coins
                && (forall|q: int| 0 <= q < txx.len() ==> spec_well_formed(#[trigger] txx[q]) && cov_weights_fit(txx[q]))"""
FAUC = """forall|q: int| 0 <= q < %s && (#[trigger] txx[q]).kind == TxKind::Faucet ==>
               !(st0.network == NetID::Mainnet && !is_grandfathered(spec_txhash(txx[q])))
               && (!is_grandfathered(spec_txhash(txx[q])) ==> !c0.contains_key(spec_marker(spec_txhash(txx[q]))))"""
TXS = "(forall|h: TxHash| #[trigger] next_state.transactions@.contains_key(h) <==> (st0.transactions@.contains_key(h) || in_batch(txx, %s, h))) && (txs_keyed(st0.transactions@) ==> txs_keyed(next_state.transactions@))"
FEE0 = "next_state.fee_pool == st0.fee_pool && next_state.tips == st0.tips && next_state.transactions == st0.transactions"
FEE2 = """next_state.fee_pool.0 as int == st0.fee_pool.0 + fsum(txx.take(%s), min_fee_of(st0.fee_multiplier))
          && next_state.tips.0 as int == st0.tips.0 + fsum(txx.take(%s), tip_of(st0.fee_multiplier))
          && next_state.fee_pool.0 + next_state.tips.0 == st0.fee_pool.0 + st0.tips.0 + fsum(txx.take(%s), fee_of())
          && st0.fee_pool.0 + st0.tips.0 + fsum(txx, fee_of()) <= u128::MAX
          && (forall|q: int| 0 <= q < %s ==> (#[trigger] txx[q]).fee.0 >= spec_base_fee(txx[q], st0.fee_multiplier))"""
CNS = Fn(A, "create_next_state", home="C02", implicit_props=("C09", "C02", "C05"), **ap_create_next_state(),
    rewrites=[("R4", 1)],
    closures=[Closure(0, "c: &[u8]", "(r: u128)", ensures=[C("weigher", "r as nat == spec_cov_weight_b(c@)", "C05", note="the closure handed to Transaction::base_fee is the covenant weigher")])],
    injects=[
        Inject("entry", """let ghost st0 = next_state; let ghost c0 = next_state.coins@.coins; let ghost rel = relevant_coins@; let ghost txx = transactions@;
                           proof { assert forall|x: CoinID| true implies !#[trigger] created_by(txx, 0, rel, x) && !marker_of(txx, 0, x) by {} }"""),
        Inject(("before", "for i in 0..tx.outputs.len()"), """proof {
            let j = it.index@ as int; let h = spec_txhash(*tx);
            if tx.kind == TxKind::Faucet && !is_grandfathered(h) {
                let m = choose|m: CoinDataHeight| is_marker_cdh(m) && #[trigger] view_insert(vpre, spec_marker(h), m, spec_tip906(st0)) == next_state.coins@;
                lemma_phase1_enter(c0, vpre.coins, next_state.coins@.coins, txx, j, rel, m);
                lemma_origin_marker(vpre.coins, h, m);
            } else {
                lemma_phase1_enter(c0, vpre.coins, next_state.coins@.coins, txx, j, rel, arbitrary());
            }
            if enumerable(c0) { if tx.kind == TxKind::Faucet && !is_grandfathered(h) {
                    let m = choose|m: CoinDataHeight| is_marker_cdh(m) && #[trigger] view_insert(vpre, spec_marker(h), m, spec_tip906(st0)) == next_state.coins@;
                    lemma_supply_insert_le(vpre.coins, spec_marker(h), m, Denom::Mel);
                    assert forall|d: Denom| coins_supply(next_state.coins@.coins, d) <= coins_supply(c0, d) + #[trigger] created_tot(txx, j, rel, d) + created_val(txx[j], rel, 0, d) by { lemma_supply_insert_le(vpre.coins, spec_marker(h), m, d); lemma_created_val_next(txx[j], rel, 0, d); }
                } else { assert(next_state.coins@.coins == vpre.coins);
                    assert forall|d: Denom| coins_supply(next_state.coins@.coins, d) <= coins_supply(c0, d) + #[trigger] created_tot(txx, j, rel, d) + created_val(txx[j], rel, 0, d) by { lemma_created_val_next(txx[j], rel, 0, d); } } }
        }"""),
        Inject(("before", "for tx in transactions", 1), """let ghost c1 = next_state.coins@.coins;
            proof { assert(txx.take(0) =~= Seq::<Transaction>::empty()); assert forall|x: CoinID| true implies !#[trigger] spent_by(txx, 0, x) by {}
                    assert forall|h: TxHash| true implies !#[trigger] in_batch(txx, 0, h) by {} }"""),
        Inject(("before", "return Err(StateError::InsufficientFees(min_fee));"), """proof { let q = it.index@ as int; let m = next_state.fee_multiplier; assert(*tx == transactions@[q]);
            assert(transactions@[q].fee.0 < spec_base_fee(transactions@[q], m) && min_fee.0 == spec_base_fee(transactions@[q], m)); }"""),
        Inject(("before", "Ok(next_state)"), """proof { assert(txx.take(txx.len() as int) =~= txx); lemma_phases_to_batch(c0, c1, next_state.coins@.coins, txx, rel); }"""),
    ],
    loops=[
        Loop(0, binder="it", body_entry="let ghost vpre = next_state.coins@; proof { assert(*tx == txx[it.index@ as int]); }",
             body_exit="proof { lemma_phase1_next_tx(c0, next_state.coins@.coins, txx, it.index@ as int, rel); assert forall|d: Denom| true implies #[trigger] created_tot(txx, it.index@ as int + 1, rel, d) == created_tot(txx, it.index@ as int, rel, d) + created_val(txx[it.index@ as int], rel, txx[it.index@ as int].outputs@.len() as int, d) by { lemma_created_tot_next(txx, it.index@ as int, rel, d); } }",
             invariants=[
            C("common1", COMMON_INV, "C02", "C20"),
            C("p1", "phase1(c0, next_state.coins@.coins, txx, it.index@ as int, false, rel, 0)", "C02", "C01"),
            C("fee1", FEE0, "C05", "C01", "C03"),
            C("seq1", "refs_of(it.seq(), txx)", "C02"),
            C("fauc1", FAUC % "it.index@", "C19"),
            C("sup1", "(enumerable(c0) ==> enumerable(next_state.coins@.coins) && forall|d: Denom| coins_supply(next_state.coins@.coins, d) <= coins_supply(c0, d) + #[trigger] created_tot(txx, it.index@ as int, rel, d))", "C01"),
        ]),
        Loop(1, body_entry="let ghost cb = next_state.coins@.coins;",
             body_exit="""proof { let j = it.index@ as int; assert(coinid == cid(txx[j], i as int));
                 if rel.contains_key(coinid) { assert(next_state.coins@.coins == cb.insert(coinid, rel[coinid])); lemma_origin_insert(cb, txx[j], i as int, rel[coinid]); }
                 else { assert(next_state.coins@.coins == cb); }
                 lemma_phase1_step(c0, cb, next_state.coins@.coins, txx, j, rel, i as int);
                 if enumerable(c0) { if rel.contains_key(coinid) { lemma_supply_insert_le(cb, coinid, rel[coinid], Denom::Mel); }
                     assert forall|d: Denom| coins_supply(next_state.coins@.coins, d) <= coins_supply(c0, d) + #[trigger] created_tot(txx, j, rel, d) + created_val(txx[j], rel, i as int + 1, d) by {
                     lemma_created_val_next(txx[j], rel, i as int, d); if rel.contains_key(coinid) { lemma_supply_insert_le(cb, coinid, rel[coinid], d); } } } }""",
             invariants=[
            C("common1i", COMMON_INV, "C02", "C20"),
            C("p1i", "phase1(c0, next_state.coins@.coins, txx, it.index@ as int, true, rel, i as int)", "C02", "C01"),
            C("fee1i", FEE0, "C05", "C01", "C03"),
            C("ctx1i", "refs_of(it.seq(), txx) && 0 <= it.index@ < txx.len() && *tx == txx[it.index@ as int] && txhash == spec_txhash(*tx)", "C02"),
            C("fauc1i", FAUC % "it.index@ + 1", "C19"),
            C("sup1i", "(enumerable(c0) ==> enumerable(next_state.coins@.coins) && forall|d: Denom| coins_supply(next_state.coins@.coins, d) <= coins_supply(c0, d) + #[trigger] created_tot(txx, it.index@ as int, rel, d) + created_val(txx[it.index@ as int], rel, i as int, d))", "C01"),
        ]),
        Loop(2, binder="it", body_entry="proof { assert(*tx == txx[it.index@ as int]); }",
             body_exit="""proof { let j = it.index@ as int; lemma_phase2_next_tx(c1, next_state.coins@.coins, txx, j);
                 lemma_fsum_take_next(txx, min_fee_of(st0.fee_multiplier), j); lemma_fsum_take_next(txx, tip_of(st0.fee_multiplier), j);
                 lemma_fsum_take_next(txx, fee_of(), j); lemma_fsum_take_le(txx, fee_of(), j + 1);
                 assert forall|h: TxHash| true implies (#[trigger] in_batch(txx, j + 1, h) <==> (in_batch(txx, j, h) || h == spec_txhash(txx[j]))) by { lemma_in_batch_next(txx, j, h); }
                 assert forall|d: Denom| true implies #[trigger] spent_tot(txx, j + 1, rel, d) == spent_tot(txx, j, rel, d) + spent_val(txx[j], rel, txx[j].inputs@.len() as int, d) by { lemma_spent_tot_next(txx, j, rel, d); } }""",
             invariants=[
            C("common2", COMMON_INV, "C02", "C20"),
            C("p2", "phase1(c0, c1, txx, txx.len() as int, false, rel, 0) && phase2(c1, next_state.coins@.coins, txx, it.index@ as int, 0)", "C02", "C01"),
            C("fee2", FEE2 % ("it.index@ as int", "it.index@ as int", "it.index@ as int", "it.index@"), "C05", "C01", "C03"),
            C("seq2", "refs_of(it.seq(), txx)", "C02"),
            C("fauc2", FAUC % "txx.len()", "C19"),
            C("txs2", TXS % "it.index@ as int", "C02"),
            C("sup2", "(supply_hyp(c0, txx, rel) ==> enumerable(next_state.coins@.coins) && forall|d: Denom| coins_supply(next_state.coins@.coins, d) == coins_supply(c1, d) - #[trigger] spent_tot(txx, it.index@ as int, rel, d))", "C01"),
        ]),
        Loop(3, binder="it2", body_entry="let ghost cb = next_state.coins@.coins; proof { assert(*coinid == txx[it.index@ as int].inputs@[it2.index@ as int]); }",
             body_exit="""proof { lemma_origin_remove(cb, *coinid); lemma_phase2_step(c1, cb, txx, it.index@ as int, it2.index@ as int);
                 if supply_hyp(c0, txx, rel) { let j = it.index@ as int; let n = it2.index@ as int; lemma_input_live(c0, c1, cb, txx, rel, j, n);
                     assert(next_state.coins@.coins == cb.remove(*coinid)); lemma_isum_remove(cb, *coinid, val_of(Denom::Mel));
                     assert forall|d: Denom| coins_supply(next_state.coins@.coins, d) == coins_supply(c1, d) - #[trigger] spent_tot(txx, j, rel, d) - spent_val(txx[j], rel, n + 1, d) by { lemma_isum_remove(cb, *coinid, val_of(d)); lemma_spent_val_next(txx[j], rel, n, d); } } }""",
             invariants=[
            C("common2i", COMMON_INV, "C02", "C20"),
            C("p2i", "phase1(c0, c1, txx, txx.len() as int, false, rel, 0) && phase2(c1, next_state.coins@.coins, txx, it.index@ as int, it2.index@ as int)", "C02", "C01"),
            C("fee2i", FEE2 % ("it.index@ as int", "it.index@ as int", "it.index@ as int", "it.index@"), "C05", "C01", "C03"),
            C("ctx2i", "refs_of(it.seq(), txx) && 0 <= it.index@ < txx.len() && *tx == txx[it.index@ as int] && refs_of(it2.seq(), tx.inputs@)", "C02"),
            C("fauc2i", FAUC % "txx.len()", "C19"),
            C("txs2i", TXS % "it.index@ as int", "C02"),
            C("sup2i", "(supply_hyp(c0, txx, rel) ==> enumerable(next_state.coins@.coins) && forall|d: Denom| coins_supply(next_state.coins@.coins, d) == coins_supply(c1, d) - #[trigger] spent_tot(txx, it.index@ as int, rel, d) - spent_val(txx[it.index@ as int], rel, it2.index@ as int, d))", "C01"),
        ]),
    ],
)

UNIT = Unit(
    name="apply", lemma_obs=['lemma_phases_to_batch', 'lemma_batch_perm', 'lemma_fees_perm'], uses="group_core_axioms, axiom_marker_not_output, axiom_marker_inj",
    prelude=["core.rs", "raw.rs", "iter.rs", "crypto.rs", "state_abs.rs"],
    lemmas=["sums.rs", "iterlem.rs", "coinsview.rs", "supply.rs", "tips.rs", "apply.rs", "supply_batch.rs"],
    items=[
        Fn(DEP_TX, "base_fee", impl="Transaction", mode="assume", **tx_base_fee()),
        TypeItem(S, "struct", "UnsealedState"),
        TypeItem(S, "enum", "StateError", derive="#[derive(Clone, Copy, PartialEq, Eq, Structural)]"),
        Raw("impl<C: ContentAddrStore> Clone for UnsealedState<C> { #[verifier::external_body] fn clone(&self) -> (r: Self) ensures r == *self { unimplemented!() } }"),
        TypeItem("src/tip_heights.rs", "const", "TIP_906_HEIGHT"),
        Pin(A, "const", "INFLATION_BUG_TX_HASH",
            'const INFLATION_BUG_TX_HASH: &str = "30a60b20830f000f755b70c57c998553a303cc11f8b1f574d5e9f7e26b645d8b";',
            "pub const INFLATION_BUG_TX_HASH: StrLit = StrLit {};"),
        Fn(C_, "insert_coin", impl="CoinMapping", mode="assume", **cm_insert_coin()),
        Fn(C_, "remove_coin", impl="CoinMapping", mode="assume", **cm_remove_coin()),
        Fn(C_, "get_coin", impl="CoinMapping", mode="assume", **cm_get_coin()),
        Fn(T, "insert", impl="TransactionSet", mode="assume", **ts_insert()),
        Fn(S, "tip_condition", impl="UnsealedState", home="C20", implicit_props=("C09",), **st_tip_condition()),
        Fn(S, "tip_906", impl="UnsealedState", home="C20", implicit_props=("C09",), **st_tip(830000)),
        Raw("#[verifier::external_body] pub exec const FDP_STR: &'static [u8] ensures FDP_STR@ == spec_fdp_str() { b\"fdp\" }"),
        Fn(A, "faucet_dedup_pseudocoin", home="C19", implicit_props=("C09", "C19"), **ap_faucet_pseudocoin(),
           rewrites=[("SUB", 'b"fdp"', "FDP_STR")]),
        Fn(A, "handle_faucet_tx", home="C19", implicit_props=("C09", "C19"), **ap_handle_faucet()),
        Raw(COV_WEIGHT_STUB),
        CNS,
    ],
)
