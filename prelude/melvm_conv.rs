// A-VALCONV: the `impl From<X> for Value` conversions of lib/melvm/src/value.rs that Executor::new_from_env uses.  They are repo code that is
// NOT verified here: each is an external_body stub whose result is named by a spec function (transcribed by hand from value.rs for the scalar
// ones; uninterpreted for Transaction / Header / Denom, whose vector layouts are not needed to state where each environment field is placed).
pub uninterp spec fn val_of_tx(tx: Transaction) -> Value;
pub uninterp spec fn val_of_header(h: Header) -> Value;
pub uninterp spec fn val_of_denom(d: Denom) -> Value;
impl FromSpecImpl<u128> for Value { open spec fn obeys_from_spec() -> bool { true } open spec fn from_spec(n: u128) -> Value { vint(n as nat) } }
impl From<u128> for Value { #[verifier::external_body] fn from(n: u128) -> (r: Value) { unimplemented!() } }
impl FromSpecImpl<u64> for Value { open spec fn obeys_from_spec() -> bool { true } open spec fn from_spec(n: u64) -> Value { vint(n as nat) } }
impl From<u64> for Value { #[verifier::external_body] fn from(n: u64) -> (r: Value) { unimplemented!() } }
impl FromSpecImpl<HashVal> for Value { open spec fn obeys_from_spec() -> bool { true } open spec fn from_spec(h: HashVal) -> Value { vbytes(h.0@) } }
impl From<HashVal> for Value { #[verifier::external_body] fn from(h: HashVal) -> (r: Value) { unimplemented!() } }
impl FromSpecImpl<Bytes> for Value { open spec fn obeys_from_spec() -> bool { true } open spec fn from_spec(b: Bytes) -> Value { vbytes(b@) } }
impl From<Bytes> for Value { #[verifier::external_body] fn from(b: Bytes) -> (r: Value) { unimplemented!() } }
impl FromSpecImpl<Denom> for Value { open spec fn obeys_from_spec() -> bool { true } open spec fn from_spec(d: Denom) -> Value { val_of_denom(d) } }
impl From<Denom> for Value { #[verifier::external_body] fn from(d: Denom) -> (r: Value) { unimplemented!() } }
impl FromSpecImpl<Transaction> for Value { open spec fn obeys_from_spec() -> bool { true } open spec fn from_spec(t: Transaction) -> Value { val_of_tx(t) } }
impl From<Transaction> for Value { #[verifier::external_body] fn from(t: Transaction) -> (r: Value) { unimplemented!() } }
impl FromSpecImpl<Header> for Value { open spec fn obeys_from_spec() -> bool { true } open spec fn from_spec(h: Header) -> Value { val_of_header(h) } }
impl From<Header> for Value { #[verifier::external_body] fn from(h: Header) -> (r: Value) { unimplemented!() } }
