"""Non-Verus obligation providers: Kani/CBMC harnesses on the real compiled crate (thorough tier)."""
import concurrent.futures as cf
import os
import re
import shutil
import subprocess
import tempfile
import time

VERIF = os.path.dirname(os.path.dirname(os.path.abspath(__file__)))
REPO = os.environ.get("VERIF_REPO", "/repo")

KANI = {
    "C12": dict(crate="lib/melvm", file="kani/melvm_codec.rs", mod="verif_codec",
                harnesses=["dec_enc_00_2f", "dec_enc_30_6f", "dec_enc_70_af", "dec_enc_b0_ef", "dec_enc_f0", "dec_enc_f1", "dec_enc_f2", "dec_enc_f3_ff",
                           "enc_dec_noarg", "enc_dec_noarg2", "enc_dec_args", "enc_dec_args2", "enc_dec_pushi", "enc_dec_pushic", "enc_dec_pushb"],
                text={"dec": "K1: for every byte string of <= 35 bytes with this first-byte range: decode either fails or yields an instruction whose encoding is exactly the consumed prefix; never panics",
                      "enc": "K2: encode(op) followed by two arbitrary bytes decodes back to op, consuming exactly the encoding"},
                timeout=3000),
}


def run(prop, tier):
    if prop not in KANI:
        return []
    cfg = KANI[prop]
    out = {"unit": "kani:" + cfg["mod"], "status": "ok", "reasons": [], "obligations": [], "findings": [], "canaries": {}, "functions": [],
           "assumed_functions": [], "scan": {}, "smt_ms": 0, "cmds": [], "files": [], "bounded": [], "not_covered": []}
    if tier != "thorough":
        out["not_covered"].append(f"A-HANDOVER: the per-instruction codec facts K1/K2 (Kani harnesses {cfg['file']}) are discharged in the thorough tier only ({len(cfg['harnesses'])} harnesses, ~5 CPU-minutes each); the quick tier assumes them")
        return [out]
    d = tempfile.mkdtemp(prefix="kani.")
    try:
        subprocess.run(["rsync", "-a", "--exclude", "target", "--exclude", ".git", REPO + "/", d + "/"], check=True)
        crate = os.path.join(d, cfg["crate"])
        shutil.copy(os.path.join(VERIF, cfg["file"]), os.path.join(crate, "src", cfg["mod"] + ".rs"))
        with open(os.path.join(crate, "src", "lib.rs"), "a") as f:
            f.write(f"\n#[cfg(kani)]\nmod {cfg['mod']};\n")
        env = dict(os.environ, CARGO_NET_OFFLINE="true")
        # build once (first harness compiles the crate), then the rest in parallel
        def one(h):
            t0 = time.time()
            cmd = ["cargo", "kani", "-Z", "function-contracts", "-Z", "stubbing", "--harness", h]
            try:
                p = subprocess.run(cmd, cwd=crate, env=env, capture_output=True, text=True, timeout=cfg["timeout"])
                txt = p.stdout + p.stderr
            except subprocess.TimeoutExpired:
                return h, "undecided", "timeout", time.time() - t0, " ".join(cmd)
            if "VERIFICATION:- SUCCESSFUL" in txt:
                return h, "discharged", re.findall(r"Verification Time: [0-9.]+s", txt)[-1:] , time.time() - t0, " ".join(cmd)
            if "VERIFICATION:- FAILED" in txt:
                fails = re.findall(r"Check \d+: .*?\n\t - Status: FAILURE\n\t - Description: \"(.*?)\"", txt)
                if not fails or "out of memory" in txt or "CBMC failed" in txt:
                    # resource exhaustion / tool failure: no failed check was reported -> undecided, never an alarm
                    return h, "undecided", "CBMC did not complete (no failed check reported): " + txt[-300:], time.time() - t0, " ".join(cmd)
                return h, "failed", fails[:5], time.time() - t0, " ".join(cmd)
            return h, "undecided", txt[-600:], time.time() - t0, " ".join(cmd)
        first = one(cfg["harnesses"][0])
        res = [first]
        with cf.ThreadPoolExecutor(max_workers=3) as ex:   # each CBMC run peaks at 10-15 GB
            res += list(ex.map(one, cfg["harnesses"][1:]))
        for h, verdict, detail, wall, cmd in res:
            out["cmds"].append(cmd)
            out["obligations"].append({"id": f"kani/{cfg['mod']}::{h}", "unit": out["unit"], "fn": f"{cfg['crate']}/src/opcode.rs::OpCode::decode+encode", "clause": h,
                                       "kind": "kani-harness", "text": cfg["text"]["dec" if h.startswith("dec") else "enc"], "props": [prop],
                                       "verdict": verdict, "backend": "kani/cbmc", "characterisation": False, "detail": [str(detail)], "wall_s": round(wall, 1)})
            if verdict == "undecided":
                out["status"] = "undecided"
                out["reasons"].append(f"kani harness {h}: {str(detail)[:200]}")
    finally:
        shutil.rmtree(d, ignore_errors=True)
    return [out]
