// F-C11-weighing on the real code: n `Loop(0, 60000)` instructions (each body reaching the end of the program) weigh n + 1 --
// the fee charged is linear -- but opcodes_car_weight re-weighs the body of every loop and opcodes_weight then weighs the same
// suffix again, so weighing does 2^n calls.  Asserts the property (work polynomial in size and weight: doubling the program
// may cost at most 64x, i.e. degree <= 4 with a 4x margin); FAILS on the pinned tree (11 more loops cost ~2000x).
use melvm::{covenant_weight_from_bytes, opcode::OpCode, Covenant};
use std::time::{Duration, Instant};

fn nested(n: usize) -> Vec<u8> {
    let mut ops = vec![OpCode::Loop(0, 60000); n];
    ops.push(OpCode::Noop);
    Covenant::from_ops(&ops).to_bytes().to_vec()
}
fn best_of(n: usize, reps: usize) -> Duration {
    let b = nested(n);
    (0..reps).map(|_| { let t = Instant::now(); let w = covenant_weight_from_bytes(&b); let d = t.elapsed(); assert_eq!(w, n as u128 + 1); d }).min().unwrap()
}
#[test]
fn c11_weighing_work_is_polynomial_in_size_and_weight() {
    let small = best_of(11, 50).max(Duration::from_micros(2));
    let big = best_of(22, 3);
    assert!(big <= small * 64, "weighing 22 nested zero-iteration loops (weight 23, {} bytes) took {:?}, 11 of them {:?}: x{:.0} for twice the size",
            nested(22).len(), big, small, big.as_secs_f64() / small.as_secs_f64());
}
