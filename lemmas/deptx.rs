// lemmas for the melstructs Transaction methods verified from the registry source (hand-written; unit deptx)
/// A-DET: spec_ser_len names the length of the transaction's stdcode encoding
pub broadcast axiom fn axiom_ser_len(tx: Transaction) ensures #[trigger] spec_ser_len(tx) == tx.ser().len();
/// the weights the mapped closure produced add up to cov_sum
pub proof fn lemma_cov_sum_fsum(ws: Seq<u128>, covs: Seq<Bytes>, n: int)
    requires ws.len() == covs.len(), 0 <= n <= covs.len(), forall|i: int| 0 <= i < covs.len() ==> (#[trigger] ws[i]) as nat == spec_cov_weight_b(covs[i]@)
    ensures fsum(ws.take(n), |x: u128| x as int) == cov_sum(covs, n)
    decreases n
{
    if n > 0 { lemma_cov_sum_fsum(ws, covs, n - 1); lemma_fsum_take_next(ws, |x: u128| x as int, n - 1); }
    else { assert(ws.take(0) =~= Seq::<u128>::empty()); }
}
