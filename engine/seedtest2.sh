#!/bin/sh
# usage: seedtest2.sh <tree-with-the-change-applied> <prop...>  -- run the checks against another tree (VERIF_REPO), leaving /repo untouched
d=$1; shift
for p in "$@"; do VERIF_REPO=$d /verif/check $p 2>&1 | grep -E "^(VIOLATION|OK|UNDECIDED|KNOWN)" | cut -c1-260; done
