// Order-independent sums over the (finite) coin set: the "unspent coins" term of the supply of a denomination (C01, C16).
// Hand-written; needs sums.rs and coinsview.rs.
/// enumeration of a coin map with finite domain: every coin id exactly once
pub open spec fn is_ienum<K, V>(m: IMap<K, V>, ks: Seq<K>) -> bool {
    ks.no_duplicates() && (forall|k: K| #![trigger ks.contains(k)] #![trigger m.contains_key(k)] ks.contains(k) <==> m.contains_key(k))
}
pub open spec fn iat<K, V>(m: IMap<K, V>, f: spec_fn(V) -> int) -> spec_fn(K) -> int { |k: K| f(m[k]) }
/// sum of f over the values of a map that has an enumeration (0-ary junk otherwise; every use supplies an enumeration)
pub open spec fn isum<K, V>(m: IMap<K, V>, f: spec_fn(V) -> int) -> int { fsum(choose|ks: Seq<K>| is_ienum(m, ks), iat(m, f)) }
pub open spec fn enumerable<K, V>(m: IMap<K, V>) -> bool { exists|ks: Seq<K>| is_ienum(m, ks) }
pub proof fn lemma_isum<K, V>(m: IMap<K, V>, ks: Seq<K>, f: spec_fn(V) -> int)
    requires is_ienum(m, ks) ensures isum(m, f) == fsum(ks, iat(m, f)), enumerable(m)
{
    let ks0 = choose|ks: Seq<K>| is_ienum(m, ks);
    lemma_fsum_perm(ks0, ks, iat(m, f));
}
/// sums of pointwise equal summands over the same sequence
pub proof fn lemma_fsum_agree<T>(s: Seq<T>, f: spec_fn(T) -> int, g: spec_fn(T) -> int)
    requires forall|i: int| 0 <= i < s.len() ==> f(#[trigger] s[i]) == g(s[i]) ensures fsum(s, f) == fsum(s, g)
    decreases s.len()
{ if s.len() > 0 { lemma_fsum_agree(s.drop_last(), f, g); assert(f(s[s.len() - 1]) == g(s[s.len() - 1])); } }
/// a fresh entry adds its summand
pub proof fn lemma_isum_insert_fresh<K, V>(m: IMap<K, V>, k: K, v: V, f: spec_fn(V) -> int)
    requires enumerable(m), !m.contains_key(k)
    ensures enumerable(m.insert(k, v)), isum(m.insert(k, v), f) == isum(m, f) + f(v)
{
    let ks = choose|ks: Seq<K>| is_ienum(m, ks); let m2 = m.insert(k, v); let ks2 = ks.push(k);
    assert(!ks.contains(k));
    assert(ks2.no_duplicates()) by { assert forall|i: int, j: int| 0 <= i < ks2.len() && 0 <= j < ks2.len() && i != j implies ks2[i] != ks2[j] by {
        if i < ks.len() && j < ks.len() {} else if i < ks.len() { assert(ks.contains(ks[i])); } else { assert(ks.contains(ks[j])); } } }
    assert forall|x: K| ks2.contains(x) <==> m2.contains_key(x) by {
        if ks2.contains(x) { let i = choose|i: int| 0 <= i < ks2.len() && ks2[i] == x; if i < ks.len() { assert(ks.contains(x)); } }
        if m2.contains_key(x) { if x == k { assert(ks2[ks.len() as int] == k); } else { assert(ks.contains(x)); let i = choose|i: int| 0 <= i < ks.len() && ks[i] == x; assert(ks2[i] == x); } }
    }
    assert(is_ienum(m2, ks2));
    lemma_isum(m, ks, f); lemma_isum(m2, ks2, f);
    lemma_fsum_push(ks, k, iat(m2, f));
    assert(fsum(ks, iat(m2, f)) == fsum(ks, iat(m, f))) by { assert forall|i: int| 0 <= i < ks.len() implies iat(m2, f)(#[trigger] ks[i]) == iat(m, f)(ks[i]) by { assert(ks.contains(ks[i])); } lemma_fsum_agree(ks, iat(m2, f), iat(m, f)); }
}
/// removing an entry subtracts its summand
pub proof fn lemma_isum_remove<K, V>(m: IMap<K, V>, k: K, f: spec_fn(V) -> int)
    requires enumerable(m), m.contains_key(k)
    ensures enumerable(m.remove(k)), isum(m.remove(k), f) == isum(m, f) - f(m[k])
{
    let ks = choose|ks: Seq<K>| is_ienum(m, ks); let m2 = m.remove(k);
    assert(ks.contains(k)); let j = choose|j: int| 0 <= j < ks.len() && ks[j] == k; let ks2 = ks.remove(j);
    assert(ks2.no_duplicates()) by { assert forall|p: int, q: int| 0 <= p < ks2.len() && 0 <= q < ks2.len() && p != q implies ks2[p] != ks2[q] by {
        let pp = if p < j { p } else { p + 1 }; let qq = if q < j { q } else { q + 1 }; assert(ks2[p] == ks[pp] && ks2[q] == ks[qq]); } }
    assert forall|x: K| ks2.contains(x) <==> m2.contains_key(x) by {
        if ks2.contains(x) { let p = choose|p: int| 0 <= p < ks2.len() && ks2[p] == x; let pp = if p < j { p } else { p + 1 }; assert(ks[pp] == x); assert(ks.contains(x)); assert(pp != j); }
        if m2.contains_key(x) { assert(ks.contains(x)); let i = choose|i: int| 0 <= i < ks.len() && ks[i] == x; assert(i != j); let ii = if i < j { i } else { i - 1 }; assert(ks2[ii] == x); }
    }
    assert(is_ienum(m2, ks2));
    lemma_isum(m, ks, f); lemma_isum(m2, ks2, f);
    lemma_fsum_remove(ks, iat(m, f), j);
    assert(fsum(ks2, iat(m2, f)) == fsum(ks2, iat(m, f))) by { assert forall|i: int| 0 <= i < ks2.len() implies iat(m2, f)(#[trigger] ks2[i]) == iat(m, f)(ks2[i]) by { assert(ks2.contains(ks2[i])); } lemma_fsum_agree(ks2, iat(m2, f), iat(m, f)); }
}
/// writing an entry (fresh or not): the sum moves by the new summand minus the old one
pub proof fn lemma_isum_insert<K, V>(m: IMap<K, V>, k: K, v: V, f: spec_fn(V) -> int)
    requires enumerable(m)
    ensures enumerable(m.insert(k, v)), isum(m.insert(k, v), f) == isum(m, f) + f(v) - (if m.contains_key(k) { f(m[k]) } else { 0 })
{
    if m.contains_key(k) { lemma_isum_remove(m, k, f); lemma_isum_insert_fresh(m.remove(k), k, v, f); assert(m.remove(k).insert(k, v) =~= m.insert(k, v)); }
    else { lemma_isum_insert_fresh(m, k, v, f); }
}
pub proof fn lemma_isum_empty<K, V>(f: spec_fn(V) -> int) ensures enumerable(IMap::<K, V>::empty()), isum(IMap::<K, V>::empty(), f) == 0
{ let e = Seq::<K>::empty(); assert(is_ienum(IMap::<K, V>::empty(), e)); lemma_isum(IMap::<K, V>::empty(), e, f); }
/// a non-negative summand makes every entry at most the sum
pub proof fn lemma_isum_nonneg<K, V>(m: IMap<K, V>, f: spec_fn(V) -> int)
    requires enumerable(m), forall|v: V| #[trigger] f(v) >= 0 ensures isum(m, f) >= 0
{ let ks = choose|ks: Seq<K>| is_ienum(m, ks); lemma_fsum_nonneg(ks, iat(m, f)); }

// ---- the coins term of the supply of a denomination
pub open spec fn val_of(d: Denom) -> spec_fn(CoinDataHeight) -> int { |c: CoinDataHeight| if c.coin_data.denom == d { c.coin_data.value.0 as int } else { 0 } }
/// total value of the unspent coins of denomination d
pub open spec fn coins_supply(c: IMap<CoinID, CoinDataHeight>, d: Denom) -> int { isum(c, val_of(d)) }
/// a map with finitely many entries has an enumeration
pub proof fn lemma_finite_enumerable<K, V>(m: IMap<K, V>) requires m.dom().finite() ensures enumerable(m)
{
    let q = m.dom().to_seq(); m.dom().lemma_to_seq_no_duplicates(); m.dom().lemma_to_seq_to_set_id();
    assert forall|x: K| q.contains(x) <==> m.contains_key(x) by { assert(m.dom().contains(x) <==> m.contains_key(x)); }
    assert(is_ienum(m, q));
}
/// the transactions that may bring value of denomination d into existence: a faucet, the transaction whose own new token d is,
/// an ERG mint (C01's explicit issuance rules at the batch level)
pub open spec fn may_issue(tx: Transaction, d: Denom) -> bool { tx.kind == TxKind::Faucet || d == Denom::Custom(spec_txhash(tx)) || (tx.kind == TxKind::DoscMint && d == Denom::Erg) }
pub open spec fn no_issuer(txx: Seq<Transaction>, d: Denom) -> bool { forall|t: int| 0 <= t < txx.len() ==> !may_issue(#[trigger] txx[t], d) }
pub open spec fn fee_in(d: Denom) -> spec_fn(Transaction) -> int { |tx: Transaction| if d == Denom::Mel { tx.fee.0 as int } else { 0 } }
