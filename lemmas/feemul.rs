// C17 spec functions (hand-written from the property statement)
pub assume_specification [i64::unsigned_abs] (x: i64) -> (r: u64)
    ensures r as int == (if x >= 0 { x as int } else { -(x as int) });
pub assume_specification [i8::unsigned_abs] (x: i8) -> (r: u8)
    ensures r as int == (if x >= 0 { x as int } else { -(x as int) });

/// the other absolute-value flavours of std (i8): saturating_abs(-128) == 127; wrapping_abs(-128) == -128; abs(-128) overflows
pub assume_specification [i8::saturating_abs] (x: i8) -> (r: i8)
    ensures r as int == (if x == -128 { 127 } else if x >= 0 { x as int } else { -(x as int) });
pub assume_specification [i8::wrapping_abs] (x: i8) -> (r: i8)
    ensures r as int == (if x == -128 { -128 } else if x >= 0 { x as int } else { -(x as int) });
pub assume_specification [i8::abs] (x: i8) -> (r: i8)
    requires x != -128
    ensures r as int == (if x >= 0 { x as int } else { -(x as int) });
/// Rust's `/` on signed integers truncates toward zero; spec `int` division is Euclidean.
pub open spec fn trunc_div(p: int, q: int) -> int { if p >= 0 { p / q } else { -((-p) / q) } }
/// max(multiplier/128, 2) once TIP-901 is active, multiplier/128 before
pub open spec fn spec_max_movement(fm: u128, after: bool) -> int {
    let m = (fm as int) / 128;
    if after && m < 2 { 2 } else { m }
}
/// the property's step: trunc(max_movement x d / 128)
pub open spec fn spec_fee_step(fm: u128, after: bool, d: int) -> int {
    trunc_div(spec_max_movement(fm, after) * d, 128)
}
pub proof fn lemma_shr7(x: u128)
    ensures (x >> 7) == x / 128, (x >> 7) < 0x200_0000_0000_0000_0000_0000_0000_0000u128
{
    assert((x >> 7) == x / 128 && (x >> 7) < 0x200_0000_0000_0000_0000_0000_0000_0000u128) by (bit_vector);
}
/// |step| <= max(m/128, 2): "by at most 1/128 of its value or 2 units"
//@LEMMA C17 lemma_step_bounded |step| <= max(m/128, 2)
pub proof fn lemma_step_bounded(fm: u128, after: bool, d: int)
    requires -128 <= d <= 127
    ensures -spec_max_movement(fm, after) <= spec_fee_step(fm, after, d) <= spec_max_movement(fm, after)
{
    let m = spec_max_movement(fm, after);
    assert(-128 * m <= m * d <= 127 * m) by (nonlinear_arith) requires 0 <= m, -128 <= d <= 127;
}
