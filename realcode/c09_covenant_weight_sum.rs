// Witness of the defect repaired by the fix "refuse transactions whose covenant weights overflow u128" (C09, C05): melstructs' Transaction::weight
// adds up the weights of the listed covenants with `Iterator::sum` (unchecked u128 addition). Two covenants of saturated weight (eight nested
// Loop(65535, _) headers each; they need not be used by any input) made apply_tx panic with "attempt to add with overflow" in builds with
// overflow checks and wrapped the weight (hence the minimum fee) to a small number in builds without. The test asserts the property
// (validation completes) and PASSES on the repaired tree.
use crate::*;
use melstructs::*;
use melvm::{opcode::OpCode, Covenant};
use novasmt::{Database, InMemoryCas};

fn heavy(extra: u8) -> Covenant {
    // eight nested Loop(65535, _) headers: nominal weight >= 65535^8 > 2^127; saturates or not, two of them add up to > 2^128
    let mut ops = vec![];
    for i in 0..8u16 { ops.push(OpCode::Loop(65535, 8 - i + extra as u16)); }
    ops.push(OpCode::Noop);
    for _ in 0..extra { ops.push(OpCode::Noop); }
    Covenant::from_ops(&ops)
}

#[test]
fn c09_two_heavy_covenants_do_not_stop_validation() {
    let db = Database::new(InMemoryCas::default());
    let mut state = GenesisConfig::std_testnet().realize(&db);
    state.network = NetID::Custom02;
    let a = heavy(0); let b = heavy(1);
    println!("weights {} {}", a.weight(), b.weight());
    let faucet = Transaction { kind: TxKind::Faucet, inputs: vec![],
        outputs: vec![CoinData { covhash: Covenant::always_true().hash(), value: CoinValue(1000), denom: Denom::Mel, additional_data: vec![].into() }],
        fee: CoinValue(1000), covenants: vec![a.to_bytes(), b.to_bytes()], data: vec![1u8].into(), sigs: vec![] };
    let r = std::panic::catch_unwind(std::panic::AssertUnwindSafe(|| state.apply_tx(&faucet)));
    assert!(r.is_ok(), "apply_tx panicked on a transaction listing two heavy covenants");
    println!("{:?}", r.unwrap().is_ok());
}
