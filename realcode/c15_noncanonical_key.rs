// C15 on the real code: a swap request spelling the MEL/SYM pool in the long form with the sides reversed, (SYM, MEL).
// PoolKey::from_bytes does not canonicalise the long form, its to_bytes() is still "s", so the MEL/SYM pool is found, but
// left()/right() are swapped: the MEL paid in is credited to the SYM reserve and the payout is taken from the MEL reserve and
// labelled SYM.  Asserts conservation of SYM (coins + pool reserve); FAILS on the unrepaired tree.
use crate::*;
use melstructs::*;
use melvm::Covenant;
use novasmt::{Database, InMemoryCas};

#[test]
fn c15_reversed_long_pool_key_creates_no_value() {
    let db = Database::new(InMemoryCas::default());
    let mut state = GenesisConfig::std_testnet().realize(&db);
    state.network = NetID::Custom02;
    state.fee_multiplier = 0;
    let at = Covenant::always_true();
    let x = CoinID { txhash: tmelcrypt::HashVal([1; 32]).into(), index: 0 };
    let cd = |v: u128| CoinData { covhash: at.hash(), value: CoinValue(v), denom: Denom::Mel, additional_data: vec![].into() };
    state.coins.insert_coin(x, CoinDataHeight { coin_data: cd(500_000_000), height: 0.into() }, state.tip_906());
    let sealed0 = state.seal(None);
    let key = PoolKey::new(Denom::Mel, Denom::Sym);
    let sym_before = sealed0.pool(key).unwrap().rights;
    let mut state = sealed0.next_unsealed();
    let mut data = vec![0u8; 32];
    data.extend_from_slice(&stdcode::serialize(&(Denom::Sym, Denom::Mel)).unwrap());
    assert!(PoolKey::from_bytes(&data).is_some());
    let t = Transaction { kind: TxKind::Swap, inputs: vec![x], outputs: vec![cd(500_000_000)], fee: CoinValue(0),
        covenants: vec![at.to_bytes()], data: data.into(), sigs: vec![] };
    state.apply_tx(&t).unwrap();
    let sealed = state.seal(None);
    let out = sealed.coin(t.output_coinid(0)).unwrap().coin_data;
    let sym_coins = if out.denom == Denom::Sym { out.value.0 } else { 0 };
    let sym_after = sealed.pool(key).unwrap().rights;
    // the per-block subsidy (2^20 microSYM) and pegging move the reserve by about a million; a reversed-key swap moves hundreds of millions
    assert!(sym_coins + sym_after <= sym_before + 5_000_000, "SYM was created: {} in coins + {} in the pool > {} before", sym_coins, sym_after, sym_before);
}
