// Spec functions for batch application (hand-written from properties C01/C02/C05/C19)
pub uninterp spec fn spec_fdp_str() -> Seq<u8>;   // b"fdp"
pub open spec fn spec_fdp_hash(txhash: TxHash) -> HashVal { hk(spec_fdp_str(), txhash.0.0@) }   // tmelcrypt::hash_keyed(b"fdp", txhash.0)
pub open spec fn spec_marker(txhash: TxHash) -> CoinID { CoinID { txhash: TxHash(spec_fdp_hash(txhash)), index: 0 } }
pub open spec fn is_marker_cdh(d: CoinDataHeight) -> bool {
    d.coin_data.denom == Denom::Mel && d.coin_data.value.0 == 0 && d.coin_data.additional_data@ == Seq::<u8>::empty()
    && d.coin_data.covhash == Address(spec_zero_hash()) && d.height.0 == 0
}
/// every field except `coins` is the same
pub open spec fn same_but_coins<C: ContentAddrStore>(a: UnsealedState<C>, b: UnsealedState<C>) -> bool {
    a.network == b.network && a.height == b.height && a.history == b.history && a.transactions == b.transactions
    && a.fee_pool == b.fee_pool && a.fee_multiplier == b.fee_multiplier && a.tips == b.tips && a.dosc_speed == b.dosc_speed
    && a.pools == b.pools && a.stakes == b.stakes
}
/// A-HASH domain separation: a faucet marker id is never the id of a transaction output
pub broadcast axiom fn axiom_marker_not_output(h: TxHash, tx: Transaction) ensures #[trigger] spec_fdp_hash(h) != (#[trigger] spec_txhash(tx)).0;
/// A-HASH (preimage resistance for the all-zero constant): no transaction's signature-free hash is the zero hash (the genesis coin's id)
pub broadcast axiom fn axiom_txhash_nonzero(tx: Transaction) ensures (#[trigger] spec_txhash(tx)).0 != spec_zero_hash();
/// A-HASH domain separation: the proposer-reward pseudo-id of a height is never the id of a transaction output
pub broadcast axiom fn axiom_reward_not_output(h: BlockHeight, tx: Transaction) ensures #[trigger] spec_reward_hash(h) != (#[trigger] spec_txhash(tx)).0;
pub proof fn lemma_origin_reward(c: IMap<CoinID, CoinDataHeight>, h: BlockHeight, d: CoinDataHeight)
    requires origin_ok(c) ensures origin_ok(c.insert(spec_proposer_reward(h), d))
{
    broadcast use axiom_reward_not_output;
    let c2 = c.insert(spec_proposer_reward(h), d);
    assert forall|tx2: Transaction, i2: int| 0 <= i2 < tx2.outputs@.len() && i2 <= 255 && c2.contains_key(#[trigger] cid(tx2, i2))
        implies c2[cid(tx2, i2)].coin_data.covhash == tx2.outputs@[i2].covhash by { assert(cid(tx2, i2) != spec_proposer_reward(h)); }
}
/// the pre-978392 deposit rule ("OLD RULES" branch of process_deposits_for_single_pool) applies
pub open spec fn deposit_legacy(network: NetID, height: BlockHeight) -> bool { (network == NetID::Mainnet || network == NetID::Testnet) && height.0 < 978392 }
/// state invariant: whatever sits under a marker id is locked by the all-zero covenant hash (markers are the only coins ever written there: A-HASH domain separation)
pub open spec fn markers_ok(c: IMap<CoinID, CoinDataHeight>) -> bool { forall|h: TxHash| c.contains_key(#[trigger] spec_marker(h)) ==> c[spec_marker(h)].coin_data.covhash == Address(spec_zero_hash()) }
/// C19: every faucet marker of c0 is still in c1, unchanged
pub open spec fn markers_kept(c0: IMap<CoinID, CoinDataHeight>, c1: IMap<CoinID, CoinDataHeight>) -> bool {
    forall|h: TxHash| c0.contains_key(#[trigger] spec_marker(h)) ==> c1.contains_key(spec_marker(h)) && c1[spec_marker(h)] == c0[spec_marker(h)]
}
/// A-HASH: a faucet marker's keyed hash is never the all-zero value (the id of the genesis coin)
pub broadcast axiom fn axiom_marker_nonzero(x: TxHash) ensures #[trigger] spec_fdp_hash(x) != spec_zero_hash();
/// A-HASH domain separation: the proposer-reward pseudo-id of a height is never a faucet marker id
pub broadcast axiom fn axiom_reward_not_marker(h: BlockHeight, x: TxHash) ensures #[trigger] spec_reward_hash(h) != #[trigger] spec_fdp_hash(x);
pub broadcast axiom fn axiom_marker_inj(a: TxHash, b: TxHash) requires #[trigger] spec_fdp_hash(a) == #[trigger] spec_fdp_hash(b) ensures a == b;

// ---- exact coin-set transition of a batch (C02)
pub open spec fn cid(tx: Transaction, i: int) -> CoinID { CoinID { txhash: spec_txhash(tx), index: i as u8 } }
/// `id` is an output of one of txx[0..j) that the relevant-coins map `rel` keeps (i.e. not sent to the destruction address)
pub open spec fn created_by(txx: Seq<Transaction>, j: int, rel: Map<CoinID, CoinDataHeight>, id: CoinID) -> bool {
    exists|t: int, i: int| 0 <= t < j && 0 <= i < txx[t].outputs@.len() && id == #[trigger] cid(txx[t], i) && rel.contains_key(id)
}
pub open spec fn created_upto(tx: Transaction, n: int, rel: Map<CoinID, CoinDataHeight>, id: CoinID) -> bool {
    exists|i: int| 0 <= i < n && id == #[trigger] cid(tx, i) && rel.contains_key(id)
}
/// `id` is the dedup marker of a (non-grandfathered) faucet transaction among txx[0..j)
pub open spec fn marker_of(txx: Seq<Transaction>, j: int, id: CoinID) -> bool {
    exists|t: int| 0 <= t < j && (#[trigger] txx[t]).kind == TxKind::Faucet && !is_grandfathered(spec_txhash(txx[t])) && id == spec_marker(spec_txhash(txx[t]))
}
/// `id` is an input of one of txx[0..j)
pub open spec fn spent_by(txx: Seq<Transaction>, j: int, id: CoinID) -> bool {
    exists|t: int, k: int| 0 <= t < j && 0 <= k < txx[t].inputs@.len() && id == #[trigger] txx[t].inputs@[k]
}
pub open spec fn spent_upto(tx: Transaction, n: int, id: CoinID) -> bool {
    exists|k: int| 0 <= k < n && id == #[trigger] tx.inputs@[k]
}
/// coin set after the creation phase over txx[0..j) (+ the first n outputs of txx[j])
pub open spec fn phase1(c0: IMap<CoinID, CoinDataHeight>, c: IMap<CoinID, CoinDataHeight>, txx: Seq<Transaction>, j: int, extra: bool, rel: Map<CoinID, CoinDataHeight>, n: int) -> bool {
    &&& forall|id: CoinID| #[trigger] c.contains_key(id) <==> (c0.contains_key(id) || created_by(txx, j, rel, id) || marker_of(txx, j + (if extra { 1int } else { 0int }), id) || (0 <= j < txx.len() && created_upto(txx[j], n, rel, id)))
    &&& forall|id: CoinID| #[trigger] c.contains_key(id) ==> c[id] == (
            if created_by(txx, j, rel, id) || (0 <= j < txx.len() && created_upto(txx[j], n, rel, id)) { rel[id] }
            else if c0.contains_key(id) { c0[id] } else { c[id] })
    &&& forall|id: CoinID| #[trigger] c.contains_key(id) && !c0.contains_key(id) && !created_by(txx, j, rel, id) && !(0 <= j < txx.len() && created_upto(txx[j], n, rel, id)) ==> is_marker_cdh(c[id])
}
/// coin set after the removal phase over txx[0..j) (+ the first n inputs of txx[j]) starting from c1
pub open spec fn phase2(c1: IMap<CoinID, CoinDataHeight>, c: IMap<CoinID, CoinDataHeight>, txx: Seq<Transaction>, j: int, n: int) -> bool {
    &&& forall|id: CoinID| #[trigger] c.contains_key(id) <==> (c1.contains_key(id) && !spent_by(txx, j, id) && !(0 <= j < txx.len() && spent_upto(txx[j], n, id)))
    &&& forall|id: CoinID| #[trigger] c.contains_key(id) ==> c[id] == c1[id]
}
/// C02: the coin set after an accepted batch = previous set, plus every kept output of the batch, plus the dedup markers of
/// its faucets, minus every input of the batch; created coins carry the data recorded for them in `rel`
pub open spec fn batch_coins(c0: IMap<CoinID, CoinDataHeight>, c: IMap<CoinID, CoinDataHeight>, txx: Seq<Transaction>, rel: Map<CoinID, CoinDataHeight>) -> bool {
    &&& forall|id: CoinID| #[trigger] c.contains_key(id) <==> ((c0.contains_key(id) || created_by(txx, txx.len() as int, rel, id) || marker_of(txx, txx.len() as int, id)) && !spent_by(txx, txx.len() as int, id))
    &&& forall|id: CoinID| #[trigger] c.contains_key(id) ==> (
            if created_by(txx, txx.len() as int, rel, id) { c[id] == rel[id] }
            else if c0.contains_key(id) { c[id] == c0[id] } else { is_marker_cdh(c[id]) })
}
/// fees: sum of minimum fees / of the remainders over txx[0..j)
pub open spec fn min_fee_of(mult: u128) -> spec_fn(Transaction) -> int { |tx: Transaction| spec_base_fee(tx, mult) as int }
pub open spec fn tip_of(mult: u128) -> spec_fn(Transaction) -> int { |tx: Transaction| tx.fee.0 as int - spec_base_fee(tx, mult) as int }
pub open spec fn fee_of() -> spec_fn(Transaction) -> int { |tx: Transaction| tx.fee.0 as int }

/// A-HASH + A-SER: the signature-free transaction hash determines every field except the signatures
pub broadcast axiom fn axiom_txhash_inj(a: Transaction, b: Transaction)
    requires #[trigger] spec_txhash(a) == #[trigger] spec_txhash(b)
    ensures a.kind == b.kind, a.inputs@ == b.inputs@, a.outputs@ == b.outputs@, a.fee == b.fee, a.covenants@ == b.covenants@, a.data == b.data;
/// state invariant: a coin whose id is (hash of tx, i) carries the covenant hash of tx's i-th output (pool settlement
/// rewrites value and denomination of such coins, never the covenant hash)
pub open spec fn origin_ok(c: IMap<CoinID, CoinDataHeight>) -> bool {
    forall|tx: Transaction, i: int| 0 <= i < tx.outputs@.len() && i <= 255 && c.contains_key(#[trigger] cid(tx, i))
        ==> c[cid(tx, i)].coin_data.covhash == tx.outputs@[i].covhash
}
pub open spec fn rel_consistent(txx: Seq<Transaction>, rel: Map<CoinID, CoinDataHeight>) -> bool {
    forall|t: int, i: int| 0 <= t < txx.len() && 0 <= i < txx[t].outputs@.len() && rel.contains_key(#[trigger] cid(txx[t], i))
        ==> rel[cid(txx[t], i)].coin_data.covhash == txx[t].outputs@[i].covhash
}
pub proof fn lemma_origin_insert(c: IMap<CoinID, CoinDataHeight>, tx: Transaction, i: int, d: CoinDataHeight)
    requires origin_ok(c), 0 <= i < tx.outputs@.len(), i <= 255, d.coin_data.covhash == tx.outputs@[i].covhash
    ensures origin_ok(c.insert(cid(tx, i), d)),
            c.contains_key(cid(tx, i)) ==> c[cid(tx, i)].coin_data.covhash == d.coin_data.covhash
{
    broadcast use axiom_txhash_inj;
    let c2 = c.insert(cid(tx, i), d);
    assert forall|tx2: Transaction, i2: int| 0 <= i2 < tx2.outputs@.len() && i2 <= 255 && c2.contains_key(#[trigger] cid(tx2, i2))
        implies c2[cid(tx2, i2)].coin_data.covhash == tx2.outputs@[i2].covhash by {
        if cid(tx2, i2) == cid(tx, i) {
            assert(spec_txhash(tx2) == spec_txhash(tx));
            assert(i2 as u8 == i as u8);
            assert(i2 == i);
        }
    }
}
pub proof fn lemma_origin_marker(c: IMap<CoinID, CoinDataHeight>, h: TxHash, d: CoinDataHeight)
    requires origin_ok(c)
    ensures origin_ok(c.insert(spec_marker(h), d))
{
    broadcast use axiom_marker_not_output;
    let c2 = c.insert(spec_marker(h), d);
    assert forall|tx2: Transaction, i2: int| 0 <= i2 < tx2.outputs@.len() && i2 <= 255 && c2.contains_key(#[trigger] cid(tx2, i2))
        implies c2[cid(tx2, i2)].coin_data.covhash == tx2.outputs@[i2].covhash by {
        assert(cid(tx2, i2) != spec_marker(h));
    }
}
pub proof fn lemma_origin_remove(c: IMap<CoinID, CoinDataHeight>, id: CoinID)
    requires origin_ok(c) ensures origin_ok(c.remove(id))
{
    let c2 = c.remove(id);
    assert forall|tx2: Transaction, i2: int| 0 <= i2 < tx2.outputs@.len() && i2 <= 255 && c2.contains_key(#[trigger] cid(tx2, i2))
        implies c2[cid(tx2, i2)].coin_data.covhash == tx2.outputs@[i2].covhash by { assert(c.contains_key(cid(tx2, i2))); }
}

// ---- phase lemmas
pub proof fn lemma_created_upto_step(tx: Transaction, n: int, rel: Map<CoinID, CoinDataHeight>, x: CoinID)
    requires 0 <= n
    ensures created_upto(tx, n + 1, rel, x) <==> (created_upto(tx, n, rel, x) || (x == cid(tx, n) && rel.contains_key(x)))
{
    if created_upto(tx, n + 1, rel, x) {
        let i = choose|i: int| 0 <= i < n + 1 && x == #[trigger] cid(tx, i) && rel.contains_key(x);
        if i < n { assert(created_upto(tx, n, rel, x)); }
    }
    if created_upto(tx, n, rel, x) {
        let i = choose|i: int| 0 <= i < n && x == #[trigger] cid(tx, i) && rel.contains_key(x);
        assert(0 <= i < n + 1 && x == cid(tx, i));
    }
    if x == cid(tx, n) && rel.contains_key(x) { assert(0 <= n < n + 1 && x == cid(tx, n)); }
}
pub proof fn lemma_phase1_step(c0: IMap<CoinID, CoinDataHeight>, c: IMap<CoinID, CoinDataHeight>, c2: IMap<CoinID, CoinDataHeight>, txx: Seq<Transaction>, j: int, rel: Map<CoinID, CoinDataHeight>, n: int)
    requires phase1(c0, c, txx, j, true, rel, n), 0 <= j < txx.len(), 0 <= n,
             c2 == (if rel.contains_key(cid(txx[j], n)) { c.insert(cid(txx[j], n), rel[cid(txx[j], n)]) } else { c })
    ensures phase1(c0, c2, txx, j, true, rel, n + 1)
{
    assert forall|x: CoinID| true implies (#[trigger] created_upto(txx[j], n + 1, rel, x) <==> (created_upto(txx[j], n, rel, x) || (x == cid(txx[j], n) && rel.contains_key(x)))) by {
        lemma_created_upto_step(txx[j], n, rel, x);
    }
}
pub proof fn lemma_created_by_next(txx: Seq<Transaction>, j: int, rel: Map<CoinID, CoinDataHeight>, x: CoinID)
    requires 0 <= j < txx.len()
    ensures created_by(txx, j + 1, rel, x) <==> (created_by(txx, j, rel, x) || created_upto(txx[j], txx[j].outputs@.len() as int, rel, x))
{
    if created_by(txx, j + 1, rel, x) {
        let (t, i) = choose|t: int, i: int| 0 <= t < j + 1 && 0 <= i < txx[t].outputs@.len() && x == #[trigger] cid(txx[t], i) && rel.contains_key(x);
        if t < j { assert(created_by(txx, j, rel, x)); } else { assert(x == cid(txx[j], i)); assert(created_upto(txx[j], txx[j].outputs@.len() as int, rel, x)); }
    }
    if created_by(txx, j, rel, x) {
        let (t, i) = choose|t: int, i: int| 0 <= t < j && 0 <= i < txx[t].outputs@.len() && x == #[trigger] cid(txx[t], i) && rel.contains_key(x);
        assert(0 <= t < j + 1 && x == cid(txx[t], i));
    }
    if created_upto(txx[j], txx[j].outputs@.len() as int, rel, x) {
        let i = choose|i: int| 0 <= i < txx[j].outputs@.len() && x == #[trigger] cid(txx[j], i) && rel.contains_key(x);
        assert(0 <= j < j + 1 && x == cid(txx[j], i));
    }
}
pub proof fn lemma_phase1_next_tx(c0: IMap<CoinID, CoinDataHeight>, c: IMap<CoinID, CoinDataHeight>, txx: Seq<Transaction>, j: int, rel: Map<CoinID, CoinDataHeight>)
    requires phase1(c0, c, txx, j, true, rel, txx[j].outputs@.len() as int), 0 <= j < txx.len()
    ensures phase1(c0, c, txx, j + 1, false, rel, 0)
{
    assert forall|x: CoinID| true implies (#[trigger] created_by(txx, j + 1, rel, x) <==> (created_by(txx, j, rel, x) || created_upto(txx[j], txx[j].outputs@.len() as int, rel, x))) by {
        lemma_created_by_next(txx, j, rel, x);
    }
    assert forall|x: CoinID| 0 <= j + 1 < txx.len() implies !#[trigger] created_upto(txx[j + 1], 0, rel, x) by {}
}
pub proof fn lemma_marker_of_next(txx: Seq<Transaction>, j: int, x: CoinID)
    requires 0 <= j < txx.len()
    ensures marker_of(txx, j + 1, x) <==> (marker_of(txx, j, x) || (txx[j].kind == TxKind::Faucet && !is_grandfathered(spec_txhash(txx[j])) && x == spec_marker(spec_txhash(txx[j]))))
{
    if marker_of(txx, j + 1, x) {
        let t = choose|t: int| 0 <= t < j + 1 && (#[trigger] txx[t]).kind == TxKind::Faucet && !is_grandfathered(spec_txhash(txx[t])) && x == spec_marker(spec_txhash(txx[t]));
        if t < j { assert(marker_of(txx, j, x)); }
    }
    if marker_of(txx, j, x) {
        let t = choose|t: int| 0 <= t < j && (#[trigger] txx[t]).kind == TxKind::Faucet && !is_grandfathered(spec_txhash(txx[t])) && x == spec_marker(spec_txhash(txx[t]));
        assert(0 <= t < j + 1 && txx[t].kind == TxKind::Faucet);
    }
    if txx[j].kind == TxKind::Faucet && !is_grandfathered(spec_txhash(txx[j])) && x == spec_marker(spec_txhash(txx[j])) { assert(0 <= j < j + 1 && txx[j].kind == TxKind::Faucet); }
}
/// entering transaction j: either its faucet marker `m` has just been inserted (fresh), or nothing changed
pub proof fn lemma_phase1_enter(c0: IMap<CoinID, CoinDataHeight>, c: IMap<CoinID, CoinDataHeight>, c2: IMap<CoinID, CoinDataHeight>, txx: Seq<Transaction>, j: int, rel: Map<CoinID, CoinDataHeight>, m: CoinDataHeight)
    requires phase1(c0, c, txx, j, false, rel, 0), 0 <= j < txx.len(),
             (txx[j].kind == TxKind::Faucet && !is_grandfathered(spec_txhash(txx[j]))) ==> (is_marker_cdh(m) && !c.contains_key(spec_marker(spec_txhash(txx[j]))) && c2 == c.insert(spec_marker(spec_txhash(txx[j])), m)),
             !(txx[j].kind == TxKind::Faucet && !is_grandfathered(spec_txhash(txx[j]))) ==> c2 == c,
    ensures phase1(c0, c2, txx, j, true, rel, 0)
{
    assert forall|x: CoinID| true implies (#[trigger] marker_of(txx, j + 1, x) <==> (marker_of(txx, j, x) || (txx[j].kind == TxKind::Faucet && !is_grandfathered(spec_txhash(txx[j])) && x == spec_marker(spec_txhash(txx[j]))))) by {
        lemma_marker_of_next(txx, j, x);
    }
    assert forall|x: CoinID| true implies !#[trigger] created_upto(txx[j], 0, rel, x) by {}
}
pub proof fn lemma_spent_upto_step(tx: Transaction, n: int, x: CoinID)
    requires 0 <= n < tx.inputs@.len()
    ensures spent_upto(tx, n + 1, x) <==> (spent_upto(tx, n, x) || x == tx.inputs@[n])
{
    if spent_upto(tx, n + 1, x) { let k = choose|k: int| 0 <= k < n + 1 && x == #[trigger] tx.inputs@[k]; if k < n { assert(spent_upto(tx, n, x)); } }
    if spent_upto(tx, n, x) { let k = choose|k: int| 0 <= k < n && x == #[trigger] tx.inputs@[k]; assert(0 <= k < n + 1 && x == tx.inputs@[k]); }
    if x == tx.inputs@[n] { assert(0 <= n < n + 1 && x == tx.inputs@[n]); }
}
pub proof fn lemma_phase2_step(c1: IMap<CoinID, CoinDataHeight>, c: IMap<CoinID, CoinDataHeight>, txx: Seq<Transaction>, j: int, n: int)
    requires phase2(c1, c, txx, j, n), 0 <= j < txx.len(), 0 <= n < txx[j].inputs@.len()
    ensures phase2(c1, c.remove(txx[j].inputs@[n]), txx, j, n + 1)
{
    assert forall|x: CoinID| true implies (#[trigger] spent_upto(txx[j], n + 1, x) <==> (spent_upto(txx[j], n, x) || x == txx[j].inputs@[n])) by { lemma_spent_upto_step(txx[j], n, x); }
}
pub proof fn lemma_spent_by_next(txx: Seq<Transaction>, j: int, x: CoinID)
    requires 0 <= j < txx.len()
    ensures spent_by(txx, j + 1, x) <==> (spent_by(txx, j, x) || spent_upto(txx[j], txx[j].inputs@.len() as int, x))
{
    if spent_by(txx, j + 1, x) {
        let (t, k) = choose|t: int, k: int| 0 <= t < j + 1 && 0 <= k < txx[t].inputs@.len() && x == #[trigger] txx[t].inputs@[k];
        if t < j { assert(spent_by(txx, j, x)); } else { assert(x == txx[j].inputs@[k]); assert(spent_upto(txx[j], txx[j].inputs@.len() as int, x)); }
    }
    if spent_by(txx, j, x) {
        let (t, k) = choose|t: int, k: int| 0 <= t < j && 0 <= k < txx[t].inputs@.len() && x == #[trigger] txx[t].inputs@[k];
        assert(0 <= t < j + 1 && x == txx[t].inputs@[k]);
    }
    if spent_upto(txx[j], txx[j].inputs@.len() as int, x) {
        let k = choose|k: int| 0 <= k < txx[j].inputs@.len() && x == #[trigger] txx[j].inputs@[k];
        assert(0 <= j < j + 1 && x == txx[j].inputs@[k]);
    }
}
pub proof fn lemma_phase2_next_tx(c1: IMap<CoinID, CoinDataHeight>, c: IMap<CoinID, CoinDataHeight>, txx: Seq<Transaction>, j: int)
    requires phase2(c1, c, txx, j, txx[j].inputs@.len() as int), 0 <= j < txx.len()
    ensures phase2(c1, c, txx, j + 1, 0)
{
    assert forall|x: CoinID| true implies (#[trigger] spent_by(txx, j + 1, x) <==> (spent_by(txx, j, x) || spent_upto(txx[j], txx[j].inputs@.len() as int, x))) by { lemma_spent_by_next(txx, j, x); }
    assert forall|x: CoinID| 0 <= j + 1 < txx.len() implies !#[trigger] spent_upto(txx[j + 1], 0, x) by {}
}
//@LEMMA C02 lemma_phases_to_batch creation phase then removal phase = the exact-set transition
pub proof fn lemma_phases_to_batch(c0: IMap<CoinID, CoinDataHeight>, c1: IMap<CoinID, CoinDataHeight>, c: IMap<CoinID, CoinDataHeight>, txx: Seq<Transaction>, rel: Map<CoinID, CoinDataHeight>)
    requires phase1(c0, c1, txx, txx.len() as int, false, rel, 0), phase2(c1, c, txx, txx.len() as int, 0)
    ensures batch_coins(c0, c, txx, rel)
{
}
/// h is the hash of one of txx[0..j)
pub open spec fn in_batch(txx: Seq<Transaction>, j: int, h: TxHash) -> bool { exists|q: int| 0 <= q < j && h == spec_txhash(#[trigger] txx[q]) }
pub proof fn lemma_in_batch_next(txx: Seq<Transaction>, j: int, h: TxHash)
    requires 0 <= j < txx.len()
    ensures in_batch(txx, j + 1, h) <==> (in_batch(txx, j, h) || h == spec_txhash(txx[j]))
{
    if in_batch(txx, j + 1, h) { let q = choose|q: int| 0 <= q < j + 1 && h == spec_txhash(#[trigger] txx[q]); if q < j { assert(in_batch(txx, j, h)); } }
    if in_batch(txx, j, h) { let q = choose|q: int| 0 <= q < j && h == spec_txhash(#[trigger] txx[q]); assert(0 <= q < j + 1 && h == spec_txhash(txx[q])); }
    if h == spec_txhash(txx[j]) { assert(0 <= j < j + 1 && h == spec_txhash(txx[j])); }
}

// ---- per-transaction checks
/// C01: every denomination that leaves a (non-faucet) transaction came in with exactly the same amount; exempt: the
/// transaction's own new token and the ERG a DoscMint creates (bounded separately by its reward)
pub open spec fn balanced(kind: TxKind, inm: Map<Denom, u128>, outm: Map<Denom, CoinValue>) -> bool {
    kind == TxKind::Faucet || forall|d: Denom| #[trigger] outm.contains_key(d) ==>
        (d == Denom::NewCustom || (kind == TxKind::DoscMint && d == Denom::Erg) || (inm.contains_key(d) && outm[d].0 == inm[d]))
}
/// C13: a stake document is registered only if it starts in a future epoch, ends after it starts and stakes exactly the coin
pub open spec fn stake_consistent(doc: StakeDoc, curr_epoch: u64, coin: CoinData) -> bool {
    doc.e_start > curr_epoch && doc.e_post_end > doc.e_start && doc.syms_staked == coin.value
}
/// old rules: stake transactions are let through unregistered on mainnet/testnet below height 500000 (taken from the code)
pub open spec fn stake_legacy(network: NetID, height: BlockHeight) -> bool { (network == NetID::Mainnet || network == NetID::Testnet) && height.0 < 500000 }
pub open spec fn stake_malformed(tx: Transaction) -> bool {
    tx.kind == TxKind::Stake && (de_stakedoc(tx.data@) is None || tx.outputs@.len() == 0 || tx.outputs@[0].denom != Denom::Sym)
}
/// the stake a transaction registers, if any (C13)
pub open spec fn stake_reg(tx: Transaction, epoch: u64) -> Option<StakeDoc> {
    if tx.kind == TxKind::Stake && de_stakedoc(tx.data@) is Some && tx.outputs@.len() > 0 && tx.outputs@[0].denom == Denom::Sym
        && stake_consistent(de_stakedoc(tx.data@)->Some_0, epoch, tx.outputs@[0]) { de_stakedoc(tx.data@) } else { None }
}
pub open spec fn stakes_of(txx: Seq<Transaction>, j: int, epoch: u64, m: Map<TxHash, StakeDoc>) -> bool {
    &&& forall|h: TxHash| #[trigger] m.contains_key(h) ==> exists|q: int| 0 <= q < j && h == spec_txhash(#[trigger] txx[q]) && stake_reg(txx[q], epoch) == Some(m[h])
    &&& forall|q: int| 0 <= q < j && stake_reg(#[trigger] txx[q], epoch) is Some ==> m.contains_key(spec_txhash(txx[q]))
}
// ---- check_tx_validity (C04, C13, C01)
pub open spec fn lock_legacy(network: NetID, height: BlockHeight) -> bool { (network == NetID::Mainnet || network == NetID::Testnet) && height.0 < 900000 }
pub uninterp spec fn spec_covenants_map(tx: Transaction) -> Map<Address, Bytes>;     // Transaction::covenants_as_map
/// A-STRUCTS: the map holds, under each address, a covenant carried by the transaction whose hash is that address
pub broadcast axiom fn axiom_covenants_map(tx: Transaction, a: Address)
    requires #[trigger] spec_covenants_map(tx).contains_key(a)
    ensures exists|k: int| 0 <= k < tx.covenants@.len() && h1((#[trigger] tx.covenants@[k])@) == a.0 && spec_covenants_map(tx)[a] == tx.covenants@[k];
pub uninterp spec fn spec_total_outputs(tx: Transaction) -> Map<Denom, CoinValue>;   // Transaction::total_outputs
/// no overflow in total_outputs: all output values plus the fee fit in u128 (sufficient for every per-denomination total)
pub open spec fn outputs_fit(tx: Transaction) -> bool { tx.fee.0 + fsum(tx.outputs@, |o: CoinData| o.value.0 as int) <= u128::MAX }
pub open spec fn in_value(rel: Map<CoinID, CoinDataHeight>) -> spec_fn(CoinID) -> int { |id: CoinID| if rel.contains_key(id) { rel[id].coin_data.value.0 as int } else { 0 } }
/// per-denomination totals of the first n inputs
pub open spec fn in_sums(inputs: Seq<CoinID>, rel: Map<CoinID, CoinDataHeight>, n: int) -> Map<Denom, u128> decreases n {
    if n <= 0 { Map::empty() } else {
        let m = in_sums(inputs, rel, n - 1); let cd = rel[inputs[n - 1]].coin_data;
        m.insert(cd.denom, ((if m.contains_key(cd.denom) { m[cd.denom] as int } else { 0 }) + cd.value.0) as u128)
    }
}
pub proof fn lemma_in_sums_bound(inputs: Seq<CoinID>, rel: Map<CoinID, CoinDataHeight>, n: int, d: Denom)
    requires 0 <= n <= inputs.len(), forall|q: int| 0 <= q < n ==> rel.contains_key(#[trigger] inputs[q]),
             fsum(inputs.take(n), in_value(rel)) <= u128::MAX
    ensures in_sums(inputs, rel, n).contains_key(d) ==> in_sums(inputs, rel, n)[d] as int <= fsum(inputs.take(n), in_value(rel))
    decreases n
{
    if n > 0 {
        lemma_fsum_take_next(inputs, in_value(rel), n - 1);
        lemma_fsum_nonneg(inputs.take(n - 1), in_value(rel));
        lemma_in_sums_bound(inputs, rel, n - 1, d);
        let cd = rel[inputs[n - 1]].coin_data;
        lemma_in_sums_bound(inputs, rel, n - 1, cd.denom);
    }
}
// ---- coins a transaction creates (C02)
/// the i-th output as it enters the coin set: new-token outputs take the transaction's hash as their denomination
pub open spec fn created_denom(tx: Transaction, i: int) -> Denom { if tx.outputs@[i].denom == Denom::NewCustom { Denom::Custom(spec_txhash(tx)) } else { tx.outputs@[i].denom } }
pub open spec fn is_created_cdh(tx: Transaction, i: int, height: BlockHeight, d: CoinDataHeight) -> bool {
    d.height == height && d.coin_data.covhash == tx.outputs@[i].covhash && d.coin_data.value == tx.outputs@[i].value
    && d.coin_data.additional_data == tx.outputs@[i].additional_data && d.coin_data.denom == created_denom(tx, i)
}
/// exactly the outputs not sent to the destruction address, under id (hash, index), with the data above
pub open spec fn created_map(tx: Transaction, height: BlockHeight, m: Map<CoinID, CoinDataHeight>) -> bool {
    &&& forall|id: CoinID| #[trigger] m.contains_key(id) <==> exists|i: int| 0 <= i < tx.outputs@.len() && id == #[trigger] cid(tx, i) && tx.outputs@[i].covhash != spec_coin_destroy()
    &&& forall|i: int| 0 <= i < tx.outputs@.len() && tx.outputs@[i].covhash != spec_coin_destroy() ==> is_created_cdh(tx, i, height, m[#[trigger] cid(tx, i)])
}
pub open spec fn created_item_ok(tx: Transaction, height: BlockHeight, i: int, o: Option<(CoinID, CoinDataHeight)>) -> bool {
    match o { Some(p) => tx.outputs@[i].covhash != spec_coin_destroy() && p.0 == cid(tx, i) && is_created_cdh(tx, i, height, p.1),
              None => tx.outputs@[i].covhash == spec_coin_destroy() }
}
#[verifier::spinoff_prover] #[verifier::rlimit(60)]
pub proof fn lemma_created_from_pairs(tx: Transaction, height: BlockHeight, opts: Seq<Option<(CoinID, CoinDataHeight)>>)
    requires opts.len() == tx.outputs@.len(), tx.outputs@.len() <= 255,
             forall|i: int| 0 <= i < opts.len() ==> created_item_ok(tx, height, i, #[trigger] opts[i])
    ensures created_map(tx, height, map_of_pairs(opt_flatten(opts)))
{
    lemma_opt_flatten(opts);
    let s = opt_flatten(opts); let m = map_of_pairs(s);
    assert forall|j: int| 0 <= j < s.len() implies exists|i: int| 0 <= i < tx.outputs@.len() && tx.outputs@[i].covhash != spec_coin_destroy()
            && (#[trigger] s[j]).0 == cid(tx, i) && is_created_cdh(tx, i, height, s[j].1) by {
        let i = choose|i: int| 0 <= i < opts.len() && opts[i] == Some(s[j]);
        assert(created_item_ok(tx, height, i, opts[i]));
    }
    assert forall|a: int, b: int| 0 <= a < s.len() && 0 <= b < s.len() && s[a].0 == s[b].0 implies s[a].1 == s[b].1 by {
        let ia = choose|i: int| 0 <= i < tx.outputs@.len() && tx.outputs@[i].covhash != spec_coin_destroy() && s[a].0 == cid(tx, i) && is_created_cdh(tx, i, height, s[a].1);
        let ib = choose|i: int| 0 <= i < tx.outputs@.len() && tx.outputs@[i].covhash != spec_coin_destroy() && s[b].0 == cid(tx, i) && is_created_cdh(tx, i, height, s[b].1);
        assert(ia as u8 == ib as u8); assert(ia == ib);
    }
    assert forall|id: CoinID| #[trigger] m.contains_key(id) <==> exists|i: int| 0 <= i < tx.outputs@.len() && id == #[trigger] cid(tx, i) && tx.outputs@[i].covhash != spec_coin_destroy() by {
        lemma_map_of_pairs(s, id);
        if m.contains_key(id) { let j = choose|j: int| 0 <= j < s.len() && (#[trigger] s[j]).0 == id;
            let i = choose|i: int| 0 <= i < tx.outputs@.len() && tx.outputs@[i].covhash != spec_coin_destroy() && s[j].0 == cid(tx, i) && is_created_cdh(tx, i, height, s[j].1);
            assert(id == cid(tx, i)); }
        if exists|i: int| 0 <= i < tx.outputs@.len() && id == #[trigger] cid(tx, i) && tx.outputs@[i].covhash != spec_coin_destroy() {
            let i = choose|i: int| 0 <= i < tx.outputs@.len() && id == #[trigger] cid(tx, i) && tx.outputs@[i].covhash != spec_coin_destroy();
            assert(created_item_ok(tx, height, i, opts[i]));
            assert(opts[i] is Some);
            let j = choose|j: int| 0 <= j < s.len() && s[j] == opts[i]->Some_0;
            assert(s[j].0 == id);
        }
    }
    assert forall|i: int| 0 <= i < tx.outputs@.len() && tx.outputs@[i].covhash != spec_coin_destroy() implies is_created_cdh(tx, i, height, m[#[trigger] cid(tx, i)]) by {
        assert(created_item_ok(tx, height, i, opts[i]));
        assert(opts[i] is Some);
        let j = choose|j: int| 0 <= j < s.len() && s[j] == opts[i]->Some_0;
        lemma_map_of_pairs_fn(s, cid(tx, i));
        assert(s[j].0 == cid(tx, i));
    }
}

// ---- C03: the batch contract does not depend on the order of the batch
pub proof fn lemma_created_perm(t1: Seq<Transaction>, t2: Seq<Transaction>, rel: Map<CoinID, CoinDataHeight>, id: CoinID)
    requires forall|x: Transaction| t1.contains(x) ==> t2.contains(x)
    ensures created_by(t1, t1.len() as int, rel, id) ==> created_by(t2, t2.len() as int, rel, id),
            spent_by(t1, t1.len() as int, id) ==> spent_by(t2, t2.len() as int, id),
            marker_of(t1, t1.len() as int, id) ==> marker_of(t2, t2.len() as int, id)
{
    if created_by(t1, t1.len() as int, rel, id) {
        let (t, i) = choose|t: int, i: int| 0 <= t < t1.len() && 0 <= i < t1[t].outputs@.len() && id == #[trigger] cid(t1[t], i) && rel.contains_key(id);
        assert(t1.contains(t1[t]));
        let u = choose|u: int| 0 <= u < t2.len() && t2[u] == t1[t];
        assert(id == cid(t2[u], i));
    }
    if spent_by(t1, t1.len() as int, id) {
        let (t, k) = choose|t: int, k: int| 0 <= t < t1.len() && 0 <= k < t1[t].inputs@.len() && id == #[trigger] t1[t].inputs@[k];
        assert(t1.contains(t1[t]));
        let u = choose|u: int| 0 <= u < t2.len() && t2[u] == t1[t];
        assert(id == t2[u].inputs@[k]);
    }
    if marker_of(t1, t1.len() as int, id) {
        let t = choose|t: int| 0 <= t < t1.len() && (#[trigger] t1[t]).kind == TxKind::Faucet && !is_grandfathered(spec_txhash(t1[t])) && id == spec_marker(spec_txhash(t1[t]));
        assert(t1.contains(t1[t]));
        let u = choose|u: int| 0 <= u < t2.len() && t2[u] == t1[t];
        assert(t2[u].kind == TxKind::Faucet);
    }
}
//@LEMMA C03,C02 lemma_batch_perm the exact coin-set transition specified for a batch is the same for every ordering of the same transactions
pub proof fn lemma_batch_perm(c0: IMap<CoinID, CoinDataHeight>, c: IMap<CoinID, CoinDataHeight>, t1: Seq<Transaction>, t2: Seq<Transaction>, rel: Map<CoinID, CoinDataHeight>)
    requires forall|x: Transaction| t1.contains(x) <==> t2.contains(x), batch_coins(c0, c, t1, rel)
    ensures batch_coins(c0, c, t2, rel)
{
    assert forall|id: CoinID| (created_by(t1, t1.len() as int, rel, id) <==> created_by(t2, t2.len() as int, rel, id))
        && (spent_by(t1, t1.len() as int, id) <==> spent_by(t2, t2.len() as int, id)) && (marker_of(t1, t1.len() as int, id) <==> marker_of(t2, t2.len() as int, id)) by {
        lemma_created_perm(t1, t2, rel, id); lemma_created_perm(t2, t1, rel, id);
    }
}
//@LEMMA C03,C05 lemma_fees_perm fee-pool and tip totals of a batch do not depend on its order
pub proof fn lemma_fees_perm(t1: Seq<Transaction>, t2: Seq<Transaction>, mult: u128)
    requires t1.no_duplicates(), t2.no_duplicates(), forall|x: Transaction| t1.contains(x) <==> t2.contains(x)
    ensures fsum(t1, min_fee_of(mult)) == fsum(t2, min_fee_of(mult)), fsum(t1, tip_of(mult)) == fsum(t2, tip_of(mult)), fsum(t1, fee_of()) == fsum(t2, fee_of())
{
    lemma_fsum_perm(t1, t2, min_fee_of(mult)); lemma_fsum_perm(t1, t2, tip_of(mult)); lemma_fsum_perm(t1, t2, fee_of());
}

// ---- C01: a balanced transaction creates nothing (per denomination, over the transaction's own inputs and outputs)
pub open spec fn out_of(d: Denom) -> spec_fn(CoinData) -> int { |o: CoinData| if o.denom == d { o.value.0 as int } else { 0 } }
pub open spec fn in_of(rel: Map<CoinID, CoinDataHeight>, d: Denom) -> spec_fn(CoinID) -> int { |id: CoinID| if rel.contains_key(id) && rel[id].coin_data.denom == d { rel[id].coin_data.value.0 as int } else { 0 } }
/// A-STRUCTS (read from Transaction::total_outputs): an entry per denomination that occurs among the outputs, plus MEL; the
/// entry is the sum of those outputs, plus the fee for MEL
pub broadcast axiom fn axiom_total_outputs(tx: Transaction, d: Denom)
    requires outputs_fit(tx)
    ensures #[trigger] spec_total_outputs(tx).contains_key(d) <==> (d == Denom::Mel || exists|i: int| 0 <= i < tx.outputs@.len() && (#[trigger] tx.outputs@[i]).denom == d),
            spec_total_outputs(tx).contains_key(d) ==> spec_total_outputs(tx)[d].0 as int == fsum(tx.outputs@, out_of(d)) + (if d == Denom::Mel { tx.fee.0 as int } else { 0 });
pub proof fn lemma_in_sums(inputs: Seq<CoinID>, rel: Map<CoinID, CoinDataHeight>, n: int, d: Denom)
    requires 0 <= n <= inputs.len(), forall|q: int| 0 <= q < n ==> rel.contains_key(#[trigger] inputs[q]), fsum(inputs.take(n), in_value(rel)) <= u128::MAX
    ensures (if in_sums(inputs, rel, n).contains_key(d) { in_sums(inputs, rel, n)[d] as int } else { 0 }) == fsum(inputs.take(n), in_of(rel, d)),
            !in_sums(inputs, rel, n).contains_key(d) ==> fsum(inputs.take(n), in_of(rel, d)) == 0
    decreases n
{
    if n == 0 { assert(inputs.take(0) =~= Seq::<CoinID>::empty()); } else {
        lemma_fsum_take_next(inputs, in_value(rel), n - 1); lemma_fsum_take_next(inputs, in_of(rel, d), n - 1);
        lemma_fsum_nonneg(inputs.take(n - 1), in_value(rel));
        lemma_in_sums(inputs, rel, n - 1, d);
        let cd = rel[inputs[n - 1]].coin_data;
        lemma_in_sums(inputs, rel, n - 1, cd.denom);
        lemma_in_sums_bound(inputs, rel, n - 1, cd.denom);
        lemma_fsum_le(inputs.take(n - 1), in_of(rel, d), in_value(rel));
        lemma_fsum_nonneg(inputs.take(n - 1), in_of(rel, d));
    }
}
//@LEMMA C01 lemma_tx_conserves for an accepted non-faucet transaction and every denomination it outputs (other than its own new token and the ERG of a DoscMint): outputs (+ fee for MEL) equal inputs
pub proof fn lemma_tx_conserves(tx: Transaction, rel: Map<CoinID, CoinDataHeight>, d: Denom)
    requires tx.kind != TxKind::Faucet, outputs_fit(tx), fsum(tx.inputs@, in_value(rel)) <= u128::MAX,
             forall|q: int| 0 <= q < tx.inputs@.len() ==> rel.contains_key(#[trigger] tx.inputs@[q]),
             balanced(tx.kind, in_sums(tx.inputs@, rel, tx.inputs@.len() as int), spec_total_outputs(tx)),
             d != Denom::NewCustom, !(tx.kind == TxKind::DoscMint && d == Denom::Erg)
    ensures fsum(tx.outputs@, out_of(d)) + (if d == Denom::Mel { tx.fee.0 as int } else { 0 }) <= fsum(tx.inputs@, in_of(rel, d)),
            spec_total_outputs(tx).contains_key(d) ==> fsum(tx.outputs@, out_of(d)) + (if d == Denom::Mel { tx.fee.0 as int } else { 0 }) == fsum(tx.inputs@, in_of(rel, d))
{
    broadcast use axiom_total_outputs;
    let n = tx.inputs@.len() as int;
    assert(tx.inputs@.take(n) =~= tx.inputs@);
    lemma_in_sums(tx.inputs@, rel, n, d);
    lemma_fsum_nonneg(tx.inputs@, in_of(rel, d));
    if !spec_total_outputs(tx).contains_key(d) {
        // no output of this denomination (and d != MEL): the output sum is 0
        assert(d != Denom::Mel);
        lemma_fsum_zero_if(tx.outputs@, out_of(d));
    }
}
pub proof fn lemma_fsum_zero_if<T>(s: Seq<T>, f: spec_fn(T) -> int)
    requires forall|i: int| 0 <= i < s.len() ==> f(#[trigger] s[i]) == 0
    ensures fsum(s, f) == 0
    decreases s.len()
{ if s.len() > 0 { lemma_fsum_zero_if(s.drop_last(), f); assert(f(s[s.len() - 1]) == 0); } }
