use vstd::prelude::*;
verus! {
// ---- prelude ----
#[verifier::external_body] #[verifier::accept_recursive_types(T)]
pub struct CatVec<T, const N: usize> { _p: core::marker::PhantomData<T> }
impl<T, const N: usize> CatVec<T, N> {
    pub uninterp spec fn view(&self) -> Seq<T>;
    #[verifier::external_body] pub fn len(&self) -> (r: usize) ensures r == self@.len() { unimplemented!() }
    #[verifier::external_body] pub fn get(&self, i: usize) -> (r: Option<&T>)
        ensures i < self@.len() ==> r == Some(&self@[i as int]), i >= self@.len() ==> r is None { unimplemented!() }
}
#[derive(Clone, Copy, PartialEq, Eq)]
pub struct U256 { pub hi: u128, pub lo: u128 }
pub open spec fn u256_val(x: U256) -> nat { (x.hi as nat) * 0x1_0000_0000_0000_0000_0000_0000_0000_0000 + x.lo as nat }
pub open spec fn pow256() -> nat { 0x1_0000_0000_0000_0000_0000_0000_0000_0000nat * 0x1_0000_0000_0000_0000_0000_0000_0000_0000nat }
impl U256 {
    #[verifier::external_body] pub fn overflowing_add(self, o: U256) -> (r: (U256, bool))
        ensures u256_val(r.0) == (u256_val(self) + u256_val(o)) % pow256() { unimplemented!() }
    #[verifier::external_body] pub fn gt65535(&self) -> (r: bool) ensures r == (u256_val(*self) > 65535) { unimplemented!() }
    pub fn low(&self) -> (r: &u128) ensures *r == self.lo { &self.lo }
}

pub enum Value { Int(U256), Bytes(CatVec<u8, 256>), Vector(CatVec<Value, 32>) }
impl Clone for Value { #[verifier::external_body] fn clone(&self) -> (r: Self) ensures r == *self { unimplemented!() } }

impl Value {
    // ---- extracted (value.rs) ----
    pub fn into_int(self) -> (r: Option<U256>)
        ensures r == (match self { Value::Int(bi) => Some(bi), _ => None })
    {
        match self {
            Value::Int(bi) => Some(bi),
            _ => None,
        }
    }
    pub fn into_vector(self) -> (r: Option<CatVec<Value, 32>>)
        ensures r == (match self { Value::Vector(v) => Some(v), _ => None })
    {
        match self {
            Value::Vector(vec) => Some(vec),
            _ => None,
        }
    }
}

pub open spec fn sem_add(x: Value, y: Value) -> Option<Value> {
    match (x, y) { (Value::Int(a), Value::Int(b)) => Some(Value::Int(choose|r: U256| u256_val(r) == (u256_val(a) + u256_val(b)) % pow256())), _ => None }
}
pub open spec fn sem_add_ok(x: Value, y: Value, r: Option<Value>) -> bool {
    match (x, y) {
        (Value::Int(a), Value::Int(b)) => r matches Some(Value::Int(c)) && u256_val(c) == (u256_val(a) + u256_val(b)) % pow256(),
        _ => r is None,
    }
}

pub struct Executor { pub stack: Vec<Value>, pub pc: usize }

impl Executor {
    // ---- extracted (executor.rs) ----
    fn do_binop(&mut self, op: impl Fn(Value, Value) -> Option<Value>) -> (res: Option<()>)
        requires forall|x: Value, y: Value| op.requires((x, y)),
        ensures
            final(self).pc == old(self).pc,
            old(self).stack@.len() < 2 ==> res is None,
            old(self).stack@.len() >= 2 ==> {
                let n = old(self).stack@.len() as int;
                let x = old(self).stack@[n - 1];
                let y = old(self).stack@[n - 2];
                &&& (res is Some ==> final(self).stack@.len() == n - 1
                        && final(self).stack@.subrange(0, n - 2) == old(self).stack@.subrange(0, n - 2)
                        && op.ensures((x, y), Some(final(self).stack@[n - 2])))
                &&& (res is None ==> op.ensures((x, y), None))
            },
    {
        let stack = &mut self.stack;
        let x = stack.pop()?;
        let y = stack.pop()?;
        stack.push(op(x, y)?);
        // eprintln!("stack at {}", stack.len());
        Some(())
    }

    fn arm_add(&mut self) -> (res: Option<()>)
        ensures old(self).stack@.len() >= 2 ==> {
            let n = old(self).stack@.len() as int;
            res is Some ==> sem_add_ok(old(self).stack@[n - 1], old(self).stack@[n - 2], Some(final(self).stack@[n - 2]))
        }
    {
        self.do_binop(|x: Value, y: Value| -> (r: Option<Value>) ensures sem_add_ok(x, y, r) {
            Some(Value::Int(x.into_int()?.overflowing_add(y.into_int()?).0))
        })?;
        Some(())
    }
}
}
fn main() {}
