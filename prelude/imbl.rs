// A-ITER / imbl 2.0: persistent hash map used by tip911-stakeset (hand-written ASSUMED contracts).
// View: finite Map.  Iteration yields every entry exactly once in an order that is NOT specified (RandomState hasher).
pub mod imbl {
    use super::*;
    #[verifier::external_body] #[verifier::reject_recursive_types(K)] #[verifier::reject_recursive_types(V)]
    pub struct HashMap<K, V> { _p: core::marker::PhantomData<(K, V)> }
    impl<K, V> View for HashMap<K, V> { type V = Map<K, V>; uninterp spec fn view(&self) -> Map<K, V>; }
    impl<K, V> Clone for HashMap<K, V> { #[verifier::external_body] fn clone(&self) -> (r: Self) ensures r == *self { unimplemented!() } }
    pub open spec fn retain_decided<K, V, F: Fn(&K, &V) -> bool>(f: F, m0: Map<K, V>, m1: Map<K, V>, b: spec_fn(K) -> bool) -> bool {
        (forall|k: K| #[trigger] m0.contains_key(k) ==> call_ensures(f, (&k, &m0[k]), b(k)))
        && (forall|k: K| #[trigger] m1.contains_key(k) <==> (m0.contains_key(k) && b(k)))
    }
    impl<K, V> HashMap<K, V> {
        #[verifier::external_body]
        pub fn insert(&mut self, k: K, v: V) -> (r: Option<V>) ensures final(self)@ == old(self)@.insert(k, v) { unimplemented!() }
        #[verifier::external_body]
        pub fn get(&self, k: &K) -> (r: Option<&V>) ensures r == (if self@.contains_key(*k) { Some(&self@[*k]) } else { None::<&V> }) { unimplemented!() }
        #[verifier::external_body]
        pub fn contains_key(&self, k: &K) -> (r: bool) ensures r == self@.contains_key(*k) { unimplemented!() }
        /// values(): some enumeration ks of the keys (each exactly once), yielding the value of each
        #[verifier::external_body]
        pub fn values(&self) -> (r: Vec<&V>)
            ensures exists|ks: Seq<K>| is_enum(self@, ks) && r@.len() == ks.len() && (forall|i: int| 0 <= i < ks.len() ==> *(#[trigger] r@[i]) == self@[ks[i]])
        { unimplemented!() }
        /// iter(): some enumeration of the entries
        #[verifier::external_body]
        pub fn iter(&self) -> (r: Vec<(&K, &V)>)
            ensures is_enum(self@, Seq::new(r@.len(), |i: int| *r@[i].0)), forall|i: int| 0 <= i < r@.len() ==> *(#[trigger] r@[i]).1 == self@[*r@[i].0]
        { unimplemented!() }
        /// retain: keeps exactly the entries the predicate accepts
        #[verifier::external_body]
        pub fn retain<F: Fn(&K, &V) -> bool>(&mut self, f: F)
            requires forall|k: K| old(self)@.contains_key(k) ==> call_requires(f, (&k, &#[trigger] old(self)@[k])),
            ensures exists|b: spec_fn(K) -> bool| #[trigger] retain_decided(f, old(self)@, final(self)@, b),
                    forall|k: K| final(self)@.contains_key(k) ==> #[trigger] final(self)@[k] == old(self)@[k],
        { unimplemented!() }
    }

    /// imbl::OrdMap: a finite map iterated in key order (the order itself is not modelled: only that every key is visited exactly once)
    #[verifier::external_body] #[verifier::accept_recursive_types(K)] #[verifier::accept_recursive_types(V)]
    pub struct OrdMap<K, V> { _p: core::marker::PhantomData<(K, V)> }
    impl<K, V> View for OrdMap<K, V> { type V = Map<K, V>; uninterp spec fn view(&self) -> Map<K, V>; }
    impl<K, V> OrdMap<K, V> {
        #[verifier::external_body]
        pub fn insert(&mut self, k: K, v: V) -> (r: Option<V>) ensures final(self)@ == old(self)@.insert(k, v) { unimplemented!() }
        #[verifier::external_body]
        pub fn is_empty(&self) -> (r: bool) ensures r == (self@.len() == 0) { unimplemented!() }
        #[verifier::external_body]
        pub fn values(&self) -> (r: Vec<&V>)
            ensures exists|ks: Seq<K>| is_enum(self@, ks) && r@.len() == ks.len() && (forall|i: int| 0 <= i < ks.len() ==> *(#[trigger] r@[i]) == self@[ks[i]])
        { unimplemented!() }
        #[verifier::external_body]
        pub fn keys(&self) -> (r: Vec<&K>) ensures is_enum(self@, Seq::new(r@.len(), |i: int| *r@[i])) { unimplemented!() }
    }
    impl<K, V> super::FromItems<(K, V)> for HashMap<K, V> { open spec fn built_from(items: Seq<(K, V)>, r: Self) -> bool { r@ == super::map_of_pairs(items) } }
}
