#!/usr/bin/env python3
"""Real-code replay of stored failing inputs (witness tests).

A witness is a #[test] module under /verif/realcode that asserts a property on ONE concrete scenario: the scenario that
failed before a defect was repaired ("fixed:" entries of known_findings.json) or that still fails (listed findings).
They are not the deciding step of any property; they are the replay half of the interface:
  * a fixed defect that returns is reported again with its failing input, even when the change is structural and the
    contract anchors are lost (the deductive check is then UNDECIDED, exit 2, and would otherwise say nothing);
  * the thorough tier replays every regression witness of the property on each run.
The witnesses run against a scratch copy of /repo's working tree (removed afterwards, build output included).

usage: witness.py <realcode/file.rs>...      exit 0 all pass, 1 some fail, 2 could not run
"""
import json
import os
import re
import shutil
import subprocess
import sys
import tempfile

HERE = os.path.dirname(os.path.abspath(__file__))
VERIF = os.path.dirname(HERE)
REPO = os.environ.get("VERIF_REPO", "/repo")


def registry():
    kf = json.load(open(os.path.join(VERIF, "known_findings.json")))
    return kf.get("regression_witnesses", [])


def witnesses_for(prop):
    return [w for w in registry() if prop in w["properties"]]


def run(files, timeout=2400):
    """-> {file: {"passed": bool|None, "output": str}}; None = could not run"""
    files = list(dict.fromkeys(files))
    out = {f: {"passed": None, "output": ""} for f in files}
    if not files:
        return out
    d = tempfile.mkdtemp(prefix="melstf_witness_")
    try:
        subprocess.run(["rsync", "-a", "--exclude", "target", "--exclude", ".git", REPO + "/", d + "/"], check=True)
        tgt = os.path.join(d, "target")
        if os.path.isdir(os.path.join(REPO, "target")):   # warm start from /repo's own build output when present
            subprocess.run(["cp", "-a", "--reflink=auto", os.path.join(REPO, "target"), tgt], check=False)
        mods = []
        crates = {w["file"]: w.get("crate", "root") for w in registry()}
        for f in files:
            mod = "verif_w_" + re.sub(r"[^a-z0-9_]", "_", f[:-3].lower())
            srcdir = os.path.join(d, "lib", "melvm", "src") if crates.get(f) == "melvm" else os.path.join(d, "src")
            shutil.copy(os.path.join(VERIF, f), os.path.join(srcdir, mod + ".rs"))
            with open(os.path.join(srcdir, "lib.rs"), "a") as fh:
                fh.write(f"\n#[cfg(test)]\nmod {mod};\n")
            mods.append((f, mod))
        env = dict(os.environ, CARGO_TARGET_DIR=tgt, CARGO_NET_OFFLINE="true")
        p = subprocess.run(["cargo", "test", "--offline", "--workspace", "--lib", "--no-fail-fast", "verif_w_", "--", "--test-threads", "8"], cwd=d, env=env,
                           capture_output=True, text=True, timeout=timeout)
        text = p.stdout + "\n" + p.stderr
        if "test result:" not in text:
            for f in files:
                out[f]["output"] = text[-3000:]
            return out
        for f, mod in mods:
            lines = [ln for ln in text.splitlines() if mod + "::" in ln]
            res = [ln for ln in lines if re.match(r"test .* \.\.\. (ok|FAILED)", ln)]
            if not res:
                out[f]["output"] = "witness test did not run\n" + text[-1500:]
                continue
            failed = [ln for ln in res if ln.endswith("FAILED")]
            out[f]["passed"] = not failed
            m = re.search(r"---- " + re.escape(mod) + r"::.*? stdout ----\n(.*?)(?=\n---- |\nfailures:|\Z)", text, re.S)
            out[f]["output"] = "\n".join(res) + ("\n" + m.group(1)[:2500] if m else "")
        return out
    except (subprocess.TimeoutExpired, subprocess.CalledProcessError, OSError) as e:
        for f in files:
            out[f]["output"] = f"{type(e).__name__}: {e}"
        return out
    finally:
        shutil.rmtree(d, ignore_errors=True)


if __name__ == "__main__":
    r = run(sys.argv[1:])
    for f, v in r.items():
        print(f, "PASS" if v["passed"] else ("FAIL" if v["passed"] is False else "NOT-RUN"))
        if not v["passed"]:
            print(v["output"])
    sys.exit(2 if any(v["passed"] is None for v in r.values()) else 1 if any(v["passed"] is False for v in r.values()) else 0)
