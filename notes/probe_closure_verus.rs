use vstd::prelude::*;
verus! {

pub enum Value { Int(u64), Bytes(Vec<u8>) }
impl Value {
    pub fn into_int(self) -> (r: Option<u64>)
        ensures r == (match self { Value::Int(i) => Some(i), _ => None })
    { match self { Value::Int(bi) => Some(bi), _ => None } }
}

pub struct Executor { pub stack: Vec<Value>, pub pc: usize }

impl Executor {
    fn do_binop(&mut self, op: impl Fn(Value, Value) -> Option<Value>) -> (r: Option<()>)
        requires forall|x: Value, y: Value| op.requires((x, y)),
        ensures
            old(self).stack@.len() < 2 ==> r is None,
            r is Some ==> old(self).stack@.len() >= 2 && final(self).stack@.len() == old(self).stack@.len() - 1
              && op.ensures((old(self).stack@[old(self).stack@.len()-1], old(self).stack@[old(self).stack@.len()-2]), Some(final(self).stack@.last())),
            final(self).pc == old(self).pc,
    {
        let stack = &mut self.stack;
        let x = stack.pop()?;
        let y = stack.pop()?;
        stack.push(op(x, y)?);
        Some(())
    }

    fn arm_add(&mut self) -> (r: Option<()>)
        ensures r is Some ==> old(self).stack@.len() >= 2,
          r is Some ==> (old(self).stack@[old(self).stack@.len()-1] matches Value::Int(a) && old(self).stack@[old(self).stack@.len()-2] matches Value::Int(b)
               && final(self).stack@.last() == Value::Int(a.wrapping_add(b)))
    {
        self.do_binop(|x, y| {
            Some(Value::Int(x.into_int()?.wrapping_add(y.into_int()?)))
        })?;
        Some(())
    }
}
}
fn main() {}
