from spec import *
from _contracts import *

O = "lib/melvm/src/opcode.rs"
UNIT = Unit(
    name="weight", lemma_obs=['lemma_weight_range'], uses=None,
    prelude=["melvm_types.rs"],
    lemmas=["weight.rs"],
    items=[
        TypeItem(O, "enum", "OpCode"),
        Fn(O, "opcodes_weight", home="C11", implicit_props=("C09", "C11", "C05"),
           ensures=[C("value", "res as int == spec_weight(opcodes@)", "C11", "C05", char=True)],
           decreases="opcodes@.len(), 1int",
           injects=[Inject("entry", "proof { lemma_weight_range(opcodes@); }"),
                    Inject(("before", "while !rest.is_empty()"), "let ghost mut k: int = if opcodes@.len() == 0 { 0 } else { 1 }; proof { if opcodes@.len() == 0 { assert(opcodes@.skip(0) =~= opcodes@); } lemma_weight_range(rest@); }")],
           loops=[Loop(0, decreases="rest@.len()",
               body_exit="""proof { let r0 = opcodes@.skip(k); lemma_weight_range(r0); lemma_weight_range(r0.skip(1));
                   lemma_sat_add_assoc(sum0 as int, spec_car_weight(r0), spec_weight(r0.skip(1)));
                   assert(r0.skip(1) =~= opcodes@.skip(k + 1)); k = k + 1; }""",
               body_entry="let ghost sum0 = sum;",
               invariants=[
               C("acc", "0 <= k <= opcodes@.len() && rest@ == opcodes@.skip(k) && sat_add(sum as int, spec_weight(rest@)) == spec_weight(opcodes@)", "C11"),
               C("pos", "sum >= 0", "C11"),
           ])]),
        Fn(O, "opcodes_car_weight", home="C11", implicit_props=("C09", "C11"),
           ensures=[C("value", "res.0 as int == spec_car_weight(opcodes@)", "C11", "C05", char=True),
                    C("rest", "res.1@ == (if opcodes@.len() == 0 { opcodes@ } else { opcodes@.skip(1) })", "C11", "C05"),
                    C("at_least_one", "opcodes@.len() > 0 ==> res.0 >= 1", "C11")],
           decreases="opcodes@.len(), 0int",
           injects=[Inject("entry", "proof { lemma_weight_range(opcodes@); }")]),
    ],
)
