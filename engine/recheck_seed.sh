#!/bin/sh
# usage: recheck_seed.sh <name> <property>  -- re-run ./check <property> against the scratch worktree /tmp/seed_<name> with its change applied (no re-confirmation)
n=$1; p=$2; w=/tmp/seed_$n
cd $w && git checkout -q -- . && git apply SEED/patch.diff || exit 3
mkdir -p /tmp/evid_$n; VERIF_EVID=/tmp/evid_$n VERIF_GEN=/tmp/gen_$n VERIF_REPO=$w /verif/check $p > /tmp/check_$n.full 2>&1; echo "exit=$?" >> /tmp/check_$n.full
grep -E "^(VIOLATION|OK|UNDECIDED|KNOWN|exit=)" /tmp/check_$n.full | cut -c1-300 > /tmp/check_$n.log
cd $w && git checkout -q -- .
cat /tmp/check_$n.log
