// Refinement of the typed SmtMapping view by the raw tree (hand-written; unit smtmap): the Map<K, V> view that the other units assume for
// SmtMapping is the typed reading of the raw novasmt tree under the key k |-> hash_single(stdcode(k)).
/// A-HASH: hash_single is collision-free (the same assumption that makes roots commit to contents)
pub axiom fn axiom_h1_inj(a: Seq<u8>, b: Seq<u8>) requires h1(a) == h1(b) ensures a == b;
pub open spec fn tkey<K: StdSer>(k: K) -> Seq<u8> { h1(k.ser()).0@ }
/// the typed view of a raw tree: the keys whose entry is non-empty, each mapped to the decoded entry
pub open spec fn typed_view<K: StdSer, V: StdSer>(raw: IMap<Seq<u8>, Seq<u8>>) -> IMap<K, V> {
    IMap::new(|k: K| raw[tkey(k)].len() > 0, |k: K| V::de(raw[tkey(k)]).unwrap())
}
/// different typed keys live under different raw keys (serialisation is injective: it can be decoded; hash_single is collision-free)
pub proof fn lemma_tkey_inj<K: StdSer>(a: K, b: K) requires tkey(a) == tkey(b) ensures a == b
{
    a.ser_props(); b.ser_props();
    assert(h1(a.ser()).0@ == h1(b.ser()).0@);
    assert(h1(a.ser()).0 =~= h1(b.ser()).0); assert(h1(a.ser()) == h1(b.ser()));
    axiom_h1_inj(a.ser(), b.ser());
}
/// raw insert under the typed key = typed insert
pub proof fn lemma_typed_insert<K: StdSer, V: StdSer>(raw: IMap<Seq<u8>, Seq<u8>>, k: K, v: V)
    ensures typed_view::<K, V>(raw.insert(tkey(k), v.ser())) =~= typed_view::<K, V>(raw).insert(k, v)
{
    v.ser_props();
    let r2 = raw.insert(tkey(k), v.ser());
    assert forall|x: K| #[trigger] typed_view::<K, V>(r2).contains_key(x) <==> typed_view::<K, V>(raw).insert(k, v).contains_key(x) by {
        if x != k { if tkey(x) == tkey(k) { lemma_tkey_inj(x, k); } assert(r2[tkey(x)] == raw[tkey(x)]); } }
    assert forall|x: K| #[trigger] typed_view::<K, V>(r2).contains_key(x) implies typed_view::<K, V>(r2)[x] == typed_view::<K, V>(raw).insert(k, v)[x] by {
        if x != k { if tkey(x) == tkey(k) { lemma_tkey_inj(x, k); } assert(r2[tkey(x)] == raw[tkey(x)]); } }
}
/// raw insert of the empty string under the typed key = typed delete
pub proof fn lemma_typed_delete<K: StdSer, V: StdSer>(raw: IMap<Seq<u8>, Seq<u8>>, k: K)
    ensures typed_view::<K, V>(raw.insert(tkey(k), Seq::<u8>::empty())) =~= typed_view::<K, V>(raw).remove(k)
{
    let r2 = raw.insert(tkey(k), Seq::<u8>::empty());
    assert forall|x: K| #[trigger] typed_view::<K, V>(r2).contains_key(x) <==> typed_view::<K, V>(raw).remove(k).contains_key(x) by {
        if x != k { if tkey(x) == tkey(k) { lemma_tkey_inj(x, k); } assert(r2[tkey(x)] == raw[tkey(x)]); } }
    assert forall|x: K| #[trigger] typed_view::<K, V>(r2).contains_key(x) implies typed_view::<K, V>(r2)[x] == typed_view::<K, V>(raw).remove(k)[x] by {
        if x != k { if tkey(x) == tkey(k) { lemma_tkey_inj(x, k); } assert(r2[tkey(x)] == raw[tkey(x)]); } }
}
