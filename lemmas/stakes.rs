// C13/C14 spec functions (hand-written from the property statements)
/// weight of one stake document in an epoch: counted iff start <= epoch < end (and, if a key is given, it is that key's)
pub open spec fn stake_weight(d: StakeDoc, epoch: u64, key: Option<Ed25519PK>) -> int {
    if d.e_start <= epoch && epoch < d.e_post_end && (key is None || d.pubkey == key->Some_0) { d.syms_staked.0 as int } else { 0 }
}
/// voting power of `key` (or of everybody, key = None) in `epoch`: order-independent sum over the registered stakes
pub open spec fn w_stake(epoch: u64, key: Option<Ed25519PK>) -> spec_fn(StakeDoc) -> int { |d: StakeDoc| stake_weight(d, epoch, key) }
pub open spec fn w_total() -> spec_fn(StakeDoc) -> int { |d: StakeDoc| d.syms_staked.0 as int }
pub open spec fn spec_votes(m: Map<TxHash, StakeDoc>, epoch: u64, key: Option<Ed25519PK>) -> int { map_fsum(m, w_stake(epoch, key)) }
pub open spec fn spec_staked_total(m: Map<TxHash, StakeDoc>) -> int { map_fsum(m, w_total()) }
/// the sum a votes()-style chain computes equals spec_votes, whatever order the map was enumerated in
pub proof fn lemma_votes_chain(m: Map<TxHash, StakeDoc>, ks: Seq<TxHash>, vals: Seq<&StakeDoc>, filtered: Seq<&StakeDoc>, mapped: Seq<u128>,
                               p: spec_fn(&StakeDoc) -> bool, epoch: u64, key: Option<Ed25519PK>)
    requires is_enum(m, ks), vals.len() == ks.len(), forall|i: int| 0 <= i < ks.len() ==> *(#[trigger] vals[i]) == m[ks[i]],
             filtered == vals.filter(p),
             forall|d: &StakeDoc| #[trigger] p(d) == (d.e_start <= epoch && d.e_post_end > epoch && (key is None || d.pubkey == key->Some_0)),
             mapped.len() == filtered.len(), forall|i: int| 0 <= i < filtered.len() ==> #[trigger] mapped[i] == filtered[i].syms_staked.0,
    ensures fsum(mapped, |x: u128| x as int) == spec_votes(m, epoch, key),
            fsum(mapped, |x: u128| x as int) <= spec_staked_total(m),
{
    let g = |d: &StakeDoc| d.syms_staked.0 as int;
    let w = w_stake(epoch, key);
    lemma_fsum_map_eq(mapped, filtered, |x: u128| x as int, g);
    lemma_fsum_filter(vals, p, g);
    let h = |d: &StakeDoc| if p(d) { g(d) } else { 0 };
    lemma_fsum_map_eq(vals, ks, h, at(m, w));
    lemma_map_fsum(m, ks, w);
    lemma_map_fsum(m, ks, w_total());
    lemma_fsum_le(ks, at(m, w), at(m, w_total()));
}
