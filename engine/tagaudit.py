#!/usr/bin/env python3
"""dev helper: tagaudit.py [Cnn ...] -- for each property, the functions reachable (through calls between functions under
contract) from a function carrying a clause tagged with it, whose own ensures clauses do NOT carry the tag.
A clause is reported only under the properties it is tagged with (DESIGN 8.6 lesson 1), so such a callee's failure would not be
reported for the property that depends on it."""
import sys, os, re
HERE = os.path.dirname(os.path.abspath(__file__)); sys.path.insert(0, HERE); sys.path.insert(0, os.path.join(os.path.dirname(HERE), "units"))
import check as CK
from spec import Fn, REPO
from rsx import find_item
units = CK.load_units()
proved = {}   # key -> (unit, Fn)
for u in units.values():
    for it in u.items:
        if isinstance(it, Fn) and it.mode == "prove":
            proved[it.key] = (u.name, it)
def body(f):
    src = open(os.path.join(REPO, f.src)).read()
    try:
        return find_item(f.src, src, "fn", f.name, f.impl).text
    except Exception as e:
        return ""
names = {}
STOP = {"new", "get", "insert", "hash", "iter", "inner", "delete", "root_hash", "clear", "is_empty", "weight"}
for k, (un, f) in proved.items():
    names.setdefault(f.name, []).append(k)
calls = {}
for k, (un, f) in proved.items():
    b = body(f); out = set()
    for n, ks in names.items():
        if len(ks) != 1 or n in STOP or proved[ks[0]][0] in ("exec", "codec", "weight", "memo"): continue   # ambiguous names / the VM boundary (uninterpreted for state-level properties)
        if re.search(r"(?<![A-Za-z0-9_])" + re.escape(n) + r"\s*(::<[^>]*>)?\s*\(", b):
            for k2 in ks:
                if k2 != k: out.add(k2)
    calls[k] = out
def tags(f):
    t = set()
    for c in f.ensures: t |= set(c.props)
    for l in f.loops:
        for c in l.invariants: t |= set(c.props)
    for cl in f.closures:
        for c in cl.ensures: t |= set(c.props)
    return t
props = sys.argv[1:] or [f"C{i:02d}" for i in range(1, 21)]
for p in props:
    roots = [k for k, (un, f) in proved.items() if p in tags(f)]
    seen = set(roots); st = list(roots)
    while st:
        k = st.pop()
        for k2 in calls[k]:
            if k2 not in seen: seen.add(k2); st.append(k2)
    miss = sorted(k for k in seen if p not in tags(proved[k][1]) and p not in proved[k][1].implicit_props)
    print(p, "roots", len(roots), "reach", len(seen), "untagged:", ", ".join(f"{proved[k][0]}:{k.split('::',1)[1]}" for k in miss))
