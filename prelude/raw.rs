// A-SMT / A-HASH / A-SER: raw faces of novasmt 0.2.20, tmelcrypt 0.2.7, stdcode 0.1.14 as the repo calls them.
// Hand-written ASSUMED contracts.  The repo's module paths (novasmt::Tree, tmelcrypt::hash_single, stdcode::deserialize)
// are kept so the extracted bodies call the same names as the running code (rule R7).
pub trait BytesLike { spec fn bytes(&self) -> Seq<u8>; }
impl BytesLike for Vec<u8> { open spec fn bytes(&self) -> Seq<u8> { self@ } }
impl BytesLike for [u8] { open spec fn bytes(&self) -> Seq<u8> { self@ } }
impl<const N: usize> BytesLike for [u8; N] { open spec fn bytes(&self) -> Seq<u8> { self@ } }
impl BytesLike for HashVal { open spec fn bytes(&self) -> Seq<u8> { self.0@ } }
impl BytesLike for Bytes { open spec fn bytes(&self) -> Seq<u8> { self@ } }
impl<T: BytesLike + ?Sized> BytesLike for &T { open spec fn bytes(&self) -> Seq<u8> { (**self).bytes() } }

pub uninterp spec fn spec_coin_count_str() -> Seq<u8>;   // b"coin_count"

pub mod tmelcrypt {
    use super::*;
    pub use super::HashVal;
    pub use super::Ed25519PK;
    #[verifier::external_body]
    pub fn hash_single<B: BytesLike>(val: B) -> (r: HashVal) ensures r == h1(val.bytes()) { unimplemented!() }
    #[verifier::external_body]
    pub fn hash_keyed<K: BytesLike, B: BytesLike>(key: K, val: B) -> (r: HashVal) ensures r == hk(key.bytes(), val.bytes()) { unimplemented!() }
    /// Hashable: `x.hash()` on byte containers = hash_single
    pub trait Hashable { spec fn hbytes(&self) -> Seq<u8>; fn hash(&self) -> (r: HashVal) ensures r == h1(self.hbytes()); }
    impl Hashable for Vec<u8> { open spec fn hbytes(&self) -> Seq<u8> { self@ }
        #[verifier::external_body] fn hash(&self) -> (r: HashVal) { unimplemented!() } }
}
pub use tmelcrypt::Hashable;

// stdcode: one uninterpreted injective encoder per type, decoder its partial inverse; total (never panics).
pub trait StdSer: Sized {
    spec fn ser(&self) -> Seq<u8>;
    spec fn de(b: Seq<u8>) -> Option<Self>;
    proof fn ser_props(&self) ensures self.ser().len() > 0, Self::de(self.ser()) == Some(*self);
    proof fn de_props(b: Seq<u8>) ensures Self::de(b) is Some ==> Self::de(b).unwrap().ser() == b;
}
pub trait StdcodeSerializeExt: StdSer {
    fn stdcode(&self) -> (r: Vec<u8>) ensures r@ == self.ser();
}
pub mod stdcode {
    use super::*;
    #[derive(Debug)] pub struct DeError {}
    #[verifier::external_body]
    pub fn deserialize<T: StdSer>(b: &impl BytesLike) -> (r: Result<T, DeError>)
        ensures match T::de(b.bytes()) { Some(x) => r == Ok::<T, DeError>(x), None => r is Err }
    { unimplemented!() }
    #[derive(Debug)] pub struct SerError {}
    #[verifier::external_body]
    pub fn serialize<T: StdSer>(v: &T) -> (r: Result<Vec<u8>, SerError>)
        ensures r is Ok, r->Ok_0@ == v.ser()
    { unimplemented!() }
}
pub uninterp spec fn ser_coinid(x: CoinID) -> Seq<u8>;
pub uninterp spec fn de_coinid(b: Seq<u8>) -> Option<CoinID>;
impl StdSer for CoinID {
    open spec fn ser(&self) -> Seq<u8> { ser_coinid(*self) }
    open spec fn de(b: Seq<u8>) -> Option<CoinID> { de_coinid(b) }
    #[verifier::external_body] proof fn ser_props(&self) {}
    #[verifier::external_body] proof fn de_props(b: Seq<u8>) {}
}
impl StdcodeSerializeExt for CoinID { #[verifier::external_body] fn stdcode(&self) -> (r: Vec<u8>) { unimplemented!() } }
pub uninterp spec fn ser_cdh(x: CoinDataHeight) -> Seq<u8>;
pub uninterp spec fn de_cdh(b: Seq<u8>) -> Option<CoinDataHeight>;
impl StdSer for CoinDataHeight {
    open spec fn ser(&self) -> Seq<u8> { ser_cdh(*self) }
    open spec fn de(b: Seq<u8>) -> Option<CoinDataHeight> { de_cdh(b) }
    #[verifier::external_body] proof fn ser_props(&self) {}
    #[verifier::external_body] proof fn de_props(b: Seq<u8>) {}
}
impl StdcodeSerializeExt for CoinDataHeight { #[verifier::external_body] fn stdcode(&self) -> (r: Vec<u8>) { unimplemented!() } }
pub uninterp spec fn ser_u64(x: u64) -> Seq<u8>;
pub uninterp spec fn de_u64(b: Seq<u8>) -> Option<u64>;
impl StdSer for u64 {
    open spec fn ser(&self) -> Seq<u8> { ser_u64(*self) }
    open spec fn de(b: Seq<u8>) -> Option<u64> { de_u64(b) }
    #[verifier::external_body] proof fn ser_props(&self) {}
    #[verifier::external_body] proof fn de_props(b: Seq<u8>) {}
}
impl StdcodeSerializeExt for u64 { #[verifier::external_body] fn stdcode(&self) -> (r: Vec<u8>) { unimplemented!() } }
pub uninterp spec fn ser_txhash(x: TxHash) -> Seq<u8>;
pub uninterp spec fn de_txhash(b: Seq<u8>) -> Option<TxHash>;
impl StdSer for TxHash {
    open spec fn ser(&self) -> Seq<u8> { ser_txhash(*self) }
    open spec fn de(b: Seq<u8>) -> Option<TxHash> { de_txhash(b) }
    #[verifier::external_body] proof fn ser_props(&self) {}
    #[verifier::external_body] proof fn de_props(b: Seq<u8>) {}
}
impl StdcodeSerializeExt for TxHash { #[verifier::external_body] fn stdcode(&self) -> (r: Vec<u8>) { unimplemented!() } }
pub uninterp spec fn ser_stakedoc(x: StakeDoc) -> Seq<u8>;
pub uninterp spec fn de_stakedoc(b: Seq<u8>) -> Option<StakeDoc>;
impl StdSer for StakeDoc {
    open spec fn ser(&self) -> Seq<u8> { ser_stakedoc(*self) }
    open spec fn de(b: Seq<u8>) -> Option<StakeDoc> { de_stakedoc(b) }
    #[verifier::external_body] proof fn ser_props(&self) {}
    #[verifier::external_body] proof fn de_props(b: Seq<u8>) {}
}
impl StdcodeSerializeExt for StakeDoc { #[verifier::external_body] fn stdcode(&self) -> (r: Vec<u8>) { unimplemented!() } }
pub uninterp spec fn ser_bh(x: BlockHeight) -> Seq<u8>;
pub uninterp spec fn de_bh(b: Seq<u8>) -> Option<BlockHeight>;
impl StdSer for BlockHeight {
    open spec fn ser(&self) -> Seq<u8> { ser_bh(*self) }
    open spec fn de(b: Seq<u8>) -> Option<BlockHeight> { de_bh(b) }
    #[verifier::external_body] proof fn ser_props(&self) {}
    #[verifier::external_body] proof fn de_props(b: Seq<u8>) {}
}
impl StdcodeSerializeExt for BlockHeight { #[verifier::external_body] fn stdcode(&self) -> (r: Vec<u8>) { unimplemented!() } }
pub uninterp spec fn ser_header(x: Header) -> Seq<u8>;
pub uninterp spec fn de_header(b: Seq<u8>) -> Option<Header>;
impl StdSer for Header {
    open spec fn ser(&self) -> Seq<u8> { ser_header(*self) }
    open spec fn de(b: Seq<u8>) -> Option<Header> { de_header(b) }
    #[verifier::external_body] proof fn ser_props(&self) {}
    #[verifier::external_body] proof fn de_props(b: Seq<u8>) {}
}
impl StdcodeSerializeExt for Header { #[verifier::external_body] fn stdcode(&self) -> (r: Vec<u8>) { unimplemented!() } }
pub uninterp spec fn ser_tx(x: Transaction) -> Seq<u8>;
pub uninterp spec fn de_tx(b: Seq<u8>) -> Option<Transaction>;
impl StdSer for Transaction {
    open spec fn ser(&self) -> Seq<u8> { ser_tx(*self) }
    open spec fn de(b: Seq<u8>) -> Option<Transaction> { de_tx(b) }
    #[verifier::external_body] proof fn ser_props(&self) {}
    #[verifier::external_body] proof fn de_props(b: Seq<u8>) {}
}
impl StdcodeSerializeExt for Transaction { #[verifier::external_body] fn stdcode(&self) -> (r: Vec<u8>) { unimplemented!() } }
pub uninterp spec fn ser_poolkey(x: PoolKey) -> Seq<u8>;
pub uninterp spec fn de_poolkey(b: Seq<u8>) -> Option<PoolKey>;
impl StdSer for PoolKey {
    open spec fn ser(&self) -> Seq<u8> { ser_poolkey(*self) }
    open spec fn de(b: Seq<u8>) -> Option<PoolKey> { de_poolkey(b) }
    #[verifier::external_body] proof fn ser_props(&self) {}
    #[verifier::external_body] proof fn de_props(b: Seq<u8>) {}
}
impl StdcodeSerializeExt for PoolKey { #[verifier::external_body] fn stdcode(&self) -> (r: Vec<u8>) { unimplemented!() } }
pub uninterp spec fn ser_poolstate(x: PoolState) -> Seq<u8>;
pub uninterp spec fn de_poolstate(b: Seq<u8>) -> Option<PoolState>;
impl StdSer for PoolState {
    open spec fn ser(&self) -> Seq<u8> { ser_poolstate(*self) }
    open spec fn de(b: Seq<u8>) -> Option<PoolState> { de_poolstate(b) }
    #[verifier::external_body] proof fn ser_props(&self) {}
    #[verifier::external_body] proof fn de_props(b: Seq<u8>) {}
}
impl StdcodeSerializeExt for PoolState { #[verifier::external_body] fn stdcode(&self) -> (r: Vec<u8>) { unimplemented!() } }
pub mod novasmt {
    use super::*;
    pub use super::ContentAddrStore;
    /// view: total map raw key -> value, absent = empty byte string
    #[verifier::external_body] #[verifier::accept_recursive_types(C)]
    pub struct Tree<C: ContentAddrStore> { _c: core::marker::PhantomData<C> }
    impl<C: ContentAddrStore> View for Tree<C> { type V = IMap<Seq<u8>, Seq<u8>>; uninterp spec fn view(&self) -> IMap<Seq<u8>, Seq<u8>>; }
    impl<C: ContentAddrStore> Clone for Tree<C> { #[verifier::external_body] fn clone(&self) -> (r: Self) ensures r == *self { unimplemented!() } }
    pub uninterp spec fn root_of(m: IMap<Seq<u8>, Seq<u8>>) -> [u8; 32];
    impl<C: ContentAddrStore> Tree<C> {
        #[verifier::external_body]
        pub fn get(&self, key: [u8; 32]) -> (r: Vec<u8>) ensures r@ == self@[key@] { unimplemented!() }
        #[verifier::external_body]
        pub fn insert(&mut self, key: [u8; 32], value: &[u8]) ensures final(self)@ == old(self)@.insert(key@, value@) { unimplemented!() }
        #[verifier::external_body]
        pub fn root_hash(&self) -> (r: [u8; 32]) ensures r == root_of(self@) { unimplemented!() }
        /// iter(): every non-empty entry exactly once (in an unspecified order); count(): how many there are
        #[verifier::external_body]
        pub fn iter(&self) -> (r: Vec<([u8; 32], Vec<u8>)>)
            ensures r@.len() == entry_count(self@),
                    forall|i: int| 0 <= i < r@.len() ==> (#[trigger] r@[i]).1@.len() > 0 && self@[r@[i].0@] == r@[i].1@,
                    forall|i: int, j: int| 0 <= i < j < r@.len() ==> (#[trigger] r@[i]).0@ != (#[trigger] r@[j]).0@,
                    forall|k: Seq<u8>| self@[k].len() > 0 ==> exists|i: int| 0 <= i < r@.len() && (#[trigger] r@[i]).0@ == k
        { unimplemented!() }
        #[verifier::external_body]
        pub fn count(&self) -> (r: usize) ensures r == entry_count(self@) { unimplemented!() }
        /// A-SMT: the value under `key` with a Merkle proof for exactly that (root, key, value); novasmt 0.2.20 itself asserts
        /// `p.verify(self.ptr, key, &res)` before returning
        #[verifier::external_body]
        pub fn get_with_proof(&self, key: [u8; 32]) -> (r: (Vec<u8>, FullProof)) ensures r.0@ == self@[key@], r.1.verifies(root_of(self@), key@, r.0@) { unimplemented!() }
        /// A-SMT: `clear` resets the root pointer: the empty tree
        #[verifier::external_body]
        pub fn clear(&mut self) ensures final(self)@ == IMap::new(|k: Seq<u8>| true, |k: Seq<u8>| Seq::<u8>::empty()), root_of(final(self)@)@ == Seq::new(32, |i: int| 0u8) { unimplemented!() }
    }
    /// novasmt::FullProof: `verifies(root, key, val)` is FullProof::verify (A-SMT: sound for inclusion and, with the empty value, for exclusion)
    #[verifier::external_body] pub struct FullProof { _p: u8 }
    impl FullProof { pub uninterp spec fn verifies(&self, root: [u8; 32], key: Seq<u8>, val: Seq<u8>) -> bool; }
    pub uninterp spec fn entry_count(m: IMap<Seq<u8>, Seq<u8>>) -> nat;
    pub use super::novasmt_db::Database;
    /// every tree view is total (absent keys read as the empty string)
    pub broadcast axiom fn axiom_tree_total<C: ContentAddrStore>(t: Tree<C>, k: Seq<u8>) ensures #[trigger] t@.contains_key(k);
    /// A-SMT: the all-zero root is the empty tree's and nobody else's (the fact `Database::get_tree` states for the tree it returns)
    pub axiom fn axiom_zero_root(m: IMap<Seq<u8>, Seq<u8>>) requires root_of(m)@ == Seq::new(32, |i: int| 0u8) ensures forall|k: Seq<u8>| (#[trigger] m[k]).len() == 0;
}

// A-SER instances used by proofs (same facts as StdSer::ser_props, as broadcastable axioms)
pub broadcast axiom fn axiom_ser_cdh(x: CoinDataHeight) ensures (#[trigger] ser_cdh(x)).len() > 0, de_cdh(ser_cdh(x)) == Some(x);
pub broadcast axiom fn axiom_ser_u64(x: u64) ensures (#[trigger] ser_u64(x)).len() > 0, de_u64(ser_u64(x)) == Some(x);
pub broadcast axiom fn axiom_ser_coinid_inj(a: CoinID, b: CoinID) requires #[trigger] ser_coinid(a) == #[trigger] ser_coinid(b) ensures a == b;

// raw key derivation of the coin tree (A-HASH: collision freedom, domain separation of keyed hashing)
pub open spec fn k_coin(id: CoinID) -> Seq<u8> { h1(ser_coinid(id)).0@ }
pub open spec fn k_count(a: Address) -> Seq<u8> { hk(spec_coin_count_str(), a.0.0@).0@ }
pub broadcast axiom fn axiom_coin_key_inj(a: CoinID, b: CoinID) requires #[trigger] k_coin(a) == #[trigger] k_coin(b) ensures a == b;
pub broadcast axiom fn axiom_count_key_inj(a: Address, b: Address) requires #[trigger] k_count(a) == #[trigger] k_count(b) ensures a == b;
pub broadcast axiom fn axiom_key_sep(id: CoinID, a: Address) ensures #[trigger] k_coin(id) != #[trigger] k_count(a);
pub broadcast group group_raw_axioms { axiom_ser_cdh, axiom_ser_u64, axiom_coin_key_inj, axiom_count_key_inj, axiom_key_sep, novasmt::axiom_tree_total }

// (u32, Vec<u8>): the DoscMint payload (difficulty, proof bytes)
pub uninterp spec fn de_doscpayload(b: Seq<u8>) -> Option<(u32, Vec<u8>)>;
impl StdSer for (u32, Vec<u8>) {
    uninterp spec fn ser(&self) -> Seq<u8>;
    open spec fn de(b: Seq<u8>) -> Option<(u32, Vec<u8>)> { de_doscpayload(b) }
    #[verifier::external_body] proof fn ser_props(&self) {}
    #[verifier::external_body] proof fn de_props(b: Seq<u8>) {}
}

// novasmt::Database (A-SMT): a content-addressed store; `get_tree(root)` returns the tree with that root if the store holds it
pub mod novasmt_db {
    use super::*;
    #[verifier::external_body] #[verifier::accept_recursive_types(C)]
    pub struct Database<C: ContentAddrStore> { _c: core::marker::PhantomData<C> }
    pub uninterp spec fn db_has<C: ContentAddrStore>(db: Database<C>, root: [u8; 32]) -> bool;
    /// novasmt::InMemoryCas: a fresh in-memory store
    pub struct InMemoryCas {}
    impl super::ContentAddrStore for InMemoryCas {}
    impl Default for InMemoryCas { #[verifier::external_body] fn default() -> (r: InMemoryCas) { unimplemented!() } }
    /// novasmt::dense::DenseMerkleTree (TIP-908 transactions root): only its root is observed
    #[verifier::external_body] pub struct DenseMerkleTree { _p: u8 }
    /// the byte strings of a vector of byte vectors; the set of elements of a sequence
    pub open spec fn vecs_view(s: Seq<Vec<u8>>) -> Seq<Seq<u8>> { Seq::new(s.len(), |i: int| s[i]@) }
    pub open spec fn seq_iset<T>(s: Seq<T>) -> ISet<T> { ISet::new(|x: T| s.contains(x)) }
    pub uninterp spec fn bytes_sorted(s: Seq<Seq<u8>>) -> bool;       // ascending in Vec<u8>'s lexicographic Ord
    /// A-DENSE: the root of the dense Merkle tree over a sorted, duplicate-free list of leaves is a function of the SET of leaves (such a list is unique)
    pub uninterp spec fn dense_root_set(leaves: ISet<Seq<u8>>) -> [u8; 32];
    impl DenseMerkleTree { pub uninterp spec fn root(&self) -> [u8; 32]; #[verifier::external_body] pub fn root_hash(&self) -> (r: [u8; 32]) ensures r == self.root() { unimplemented!() }
        #[verifier::external_body]
        pub fn new(v: &Vec<Vec<u8>>) -> (r: DenseMerkleTree) ensures bytes_sorted(vecs_view(v@)) && vecs_view(v@).no_duplicates() ==> r.root() == dense_root_set(seq_iset(vecs_view(v@))) { unimplemented!() } }
    /// A-SORT (declared substitution for `vv.sort_unstable()`): sorting permutes: same elements, duplicates neither created nor removed
    #[verifier::external_body]
    pub fn sort_unstable_bytes(v: &mut Vec<Vec<u8>>)
        ensures bytes_sorted(vecs_view(final(v)@)), final(v)@.len() == old(v)@.len(), seq_iset(vecs_view(final(v)@)) == seq_iset(vecs_view(old(v)@)),
                vecs_view(old(v)@).no_duplicates() ==> vecs_view(final(v)@).no_duplicates()
    { unimplemented!() }
    impl<C: ContentAddrStore> Database<C> {
        /// every store holds the empty tree (all-zero root)
        #[verifier::external_body]
        pub fn new(cas: C) -> (r: Database<C>) ensures forall|z: [u8; 32]| z@ == Seq::new(32, |i: int| 0u8) ==> #[trigger] db_has(r, z) { unimplemented!() }
        #[verifier::external_body]
        pub fn get_tree(&self, root: [u8; 32]) -> (r: Option<novasmt::Tree<C>>)
            ensures db_has(*self, root) ==> r is Some, r is Some ==> novasmt::root_of(r->Some_0@) == root,
                    r is Some && root@ == Seq::new(32, |i: int| 0u8) ==> r->Some_0@ == IMap::new(|k: Seq<u8>| true, |k: Seq<u8>| Seq::<u8>::empty())   // A-SMT: the all-zero root is the empty tree
        { unimplemented!() }
    }
}
pub use novasmt_db::{Database, InMemoryCas, DenseMerkleTree, vecs_view, seq_iset, bytes_sorted, dense_root_set, sort_unstable_bytes};
/// `a == b` on byte arrays (declared substitution; std's array PartialEq carries no spec in this Verus build): element-wise equality
#[verifier::external_body] pub fn arr32_eq(a: [u8; 32], b: [u8; 32]) -> (r: bool) ensures r == (a@ == b@) { unimplemented!() }
/// `<[u8; 32] as Default>::default()` (declared substitution): the all-zero root of the empty tree
#[verifier::external_body] pub fn zero_root() -> (r: [u8; 32]) ensures r@ == Seq::new(32, |i: int| 0u8) { unimplemented!() }
