from spec import *
from _contracts import *

S = "lib/tip911-stakeset/src/lib.rs"
VOTES_CLOSURES = lambda keyed: [
    Closure(0, "v: &&StakeDoc", "(r: bool)",
            ensures=[C("pred", "r == (v.e_start <= epoch && v.e_post_end > epoch" + (" && v.pubkey == key" if keyed else "") + ")", "C13", "C14", char=False)]),
    Closure(1, "v: &StakeDoc", "(r: u128)", ensures=[C("weight", "r == v.syms_staked.0", "C13", "C14")]),
]
VOTES_PROOF = """proof {
    let key_o: Option<Ed25519PK> = %s;
    let ks = choose|ks: Seq<TxHash>| is_enum(self@, ks) && __c0@.len() == ks.len() && (forall|i: int| 0 <= i < ks.len() ==> *(#[trigger] __c0@[i]) == self@[ks[i]]);
    let b = choose|b: spec_fn(&StakeDoc) -> bool| #[trigger] filter_decided(__cl1, __c0@, __c1@, b);
    let p = |d: &StakeDoc| d.e_start <= epoch && d.e_post_end > epoch && (key_o is None || d.pubkey == key_o->Some_0);
    lemma_filter_agree(__c0@, b, p);
    lemma_votes_chain(self@, ks, __c0@, __c1@, __c2@, p, epoch, key_o);
}"""
def votes_proof(keyed):
    k = "Some(key)" if keyed else "None"
    return [Inject("entry", "broadcast use group_seq_axioms;"), ]

UNIT = Unit(
    name="stakeset", lemma_obs=['lemma_fsum_perm'],
    prelude=["core.rs", "raw.rs", "iter.rs", "imbl.rs"],
    lemmas=["sums.rs", "stakes.rs", "stakeroot_def.rs"],
    items=[
        TypeItem(S, "struct", "StakeSet", subst=[("stakes:", "pub stakes:")]),
        Raw("impl View for StakeSet { type V = Map<TxHash, StakeDoc>; open spec fn view(&self) -> Map<TxHash, StakeDoc> { self.stakes@ } }"),
        Fn(S, "new", impl="StakeSet", home="C13", implicit_props=("C09", "C13"), sig_subst=[("impl Iterator<Item = (TxHash, StakeDoc)>", "Vec<(TxHash, StakeDoc)>")], **ss_new()),
        Fn(S, "add_stake", impl="StakeSet", home="C13", implicit_props=("C09", "C13"), **ss_add_stake()),
        Fn(S, "get_stake", impl="StakeSet", home="C13", implicit_props=("C09", "C13"), **ss_get_stake()),
        Fn(S, "is_frozen", impl="StakeSet", home="C13", implicit_props=("C09", "C13"), **ss_is_frozen()),
        Fn(S, "unlock_old", impl="StakeSet", home="C13", implicit_props=("C09", "C13"), **ss_unlock_old(),
           closures=[Closure(0, "_k: &TxHash, v: &StakeDoc", "(r: bool)", ensures=[C("pred", "r == (v.e_post_end >= epoch)", "C13")])]),
        Fn(S, "votes", impl="StakeSet", home="C13", implicit_props=("C09", "C13", "C14"), **ss_votes(),
           rewrites=[("ANF", "sum", 0, 4, {2: VOTES_PROOF % "Some(key)"})], closures=VOTES_CLOSURES(True)),
        Fn(S, "total_votes", impl="StakeSet", home="C13", implicit_props=("C09", "C13", "C14"), **ss_total_votes(),
           rewrites=[("ANF", "sum", 0, 4, {2: VOTES_PROOF % "None"})], closures=VOTES_CLOSURES(False)),
        Fn(S, "pre_tip911", impl="StakeSet", home="C07", implicit_props=("C09", "C07", "C13"), **ss_pre_tip911(),
           uses="novasmt::axiom_tree_total",
           rewrites=[("SUB", ".get_tree([0u8; 32])", ".get_tree(zero_root())"),
                     ("SUBRE", r"for \(k, v\) in self\.stakes\.iter\(\)([^{]*?)\s*\{", """let __es = self.stakes.iter()${1}; let ghost m = self.stakes@; let ghost ks = Seq::new(__es@.len(), |i: int| *__es@[i].0);
        proof { assert(tree@ =~= stakes_raw_upto(m, ks, 0)); }
        for (k, v) in __es {""")],
           injects=[Inject("before_tail", "proof { lemma_stakes_raw_all(m, ks); }")],
           loops=[Loop(0, binder="it", body_entry="proof { let i = it.index@ as int; assert(it.seq()[i] == (k, v)); assert(*k == ks[i]); assert(ks.contains(ks[i])); assert(*v == m[ks[i]]); lemma_stakes_raw_step(m, ks, i); }",
                       invariants=[C("enum", "is_enum(m, ks) && m == self.stakes@ && it.seq().len() == ks.len() && (forall|i: int| 0 <= i < ks.len() ==> *(#[trigger] it.seq()[i]).0 == ks[i] && *it.seq()[i].1 == m[ks[i]])", "C07"),
                                   C("raw", "tree@ == stakes_raw_upto(m, ks, it.index@ as int)", "C07")])]),
    ],
)
