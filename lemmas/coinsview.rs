// Abstract view of the coin tree and the TIP-906 count invariant (hand-written from properties C02/C20).
pub struct CoinsView { pub coins: IMap<CoinID, CoinDataHeight>, pub counts: IMap<Address, nat> }

/// recorded count for a covenant hash; "no entry" reads as 0
pub open spec fn count_of(counts: IMap<Address, nat>, a: Address) -> nat { if counts.contains_key(a) { counts[a] } else { 0 } }
/// the set of unspent coins locked by covenant hash `a`
pub open spec fn coins_of(coins: IMap<CoinID, CoinDataHeight>, a: Address) -> ISet<CoinID> {
    coins.dom().filter(|id: CoinID| coins[id].coin_data.covhash == a)
}
pub open spec fn cnt(coins: IMap<CoinID, CoinDataHeight>, a: Address) -> nat { coins_of(coins, a).len() }
/// C20: every recorded count equals the number of unspent coins under that covenant hash, and a covenant hash with
/// no coins has no entry
pub open spec fn counts_ok(v: CoinsView) -> bool {
    &&& v.coins.dom().finite()
    &&& forall|a: Address| #[trigger] count_of(v.counts, a) == cnt(v.coins, a)
    &&& forall|a: Address| #[trigger] v.counts.contains_key(a) ==> v.counts[a] >= 1
}
pub open spec fn counts_after_insert(v: CoinsView, id: CoinID, d: CoinDataHeight, tip_906: bool) -> IMap<Address, nat> {
    if tip_906 && !v.coins.contains_key(id) { v.counts.insert(d.coin_data.covhash, count_of(v.counts, d.coin_data.covhash) + 1) } else { v.counts }
}
pub open spec fn counts_after_remove(v: CoinsView, id: CoinID, tip_906: bool) -> IMap<Address, nat> {
    if tip_906 && v.coins.contains_key(id) {
        let a = v.coins[id].coin_data.covhash;
        if count_of(v.counts, a) <= 1 { v.counts.remove(a) } else { v.counts.insert(a, (count_of(v.counts, a) - 1) as nat) }
    } else { v.counts }
}
pub open spec fn view_insert(v: CoinsView, id: CoinID, d: CoinDataHeight, tip_906: bool) -> CoinsView {
    CoinsView { coins: v.coins.insert(id, d), counts: counts_after_insert(v, id, d, tip_906) }
}
pub open spec fn view_remove(v: CoinsView, id: CoinID, tip_906: bool) -> CoinsView {
    CoinsView { coins: v.coins.remove(id), counts: counts_after_remove(v, id, tip_906) }
}

pub proof fn lemma_coins_of_finite(coins: IMap<CoinID, CoinDataHeight>, a: Address)
    requires coins.dom().finite()
    ensures coins_of(coins, a).finite(), cnt(coins, a) <= coins.dom().len()
{
    coins.dom().lemma_len_filter(|id: CoinID| coins[id].coin_data.covhash == a);
}
pub proof fn lemma_cnt_insert_fresh(coins: IMap<CoinID, CoinDataHeight>, id: CoinID, d: CoinDataHeight, a: Address)
    requires coins.dom().finite(), !coins.contains_key(id)
    ensures cnt(coins.insert(id, d), a) == cnt(coins, a) + (if d.coin_data.covhash == a { 1nat } else { 0nat })
{
    lemma_coins_of_finite(coins, a);
    let c2 = coins.insert(id, d);
    if d.coin_data.covhash == a {
        assert(coins_of(c2, a) =~= coins_of(coins, a).insert(id));
    } else {
        assert(coins_of(c2, a) =~= coins_of(coins, a));
    }
}
pub proof fn lemma_cnt_insert_same_cov(coins: IMap<CoinID, CoinDataHeight>, id: CoinID, d: CoinDataHeight, a: Address)
    requires coins.contains_key(id), coins[id].coin_data.covhash == d.coin_data.covhash
    ensures cnt(coins.insert(id, d), a) == cnt(coins, a)
{
    assert(coins_of(coins.insert(id, d), a) =~= coins_of(coins, a));
}
pub proof fn lemma_cnt_remove(coins: IMap<CoinID, CoinDataHeight>, id: CoinID, a: Address)
    requires coins.dom().finite(), coins.contains_key(id)
    ensures cnt(coins.remove(id), a) == cnt(coins, a) - (if coins[id].coin_data.covhash == a { 1int } else { 0int }),
            coins[id].coin_data.covhash == a ==> cnt(coins, a) >= 1
{
    lemma_coins_of_finite(coins, a);
    let c2 = coins.remove(id);
    if coins[id].coin_data.covhash == a {
        assert(coins_of(coins, a).contains(id));
        assert(coins_of(c2, a) =~= coins_of(coins, a).remove(id));
    } else {
        assert(coins_of(c2, a) =~= coins_of(coins, a));
    }
}
/// inserting a coin (fresh, or overwriting one with the same covenant hash) preserves the count invariant
pub proof fn lemma_counts_ok_insert(v: CoinsView, id: CoinID, d: CoinDataHeight)
    requires counts_ok(v), v.coins.contains_key(id) ==> v.coins[id].coin_data.covhash == d.coin_data.covhash
    ensures counts_ok(view_insert(v, id, d, true))
{
    let v2 = view_insert(v, id, d, true);
    assert forall|a: Address| #[trigger] count_of(v2.counts, a) == cnt(v2.coins, a) by {
        if v.coins.contains_key(id) { lemma_cnt_insert_same_cov(v.coins, id, d, a); }
        else { lemma_cnt_insert_fresh(v.coins, id, d, a); }
        assert(count_of(v.counts, a) == cnt(v.coins, a));
    }
}
pub proof fn lemma_counts_ok_remove(v: CoinsView, id: CoinID)
    requires counts_ok(v)
    ensures counts_ok(view_remove(v, id, true))
{
    let v2 = view_remove(v, id, true);
    if v.coins.contains_key(id) {
        let c = v.coins[id].coin_data.covhash;
        assert forall|a: Address| #[trigger] count_of(v2.counts, a) == cnt(v2.coins, a) by {
            lemma_cnt_remove(v.coins, id, a);
            assert(count_of(v.counts, a) == cnt(v.coins, a));
            assert(count_of(v.counts, c) == cnt(v.coins, c));
        }
        assert forall|a: Address| #[trigger] v2.counts.contains_key(a) implies v2.counts[a] >= 1 by {
            assert(count_of(v.counts, c) == cnt(v.coins, c));
        }
    } else {
        assert(v.coins.remove(id) =~= v.coins);
    }
}
/// the empty coin tree satisfies the count invariant (genesis base case)
pub proof fn lemma_counts_ok_empty()
    ensures counts_ok(CoinsView { coins: IMap::<CoinID, CoinDataHeight>::empty(), counts: IMap::<Address, nat>::empty() })
{
    let coins = IMap::<CoinID, CoinDataHeight>::empty();
    assert(coins.dom() =~= ISet::<CoinID>::empty());
    assert forall|a: Address| cnt(coins, a) == 0 by { assert(coins_of(coins, a) =~= ISet::<CoinID>::empty()); }
}
