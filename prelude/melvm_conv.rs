// A-VALCONV: the `impl From<X> for Value` conversions of lib/melvm/src/value.rs.  The scalar / struct ones (u128, u64, [u8; 32], HashVal, Bytes, CoinID,
// CoinData, CoinDataHeight, Header, Transaction) are EXTRACTED and proved in unit `exec` against the `from_spec` functions below (hand-written from the
// property: field order as in value.rs).  Still assumed (external_body stubs): From<Denom> (Denom::to_bytes, melstructs), the generic iterator-based
// From<Vec<T>> (declared for the three element types a transaction has), From<Covenant>.
pub uninterp spec fn val_of_denom(d: Denom) -> Value;
/// From<Vec<T>> for Value (generic, iterator-based in value.rs): assumed for the three element types a transaction has
pub open spec fn val_vec<T>(v: Seq<T>, f: spec_fn(T) -> Value) -> Value { vvec(Seq::new(v.len(), |i: int| f(v[i]))) }
pub open spec fn val_of_coinid(c: CoinID) -> Value { vvec(seq![vbytes(c.txhash.0.0@), vint(c.index as nat)]) }
impl FromSpecImpl<Vec<CoinID>> for Value { open spec fn obeys_from_spec() -> bool { true } open spec fn from_spec(v: Vec<CoinID>) -> Value { val_vec(v@, |c: CoinID| val_of_coinid(c)) } }
impl From<Vec<CoinID>> for Value { #[verifier::external_body] fn from(v: Vec<CoinID>) -> (r: Value) { unimplemented!() } }
impl FromSpecImpl<Vec<CoinData>> for Value { open spec fn obeys_from_spec() -> bool { true } open spec fn from_spec(v: Vec<CoinData>) -> Value { val_vec(v@, |c: CoinData| val_of_coindata(c)) } }
impl From<Vec<CoinData>> for Value { #[verifier::external_body] fn from(v: Vec<CoinData>) -> (r: Value) { unimplemented!() } }
impl FromSpecImpl<Vec<Bytes>> for Value { open spec fn obeys_from_spec() -> bool { true } open spec fn from_spec(v: Vec<Bytes>) -> Value { val_vec(v@, |b: Bytes| vbytes(b@)) } }
impl From<Vec<Bytes>> for Value { #[verifier::external_body] fn from(v: Vec<Bytes>) -> (r: Value) { unimplemented!() } }
/// the spending transaction as a VM value (From<Transaction> for Value): [kind, inputs, outputs, fee, covenants, data, sigs]
pub open spec fn val_of_tx(tx: Transaction) -> Value {
    vvec(seq![vint((tx.kind as u8) as nat), val_vec(tx.inputs@, |c: CoinID| val_of_coinid(c)), val_vec(tx.outputs@, |c: CoinData| val_of_coindata(c)), vint(tx.fee.0 as nat),
              val_vec(tx.covenants@, |b: Bytes| vbytes(b@)), vbytes(tx.data@), val_vec(tx.sigs@, |b: Bytes| vbytes(b@))])
}
/// a header as a VM value (From<Header> for Value): the eleven fields in declaration order
pub open spec fn val_of_header(h: Header) -> Value {
    vvec(seq![vint((h.network as u64) as nat), vbytes(h.previous.0@), vint(h.height.0 as nat), vbytes(h.history_hash.0@), vbytes(h.coins_hash.0@), vbytes(h.transactions_hash.0@),
              vint(h.fee_pool.0 as nat), vint(h.fee_multiplier as nat), vint(h.dosc_speed as nat), vbytes(h.pools_hash.0@), vbytes(h.stakes_hash.0@)])
}
impl FromSpecImpl<u128> for Value { open spec fn obeys_from_spec() -> bool { true } open spec fn from_spec(n: u128) -> Value { vint(n as nat) } }
impl FromSpecImpl<u64> for Value { open spec fn obeys_from_spec() -> bool { true } open spec fn from_spec(n: u64) -> Value { vint(n as nat) } }
impl FromSpecImpl<HashVal> for Value { open spec fn obeys_from_spec() -> bool { true } open spec fn from_spec(h: HashVal) -> Value { vbytes(h.0@) } }
impl FromSpecImpl<Bytes> for Value { open spec fn obeys_from_spec() -> bool { true } open spec fn from_spec(b: Bytes) -> Value { vbytes(b@) } }
impl FromSpecImpl<Denom> for Value { open spec fn obeys_from_spec() -> bool { true } open spec fn from_spec(d: Denom) -> Value { val_of_denom(d) } }
impl From<Denom> for Value { #[verifier::external_body] fn from(d: Denom) -> (r: Value) { unimplemented!() } }
impl FromSpecImpl<Transaction> for Value { open spec fn obeys_from_spec() -> bool { true } open spec fn from_spec(t: Transaction) -> Value { val_of_tx(t) } }
impl FromSpecImpl<Header> for Value { open spec fn obeys_from_spec() -> bool { true } open spec fn from_spec(h: Header) -> Value { val_of_header(h) } }
impl FromSpecImpl<[u8; 32]> for Value { open spec fn obeys_from_spec() -> bool { true } open spec fn from_spec(v: [u8; 32]) -> Value { vbytes(v@) } }
impl FromSpecImpl<CoinID> for Value { open spec fn obeys_from_spec() -> bool { true } open spec fn from_spec(c: CoinID) -> Value { val_of_coinid(c) } }
impl FromSpecImpl<CoinData> for Value { open spec fn obeys_from_spec() -> bool { true } open spec fn from_spec(cd: CoinData) -> Value { val_of_coindata(cd) } }
pub open spec fn val_of_coindata(cd: CoinData) -> Value { vvec(seq![vbytes(cd.covhash.0.0@), vint(cd.value.0 as nat), val_of_denom(cd.denom), vbytes(cd.additional_data@)]) }
impl FromSpecImpl<CoinDataHeight> for Value { open spec fn obeys_from_spec() -> bool { true } open spec fn from_spec(cd: CoinDataHeight) -> Value { vvec(seq![val_of_coindata(cd.coin_data), vint(cd.height.0 as nat)]) } }
// conversions into CatVec that value.rs relies on (dependency: catvec / tmelcrypt / bytes `From` impls; A-CATVEC)
impl<const N: usize> From<HashVal> for CatVec<u8, N> { #[verifier::external_body] fn from(v: HashVal) -> (r: CatVec<u8, N>) ensures r@ == v.0@ { unimplemented!() } }
impl<const N: usize> From<Bytes> for CatVec<u8, N> { #[verifier::external_body] fn from(v: Bytes) -> (r: CatVec<u8, N>) ensures r@ == v@ { unimplemented!() } }
