from spec import *
from _contracts import *

SM = "src/smtmapping.rs"
W = "impl<C: ContentAddrStore, K: StdSer, V: StdSer> SmtMapping<C, K, V>"
KEY = "h1(key.ser()).0@"
UNIT = Unit(
    name="smtmap", uses="group_core_axioms, novasmt::axiom_tree_total",
    prelude=["core.rs", "raw.rs", "iter.rs"],
    lemmas=["sums.rs", "iterlem.rs", "smtmap.rs"],
    items=[
        Raw("use std::marker::PhantomData; use novasmt::FullProof;"),
        TypeItem(SM, "struct", "SmtMapping", subst=[("K: Serialize, V: Serialize + DeserializeOwned", "K: StdSer, V: StdSer"), ("_phantom_k:", "pub _phantom_k:"), ("_phantom_v:", "pub _phantom_v:")],
                 derive="#[verifier::reject_recursive_types(C)] #[verifier::reject_recursive_types(K)] #[verifier::reject_recursive_types(V)]"),
        Raw("""/// `<&[u8] as Default>::default()` (declared substitution in `delete`): the empty slice
#[verifier::external_body] pub fn empty_slice<'a>() -> (r: &'a [u8]) ensures r@ == Seq::<u8>::empty() { unimplemented!() }
/// the typed reading of a raw tree entry (C07: what a typed lookup returns for a key): absent (empty string) or the decoded value
pub open spec fn typed_get<V: StdSer>(raw: IMap<Seq<u8>, Seq<u8>>, k: Seq<u8>) -> Option<V> { if raw[k].len() == 0 { None::<V> } else { V::de(raw[k]) } }"""),
        Fn(SM, "new", impl="SmtMapping", wrap=W, home="C07", implicit_props=("C09", "C07"),
           ensures=[C("wraps", "res.mapping == tree", "C07", "C08")]),
        Fn(SM, "get", impl="SmtMapping", wrap=W, home="C07", implicit_props=("C09", "C07"),
           requires=[C("valid", f"self.mapping@[{KEY}].len() > 0 ==> V::de(self.mapping@[{KEY}]) is Some",
                       note="tree invariant: every non-empty entry under a typed key decodes (`expect(\"SmtMapping saw invalid data\")` panics otherwise); entries are only ever written by insert")],
           ensures=[C("typed", f"res == typed_get::<V>(self.mapping@, {KEY})", "C07"),
                    C("view", "res == (if typed_view::<K, V>(self.mapping@).contains_key(*key) { Some(typed_view::<K, V>(self.mapping@)[*key]) } else { None::<V> })", "C07", "C15", "C16", "C18", "C04", note="refinement: get reads the typed view")],
           rewrites=[("DROPTIMER",)]),
        Fn(SM, "get_with_proof", impl="SmtMapping", wrap=W, home="C07", implicit_props=("C09", "C07"),
           requires=[C("valid", f"self.mapping@[{KEY}].len() > 0 ==> V::de(self.mapping@[{KEY}]) is Some", note="tree invariant, as for get")],
           ensures=[C("typed", f"res.0 == typed_get::<V>(self.mapping@, {KEY})", "C07"),
                    C("proof", f"res.1.verifies(novasmt::root_of(self.mapping@), {KEY}, self.mapping@[{KEY}])", "C07",
                      note="the proof handed out verifies against THIS mapping's root, for the hashed encoding of the key asked for, and for the raw value the typed answer was decoded from (the empty string proves absence)")],
           rewrites=[("DROPTIMER",)]),
        Fn(SM, "clear", impl="SmtMapping", wrap=W, home="C07", implicit_props=("C09", "C07"),
           ensures=[C("empty", "forall|k: Seq<u8>| (#[trigger] final(self).mapping@[k]).len() == 0", "C07")]),
        Fn(SM, "is_empty", impl="SmtMapping", wrap=W, home="C07", implicit_props=("C09", "C07"),
           ensures=[C("zero_root", "res == (novasmt::root_of(self.mapping@)@ == Seq::new(32, |i: int| 0u8))", "C07")],
           rewrites=[("SUB", "self.root_hash().0 == [0; 32]", "arr32_eq(self.root_hash().0, zero_root())")]),
        Fn(SM, "insert", impl="SmtMapping", wrap=W, home="C07", implicit_props=("C09", "C07"),
           ensures=[C("raw", f"final(self).mapping@ == old(self).mapping@.insert({KEY}, val.ser())", "C07", "C02"),
                    C("reads_back", f"typed_get::<V>(final(self).mapping@, {KEY}) == Some(val)", "C07"),
                    C("typed", "typed_view::<K, V>(final(self).mapping@) == typed_view::<K, V>(old(self).mapping@).insert(key, val)", "C07", "C02",
                      note="refinement: at the level of the typed view (the Map the other units assume for SmtMapping) insert is map insertion; no other key moves (hash_single collision-free, stdcode decodable)")],
           injects=[Inject("entry", "let ghost k0 = key; let ghost v0 = val;"), Inject("end", "proof { v0.ser_props(); lemma_typed_insert::<K, V>(old(self).mapping@, k0, v0); }")],
           rewrites=[("DROPTIMER",)]),
        Fn(SM, "delete", impl="SmtMapping", wrap=W, home="C07", implicit_props=("C09", "C07"),
           ensures=[C("raw", f"final(self).mapping@ == old(self).mapping@.insert({KEY}, Seq::<u8>::empty())", "C07"),
                    C("gone", f"typed_get::<V>(final(self).mapping@, {KEY}) is None", "C07"),
                    C("typed", "typed_view::<K, V>(final(self).mapping@) == typed_view::<K, V>(old(self).mapping@).remove(*key)", "C07", "C15", "C16", note="refinement: delete is map removal at the level of the typed view")],
           injects=[Inject("entry", "let ghost k0 = *key;"), Inject("end", "proof { lemma_typed_delete::<K, V>(old(self).mapping@, k0); }")],
           rewrites=[("DROPTIMER",), ("SUB", "self.mapping.insert(key.0, Default::default());", "self.mapping.insert(key.0, empty_slice());")]),
        Fn(SM, "val_iter", impl="SmtMapping", wrap=W, home="C07", implicit_props=("C09", "C07", "C16"),
           sig_subst=[("impl Iterator<Item = V> + '_", "Vec<V>")],
           requires=[C("valid", "forall|k: Seq<u8>| (#[trigger] self.mapping@[k]).len() > 0 ==> V::de(self.mapping@[k]) is Some",
                       note="tree invariant: every non-empty entry decodes (the `unwrap` panics otherwise); entries are only ever written by insert")],
           ensures=[C("count", "res@.len() == novasmt::entry_count(self.mapping@)", "C07", "C16", note="one value per non-empty entry: what the `pools.val_iter().count() >= 2` assertions of sealing count"),
                    C("values", "forall|i: int| 0 <= i < res@.len() ==> exists|k: Seq<u8>| self.mapping@[k].len() > 0 && #[trigger] res@[i] == V::de(self.mapping@[k]).unwrap()", "C07")],
           closures=[Closure(0, "__kv: ([u8; 32], Vec<u8>)", "(r: V)", first_stmt="let (_, v) = __kv;",
                             requires=[C("dec", "V::de(__kv.1@) is Some")], ensures=[C("val", "r == V::de(__kv.1@).unwrap()", "C07")])]),
        Fn(SM, "root_hash", impl="SmtMapping", wrap=W, home="C07", implicit_props=("C09", "C07"),
           ensures=[C("root", "res == HashVal(novasmt::root_of(self.mapping@))", "C07", "C08")]),
    ],
)
