from spec import *
from _contracts import *

A = "src/state/applytx.rs"
M = "src/state/melmint.rs"
S = "src/state.rs"
UNIT = Unit(
    name="dosc", uses="group_core_axioms, melpow::axiom_pow_difficulty",
    prelude=["core.rs", "raw.rs", "iter.rs", "crypto.rs", "state_abs.rs", "txmethods.rs", "num.rs", "melpow.rs"],
    lemmas=["sums.rs", "iterlem.rs", "coinsview.rs", "header.rs", "txroot_opaque.rs", "seal_opaque.rs", "tips.rs", "apply.rs", "microergs.rs", "chaininv.rs", "dosc.rs"],
    items=[
        TypeItem(S, "struct", "UnsealedState"),
        TypeItem(S, "enum", "StateError", derive="#[derive(Clone, Copy, PartialEq, Eq, Structural)]"),
        TypeItem(M, "struct", "LegacyMelPowHash"),
        TypeItem(M, "struct", "Tip910MelPowHash"),
        Raw("impl melpow::HashFunction for LegacyMelPowHash { open spec fn tip910() -> bool { false } }\nimpl melpow::HashFunction for Tip910MelPowHash { open spec fn tip910() -> bool { true } }"),
        Raw("use num::{BigInt, BigRational, rational::Ratio};\npub mod melmint { pub use super::*; }   // the repo's module path `melmint::` (all extracted items live in one flat module)"),
        Fn(M, "microergs_per_dosc", mode="assume", **mm_microergs()),
        Fn(M, "dosc_inflator", home="C18", implicit_props=("C09", "C18"), **mm_dosc_inflator()),
        Fn(M, "dosc_to_erg", home="C18", implicit_props=("C09", "C18"), rewrites=[("RENAME", "real", "real_")], **mm_dosc_to_erg(),
           injects=[Inject(("after_let", "result"), """proof { let m = spec_microergs(height.0 as nat) as int; let r = real_ as int;
               assert(result@.d == 1_000_000 * 1); assert(result@.n == m * r); assert(m * r == r * m) by (nonlinear_arith); }""")]),
        Fn(M, "calculate_reward", home="C18", implicit_props=("C09", "C18"), **mm_calculate_reward(),
           injects=[Inject("entry", "proof { lemma_pow2_100(difficulty as nat); let ds = dosc_speed as int; assert(ds * ds * 2880 > 0) by (nonlinear_arith) requires ds > 0; }")]),
        Fn(A, "compute_doscmint_speed", home="C18", implicit_props=("C09", "C18"),
           requires=[C("diff", "difficulty <= 100"), C("older", "state_height.0 > coin_height.0")],
           ensures=[C("formula", "res as int == spec_speed(is_tip910, difficulty as nat, state_height.0 - coin_height.0)", "C18", "C01", char=True)],
           injects=[Inject("entry", "proof { lemma_pow2_100(difficulty as nat); }")]),
        Fn(A, "check_dosc_total_output", home="C18", implicit_props=("C09", "C18"),
           requires=[C("fit", "outputs_fit(*tx)")],
           ensures=[C("bound", "res is Ok <==> (if spec_total_outputs(*tx).contains_key(Denom::Erg) { spec_total_outputs(*tx)[Denom::Erg].0 } else { 0 }) <= reward_nom.0", "C18", "C01"),
                    C("err", "res is Err ==> res->Err_0 is InvalidMelPoW", "C18", char=True)]),
        Fn(A, "proof_is_tip910", home="C18", implicit_props=("C09", "C18"),
           requires=[C("total", "melpow::pow_total(proof, puzzle.0@, difficulty as nat)", envelope_of="F-C09-melpow")],
           ensures=[C("legacy", "res is Ok && res->Ok_0 == false ==> melpow::pow_ok(proof, puzzle.0@, difficulty as nat, false)", "C18"),
                    C("tip910", "res is Ok && res->Ok_0 == true ==> melpow::pow_ok(proof, puzzle.0@, difficulty as nat, true) && !melpow::pow_ok(proof, puzzle.0@, difficulty as nat, false)", "C18"),
                    C("invalid", "res is Err <==> (!melpow::pow_ok(proof, puzzle.0@, difficulty as nat, false) && !melpow::pow_ok(proof, puzzle.0@, difficulty as nat, true))", "C18"),
                    C("err", "res is Err ==> res->Err_0 is InvalidMelPoW", "C18", char=True)]),
        Fn("src/smtmapping.rs", "get", impl="SmtMapping", mode="assume", wrap=SMT_WRAP, **smt_get()),
        Fn(A, "validate_and_get_doscmint_speed", home="C18", implicit_props=("C09", "C18"), **ap_validate_doscmint(),
           injects=[Inject(("after_let", "puzzle"), "proof { assert(puzzle == spec_puzzle(this.history@[coin_data.height], tx.inputs@[0])); }")],
           closures=[Closure(0, "e: stdcode::DeError", "(r: StateError)", ensures=[C("maperr", "r is InvalidMelPoW", "C18")])]),
    ],
    findings=[
        Finding("F-C09-melpow", A + "::validate_and_get_doscmint_speed", ("C09", "C18"), [], expect_clause="safety", must_hold=["c18", "err"],
                what="melpow::Proof::verify is not total: a DoscMint whose payload has difficulty 0 or > 64, or whose proof lacks the zero node or a sibling node, makes it panic"),
    ],
)
