// F-C09-melpow on the real code: a DoscMint whose payload is (difficulty 0, empty proof) makes melpow::Proof::verify panic
// inside apply_tx.  Asserts the property (rejection, no panic); FAILS on the pinned tree.
use crate::*;
use melstructs::*;
use melvm::Covenant;
use novasmt::{Database, InMemoryCas};
use std::panic::{catch_unwind, AssertUnwindSafe};

#[test]
fn c09_doscmint_empty_proof_is_rejected_not_a_panic() {
    let db = Database::new(InMemoryCas::default());
    let mut state = GenesisConfig::std_testnet().realize(&db);
    state.network = NetID::Custom02;
    state.fee_multiplier = 0;
    let x = CoinID { txhash: tmelcrypt::HashVal([1; 32]).into(), index: 0 };
    let cd = CoinData { covhash: Covenant::always_true().hash(), value: CoinValue(1000), denom: Denom::Mel, additional_data: vec![].into() };
    state.coins.insert_coin(x, CoinDataHeight { coin_data: cd.clone(), height: 0.into() }, state.tip_906());
    let mut state = state.seal(None).next_unsealed();
    let tx = Transaction { kind: TxKind::DoscMint, inputs: vec![x], outputs: vec![cd], fee: CoinValue(0),
        covenants: vec![Covenant::always_true().to_bytes()], data: stdcode::serialize(&(0u32, Vec::<u8>::new())).unwrap().into(), sigs: vec![] };
    let r = catch_unwind(AssertUnwindSafe(move || state.apply_tx(&tx)));
    assert!(r.is_ok(), "apply_tx panicked inside melpow");
    assert!(r.unwrap().is_err());
}
