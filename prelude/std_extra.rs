// neighbouring std methods a refactor may reach for (lesson 3): ASSUMED contracts = the std documentation
pub assume_specification [u128::abs_diff] (a: u128, b: u128) -> (r: u128) ensures r == (if a >= b { a - b } else { b - a });
pub assume_specification [u64::abs_diff] (a: u64, b: u64) -> (r: u64) ensures r == (if a >= b { a - b } else { b - a });
