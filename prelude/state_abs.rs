// Abstract (contract-only) faces of the repo's own container types.  The contracts written here for
// CoinMapping / SmtMapping / TransactionSet / StakeSet methods are the ones PROVED in units `coins`, `smtmap`,
// `stakeset` against the raw-SMT prelude (same clause text, see contracts.py); in every other unit they are
// assumed at call sites (modular verification: a caller sees the callee's contract, not its body).
#[verifier::external_body] #[verifier::accept_recursive_types(C)]
pub struct CoinMapping<C: ContentAddrStore> { _c: core::marker::PhantomData<C> }
impl<C: ContentAddrStore> View for CoinMapping<C> { type V = CoinsView; uninterp spec fn view(&self) -> CoinsView; }
impl<C: ContentAddrStore> CoinMapping<C> {
    /// tree invariant (defined in lemmas/coins_raw.rs for the proving unit): entries decode, nothing but coin and count entries
    pub uninterp spec fn wf(&self) -> bool; }
impl<C: ContentAddrStore> Clone for CoinMapping<C> { #[verifier::external_body] fn clone(&self) -> (r: Self) ensures r == *self { unimplemented!() } }

#[verifier::external_body] #[verifier::accept_recursive_types(C)] #[verifier::accept_recursive_types(K)] #[verifier::accept_recursive_types(V)]
pub struct SmtMapping<C: ContentAddrStore, K, V> { _c: core::marker::PhantomData<(C, K, V)> }
impl<C: ContentAddrStore, K, V> View for SmtMapping<C, K, V> { type V = Map<K, V>; uninterp spec fn view(&self) -> Map<K, V>; }
impl<C: ContentAddrStore, K, V> Clone for SmtMapping<C, K, V> { #[verifier::external_body] fn clone(&self) -> (r: Self) ensures r == *self { unimplemented!() } }

#[verifier::external_body] pub struct TransactionSet { _p: u8 }
impl View for TransactionSet { type V = Map<TxHash, Transaction>; uninterp spec fn view(&self) -> Map<TxHash, Transaction>; }
impl Clone for TransactionSet { #[verifier::external_body] fn clone(&self) -> (r: Self) ensures r == *self { unimplemented!() } }

pub type PoolMapping<C> = SmtMapping<C, PoolKey, PoolState>;

#[verifier::external_body] pub struct StakeSet { _p: u8 }
impl View for StakeSet { type V = Map<TxHash, StakeDoc>; uninterp spec fn view(&self) -> Map<TxHash, StakeDoc>; }
impl Clone for StakeSet { #[verifier::external_body] fn clone(&self) -> (r: Self) ensures r == *self { unimplemented!() } }

// ---- melstructs::Block (A-STRUCTS): transactions are an UNORDERED set (std HashSet): iteration order unspecified
#[verifier::external_body] pub struct BlockTxs { _p: u8 }
impl View for BlockTxs { type V = Set<Transaction>; uninterp spec fn view(&self) -> Set<Transaction>; }
impl BlockTxs {
    #[verifier::external_body]
    pub fn iter(&self) -> (r: Vec<&Transaction>) ensures derefseq(r@).no_duplicates(), derefseq(r@).to_set() == self@ { unimplemented!() }
}
impl FromItems<Transaction> for BlockTxs { open spec fn built_from(items: Seq<Transaction>, r: Self) -> bool { r@ == items.to_set() } }
pub struct Block { pub header: Header, pub transactions: BlockTxs, pub proposer_action: Option<ProposerAction> }
impl Default for TransactionSet { #[verifier::external_body] fn default() -> (r: TransactionSet) ensures r@ == Map::<TxHash, Transaction>::empty() { unimplemented!() } }
impl Default for HashVal { fn default() -> (r: HashVal) ensures r == spec_zero_hash() { HashVal::default() } }
impl FromItems<Transaction> for TransactionSet {
    open spec fn built_from(items: Seq<Transaction>, r: Self) -> bool {
        &&& forall|h: TxHash| #[trigger] r@.contains_key(h) <==> exists|i: int| 0 <= i < items.len() && spec_txhash(#[trigger] items[i]) == h
        &&& forall|h: TxHash| r@.contains_key(h) ==> spec_txhash(#[trigger] r@[h]) == h
    }
}
