#!/usr/bin/env python3
"""writes /verif/MANIFEST.json from the table below (kept in one place so the manifest is always valid)"""
import json, os
VERIF = os.path.dirname(os.path.dirname(os.path.abspath(__file__)))
BASE = "cd /repo && cargo test --workspace --no-fail-fast --offline"
T_VERUS = "Verus requires/ensures/invariant contracts injected into functions extracted from /repo each run, discharged by Z3"
TRUST = "Trusted: Verus/Z3; extraction rules R0-R12 (DESIGN 3.1); hand-written assumed contracts on dependencies (prelude/*.rs: melstructs, novasmt, tmelcrypt, stdcode, num, melpow, imbl, rayon/iterators as eager sequences); hash collision-freedom and serialisation injectivity as axioms. "
CLAIMED = {
 "C01": dict(level="proof", design="DESIGN.md 4/C01",
   text="Per-operation conservation obligations, all discharged: check_tx_coins_balanced <=> the balance predicate; check_tx_validity => balanced over the per-denomination input sums; lemma_tx_conserves (outputs + fee = inputs per denomination outside the listed exceptions); apply_tx_batch_impl: exact coin-set transition and exact fee-pool/tips accounting; proposer reward moves fee_pool>>16 + tips into one coin; DoscMint ERG bounded by the computed reward; melmint settlement proved exact for all four phases: swaps (pro-rata floor shares of what the pool paid out), deposits (shares of the minted liquidity add up to at most what the pool records - the over-mint found here was repaired, fix 5853f91), withdrawals (exactly the redeemed liquidity retired, payouts <= what left the reserves), pegging and the TIP-909 subsidy (touch no coin; issuance into the built-in pools as listed).",
   note=TRUST + "The induction from these per-operation facts to the whole-history supply statement (sums over the coin map) is the paper argument of DESIGN 4/C01-8, not mechanised; the pre-978392 deposit rule (second output left unspent, the repo's own 'OLD RULES' branch) and the mainnet grandfathered faucet are issuance outside the property's list (DESIGN 4/C01); u128 envelopes listed per clause.", technique=T_VERUS),
 "C03": dict(level="proof", design="DESIGN.md 4/C03",
   text="Order independence proved over the contracts: lemma_batch_perm (the exact coin-set transition is invariant under reordering the batch), lemma_fees_perm and lemma_fsum_perm (fee totals, vote sums over hash-map/hash-set enumerations); apply_tx_batch_impl's acceptance conditions and result (batch_core) are stated position-free; apply_block proved for an arbitrary enumeration of the block's unordered transaction set; extract_pool_keys_sorted proved to return the named pools sorted and without duplicates, and the settlement phases proved to give per-pool results that do not depend on the order in which pools or requests are visited.",
   note=TRUST + "Thread schedules are not modelled: rayon adapters carry sequential-semantics contracts (A-RAYON; try_fold/try_reduce as one sequential chunk); acceptance conditions of apply_tx_batch_impl are stated position-free (quantified over the batch's members), but a lemma 'batch_core is invariant under permutation of the batch' is not mechanised for the stake / DoscMint clauses.", technique=T_VERUS + " (lemmas over the contracts)"),
 "C02": dict(level="proof", design="DESIGN.md 4/C02",
   text="apply_tx_batch_impl proved (unit batch) against the defined relation batch_core: Ok only if every input is unspent in the prior state or a kept output of the batch (rel_of), no coin is consumed twice (inputs_distinct), every transaction is well-formed, balanced, approved, unlocked and fee-paying (tx_accepted); the resulting coin set is exactly previous + kept outputs (declared value / covenant hash / additional data, this height, NewCustom -> Custom(hash)) + faucet markers - inputs (batch_coins, whole-view postcondition); load_relevant_coins, extract_input_coins, output_coins_from_tx, check_tx_validity, create_next_state each proved in their own unit over the raw-SMT-verified CoinMapping contracts; apply_tx_batch proved a no-op on Err.",
   note=TRUST + "rayon adapters carry sequential-semantics contracts (A-RAYON); envelopes (u128 ranges, the domains of F-C04-index / F-C04-cache / F-C09-melpow) and two state invariants (history_ok, coin_heights_ok) enter as the precondition batch_env; structural rewrites of the batch functions lose the contract anchors (exit 2) and are then decided only by the real-code witness replays.", technique=T_VERUS),
 "C04": dict(level="proof", design="DESIGN.md 4/C04",
   text="validate_tx_scripts proved Ok <=> (cached or covenant present, decodes, and evaluates truthy on (tx, env)); check_tx_validity proved to approve every input with its own environment (id, data, creation height, position, previous header) under the envelope (pairwise distinct covenant hashes, <= 256 inputs: the two excluded domains are genuine defects listed as known findings with real-code witnesses); Covenant::execute proved to be the MelVM run of the covenant's instructions from an empty stack and a heap on which Executor::new_from_env places every environment field at its specified address; run_to_end proved against the one-step semantics.",
   note=TRUST + "The From<X> for Value conversions are assumed (A-VALCONV); run_to_end is partial correctness (termination not proved); the link between applychk's spec_exec and exec's run_result is by name (A-DET on the stub of Covenant::execute); standard-covenant clause not mechanised.", technique=T_VERUS),
 "C05": dict(level="proof", design="DESIGN.md 4/C05",
   text="create_next_state: every accepted transaction pays >= floor(weight*mult/65536); fee pool and tips grow by exactly the sum of minimum fees / remainders (fsum over the batch) under the no-overflow envelope; refusal for fees only when some transaction pays strictly less; collect_proposer_action_fee: fee_pool>>16 plus all tips move into exactly one reward coin for the action's destination, tips reset; seal without an action leaves pool and tips untouched; apply_tip_909: the MEL bought by the subsidy moves from the MEL/SYM reserve into the fee pool exactly.",
   note=TRUST + "Transaction::base_fee/weight formula assumed (A-STRUCTS).", technique=T_VERUS),
 "C06": dict(level="proof", design="DESIGN.md 4/C06",
   text="apply_block proved: Ok(r) only if header(r) == block.header and r is (next_unsealed; apply the block's transactions in some enumeration; seal with the block's action); Err(WrongHeader) only if that state's header differs; to_block proved to serialise header/transactions/action; seal proved against seal_rel; apply_tx_batch proved a no-op on Err.",
   note=TRUST + "Batch application enters apply_block through the relation batch_result, which unit batch proves for apply_tx_batch_impl; A-DET names deterministic results of exec functions by spec functions.", technique=T_VERUS),
 "C07": dict(level="proof", design="DESIGN.md 4/C07",
   text="SealedState::header proved field by field against spec_header (roots as functions of contents); next_unsealed proved: height+1, history gets the header at its height, network unchanged, chain invariant (each stored header at its height, linked to its parent by hash) preserved.",
   note=TRUST + "Merkle proofs and root history-independence are novasmt's (A-SMT: roots are injective functions of contents); typed SMT wrappers and transaction roots assumed by contract.", technique=T_VERUS),
 "C08": dict(level="proof", design="DESIGN.md 4/C08",
   text="from_block proved field by field; for every sealed state s whose block is the argument, the rebuilt state has the same contents in every component (root injectivity) - under the envelope tips == 0; the excluded domain is the genuine defect F-C08-tips (real-code witness).",
   note=TRUST + "equal contents => equal futures rests on the transition contracts mentioning only the views (A-DET).", technique=T_VERUS),
 "C11": dict(level="other", design="DESIGN.md 4/C11",
   text="Per-function part of the cost property: opcodes_weight/opcodes_car_weight proved to terminate (decreases), to equal the recursive saturating weight spec (loop = body x iterations + 1, body cut at the slice end), and to give every instruction weight >= 1. The global bound (executed instructions <= weight for every program) and the cost of weighing itself are not decided here.",
   note=TRUST + "Not decided: steps <= weight for all programs; polynomial weighing work (exponential re-weighing of nested-to-the-end loops was confirmed on the real code: DESIGN 4/C11); wall-clock/memory bounds are not expressible as contracts.", technique=T_VERUS),
 "C12": dict(level="proof", design="DESIGN.md 4/C12",
   text="Covenant::from_bytes proved to decode exactly dec_all(bytes) (whole input, no panic) and to_bytes/hash to produce enc_all(ops); lemmas: decode-then-encode returns the same bytes, encode-then-decode the same program. The per-instruction facts K1/K2 they rest on are discharged by Kani/CBMC on the real compiled OpCode::{decode,encode} in the thorough tier (complete: loop-free over all <=35-byte inputs / all operands) and assumed in the quick tier.",
   note=TRUST + "A-HANDOVER: K1/K2 as stated in lemmas/codec.rs are what the Kani harnesses assert; locality of decode in the unread tail (std::io::Read for &[u8]).", technique=T_VERUS + " + Kani/CBMC full-domain harnesses (thorough)"),
 "C10": dict(level="proof", design="DESIGN.md 4/C10",
   text="Every arm of Executor::step (lifted mechanically to one method per instruction; Exp's square-and-multiply loop proved to compute b^e mod 2^256 within its bit budget) proved equal to the spec semantics sem_inner, the dispatcher proved to route each opcode to its arm, update_pc_state proved equal to the recursive loop-bookkeeping spec, step = arm then bookkeeping; run_to_end proved: the result is the top of the stack after some number of successful steps reaching the end of the program, or None when a step fails (run_result); Executor::new / new_from_env / Covenant::execute proved; Value conversions proved. Hence execution is a deterministic function of bytecode, transaction and environment.",
   note=TRUST + "A-U256/A-CATVEC operation contracts; run_to_end is partial correctness (termination not proved); clauses not fixed by the property text are characterisations of the pinned code (lemmas/melvm_spec.rs header).", technique=T_VERUS + "; match-arm lifting (R5b)"),
 "C13": dict(level="proof", design="DESIGN.md 4/C13",
   text="stake_is_consistent <=> the three conditions; load_stake_info registers exactly the consistent SYM stakes and rejects malformed ones; check_tx_validity rejects inputs whose creating transaction is a registered or new stake; apply_tx_batch_impl adds exactly the batch's registered stakes to the stake set; StakeSet::votes/total_votes equal the order-independent sum over stakes with start <= epoch < end; unlock_old keeps exactly e_post_end >= epoch; next_unsealed drops exactly the stakes that ended before the new block's epoch.",
   note=TRUST + "The lock window over whole histories is the composition of these per-block facts (not mechanised as one lemma).", technique=T_VERUS),
 "C14": dict(level="proof", design="DESIGN.md 4/C14",
   text="confirm proved: Some only if every signature verifies over the header hash; given that, Some whenever 3*present > 2*total and None whenever 3*present < 2*total, with present/total defined as order-independent sums over the stake map; monotonicity lemma mechanised. The inverted threshold of the pinned tree was repaired (fix: commit) after the obligations failed.",
   note=TRUST + "Ed25519 verification uninterpreted (sig_ok); header() assumed by contract.", technique=T_VERUS),
 "C15": dict(level="proof", design="DESIGN.md 4/C15",
   text="Request selection proved to return exactly the block's genuine requests (right kind, unspent outputs, canonically spelled pool, non-zero amounts, live pool for swaps); extract_pool_keys_sorted / transactions_for_pool proved (each named pool once, with exactly its requests); the three settlement phases proved exact, per pool and per request: swaps at one post-deposit price for both directions with floor pro-rata shares, deposits with shares of the minted liquidity, withdrawals with shares of both payouts; nothing else moves (whole-view postconditions swaps_done / deps_done / wds_done); multiply_frac = min(floor(x*n/d), 2^128-1). Five genuine defects found by these obligations were repaired (fix: commits).",
   note=TRUST + "PoolState::{swap_many, deposit, withdraw} arithmetic assumed (A-STRUCTS, melstructs); the pre-978392 deposit rule is characterised only by its frame; envelopes: deposit weights fit u128, redeemed liquidity within the pool's (wd_env).", technique=T_VERUS),
 "C16": dict(level="proof", design="DESIGN.md 4/C16",
   text="create_builtins proved to leave MEL/SYM, MEL/ERG (and ERG/SYM under TIP-902) present with 10^9/10^9/10^9 when absent and untouched otherwise; every settlement phase, process_pegging and apply_tip_909 proved to keep the built-in pools present and live and every pool either live with non-zero liquidity or empty (pools_ok); deposits proved to hand out at most the liquidity the pool records (the over-mint found by this obligation was repaired: fix 5853f91), withdrawals to retire exactly what is redeemed; the four pool-count assertions discharged.",
   note=TRUST + "The backing invariant itself (tokens in unspent coins <= pool liquidity, strictly below it for built-in pools) enters the withdrawal phase as the envelope wd_env; its induction over histories (DESIGN 4/C16-2) is not mechanised.", technique=T_VERUS),
 "C17": dict(level="proof", design="DESIGN.md 4/C17",
   text="move_action_fee_multiplier proved for every multiplier 0..2^128 and every delta: exact step trunc(max(m/128,2)*d/128) on [2, 2^70], clamped outside, |step| <= max(m/128,2), no overflow, frame. Repaired (fix: commit) after the overflow/underflow obligations failed.",
   note=TRUST + "seal(None) frame pending in the seal unit.", technique=T_VERUS),
 "C18": dict(level="proof", design="DESIGN.md 4/C18",
   text="validate_and_get_doscmint_speed proved to accept only when the payload decodes, the proof verifies (legacy or TIP-910) for the puzzle hk(hash(header at coin height), ser(coin id)), the coin is >= 100 blocks old on mainnet, and minted ERG <= dosc_to_erg(height, reward(speed, previous dosc_speed)); reward / inflator / speed formulas proved against integer specs.",
   note=TRUST + "melpow verification uninterpreted; its non-totality is known finding F-C09-melpow; the recorded speed is proved to be the maximum of the previous one and the validated ones (apply_tx_batch_impl; rayon try_fold/try_reduce modelled as one sequential chunk).", technique=T_VERUS),
 "C19": dict(level="proof", design="DESIGN.md 4/C19",
   text="handle_faucet_tx proved: mainnet non-grandfathered => MalformedTx; marker present => DuplicateTx; otherwise the zero-MEL marker is inserted; create_next_state proved to carry markers of all faucets of the batch and to refuse same-batch duplicates.",
   note=TRUST + "Hex comparison with the grandfathered hash modelled as an opaque predicate (literal pinned by text); marker persistence over histories is the frame argument of DESIGN 4/C19.", technique=T_VERUS),
 "C20": dict(level="proof", design="DESIGN.md 4/C20",
   text="CoinMapping::{insert_coin, remove_coin, insert_coin_count, coin_count} proved against the raw SMT view: exact effect on coins and counts, and preservation of counts_ok (count == number of coins per covenant hash, no zero entries); create_next_state, handle_faucet_tx, collect_proposer_action_fee and all melmint settlement functions preserve it (with the origin_ok state invariant).",
   note=TRUST + "A-PHYS: a tree holds < 2^63 entries. The TIP-906 activation rebuild (apply_tip_906_for_next_state) is an assumed contract.", technique=T_VERUS),
 "C17": dict(level="proof", design="DESIGN.md 4/C17",
   text="move_action_fee_multiplier proved for every multiplier 0..2^128 and every delta: exact step trunc(max(m/128,2)*d/128) on [2, 2^70], clamped outside, |step| <= max(m/128,2), no overflow, frame. Repaired (fix: commit) after the overflow/underflow obligations failed.",
   note=TRUST + "seal(None) frame pending in the seal unit.", technique=T_VERUS),
}
NA = {}
CLAIMED["C09"] = dict(level="other", design="DESIGN.md 4/C09",
   text="Panic-freedom is the implicit-safety obligation of every function under contract (Verus proves absence of arithmetic overflow, out-of-range index/slice, division by zero, unwrap of None/Err and failed assert for ALL inputs satisfying the stated preconditions): 203 such obligations over the validation path (apply_tx_batch_impl, load_relevant_coins, check_tx_validity, validate_and_get_doscmint_speed, create_next_state, seal, preseal_melmint, process_swaps_for_single_pool, Executor::step and its arms, Covenant::from_bytes, confirm, ...). Panic conditions of dependencies (melstructs CoinValue arithmetic, PoolState, num, melpow) are preconditions of their assumed contracts, so every call site has to establish them. Five panics found this way were repaired (fix: commits) and one (melpow) is a known finding.",
   note=TRUST + "Level 'other': the preconditions that are envelopes (supply < 2^127-style u128 ranges, listed per clause as 'C09 envelope') are assumed, not derived from a reachable-state invariant; termination/hang-freedom is only partially covered (decreases on opcodes_weight, step; run_to_end's loop and melpow are not); functions still entered through assumed contracts (apply_tip_906_for_next_state, transactions_root_hash, GenesisConfig::realize) are not covered; check_tx_validity's genesis-only call of seal(None) uses seal's A-DET name only; allocation failure and stack depth are outside Verus.", technique=T_VERUS + " (implicit safety obligations)")
def main():
    props = [json.loads(l) for l in open(os.path.join(VERIF, "properties.jsonl"))]
    checks, na = [], []
    for p in props:
        pid = p["id"]
        if pid in CLAIMED:
            c = CLAIMED[pid]
            checks.append({
                "property_id": pid, "quick_cmd": f"./check {pid} --tier quick", "thorough_cmd": f"./check {pid} --tier thorough",
                "evidence_file": f"/verif/evidence/{pid}.json", "replay_cmd_template": "./check --replay {path}",
                "engine": "contracts", "level_claimed": {"category": c["level"], "text": c["text"], "design_ref": c["design"]},
                "level_note": c["note"], "technique": c["technique"]})
        else:
            na.append({"property_id": pid, "reason": NA.get(pid, "not yet covered by a discharged contract obligation in this build (work in progress; see DESIGN.md section 4 for the plan)")})
    m = {"version": 1,
         "setup_cmd": "python3 engine/selftest.py",
         "hooks": {"guard": "none", "enable": "no hooks: contracts and harnesses are injected into generated files / scratch copies at check time",
                   "baseline_off_cmd": BASE, "source_commits": SOURCE_COMMITS, "add_only": True},
         "engines": [{"name": "contracts", "path": "/verif/engine", "serves_properties": sorted(CLAIMED),
                      "kind_free_text": "mechanical extraction of /repo functions + injected contracts, discharged by Verus (Z3); Kani/CBMC for loop-free full-domain harnesses; frame scans"}],
         "checks": checks, "not_applicable": na,
         "notes": "exit 2 = undecided (never an alarm). known findings: /verif/known_findings.json"}
    json.dump(m, open(os.path.join(VERIF, "MANIFEST.json"), "w"), indent=1)
SOURCE_COMMITS = ['804447c', '2d7ebd3', '3958b62', 'cf14a0b', 'bc6d031', '5d5037d', '886d0bc', '378bd5c', '5853f91']
if __name__ == "__main__":
    main()
